From Coq Require Import ZArith List Bool Lia.
Import ListNotations.
Require Import Sop.gen.XrdRules Sop.gen.SgOps Sop.model.XrdSpec Sop.proofs.XrdProofs.
Local Open Scope Z_scope.
(* C14 known finding (one witness of the 74 settings listed in known_findings.json): Hall 367 (P 4 21 2) - the table has the
   h00 condition but not its symmetry-equivalent 0k0 one. *)
Theorem C14_rule_table_refuted : exists H r h k l, rule_of_hall H = Some r /\ r h k l <> allowed (ops_of_hall H) h k l.
Proof. exists 367, rule_hall_367, 0, 1, 0. split; [reflexivity|]. vm_compute. discriminate. Qed.
Redirect "findings/C14_rule_table_refuted.assum" Print Assumptions C14_rule_table_refuted.
