Require Import Sop.model.NmrUtilsR Sop.proofs.SortProofs Sop.proofs.FrameProofs.
Local Open Scope R_scope.
(* F-01 (known finding): when the sort keys of distinct eigenvalues tie, re-ordering an existing tensor is
   NOT the same as constructing it with that order: (-1,0,1), decreasing then NQR. *)
Theorem reorder_ties_refuted : exists e, sortc 3 (sortc 1 e) <> sortc 3 e.
Proof. exact reorder_ties_refuted. Qed.
Redirect "findings/C01_reorder_ties_refuted.assum" Print Assumptions reorder_ties_refuted.
