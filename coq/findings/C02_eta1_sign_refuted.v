Require Import Sop.model.NmrUtilsR Sop.proofs.SortProofs Sop.proofs.DescrProofs.
Local Open Scope R_scope.
(* F-02 (known finding): with an exact tie of the Haeberlen keys (eta = 1) the sign of the (reduced) anisotropy depends
   on the order in which the eigenvalues are presented: (-1,0,1) vs (1,0,-1). *)
Theorem eta1_sign_refuted : exists l l', Perm3 l l' /\ d_redaniso l <> d_redaniso l'.
Proof. exact eta1_sign_refuted_l. Qed.
Redirect "findings/C02_eta1_sign_refuted.assum" Print Assumptions eta1_sign_refuted.
