(* C10: isotope precedence, reference forms, Vzz of the two routes, NQR line enumeration. *)
From Coq Require Import ZArith Lia.
Require Import Sop.model.NmrPropsR Sop.proofs.SortProofs.
Local Open Scope R_scope.

Lemma iso_precedence_l dflt qiso use_q dict lst :
  (forall l, lst = Some l -> iso_choice dflt qiso use_q dict lst = l) /\
  (forall d, lst = None -> dict = Some d -> iso_choice dflt qiso use_q dict lst = d) /\
  (forall q, lst = None -> dict = None -> use_q = true -> qiso = Some q -> iso_choice dflt qiso use_q dict lst = q) /\
  (lst = None -> dict = None -> (use_q = false \/ qiso = None) -> iso_choice dflt qiso use_q dict lst = dflt).
Proof.
  unfold iso_choice. repeat split; intros; subst; try reflexivity.
  destruct use_q; [|reflexivity]. destruct H1 as [H1|H1]; [discriminate|subst; reflexivity].
Qed.

(* a dictionary and the per-site list obtained by expanding it address the same atoms; a float is the constant list *)
Lemma ref_forms_l syms d x dflt :
  resolve syms (RDict d) dflt = resolve syms (RList (map (fun s => dlookup s d dflt) syms)) dflt /\
  resolve syms (RFloat x) dflt = resolve syms (RList (map (fun _ => x) syms)) dflt /\
  (forall l, length l <> length syms -> resolve syms (RList l) dflt = None) /\
  (forall r out, resolve syms r dflt = Some out -> length out = length syms).
Proof.
  unfold resolve. rewrite !map_length, Nat.eqb_refl. repeat split.
  - intros l H. apply Nat.eqb_neq in H. rewrite H. reflexivity.
  - intros r out H. destruct r as [y|dd|l]; [inversion H; apply map_length|inversion H; apply map_length|].
    destruct (Nat.eqb (length l) (length syms)) eqn:E; [|discriminate]. inversion H; subst. apply Nat.eqb_eq. exact E.
Qed.

(* unreferenced default (ref 0, grad -1) is minus the shielding; the formula is affine in sigma *)
Lemma shift_laws_l r g s s' : 1 + r * (1 / 1000000) <> 0 ->
  shift 0 (-1) s = - s /\ shift r g s - shift r g s' = g * (s - s') / (1 + r * (1 / 1000000)) /\ shift r 0 s = r.
Proof. intros H. unfold shift, of_Z. unfold num in *. repeat split; field; try lra; exact H. Qed.

(* for a traceless spectrum the array route (last Haeberlen value) and the object route (last NQR value) have the same magnitude,
   and are the same number unless the largest magnitude is attained by two eigenvalues of opposite sign (eta = 1) *)
Lemma vzz_routes_l e : avg3 e = 0 ->
  Rabs (vzz_array e) = Rabs (vzz_object e) /\
  ((let '(a, b, c) := e in Rabs a <> Rabs b /\ Rabs b <> Rabs c /\ Rabs a <> Rabs c) -> vzz_array e = vzz_object e).
Proof.
  intros T. unfold vzz_array, vzz_object. rewrite haeb_sort_is.
  pose proof (sort_haeb_l e) as H. pose proof (sort_nqr_l e) as N. pose proof (sort_perm_h e) as PH. pose proof (sort_perm_n e) as PN.
  rewrite T in H. destruct (evals_sort_h_True e) as [[[x y] z] ph]. destruct (evals_sort_n_True e) as [[[x' y'] z'] pn]. cbn [fst nth3] in *.
  destruct e as [[a b] c]. destruct PH as [EH IH]. destruct PN as [EN IN]. rewrite !Rminus_0_r in H.
  unfold is_perm3 in *. unfold gather3, nth3 in *.
  split.
  - destruct IH as [-> | [-> | [-> | [-> | [-> | ->]]]]]; destruct IN as [-> | [-> | [-> | [-> | [-> | ->]]]]]; cbn in EH, EN; inversion EH; inversion EN; subst; lra.
  - intros (D1 & D2 & D3).
    destruct IH as [-> | [-> | [-> | [-> | [-> | ->]]]]]; destruct IN as [-> | [-> | [-> | [-> | [-> | ->]]]]]; cbn in EH, EN; inversion EH; inversion EN; subst; try reflexivity; exfalso; lra.
Qed.

(* the enumerated m of the NQR lines: for spin I = twoI/2 the doubled values 2m are exactly twoI mod 2, ..., twoI - 2 *)
Lemma nqr_ms_small : map nqr_ms2 [0; 1; 2; 3; 4; 5; 6; 7; 8; 9]%Z = [[]; []; [0]; [1]; [0; 2]; [1; 3]; [0; 2; 4]; [1; 3; 5]; [0; 2; 4; 6]; [1; 3; 5; 7]]%Z.
Proof. vm_compute. reflexivity. Qed.
