(* GENERATED once by the script in DESIGN section 8 C08 (flip of every row found numerically, then PROVED here): ZXZ, active *)
Require Import Sop.model.NmrUtilsR Sop.proofs.EulerBase.
Lemma eq_row0 a b c : rotX3 (nth 0 (equivalent_euler_False (a,b,c)) (0,0,0)) = mmul (rotX a b c) (dg FI). Proof. tabrow. Qed.
Lemma eq_row1 a b c : rotX3 (nth 1 (equivalent_euler_False (a,b,c)) (0,0,0)) = mmul (rotX a b c) (dg Dz). Proof. tabrow. Qed.
Lemma eq_row2 a b c : rotX3 (nth 2 (equivalent_euler_False (a,b,c)) (0,0,0)) = mmul (rotX a b c) (dg Dx). Proof. tabrow. Qed.
Lemma eq_row3 a b c : rotX3 (nth 3 (equivalent_euler_False (a,b,c)) (0,0,0)) = mmul (rotX a b c) (dg Dy). Proof. tabrow. Qed.
Lemma rel_row0 a b c : rotX3 (nth 0 (equivalent_relative_euler_False (a,b,c)) (0,0,0)) = mmul (mmul (dg FI) (rotX a b c)) (dg FI). Proof. tabrow. Qed.
Lemma rel_row1 a b c : rotX3 (nth 1 (equivalent_relative_euler_False (a,b,c)) (0,0,0)) = mmul (mmul (dg FI) (rotX a b c)) (dg Dy). Proof. tabrow. Qed.
Lemma rel_row2 a b c : rotX3 (nth 2 (equivalent_relative_euler_False (a,b,c)) (0,0,0)) = mmul (mmul (dg FI) (rotX a b c)) (dg Dx). Proof. tabrow. Qed.
Lemma rel_row3 a b c : rotX3 (nth 3 (equivalent_relative_euler_False (a,b,c)) (0,0,0)) = mmul (mmul (dg FI) (rotX a b c)) (dg Dz). Proof. tabrow. Qed.
Lemma rel_row4 a b c : rotX3 (nth 4 (equivalent_relative_euler_False (a,b,c)) (0,0,0)) = mmul (mmul (dg Dy) (rotX a b c)) (dg FI). Proof. tabrow. Qed.
Lemma rel_row5 a b c : rotX3 (nth 5 (equivalent_relative_euler_False (a,b,c)) (0,0,0)) = mmul (mmul (dg Dy) (rotX a b c)) (dg Dy). Proof. tabrow. Qed.
Lemma rel_row6 a b c : rotX3 (nth 6 (equivalent_relative_euler_False (a,b,c)) (0,0,0)) = mmul (mmul (dg Dy) (rotX a b c)) (dg Dx). Proof. tabrow. Qed.
Lemma rel_row7 a b c : rotX3 (nth 7 (equivalent_relative_euler_False (a,b,c)) (0,0,0)) = mmul (mmul (dg Dy) (rotX a b c)) (dg Dz). Proof. tabrow. Qed.
Lemma rel_row8 a b c : rotX3 (nth 8 (equivalent_relative_euler_False (a,b,c)) (0,0,0)) = mmul (mmul (dg Dx) (rotX a b c)) (dg FI). Proof. tabrow. Qed.
Lemma rel_row9 a b c : rotX3 (nth 9 (equivalent_relative_euler_False (a,b,c)) (0,0,0)) = mmul (mmul (dg Dx) (rotX a b c)) (dg Dy). Proof. tabrow. Qed.
Lemma rel_row10 a b c : rotX3 (nth 10 (equivalent_relative_euler_False (a,b,c)) (0,0,0)) = mmul (mmul (dg Dx) (rotX a b c)) (dg Dx). Proof. tabrow. Qed.
Lemma rel_row11 a b c : rotX3 (nth 11 (equivalent_relative_euler_False (a,b,c)) (0,0,0)) = mmul (mmul (dg Dx) (rotX a b c)) (dg Dz). Proof. tabrow. Qed.
Lemma rel_row12 a b c : rotX3 (nth 12 (equivalent_relative_euler_False (a,b,c)) (0,0,0)) = mmul (mmul (dg Dz) (rotX a b c)) (dg FI). Proof. tabrow. Qed.
Lemma rel_row13 a b c : rotX3 (nth 13 (equivalent_relative_euler_False (a,b,c)) (0,0,0)) = mmul (mmul (dg Dz) (rotX a b c)) (dg Dy). Proof. tabrow. Qed.
Lemma rel_row14 a b c : rotX3 (nth 14 (equivalent_relative_euler_False (a,b,c)) (0,0,0)) = mmul (mmul (dg Dz) (rotX a b c)) (dg Dx). Proof. tabrow. Qed.
Lemma rel_row15 a b c : rotX3 (nth 15 (equivalent_relative_euler_False (a,b,c)) (0,0,0)) = mmul (mmul (dg Dz) (rotX a b c)) (dg Dz). Proof. tabrow. Qed.
Definition eq_flips : list flip := [FI; Dz; Dx; Dy].
Definition rel_flips : list (flip * flip) := [(FI, FI); (FI, Dy); (FI, Dx); (FI, Dz); (Dy, FI); (Dy, Dy); (Dy, Dx); (Dy, Dz); (Dx, FI); (Dx, Dy); (Dx, Dx); (Dx, Dz); (Dz, FI); (Dz, Dy); (Dz, Dx); (Dz, Dz)].
