(* C16: linspaceGen(periodic=True) over the integer lattice model of C03: the path of every atom runs, in equal steps, from its position in the first
   structure to the NEAREST periodic image of its position in the second.  Positions are carried multiplied by (steps - 1) to stay in Z. *)
From Coq Require Import ZArith List Bool Lia.
Import ListNotations.
Require Import Sop.model.Lattice Sop.proofs.LatticeProofs.
Local Open Scope Z_scope.

(* (steps - 1) x the position at step k: pos0 (1 - t) + (pos0 + w) t with t = k / (steps - 1) *)
Definition interp_scaled (steps k : Z) (p0 w : vec) : vec := vadd (smul (steps - 1) p0) (smul k w).

Lemma interp_l L pbc p0 p1 w c steps : det L <> 0 ->
  nth_error (minimum_periodic_m L pbc false [vsub p1 p0]) 0 = Some (w, c) ->
  interp_scaled steps 0 p0 w = smul (steps - 1) p0 /\
  interp_scaled steps (steps - 1) p0 w = smul (steps - 1) (vadd p1 (comb c L)) /\
  admissible pbc c /\
  (forall n', admissible pbc n' -> norm2 w <= norm2 (vadd (vsub p1 p0) (comb n' L))) /\
  (forall k, vsub (interp_scaled steps (k + 1) p0 w) (interp_scaled steps k p0 w) = w).
Proof.
  intros HD HM. pose proof (minimum_periodic_exact_l L pbc [vsub p1 p0] 0%nat (vsub p1 p0) w c HD eq_refl HM) as [[EW AD] MIN].
  destruct p0 as [[x0 y0] z0]. destruct p1 as [[x1 y1] z1]. destruct w as [[wx wy] wz]. destruct (comb c L) as [[cx cy] cz] eqn:EC.
  unfold interp_scaled, smul, vadd, vsub in *. cbn in EW. injection EW as -> -> ->.
  split; [f_equal; [f_equal|]; ring|]. split; [f_equal; [f_equal|]; ring|]. split; [exact AD|]. split; [exact MIN|].
  intros k. f_equal; [f_equal|]; ring.
Qed.
