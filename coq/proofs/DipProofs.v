(* C11: pair set, blocks, image set of the RSS (Z, no axioms). *)
From Coq Require Import ZArith List Bool Lia.
Import ListNotations.
Require Import Sop.model.Lattice Sop.proofs.LatticeProofs Sop.proofs.BoxProofs Sop.model.DipPairs.
Local Open Scope Z_scope.

Lemma pair_eqb_eq p q : pair_eqb p q = true <-> p = q.
Proof. destruct p, q. unfold pair_eqb. cbn. rewrite andb_true_iff, !Z.eqb_eq. split; [intros [-> ->]; reflexivity|intros E; inversion E; auto]. Qed.
Lemma dedup_In l p : In p (dedup l) <-> In p l.
Proof.
  induction l as [|q t IH]; cbn [dedup In]; [tauto|]. destruct (existsb (pair_eqb q) t) eqn:E.
  - rewrite IH. split; [tauto|]. intros [Q|I]; [|exact I]. subst. apply existsb_exists in E. destruct E as (x & I & H). apply pair_eqb_eq in H. subst. exact I.
  - cbn [In]. rewrite IH. tauto.
Qed.
Lemma dedup_NoDup l : NoDup (dedup l).
Proof.
  induction l as [|q t IH]; cbn [dedup]; [constructor|]. destruct (existsb (pair_eqb q) t) eqn:E; [exact IH|].
  constructor; [|exact IH]. intros I. apply (proj1 (dedup_In _ _)) in I. assert (existsb (pair_eqb q) t = true) by (apply existsb_exists; exists q; split; [exact I|apply pair_eqb_eq; reflexivity]). congruence.
Qed.

(* (a, b) is a key  <->  a <= b and it joins an atom of one selection with an atom of the other, subject to the two options *)
Lemma pairs_spec_l elems si sj self_c iso a b :
  In (a, b) (pairs_m elems si sj self_c iso) <->
  (a <= b /\ ((In a si /\ In b sj) \/ (In b si /\ In a sj)) /\ (self_c = false -> a <> b) /\ (iso = true -> el_of elems a = el_of elems b)).
Proof.
  unfold pairs_m. rewrite dedup_In, in_map_iff. split.
  - intros ([i j] & E & I).
    assert (B: In i si /\ In j sj /\ (self_c = false -> i <> j) /\ (iso = true -> el_of elems i = el_of elems j)).
    { destruct iso; [apply filter_In in I; destruct I as [I Q]; cbn in Q; apply Z.eqb_eq in Q|].
      - destruct self_c; [|apply filter_In in I; destruct I as [I Q2]; cbn in Q2; apply negb_true_iff, Z.eqb_neq in Q2];
          apply in_flat_map in I; destruct I as (i' & Ii & Ij); apply in_map_iff in Ij; destruct Ij as (j' & E' & Ij); inversion E'; subst; repeat split; auto; congruence.
      - destruct self_c; [|apply filter_In in I; destruct I as [I Q2]; cbn in Q2; apply negb_true_iff, Z.eqb_neq in Q2];
          apply in_flat_map in I; destruct I as (i' & Ii & Ij); apply in_map_iff in Ij; destruct Ij as (j' & E' & Ij); inversion E'; subst; repeat split; auto; congruence. }
    destruct B as (Bi & Bj & Bs & Be). unfold norm_pair in E. destruct (i <=? j) eqn:L; inversion E; subst.
    + apply Z.leb_le in L. repeat split; auto.
    + apply Z.leb_gt in L. repeat split; [lia|auto| |]; [intros H Q; apply (Bs H); auto|intros H; symmetry; auto].
  - intros (L & S & NS & IS).
    assert (G: forall i j, In i si -> In j sj -> (self_c = false -> i <> j) -> (iso = true -> el_of elems i = el_of elems j) ->
               In (i, j) (if iso then filter (fun p => el_of elems (fst p) =? el_of elems (snd p)) (if self_c then flat_map (fun i => map (fun j => (i, j)) sj) si else filter (fun p => negb (fst p =? snd p)) (flat_map (fun i => map (fun j => (i, j)) sj) si))
                          else (if self_c then flat_map (fun i => map (fun j => (i, j)) sj) si else filter (fun p => negb (fst p =? snd p)) (flat_map (fun i => map (fun j => (i, j)) sj) si)))).
    { intros i j Ii Ij Hs He.
      assert (A: In (i, j) (flat_map (fun i => map (fun j => (i, j)) sj) si)) by (apply in_flat_map; exists i; split; [exact Ii|apply in_map; exact Ij]).
      assert (A2: In (i, j) (if self_c then flat_map (fun i => map (fun j => (i, j)) sj) si else filter (fun p => negb (fst p =? snd p)) (flat_map (fun i => map (fun j => (i, j)) sj) si))).
      { destruct self_c; [exact A|]. apply filter_In. split; [exact A|]. cbn. apply negb_true_iff, Z.eqb_neq. auto. }
      destruct iso; [|exact A2]. apply filter_In. split; [exact A2|]. cbn. apply Z.eqb_eq. auto. }
    destruct S as [[Ia Ib]|[Ib Ia]].
    + exists (a, b). split; [unfold norm_pair; replace (a <=? b) with true by (symmetry; apply Z.leb_le; lia); reflexivity|]. apply G; auto.
    + destruct (Z.eq_dec a b) as [E|NE].
      * subst. exists (b, b). split; [unfold norm_pair; rewrite Z.leb_refl; reflexivity|]. apply G; auto.
      * exists (b, a). split; [unfold norm_pair; replace (b <=? a) with false by (symmetry; apply Z.leb_gt; lia); reflexivity|].
        apply G; [exact Ib|exact Ia|intros H Q; apply (NS H); auto|intros H; symmetry; auto].
Qed.

(* the pair set does not depend on which selection is given first *)
Lemma pairs_swap_l elems si sj self_c iso p : In p (pairs_m elems si sj self_c iso) <-> In p (pairs_m elems sj si self_c iso).
Proof. destruct p as [a b]. rewrite !pairs_spec_l. tauto. Qed.

(* processing in blocks of any size >= 1 and concatenating is processing the whole list *)
Lemma chunks_concat {A} (n : nat) : (0 < n)%nat -> forall fuel (l : list A), (length l <= fuel)%nat -> concat (chunks_fuel fuel n l) = l.
Proof.
  intros Hn. induction fuel as [|f IH]; intros l H.
  - destruct l; [reflexivity|cbn in H; lia].
  - cbn [chunks_fuel]. destruct l as [|x t]; [reflexivity|]. cbn [concat]. rewrite IH.
    + apply firstn_skipn.
    + rewrite skipn_length. cbn [length] in *. lia.
Qed.
Lemma blocks_irrelevant_l {A B} (f : A -> B) (n : nat) (l : list A) : (0 < n)%nat -> concat (map (map f) (chunks n l)) = map f l.
Proof. intros Hn. rewrite <- concat_map. unfold chunks. rewrite (chunks_concat n Hn (length l) l (le_n _)). reflexivity. Qed.

(* RSS: the summed set is exactly the images of the other atoms (and of the atom itself) with 0 < distance <= cutoff *)
Lemma rss_spec_l L rn rd pos pi w k c : det L <> 0 -> 0 <= rn -> 0 < rd ->
  In (w, k, c) (rss_images L rn rd pos pi) <->
  (0 <= k /\ exists p, nth_error pos (Z.to_nat k) = Some p /\ w = vadd (vsub p pi) (comb c L) /\ 0 < norm2 w /\ norm2 w * rd <= rn).
Proof.
  intros HD Hn Hd. unfold rss_images.
  rewrite (images_where_spec_l L (true,true,true) rn rd _ _ w k c HD Hn Hd).
  - split.
    + intros (K & v & N & [E A] & P). split; [exact K|]. rewrite nth_error_map in N. destruct (nth_error pos (Z.to_nat k)) as [p|]; [|discriminate].
      cbn in N. inversion N; subst v. exists p. apply andb_true_iff in P. destruct P as [P1 P2]. apply Z.ltb_lt in P1. apply Z.leb_le in P2. tauto.
    + intros (K & p & N & E & P1 & P2). split; [exact K|]. exists (vsub p pi). rewrite nth_error_map, N. split; [reflexivity|]. split.
      * split; [exact E|]. destruct c as [[c1 c2] c3]. cbn. repeat split; intros; discriminate.
      * apply andb_true_iff. split; [apply Z.ltb_lt; exact P1|apply Z.leb_le; exact P2].
  - intros u P. apply andb_true_iff in P. destruct P as [_ P]. apply Z.leb_le in P. exact P.
Qed.
