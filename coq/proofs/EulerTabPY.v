(* GENERATED once by the script in DESIGN section 8 C08 (flip of every row found numerically, then PROVED here): ZYZ, passive *)
Require Import Sop.model.NmrUtilsR Sop.proofs.EulerBase.
Lemma eq_row0 a b c : rotY3 (nth 0 (equivalent_euler_True (a,b,c)) (0,0,0)) = mmul (dg FI) (rotY a b c). Proof. tabrow. Qed.
Lemma eq_row1 a b c : rotY3 (nth 1 (equivalent_euler_True (a,b,c)) (0,0,0)) = mmul (dg Dz) (rotY a b c). Proof. tabrow. Qed.
Lemma eq_row2 a b c : rotY3 (nth 2 (equivalent_euler_True (a,b,c)) (0,0,0)) = mmul (dg Dy) (rotY a b c). Proof. tabrow. Qed.
Lemma eq_row3 a b c : rotY3 (nth 3 (equivalent_euler_True (a,b,c)) (0,0,0)) = mmul (dg Dx) (rotY a b c). Proof. tabrow. Qed.
Lemma rel_row0 a b c : rotY3 (nth 0 (equivalent_relative_euler_True (a,b,c)) (0,0,0)) = mmul (mmul (dg FI) (rotY a b c)) (dg FI). Proof. tabrow. Qed.
Lemma rel_row1 a b c : rotY3 (nth 1 (equivalent_relative_euler_True (a,b,c)) (0,0,0)) = mmul (mmul (dg Dx) (rotY a b c)) (dg FI). Proof. tabrow. Qed.
Lemma rel_row2 a b c : rotY3 (nth 2 (equivalent_relative_euler_True (a,b,c)) (0,0,0)) = mmul (mmul (dg Dy) (rotY a b c)) (dg FI). Proof. tabrow. Qed.
Lemma rel_row3 a b c : rotY3 (nth 3 (equivalent_relative_euler_True (a,b,c)) (0,0,0)) = mmul (mmul (dg Dz) (rotY a b c)) (dg FI). Proof. tabrow. Qed.
Lemma rel_row4 a b c : rotY3 (nth 4 (equivalent_relative_euler_True (a,b,c)) (0,0,0)) = mmul (mmul (dg FI) (rotY a b c)) (dg Dx). Proof. tabrow. Qed.
Lemma rel_row5 a b c : rotY3 (nth 5 (equivalent_relative_euler_True (a,b,c)) (0,0,0)) = mmul (mmul (dg Dx) (rotY a b c)) (dg Dx). Proof. tabrow. Qed.
Lemma rel_row6 a b c : rotY3 (nth 6 (equivalent_relative_euler_True (a,b,c)) (0,0,0)) = mmul (mmul (dg Dy) (rotY a b c)) (dg Dx). Proof. tabrow. Qed.
Lemma rel_row7 a b c : rotY3 (nth 7 (equivalent_relative_euler_True (a,b,c)) (0,0,0)) = mmul (mmul (dg Dz) (rotY a b c)) (dg Dx). Proof. tabrow. Qed.
Lemma rel_row8 a b c : rotY3 (nth 8 (equivalent_relative_euler_True (a,b,c)) (0,0,0)) = mmul (mmul (dg FI) (rotY a b c)) (dg Dy). Proof. tabrow. Qed.
Lemma rel_row9 a b c : rotY3 (nth 9 (equivalent_relative_euler_True (a,b,c)) (0,0,0)) = mmul (mmul (dg Dx) (rotY a b c)) (dg Dy). Proof. tabrow. Qed.
Lemma rel_row10 a b c : rotY3 (nth 10 (equivalent_relative_euler_True (a,b,c)) (0,0,0)) = mmul (mmul (dg Dy) (rotY a b c)) (dg Dy). Proof. tabrow. Qed.
Lemma rel_row11 a b c : rotY3 (nth 11 (equivalent_relative_euler_True (a,b,c)) (0,0,0)) = mmul (mmul (dg Dz) (rotY a b c)) (dg Dy). Proof. tabrow. Qed.
Lemma rel_row12 a b c : rotY3 (nth 12 (equivalent_relative_euler_True (a,b,c)) (0,0,0)) = mmul (mmul (dg FI) (rotY a b c)) (dg Dz). Proof. tabrow. Qed.
Lemma rel_row13 a b c : rotY3 (nth 13 (equivalent_relative_euler_True (a,b,c)) (0,0,0)) = mmul (mmul (dg Dx) (rotY a b c)) (dg Dz). Proof. tabrow. Qed.
Lemma rel_row14 a b c : rotY3 (nth 14 (equivalent_relative_euler_True (a,b,c)) (0,0,0)) = mmul (mmul (dg Dy) (rotY a b c)) (dg Dz). Proof. tabrow. Qed.
Lemma rel_row15 a b c : rotY3 (nth 15 (equivalent_relative_euler_True (a,b,c)) (0,0,0)) = mmul (mmul (dg Dz) (rotY a b c)) (dg Dz). Proof. tabrow. Qed.
Definition eq_flips : list flip := [FI; Dz; Dy; Dx].
Definition rel_flips : list (flip * flip) := [(FI, FI); (FI, Dx); (FI, Dy); (FI, Dz); (Dx, FI); (Dx, Dx); (Dx, Dy); (Dx, Dz); (Dy, FI); (Dy, Dx); (Dy, Dy); (Dy, Dz); (Dz, FI); (Dz, Dx); (Dz, Dy); (Dz, Dz)].
