(* C13: the TriAvg index formulas are the unit-cell triangulation of the octahedron face, with valid vertices, and cover it exactly once;
   the ZCW recurrence returns at least the requested number of orientations inside the requested region (Z, no axioms). *)
From Coq Require Import ZArith List Bool Lia.
Import ListNotations.
Require Import Sop.model.TriAvg.
Local Open Scope Z_scope.

Lemma zi_double N z : 2 * z_i N z = z * (2*N + 3 - z).
Proof.
  unfold z_i. destruct (Z.Even_or_Odd z) as [[k E]|[k E]]; subst z.
  - replace (2 * k * (2 * N + 3 - 2 * k)) with ((k * (2 * N + 3 - 2 * k)) * 2) by ring. rewrite Z.div_mul by lia. ring.
  - replace ((2 * k + 1) * (2 * N + 3 - (2 * k + 1))) with (((2 * k + 1) * (N + 1 - k)) * 2) by ring. rewrite Z.div_mul by lia. ring.
Qed.
Lemma zi_succ N z : z_i N (z + 1) = z_i N z + (N - z + 1).
Proof. pose proof (zi_double N z). pose proof (zi_double N (z + 1)). nia. Qed.
Lemma zi_0 N : z_i N 0 = 0.
Proof. reflexivity. Qed.
Lemma npoints_zi N : npoints N = z_i N (N + 1).
Proof. unfold npoints, z_i. f_equal. ring. Qed.

Lemma zrange_In lo n x : In x (zrange lo n) <-> lo <= x < lo + n.
Proof.
  unfold zrange. rewrite in_map_iff. split.
  - intros (k & E & I). apply in_seq in I. lia.
  - intros H. exists (Z.to_nat (x - lo)). split; [lia|]. apply in_seq. lia.
Qed.
Lemma zrange_shift lo n : zrange lo n = map (fun p => lo + p) (zrange 0 n).
Proof. unfold zrange. rewrite map_map. apply map_ext. intros k. lia. Qed.

(* the index triples of the code are the unit cells of the lattice: up = (z,p),(z,p+1),(z+1,p); down = (z,p),(z+1,p-1),(z+1,p) *)
Lemma up_tris_cells N : up_tris N = map (up_of N) (up_cells N).
Proof.
  unfold up_tris, up_cells. rewrite flat_map_concat_map, flat_map_concat_map, concat_map, map_map. f_equal. apply map_ext. intros z.
  rewrite zi_succ. replace (z_i N z + (N - z + 1) - 1 - z_i N z) with (N - z) by ring.
  rewrite zrange_shift, !map_map. apply map_ext. intros p. unfold up_of, idx. rewrite zi_succ. f_equal; [f_equal|]; ring.
Qed.
Lemma down_tris_cells N : down_tris N = map (down_of N) (down_cells N).
Proof.
  unfold down_tris, down_cells. rewrite flat_map_concat_map, flat_map_concat_map, concat_map, map_map. f_equal. apply map_ext. intros z.
  rewrite zi_succ. replace (z_i N z + (N - z + 1) - 1 - (z_i N z + 1)) with (N - z - 1) by ring.
  rewrite (zrange_shift (z_i N z + 1)), (zrange_shift 1), !map_map. apply map_ext. intros p. unfold down_of, idx. rewrite zi_succ. f_equal; [f_equal|]; ring.
Qed.

Lemma up_cells_In N z p : In (z, p) (up_cells N) <-> (0 <= z < N /\ 0 <= p < N - z).
Proof.
  unfold up_cells. rewrite in_flat_map. split.
  - intros (z' & IZ & IP). apply zrange_In in IZ. apply in_map_iff in IP. destruct IP as (p' & E & IP). inversion E; subst. apply zrange_In in IP. lia.
  - intros [HZ HP]. exists z. split; [apply zrange_In; lia|]. apply in_map. apply zrange_In. lia.
Qed.
Lemma down_cells_In N z p : In (z, p) (down_cells N) <-> (0 <= z < N /\ 1 <= p < N - z).
Proof.
  unfold down_cells. rewrite in_flat_map. split.
  - intros (z' & IZ & IP). apply zrange_In in IZ. apply in_map_iff in IP. destruct IP as (p' & E & IP). inversion E; subst. apply zrange_In in IP. lia.
  - intros [HZ HP]. exists z. split; [apply zrange_In; lia|]. apply in_map. apply zrange_In. lia.
Qed.

(* every vertex referenced by a triangle is a valid point index *)
Lemma idx_range N z p : 0 <= z <= N -> 0 <= p <= N - z -> 0 <= idx N z p < npoints N.
Proof.
  intros HZ HP. unfold idx. rewrite npoints_zi. pose proof (zi_double N z). pose proof (zi_double N (N + 1)).
  assert ((z - N) * (z - N - 1) >= 0) by nia. nia.
Qed.
Lemma tris_valid_l N a b c : In (a, b, c) (tris N) -> 0 <= a < npoints N /\ 0 <= b < npoints N /\ 0 <= c < npoints N.
Proof.
  unfold tris. rewrite in_app_iff, up_tris_cells, down_tris_cells, !in_map_iff. intros [((z, p) & E & I)|((z, p) & E & I)].
  - apply up_cells_In in I. cbn in E. inversion E; subst. repeat split; apply idx_range; lia.
  - apply down_cells_In in I. cbn in E. inversion E; subst. repeat split; apply idx_range; lia.
Qed.
(* distinct lattice points have distinct indices (so a triangle's three vertices are three different points) *)
Lemma idx_inj N z p z' p' : 0 <= z <= N -> 0 <= p <= N - z -> 0 <= z' <= N -> 0 <= p' <= N - z' -> idx N z p = idx N z' p' -> z = z' /\ p = p'.
Proof.
  intros HZ HP HZ' HP' E. unfold idx in E. pose proof (zi_double N z). pose proof (zi_double N z').
  assert (z = z').
  { destruct (Z.lt_trichotomy z z') as [L|[Q|L]]; [|exact Q|]; exfalso.
    - pose proof (zi_double N (z + 1)). pose proof (zi_succ N z). assert (z_i N (z + 1) <= z_i N z') by (assert ((z' - z - 1) * (2*N + 2 - z - z') >= 0) by nia; nia). lia.
    - pose proof (zi_double N (z' + 1)). pose proof (zi_succ N z'). assert (z_i N (z' + 1) <= z_i N z) by (assert ((z - z' - 1) * (2*N + 2 - z - z') >= 0) by nia; nia). lia. }
  subst. split; [reflexivity|lia].
Qed.

(* exact cover: a point of the face not on a grid line lies in exactly one listed triangle *)
Lemma floor_le M x y r : 0 < M -> r < M -> x * M <= y * M + r -> x <= y.
Proof. intros HM Hr H. destruct (Z_le_gt_dec x y) as [L|G]; [exact L|]. exfalso. assert ((y + 1) * M <= x * M) by nia. lia. Qed.
Lemma floor_ge M x y r : 0 < M -> 0 < r -> y * M + r <= x * M -> y + 1 <= x.
Proof. intros HM Hr H. destruct (Z_le_gt_dec (y + 1) x) as [L|G]; [exact L|]. exfalso. assert (x * M <= y * M) by nia. lia. Qed.

Lemma cover_once_l M N a b c : 0 < M -> 0 <= a -> 0 <= b -> 0 <= c -> a + b + c = N * M ->
  a mod M <> 0 -> b mod M <> 0 -> c mod M <> 0 ->
  (exists cell, In cell (up_cells N) /\ in_up M N cell (a, b, c) /\
                (forall cell', In cell' (up_cells N) -> in_up M N cell' (a, b, c) -> cell' = cell) /\
                (forall cell', In cell' (down_cells N) -> ~ in_down M N cell' (a, b, c))) \/
  (exists cell, In cell (down_cells N) /\ in_down M N cell (a, b, c) /\
                (forall cell', In cell' (down_cells N) -> in_down M N cell' (a, b, c) -> cell' = cell) /\
                (forall cell', In cell' (up_cells N) -> ~ in_up M N cell' (a, b, c))).
Proof.
  intros HM Ha Hb Hc HS Ma Mb Mc.
  pose proof (Z.div_mod a M ltac:(lia)) as Da. pose proof (Z.mod_pos_bound a M HM) as Ba.
  pose proof (Z.div_mod b M ltac:(lia)) as Db. pose proof (Z.mod_pos_bound b M HM) as Bb.
  pose proof (Z.div_mod c M ltac:(lia)) as Dc. pose proof (Z.mod_pos_bound c M HM) as Bc.
  set (p := a / M) in *. set (q := b / M) in *. set (z := c / M) in *.
  set (ra := a mod M) in *. set (rb := b mod M) in *. set (rc := c mod M) in *.
  assert (Hp: 0 <= p) by (apply Z.div_pos; lia). assert (Hq: 0 <= q) by (apply Z.div_pos; lia). assert (Hz: 0 <= z) by (apply Z.div_pos; lia).
  assert (ES: ra + rb + rc = (N - p - q - z) * M) by nia.
  assert (K: N - p - q - z = 1 \/ N - p - q - z = 2).
  { assert (0 < (N - p - q - z) * M < 3 * M) by lia. assert (0 < N - p - q - z) by nia. assert (N - p - q - z < 3) by nia. lia. }
  destruct K as [K|K].
  - left. exists (z, p). split; [apply up_cells_In; lia|]. split; [cbn; nia|]. split.
    + intros [z' p'] I U. apply up_cells_In in I. cbn in U. destruct U as (U1 & U2 & U3).
      assert (p' <= p) by (apply (floor_le M p' p ra); lia).
      assert (z' <= z) by (apply (floor_le M z' z rc); lia).
      assert (N - z' - p' - 1 <= q) by (apply (floor_le M _ q rb); lia).
      f_equal; lia.
    + intros [z' p'] I D. apply down_cells_In in I. cbn in D. destruct D as (D1 & D2 & D3).
      assert (p + 1 <= p') by (apply (floor_ge M p' p ra); lia).
      assert (z + 1 <= z' + 1) by (apply (floor_ge M (z' + 1) z rc); lia).
      assert (q + 1 <= N - z' - p') by (apply (floor_ge M _ q rb); lia).
      lia.
  - right. exists (z, p + 1). split; [apply down_cells_In; lia|]. split; [cbn; nia|]. split.
    + intros [z' p'] I D. apply down_cells_In in I. cbn in D. destruct D as (D1 & D2 & D3).
      assert (p + 1 <= p') by (apply (floor_ge M p' p ra); lia).
      assert (z + 1 <= z' + 1) by (apply (floor_ge M (z' + 1) z rc); lia).
      assert (q + 1 <= N - z' - p') by (apply (floor_ge M _ q rb); lia).
      f_equal; lia.
    + intros [z' p'] I U. apply up_cells_In in I. cbn in U. destruct U as (U1 & U2 & U3).
      assert (p' <= p) by (apply (floor_le M p' p ra); lia).
      assert (z' <= z) by (apply (floor_le M z' z rc); lia).
      assert (N - z' - p' - 1 <= q) by (apply (floor_le M _ q rb); lia).
      lia.
Qed.

(* ---- ZCW ---- *)
Lemma zcw_loop_ge fuel : forall g2 g1 n req, 0 < g1 -> 21 <= n -> req <= n + Z.of_nat fuel -> req <= snd (zcw_loop fuel g2 g1 n req).
Proof.
  induction fuel as [|f IH]; intros g2 g1 n req Hg Hn Hr; cbn [zcw_loop snd].
  - lia.
  - destruct (n <? req) eqn:E; [apply Z.ltb_lt in E|apply Z.ltb_ge in E; cbn [snd]; exact E].
    rewrite Nat2Z.inj_succ in Hr. apply IH; lia.
Qed.
Lemma zcw_count_l req : req <= snd (zcw_gN req) /\ 21 <= snd (zcw_gN req).
Proof.
  unfold zcw_gN. split.
  - apply zcw_loop_ge; lia.
  - assert (G: forall fuel g2 g1 n, 21 <= n -> 0 < g1 -> 21 <= snd (zcw_loop fuel g2 g1 n req)).
    { induction fuel as [|f IH]; intros g2 g1 n Hn Hg; cbn [zcw_loop snd]; [exact Hn|]. destruct (n <? req); [apply IH; lia|exact Hn]. }
    apply G; lia.
Qed.
(* region: cos(theta) = ct/N and phi/(2 pi) = ph/(c2 N) *)
Lemma zcw_region_l mode g N n : 0 < N -> 0 <= n < N ->
  let ct := zcw_ct_num mode N n in let ph := zcw_phi_num g N n in
  0 <= ph < N /\
  (mode = 0 -> - N <= ct < N) /\ (mode <> 0 -> 0 < ct <= N).
Proof.
  intros HN Hn ct ph. unfold ct, ph, zcw_ct_num, zcw_phi_num, zcw_c. rewrite (Z.mod_small n N) by lia.
  pose proof (Z.mod_pos_bound (n * g) N HN). split; [lia|]. split.
  - intros E. subst. rewrite Z.eqb_refl. cbv beta iota. lia.
  - intros NE. destruct (mode =? 0) eqn:E0; [apply Z.eqb_eq in E0; contradiction|]. destruct (mode =? 1); cbv beta iota; lia.
Qed.
