(* C05: representation independence at the level of the specifications (Z, no axioms): lattice shifts of individual atoms, unimodular
   re-descriptions of the cell and rigid rotations leave every image length - hence everything the exactness theorems of C03/C04/C07/C11
   derive from image lengths - unchanged. *)
From Coq Require Import ZArith List Bool Lia.
Import ListNotations.
Require Import Sop.model.Lattice Sop.proofs.LatticeProofs.
Local Open Scope Z_scope.

(* 1. moving a vector by a lattice vector only re-labels its images *)
Lemma image_shift L pbc v m w n : admissible pbc m ->
  (IsImage L pbc (vadd v (comb m L)) w n <-> IsImage L pbc v w (vadd n m)).
Proof.
  intros Am. unfold IsImage. split; intros [E A]; split.
  - rewrite E. destruct L as [[[[a1 a2] a3] [[b1 b2] b3]] [[c1 c2] c3]], v as [[v1 v2] v3], m as [[m1 m2] m3], n as [[n1 n2] n3]. cbv [vadd comb smul]. veq.
  - apply admissible_add; assumption.
  - rewrite E. destruct L as [[[[a1 a2] a3] [[b1 b2] b3]] [[c1 c2] c3]], v as [[v1 v2] v3], m as [[m1 m2] m3], n as [[n1 n2] n3]. cbv [vadd comb smul]. veq.
  - replace n with (vsub (vadd n m) m); [apply admissible_sub; assumption|]. destruct n as [[n1 n2] n3], m as [[m1 m2] m3]. cbv [vsub vadd]. veq.
Qed.
(* hence the minimum-image length computed by the code is the same for v and for v + m L *)
Lemma min_length_shift L pbc v m w c w' c' : det L <> 0 -> admissible pbc m ->
  IsMinImage L pbc v w c -> IsMinImage L pbc (vadd v (comb m L)) w' c' -> norm2 w' = norm2 w.
Proof.
  intros HD Am [[E A] M] [[E' A'] M'].
  assert (X1: vadd (vadd v (comb m L)) (comb (vsub c m) L) = w).
  { rewrite E. destruct L as [[[[a1 a2] a3] [[b1 b2] b3]] [[c1 c2] c3]], v as [[v1 v2] v3], m as [[m1 m2] m3], c as [[n1 n2] n3]. cbv [vadd vsub comb smul]. veq. }
  assert (X2: vadd v (comb (vadd c' m) L) = w').
  { rewrite E'. destruct L as [[[[a1 a2] a3] [[b1 b2] b3]] [[c1 c2] c3]], v as [[v1 v2] v3], m as [[m1 m2] m3], c' as [[n1 n2] n3]. cbv [vadd vsub comb smul]. veq. }
  pose proof (M' (vsub c m) (admissible_sub pbc c m A Am)) as L1. rewrite X1 in L1.
  pose proof (M (vadd c' m) (admissible_add pbc c' m A' Am)) as L2. rewrite X2 in L2. lia.
Qed.

(* 2. a unimodular change of cell vectors L' = U L describes the same lattice *)
Definition mrow (n : vec) (U : latt) : vec := comb n U.          (* row vector times matrix *)
Definition mmul (U L : latt) : latt := let '(u1,u2,u3) := U in (comb u1 L, comb u2 L, comb u3 L).
Definition ident : latt := ((1,0,0),(0,1,0),(0,0,1)).
Lemma comb_mmul n U L : comb n (mmul U L) = comb (mrow n U) L.
Proof.
  destruct U as [[[[u11 u12] u13] [[u21 u22] u23]] [[u31 u32] u33]], L as [[[[a1 a2] a3] [[b1 b2] b3]] [[c1 c2] c3]], n as [[n1 n2] n3].
  cbv [comb mmul mrow vadd smul]. veq.
Qed.
Lemma mmul_assoc A B C : mmul (mmul A B) C = mmul A (mmul B C).
Proof. destruct A as [[a1 a2] a3]. cbn [mmul]. rewrite !comb_mmul. reflexivity. Qed.
Lemma mmul_ident L : mmul ident L = L.
Proof. destruct L as [[[[a1 a2] a3] [[b1 b2] b3]] [[c1 c2] c3]]. cbv [mmul ident comb vadd smul]. veq. Qed.
(* the two descriptions have the same lattice points, so every vector has the same set of periodic images *)
Lemma unimodular_same_images U V L v w : mmul V U = ident ->
  (exists n, w = vadd v (comb n (mmul U L))) <-> (exists n, w = vadd v (comb n L)).
Proof.
  intros HV. split; intros [n E].
  - exists (mrow n U). rewrite E, comb_mmul. reflexivity.
  - exists (mrow n V). rewrite E. f_equal. rewrite comb_mmul.
    assert (X: mrow (mrow n V) U = n).
    { unfold mrow. rewrite <- comb_mmul, HV. destruct n as [[n1 n2] n3]. cbv [comb ident vadd smul]. veq. }
    rewrite X. reflexivity.
Qed.

(* 3. rigid rotation of structure and cell by an integer orthogonal matrix Q (rows orthonormal): all image lengths are unchanged *)
Definition orthonormal (Q : latt) : Prop := let '(q1,q2,q3) := Q in
  dotv q1 q1 = 1 /\ dotv q2 q2 = 1 /\ dotv q3 q3 = 1 /\ dotv q1 q2 = 0 /\ dotv q1 q3 = 0 /\ dotv q2 q3 = 0.
Lemma norm2_rot Q x : orthonormal Q -> norm2 (comb x Q) = norm2 x.
Proof.
  destruct Q as [[[[a1 a2] a3] [[b1 b2] b3]] [[c1 c2] c3]], x as [[x1 x2] x3]. cbv [orthonormal]. intros (H1 & H2 & H3 & H4 & H5 & H6).
  cbv [dotv] in *. cbv [norm2 dotv comb vadd smul].
  transitivity (x1*x1*(a1*a1 + a2*a2 + a3*a3) + x2*x2*(b1*b1 + b2*b2 + b3*b3) + x3*x3*(c1*c1 + c2*c2 + c3*c3)
                + 2*x1*x2*(a1*b1 + a2*b2 + a3*b3) + 2*x1*x3*(a1*c1 + a2*c2 + a3*c3) + 2*x2*x3*(b1*c1 + b2*c2 + b3*c3)); [ring|].
  rewrite H1, H2, H3, H4, H5, H6. ring.
Qed.
Lemma rotation_invariant Q L v n : orthonormal Q ->
  norm2 (vadd (comb v Q) (comb n (mmul L Q))) = norm2 (vadd v (comb n L)).
Proof.
  intros HQ. rewrite <- (norm2_rot Q (vadd v (comb n L)) HQ). f_equal.
  rewrite comb_mmul. rewrite <- comb_mmul.
  destruct Q as [[[[a1 a2] a3] [[b1 b2] b3]] [[c1 c2] c3]], L as [[[[l11 l12] l13] [[l21 l22] l23]] [[l31 l32] l33]], v as [[v1 v2] v3], n as [[n1 n2] n3].
  cbv [comb mmul vadd smul]. veq.
Qed.
(* rigid translation cancels in every pair difference *)
Lemma translation_invariant (t a b : vec) : vsub (vadd b t) (vadd a t) = vsub b a.
Proof. destruct t as [[t1 t2] t3], a as [[a1 a2] a3], b as [[b1 b2] b3]. cbv [vsub vadd]. veq. Qed.
