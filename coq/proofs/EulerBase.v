(* C08/C09: rotation matrices from Euler angles (scipy from_euler('ZYZ'|'ZXZ', [a,b,c]) = Rz a . M b . Rz c), the group D2 of 180-degree flips of the principal
   axes, and the trigonometric rewriting used to prove that the GENERATED tables of equivalent angle sets are cosets / double cosets of D2. *)
Require Import Sop.model.NmrUtilsR.
Definition mat := (R*R*R*R*R*R*R*R*R)%type.
Definition mmul (A B : mat) : mat :=
  match A, B with (a11,a12,a13,a21,a22,a23,a31,a32,a33), (b11,b12,b13,b21,b22,b23,b31,b32,b33) =>
  (a11*b11+a12*b21+a13*b31, a11*b12+a12*b22+a13*b32, a11*b13+a12*b23+a13*b33,
   a21*b11+a22*b21+a23*b31, a21*b12+a22*b22+a23*b32, a21*b13+a22*b23+a23*b33,
   a31*b11+a32*b21+a33*b31, a31*b12+a32*b22+a33*b32, a31*b13+a32*b23+a33*b33) end.
Definition mtr (A : mat) : mat := match A with (a11,a12,a13,a21,a22,a23,a31,a32,a33) => (a11,a21,a31,a12,a22,a32,a13,a23,a33) end.
Definition Rz t : mat := (cos t, - sin t, 0, sin t, cos t, 0, 0, 0, 1).
Definition Ry t : mat := (cos t, 0, sin t, 0, 1, 0, - sin t, 0, cos t).
Definition Rx t : mat := (1, 0, 0, 0, cos t, - sin t, 0, sin t, cos t).
Definition rotY a b c := mmul (mmul (Rz a) (Ry b)) (Rz c).        (* ZYZ *)
Definition rotX a b c := mmul (mmul (Rz a) (Rx b)) (Rz c).        (* ZXZ *)
Definition rotY3 (v : vec3) := let '(a,b,c) := v in rotY a b c.
Definition rotX3 (v : vec3) := let '(a,b,c) := v in rotX a b c.
Inductive flip := FI | Dx | Dy | Dz.
Definition dg (f : flip) : mat :=
  match f with FI => (1,0,0,0,1,0,0,0,1) | Dx => (1,0,0,0,-1,0,0,0,-1) | Dy => (-1,0,0,0,1,0,0,0,-1) | Dz => (-1,0,0,0,-1,0,0,0,1) end.
Definition diag (x y z : R) : mat := (x,0,0,0,y,0,0,0,z).

Lemma cos_Zper x k : cos (x + 2 * IZR k * PI) = cos x.
Proof. destruct k as [|p|p].
  - replace (x + 2 * 0 * PI) with x by ring. reflexivity.
  - replace (IZR (Z.pos p)) with (INR (Pos.to_nat p)) by (rewrite INR_IZR_INZ, positive_nat_Z; reflexivity). apply cos_period.
  - replace (IZR (Z.neg p)) with (- INR (Pos.to_nat p)) by (rewrite INR_IZR_INZ, positive_nat_Z, <- opp_IZR; reflexivity).
    rewrite <- (cos_period (x + 2 * - INR (Pos.to_nat p) * PI) (Pos.to_nat p)). f_equal. ring. Qed.
Lemma sin_Zper x k : sin (x + 2 * IZR k * PI) = sin x.
Proof. destruct k as [|p|p].
  - replace (x + 2 * 0 * PI) with x by ring. reflexivity.
  - replace (IZR (Z.pos p)) with (INR (Pos.to_nat p)) by (rewrite INR_IZR_INZ, positive_nat_Z; reflexivity). apply sin_period.
  - replace (IZR (Z.neg p)) with (- INR (Pos.to_nat p)) by (rewrite INR_IZR_INZ, positive_nat_Z, <- opp_IZR; reflexivity).
    rewrite <- (sin_period (x + 2 * - INR (Pos.to_nat p) * PI) (Pos.to_nat p)). f_equal. ring. Qed.
Lemma cos_modn x : cos (modn x (of_Z 2 * PIn)) = cos x.
Proof. unfold modn, of_Z, PIn. set (k := Int_part _). replace (x - 2 * PI * IZR k) with (x + 2 * IZR (-k) * PI) by (rewrite opp_IZR; ring). apply cos_Zper. Qed.
Lemma sin_modn x : sin (modn x (of_Z 2 * PIn)) = sin x.
Proof. unfold modn, of_Z, PIn. set (k := Int_part _). replace (x - 2 * PI * IZR k) with (x + 2 * IZR (-k) * PI) by (rewrite opp_IZR; ring). apply sin_Zper. Qed.
Lemma cos_w1n x : cos (wrap1n x) = cos x. Proof. unfold wrap1n. destruct ltb; [apply cos_modn|reflexivity]. Qed.
Lemma sin_w1n x : sin (wrap1n x) = sin x. Proof. unfold wrap1n. destruct ltb; [apply sin_modn|reflexivity]. Qed.
Lemma cos_w1g x : cos (wrap1g x) = cos x. Proof. unfold wrap1g. destruct leb; [apply cos_modn|reflexivity]. Qed.
Lemma sin_w1g x : sin (wrap1g x) = sin x. Proof. unfold wrap1g. destruct leb; [apply sin_modn|reflexivity]. Qed.
Lemma cos_pi_plus x : cos (PI + x) = - cos x. Proof. rewrite Rplus_comm. apply neg_cos. Qed.
Lemma sin_pi_plus x : sin (PI + x) = - sin x. Proof. rewrite Rplus_comm. apply neg_sin. Qed.
Lemma cos_plus_pi x : cos (x + PI) = - cos x. Proof. apply neg_cos. Qed.
Lemma sin_plus_pi x : sin (x + PI) = - sin x. Proof. apply neg_sin. Qed.
Lemma cos_pi_minus x : cos (PI - x) = - cos x. Proof. unfold Rminus. rewrite cos_pi_plus, cos_neg. reflexivity. Qed.
Lemma sin_pi_minus x : sin (PI - x) = sin x. Proof. unfold Rminus. rewrite sin_pi_plus, sin_neg. lra. Qed.
Lemma cos_2pi_minus x : cos (2*PI - x) = cos x. Proof. replace (2*PI - x) with (-x + 2*PI) by lra. rewrite cos_plus, cos_2PI, sin_2PI, cos_neg. lra. Qed.
Lemma sin_2pi_minus x : sin (2*PI - x) = - sin x. Proof. replace (2*PI - x) with (-x + 2*PI) by lra. rewrite sin_plus, cos_2PI, sin_2PI, sin_neg. lra. Qed.
Lemma cos_minus_pi x : cos (x - PI) = - cos x. Proof. unfold Rminus. rewrite cos_plus, cos_neg, sin_neg, cos_PI, sin_PI. lra. Qed.
Lemma sin_minus_pi x : sin (x - PI) = - sin x. Proof. unfold Rminus. rewrite sin_plus, cos_neg, sin_neg, cos_PI, sin_PI. lra. Qed.
Ltac trig := rewrite ?cos_w1g, ?sin_w1g, ?cos_w1n, ?sin_w1n, ?cos_modn, ?sin_modn; unfold of_Z, PIn;
  rewrite ?cos_pi_plus, ?sin_pi_plus, ?cos_plus_pi, ?sin_plus_pi, ?cos_pi_minus, ?sin_pi_minus, ?cos_2pi_minus, ?sin_2pi_minus, ?cos_minus_pi, ?sin_minus_pi.
Ltac tabrow := unfold equivalent_relative_euler_False, equivalent_euler_False, equivalent_relative_euler_True, equivalent_euler_True; cbn [nth];
  unfold wrap_ge, wrap_neg, rotY3, rotX3, rotY, rotX, Rz, Ry, Rx, dg, mmul, mtr; trig; repeat (f_equal; try ring).

(* a diagonal matrix is unchanged by conjugation with a flip: every coset member reproduces the same tensor *)
Lemma flip_conj f x y z : mmul (mmul (dg f) (diag x y z)) (dg f) = diag x y z.
Proof. destruct f; unfold dg, diag, mmul; repeat (f_equal; try ring). Qed.
