(* C01: the re-ordered frame with its third column replaced by the cross product. *)
Require Import Nsatz.
Require Import Sop.model.NmrUtilsR Sop.proofs.SortProofs.
Local Open Scope R_scope.

Ltac perms H := unfold is_perm3 in H; destruct H as [H|[H|[H|[H|[H|H]]]]]; subst.

Lemma frame_orthonormal_rh_l p F : is_perm3 p -> Ortho F ->
  Ortho (order_frame p F) /\ det3 (order_frame p F) = 1.
Proof.
  destruct F as [[[[a0 a1] a2] [[b0 b1] b2]] [[c0 c1] c2]]. intros Hp.
  unfold Ortho, of_Z. intros (H1&H2&H3&H4&H5&H6).
  perms Hp; unfold order_frame, gatherc, nthc, det3, dot, cross in *; repeat split; try assumption; nsatz.
Qed.

Lemma reconstruct_l l p F : is_perm3 p -> Ortho F ->
  recon (gather3 l p) (order_frame p F) = recon l F.
Proof.
  destruct F as [[[[a0 a1] a2] [[b0 b1] b2]] [[c0 c1] c2]]. destruct l as [[l0 l1] l2]. intros Hp.
  unfold Ortho, of_Z. intros (H1&H2&H3&H4&H5&H6).
  perms Hp; unfold order_frame, gatherc, nthc, gather3, nth3, recon, madd, vadd3, outer, dot, cross in *;
  pairs; nsatz.
Qed.

Lemma construct_spec_l c l F : Ortho F ->
  let '(s,G) := construct c (l,F) in
  Ortho G /\ det3 G = 1 /\ recon s G = recon l F /\ s = sortc c l.
Proof.
  intros HO. unfold construct.
  assert (P: let '(s,p) := conv_sort c l in s = gather3 l p /\ is_perm3 p /\ s = sortc c l).
  { destruct c as [|[|[|c]]]; unfold conv_sort, sortc.
    - pose proof (sort_perm_i l). destruct (evals_sort_i_True l). cbn [fst]. tauto.
    - pose proof (sort_perm_d l). destruct (evals_sort_d_True l). cbn [fst]. tauto.
    - pose proof (sort_perm_h l). destruct (evals_sort_h_True l). cbn [fst]. tauto.
    - pose proof (sort_perm_n l). destruct (evals_sort_n_True l). cbn [fst]. tauto. }
  destruct (conv_sort c l) as [s p]. destruct P as (P1 & P2 & P3).
  destruct (frame_orthonormal_rh_l p F P2 HO) as [A B].
  repeat split; try assumption. subst s. apply reconstruct_l; assumption.
Qed.

(* the same order again: only the cross product is re-applied; nothing changes for a right-handed frame *)
Lemma same_order_idem_l F : Ortho F -> det3 F = 1 -> order_frame (0,1,2)%nat F = F.
Proof.
  destruct F as [[[[a0 a1] a2] [[b0 b1] b2]] [[c0 c1] c2]].
  unfold Ortho, of_Z. intros (H1&H2&H3&H4&H5&H6) HD.
  unfold order_frame, gatherc, nthc, det3, dot, cross in *. pairs; nsatz.
Qed.

(* symmetric part: unaffected by any antisymmetric addition; recon is symmetric *)
Definition antisym (K:mat3) : Prop := transpose K = let '((a,b,c),(d,e,f),(g,h,i)) := K in ((-a,-b,-c),(-d,-e,-f),(-g,-h,-i)).
Lemma symm_antisym_l M K : antisym K -> symm (madd M K) = symm M.
Proof.
  destruct M as [[[[a b] c] [[d e] f]] [[g h] i]]. destruct K as [[[[a' b'] c'] [[d' e'] f']] [[g' h'] i']].
  unfold antisym, transpose, symm, madd, vadd3, of_Z. intros H. inversion H.
  pairs; lra.
Qed.
Lemma recon_symmetric_l l F : transpose (recon l F) = recon l F.
Proof.
  destruct F as [[[[a0 a1] a2] [[b0 b1] b2]] [[c0 c1] c2]]. destruct l as [[l0 l1] l2].
  cbv [recon madd vadd3 outer transpose]. pairs; unfold num; ring.
Qed.
Lemma symm_of_symmetric_l M : transpose M = M -> symm M = M.
Proof.
  destruct M as [[[[a b] c] [[d e] f]] [[g h] i]]. unfold transpose, symm, of_Z. intros H. inversion H. subst.
  pairs; lra.
Qed.

Lemma symm_is_symmetric_l M : transpose (symm M) = symm M.
Proof.
  destruct M as [[[[a b] c] [[d e] f]] [[g h] i]]. cbv [transpose symm]. unfold of_Z. pairs; lra.
Qed.

(* construction from a matrix through an eigen-solver that meets its contract *)
Lemma from_matrix_spec_l (eigh : mat3 -> vec3 * frame) :
  (forall S, transpose S = S -> let '(l,F) := eigh S in Ortho F /\ recon l F = S) ->
  forall c M, let '(s,G) := construct c (eigh (symm M)) in
    Ortho G /\ det3 G = 1 /\ recon s G = symm M /\ s = sortc c (fst (eigh (symm M))).
Proof.
  intros HE c M. specialize (HE (symm M) (symm_is_symmetric_l M)).
  destruct (eigh (symm M)) as [l F]. destruct HE as [HO HR].
  pose proof (construct_spec_l c l F HO) as H. destruct (construct c (l,F)) as [s G].
  destruct H as (A & B & C & D). cbn [fst]. rewrite <- HR. tauto.
Qed.

(* construction from (evals, evecs) is equivalent to construction from the matrix they define *)
Lemma from_pair_equiv_l (eigh : mat3 -> vec3 * frame) :
  (forall S, transpose S = S -> let '(l,F) := eigh S in Ortho F /\ recon l F = S) ->
  (forall l F, Ortho F -> Perm3 l (fst (eigh (recon l F)))) ->   (* spectrum uniqueness *)
  forall c l F, Ortho F -> distinct3 (key c l) ->
    let '(s1,G1) := construct c (l,F) in
    let '(s2,G2) := construct c (eigh (recon l F)) in
    s1 = s2 /\ recon s1 G1 = recon s2 G2 /\ Ortho G2 /\ det3 G2 = 1.
Proof.
  intros HE HS c l F HO HD.
  pose proof (construct_spec_l c l F HO) as H1. destruct (construct c (l,F)) as [s1 G1].
  specialize (HE (recon l F) (recon_symmetric_l l F)). specialize (HS l F HO).
  destruct (eigh (recon l F)) as [l' F']. cbn [fst] in HS. destruct HE as [HO' HR'].
  pose proof (construct_spec_l c l' F' HO') as H2. destruct (construct c (l',F')) as [s2 G2].
  destruct H1 as (A1 & B1 & C1 & D1). destruct H2 as (A2 & B2 & C2 & D2).
  repeat split; try assumption.
  - rewrite D1, D2. symmetry. apply sort_canonical_l; assumption.
  - rewrite C1, C2. symmetry. exact HR'.
Qed.
