(* C16: combinations enumerate every sub-selection of the requested size exactly once (no axioms). *)
From Coq Require Import List Arith Lia FinFun.
Import ListNotations.
Require Import Sop.model.Combs.

Lemma combs_spec {A} (l : list A) : forall n c, In c (combs n l) <-> (subseq c l /\ length c = n).
Proof.
  induction l as [|x t IH]; intros n c.
  - destruct n as [|m]; cbn [combs In].
    + split; [intros [E|[]]; subst; split; [constructor|reflexivity]|intros [S L]; destruct c; [left; reflexivity|discriminate]].
    + split; [intros []|]. intros [S L]. inversion S; subst. discriminate.
  - destruct n as [|m]; cbn [combs].
    + cbn [In]. split; [intros [E|[]]; subst; split; [constructor|reflexivity]|intros [S L]; destruct c; [left; reflexivity|discriminate]].
    + rewrite in_app_iff, in_map_iff. split.
      * intros [(c' & E & I)|I].
        -- subst. apply IH in I. destruct I as [S L]. split; [constructor; exact S|cbn; lia].
        -- apply IH in I. destruct I as [S L]. split; [apply ss_skip; exact S|exact L].
      * intros [S L]. inversion S as [l0|y s l0 S'|y s l0 S']; subst.
        -- discriminate.
        -- left. exists s. split; [reflexivity|]. apply IH. split; [exact S'|cbn in L; lia].
        -- right. apply IH. split; [exact S'|exact L].
Qed.
Lemma subseq_In {A} (s l : list A) : subseq s l -> forall x, In x s -> In x l.
Proof. induction 1 as [l|y s l S IH|y s l S IH]; intros x I; [destruct I|destruct I as [E|I]; [left; exact E|right; apply IH; exact I]|right; apply IH; exact I]. Qed.
Lemma combs_NoDup {A} (l : list A) : NoDup l -> forall n, NoDup (combs n l).
Proof.
  induction 1 as [|x t NI ND IH]; intros n.
  - destruct n; cbn; [repeat constructor; intros []|constructor].
  - destruct n as [|m]; cbn [combs]; [repeat constructor; intros []|].
    assert (D: forall c, In c (map (cons x) (combs m t)) -> ~ In c (combs (S m) t)).
    { intros c I1 I2. apply in_map_iff in I1. destruct I1 as (c' & E & _). subst. apply combs_spec in I2. destruct I2 as [S _].
      apply NI. apply (subseq_In _ _ S). left. reflexivity. }
    assert (N1: NoDup (map (cons x) (combs m t))).
    { apply FinFun.Injective_map_NoDup; [intros a b E; inversion E; reflexivity|apply IH]. }
    revert N1 D. generalize (map (cons x) (combs m t)) as a. induction a as [|y a IHa]; intros N1 D; cbn [app]; [apply IH|].
    inversion N1; subst. constructor.
    + intros I. apply in_app_or in I. destruct I as [I|I]; [contradiction|]. apply (D y); [left; reflexivity|exact I].
    + apply IHa; [assumption|]. intros c I. apply D. right. exact I.
Qed.
Lemma combs_length {A} (l : list A) : forall n, length (combs n l) = binom (length l) n.
Proof.
  induction l as [|x t IH]; intros n; destruct n as [|m]; cbn [combs binom length]; try reflexivity.
  rewrite app_length, map_length, !IH. reflexivity.
Qed.
