(* C18: the property theorems, derived from the invariant of SubmitterProofs.v (no axioms). *)
From Coq Require Import List Arith Bool Lia.
Import ListNotations.
Require Import Sop.model.Submitter Sop.proofs.SubmitterProofs.

Section Thm.
Variable max_jobs : nat.
Variable continuation : bool.
Notation Inv := (Inv max_jobs continuation).
Notation inv_reach := (inv_reach max_jobs continuation).

(* ---------------- the property theorems ---------------- *)
Lemma bounded_l stream lf s : reach max_jobs continuation (init stream lf) s -> length (jobs s) <= max_jobs.
Proof. intros R. apply (i_bound _ _ _ (inv_reach _ _ _ R)). Qed.

Lemma once_l stream lf s n : reach max_jobs continuation (init stream lf) s ->
  nsub n s <= 1 /\ nfin n s <= 1 /\ nfin n s <= nsub n s /\ nskip n s + nsub n s <= 1.
Proof.
  intros R. destruct (inv_reach _ _ _ R) as [B Fi Sv Te Ns Nd Tm Ki Ex I1 I2 IF]. specialize (I1 n). specialize (I2 n).
  unfold C1, C2 in *. destruct (n <? nextname s + length (pending s)); lia.
Qed.

(* quiescent: the loop is at its head with nothing pending, waiting or submitted *)
Definition quiescent (s : st) : Prop := at_ s = PLoop /\ pending s = [] /\ waiting s = [] /\ jobs s = [].

Lemma complete_l stream lf s : reach max_jobs continuation (init stream lf) s -> quiescent s ->
  folders s = [] /\
  forall n, n < nextname s -> cnt n (dropped s) = 0 -> nskip n s = 0 -> nsub n s = 1 /\ nfin n s = 1.
Proof.
  intros R (P & PE & W & J). destruct (inv_reach _ _ _ R) as [B Fi Sv Te Ns Nd Tm Ki Ex I1 I2 IF]. split.
  - apply cnt_zero_nil. intros f. specialize (IF f). unfold CF, saved_jobs, saved_waiting in IF. rewrite P, W, J in IF. cbn in IF. lia.
  - intros n Hn HD HS. specialize (I1 n). specialize (I2 n). unfold C1, C2, pend, saved_jobs, saved_waiting in *.
    rewrite P, PE, W, J in *. cbn [length map cnt pc_names names_of] in *. replace (nextname s + 0) with (nextname s) in I1 by lia.
    destruct (Nat.ltb_spec n (nextname s)); [|lia]. destruct (Nat.leb_spec (nextname s) n); [lia|]. cbn [andb] in I1. lia.
Qed.

(* with continuation nothing is ever dropped: a resumed run loses no job *)
Lemma resume_l stream lf s : continuation = true -> reach max_jobs continuation (init stream lf) s -> quiescent s ->
  folders s = [] /\ forall n, n < nextname s -> nskip n s = 0 -> nsub n s = 1 /\ nfin n s = 1.
Proof.
  intros CO R Q. destruct (complete_l stream lf s R Q) as [F C]. split; [exact F|]. intros n Hn HS. apply C; try assumption.
  rewrite (i_nodrop _ _ _ (inv_reach _ _ _ R) CO). reflexivity.
Qed.

(* clean shutdown without continuation *)
Lemma clean_l stream lf s : continuation = false -> reach max_jobs continuation (init stream lf) s -> at_ s = PExit ->
  jobs s = [] /\ waiting s = [] /\ folders s = [] /\ forall n, nsub n s = nfin n s.
Proof.
  intros CO R P. destruct (inv_reach _ _ _ R) as [B Fi Sv Te Ns Nd Tm Ki Ex I1 I2 IF]. destruct (Ex P) as [J W].
  pose proof (Ns CO) as SN. split; [exact J|]. split; [exact W|]. split.
  - apply cnt_zero_nil. intros f. specialize (IF f). unfold CF, saved_jobs, saved_waiting in IF. rewrite P, W, J, SN in IF. cbn in IF. lia.
  - intros n. specialize (I2 n). unfold C2, saved_jobs in I2. rewrite P, J, SN in I2. cbn in I2. lia.
Qed.

(* shutdown with continuation: everything outstanding is in the pickle *)
Lemma saved_l stream lf s : continuation = true -> reach max_jobs continuation (init stream lf) s -> at_ s = PExit ->
  jobs s = [] /\ forall n, nsub n s = nfin n s + cnt n (names_of (saved_jobs s)).
Proof.
  intros CO R P. destruct (inv_reach _ _ _ R) as [B Fi Sv Te Ns Nd Tm Ki Ex I1 I2 IF]. destruct (Ex P) as [J W].
  split; [exact J|]. intros n. specialize (I2 n). unfold C2 in I2. rewrite J in I2. cbn in I2. lia.
Qed.

(* every temporary folder that exists belongs to a live job (no leak at any time) *)
Lemma folders_l stream lf s f : reach max_jobs continuation (init stream lf) s -> CF f s.
Proof. intros R. apply (i_cf _ _ _ (inv_reach _ _ _ R)). Qed.

(* the deterministic driver used by the correspondence check only visits reachable states *)
Lemma run_reach s0 fuel k : forall s, reach max_jobs continuation s0 s -> reach max_jobs continuation s0 (run max_jobs continuation fuel k s).
Proof.
  induction fuel as [|fuel IH]; intros s R; cbn [run]; [exact R|].
  destruct (at_ s); try exact R; apply IH; apply r_step; destruct (Nat.eqb (length (trace s)) k); try exact R; apply r_stop; exact R.
Qed.
End Thm.
