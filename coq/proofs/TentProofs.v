(* C13/C12: the binned triangle average conserves the weight of every non-flat triangle whose frequencies lie inside the axis (Reals). *)
Require Import Sop.model.TentR.

Definition clamp (t lo hi : R) : R := minn (maxn t lo) hi.
Definition G1 (f0 f1 t : R) : R := sqn (clamp t f0 f1 - f0) / 2.
Definition G2 (f1 f2 t : R) : R := - sqn (f2 - clamp t f1 f2) / 2.

Lemma clip3 x a b : a <= b -> (x <= a /\ clipn x a b = a) \/ (a <= x <= b /\ clipn x a b = x) \/ (b <= x /\ clipn x a b = b).
Proof.
  intros H. unfold clipn, minn, maxn, leb. destruct (Rle_dec x a); cbv beta iota.
  - destruct (Rle_dec a b); cbv beta iota; [left; split; [assumption|reflexivity]|lra].
  - destruct (Rle_dec x b); cbv beta iota; [right; left; split; [lra|reflexivity]|right; right; split; [lra|reflexivity]].
Qed.
Ltac c3 x a b H := destruct (clip3 x a b H) as [[? ->]|[[? ->]|[? ->]]].

Lemma term1_tele f0 f1 a b : f0 <= f1 -> a <= b ->
  sqn (clipn f1 a b - f0) - sqn (clipn f0 a b - f0) = 2 * (G1 f0 f1 b - G1 f0 f1 a).
Proof.
  intros H01 Hab. unfold G1, clamp. change (minn (maxn b f0) f1) with (clipn b f0 f1). change (minn (maxn a f0) f1) with (clipn a f0 f1). unfold sqn.
  c3 f1 a b Hab; c3 f0 a b Hab; c3 b f0 f1 H01; c3 a f0 f1 H01; try lra; nra.
Qed.
Lemma term2_tele f1 f2 a b : f1 <= f2 -> a <= b ->
  sqn (f2 - clipn f1 a b) - sqn (f2 - clipn f2 a b) = 2 * (G2 f1 f2 b - G2 f1 f2 a).
Proof.
  intros H12 Hab. unfold G2, clamp. change (minn (maxn b f1) f2) with (clipn b f1 f2). change (minn (maxn a f1) f2) with (clipn a f1 f2). unfold sqn.
  c3 f1 a b Hab; c3 f2 a b Hab; c3 b f1 f2 H12; c3 a f1 f2 H12; try lra; nra.
Qed.

Lemma contrib_tele f0 f1 f2 a b : f0 <= f1 -> f1 <= f2 -> f0 < f2 -> a <= b ->
  contrib f0 f1 f2 a b = slope ((f2 - f0) * (f1 - f0)) * (G1 f0 f1 b - G1 f0 f1 a) + slope ((f2 - f0) * (f2 - f1)) * (G2 f1 f2 b - G2 f1 f2 a).
Proof.
  intros H01 H12 H02 Hab. unfold contrib.
  destruct (eqb f0 f2) eqn:FL; [bools; lra|].
  pose proof (term1_tele f0 f1 a b H01 Hab) as T1. pose proof (term2_tele f1 f2 a b H12 Hab) as T2.
  destruct (ltb b f0 || ltb f2 a) eqn:GU.
  - (* the guard only fires where both telescoped differences vanish *)
    assert (Z1: G1 f0 f1 b - G1 f0 f1 a = 0 /\ G2 f1 f2 b - G2 f1 f2 a = 0).
    { apply orb_true_iff in GU. unfold G1, G2, clamp. change (minn (maxn b f0) f1) with (clipn b f0 f1). change (minn (maxn a f0) f1) with (clipn a f0 f1).
      change (minn (maxn b f1) f2) with (clipn b f1 f2). change (minn (maxn a f1) f2) with (clipn a f1 f2). unfold sqn.
      destruct GU as [GU|GU]; bools; c3 b f0 f1 H01; c3 a f0 f1 H01; c3 b f1 f2 H12; c3 a f1 f2 H12; split; try lra; nra. }
    destruct Z1 as [Z1 Z2]. rewrite Z1, Z2. unfold of_Z. lra.
  - rewrite T1, T2. unfold of_Z. lra.
Qed.

Fixpoint sorted_from (e0 : R) (edges : list R) : Prop :=
  match edges with [] => True | e1 :: rest => e0 <= e1 /\ sorted_from e1 rest end.
Fixpoint last_of (e0 : R) (edges : list R) : R := match edges with [] => e0 | e1 :: rest => last_of e1 rest end.

Lemma total_tele f0 f1 f2 : f0 <= f1 -> f1 <= f2 -> f0 < f2 -> forall edges e0, sorted_from e0 edges ->
  total f0 f1 f2 e0 edges = slope ((f2 - f0) * (f1 - f0)) * (G1 f0 f1 (last_of e0 edges) - G1 f0 f1 e0)
                          + slope ((f2 - f0) * (f2 - f1)) * (G2 f1 f2 (last_of e0 edges) - G2 f1 f2 e0).
Proof.
  intros H01 H12 H02. induction edges as [|e1 rest IH]; intros e0 S; cbn [total last_of].
  - unfold of_Z. lra.
  - destruct S as [S1 S2]. rewrite (IH e1 S2), (contrib_tele f0 f1 f2 e0 e1 H01 H12 H02 S1). lra.
Qed.

(* conservation: the bins cover [f0, f2] and the triangle is not flat *)
Lemma tent_conserves_l f0 f1 f2 e0 edges : f0 <= f1 -> f1 <= f2 -> f0 < f2 -> sorted_from e0 edges -> e0 <= f0 -> f2 <= last_of e0 edges ->
  total f0 f1 f2 e0 edges = 1.
Proof.
  intros H01 H12 H02 S L U. rewrite (total_tele f0 f1 f2 H01 H12 H02 edges e0 S).
  set (eK := last_of e0 edges) in *.
  assert (A1: G1 f0 f1 eK = sqn (f1 - f0) / 2) by (unfold G1, clamp; change (minn (maxn eK f0) f1) with (clipn eK f0 f1); unfold sqn; c3 eK f0 f1 H01; try lra; nra).
  assert (A0: G1 f0 f1 e0 = 0) by (unfold G1, clamp; change (minn (maxn e0 f0) f1) with (clipn e0 f0 f1); unfold sqn; c3 e0 f0 f1 H01; try lra; nra).
  assert (B1: G2 f1 f2 eK = 0) by (unfold G2, clamp; change (minn (maxn eK f1) f2) with (clipn eK f1 f2); unfold sqn; c3 eK f1 f2 H12; try lra; nra).
  assert (B0: G2 f1 f2 e0 = - sqn (f2 - f1) / 2) by (unfold G2, clamp; change (minn (maxn e0 f1) f2) with (clipn e0 f1 f2); unfold sqn; c3 e0 f1 f2 H12; try lra; nra).
  rewrite A1, A0, B1, B0. unfold slope, eqb, of_Z, sqn. unfold num in *.
  destruct (Req_EM_T ((f2 - f0) * (f1 - f0)) 0) as [E1|N1]; destruct (Req_EM_T ((f2 - f0) * (f2 - f1)) 0) as [E2|N2].
  - exfalso. assert (f1 = f0) by nra. assert (f2 = f1) by nra. lra.
  - assert (f1 = f0) by nra. subst f1. field. lra.
  - assert (f2 = f1) by nra. subst f2. field. lra.
  - field. split; nra.
Qed.

(* a flat triangle (three equal frequencies) is a delta function: its whole weight goes in the one bin [a, b) that holds the frequency *)
Lemma flat_contrib f a b : contrib f f f a b = if leb a f && ltb f b then 1 else 0.
Proof. unfold contrib, eqb, of_Z. destruct (Req_EM_T f f) as [_|N]; [reflexivity|contradiction]. Qed.
Lemma flat_zero_after f : forall edges e0, sorted_from e0 edges -> f < e0 -> total f f f e0 edges = 0.
Proof.
  induction edges as [|e1 rest IH]; intros e0 S L; cbn [total]; [unfold of_Z; lra|]. destruct S as [S1 S2].
  rewrite flat_contrib, (IH e1 S2 ltac:(lra)). destruct (leb e0 f) eqn:E; bools; cbn [andb]; lra.
Qed.
Lemma flat_conserves_l f : forall edges e0, sorted_from e0 edges -> e0 <= f -> f < last_of e0 edges -> total f f f e0 edges = 1.
Proof.
  induction edges as [|e1 rest IH]; intros e0 S L U; cbn [total last_of] in *; [lra|]. destruct S as [S1 S2]. rewrite flat_contrib.
  destruct (leb e0 f) eqn:E; bools; [|lra]. destruct (ltb f e1) eqn:E2; bools; cbn [andb].
  - rewrite (flat_zero_after f rest e1 S2 E2). lra.
  - rewrite (IH e1 S2 E2 U). lra.
Qed.

(* ---- C12: every bin receives a non-negative amount, and nothing outside [f0, f2] ---- *)
Lemma slope_nonneg d : 0 <= d -> 0 <= slope d.
Proof.
  intros H. unfold slope, eqb, of_Z. destruct (Req_EM_T d 0) as [E|N]; [lra|]. unfold Rdiv. apply Rmult_le_pos; [lra|]. left. apply Rinv_0_lt_compat. lra.
Qed.
Lemma G1_mono f0 f1 a b : f0 <= f1 -> a <= b -> G1 f0 f1 a <= G1 f0 f1 b.
Proof.
  intros H01 Hab. unfold G1, clamp. change (minn (maxn b f0) f1) with (clipn b f0 f1). change (minn (maxn a f0) f1) with (clipn a f0 f1). unfold sqn.
  c3 b f0 f1 H01; c3 a f0 f1 H01; try lra; nra.
Qed.
Lemma G2_mono f1 f2 a b : f1 <= f2 -> a <= b -> G2 f1 f2 a <= G2 f1 f2 b.
Proof.
  intros H12 Hab. unfold G2, clamp. change (minn (maxn b f1) f2) with (clipn b f1 f2). change (minn (maxn a f1) f2) with (clipn a f1 f2). unfold sqn.
  c3 b f1 f2 H12; c3 a f1 f2 H12; try lra; nra.
Qed.
Lemma contrib_nonneg f0 f1 f2 a b : f0 <= f1 -> f1 <= f2 -> a <= b -> 0 <= contrib f0 f1 f2 a b.
Proof.
  intros H01 H12 Hab. destruct (Rle_lt_or_eq_dec f0 f2 ltac:(lra)) as [LT|EQ].
  - rewrite (contrib_tele f0 f1 f2 a b H01 H12 LT Hab).
    pose proof (slope_nonneg ((f2 - f0) * (f1 - f0)) ltac:(nra)) as S1. pose proof (slope_nonneg ((f2 - f0) * (f2 - f1)) ltac:(nra)) as S2.
    pose proof (G1_mono f0 f1 a b H01 Hab). pose proof (G2_mono f1 f2 a b H12 Hab). nra.
  - assert (f1 = f0) by lra. subst f1 f2. rewrite flat_contrib. destruct (leb a f0 && ltb f0 b); lra.
Qed.
Lemma contrib_support f0 f1 f2 a b : f0 <= f1 -> f1 <= f2 -> a <= b -> b <= f0 \/ f2 <= a -> f0 < f2 \/ b < f0 \/ f2 < a -> contrib f0 f1 f2 a b = 0.
Proof.
  intros H01 H12 Hab OUT ND. destruct (Rle_lt_or_eq_dec f0 f2 ltac:(lra)) as [LT|EQ].
  - rewrite (contrib_tele f0 f1 f2 a b H01 H12 LT Hab).
    assert (Z1: G1 f0 f1 b - G1 f0 f1 a = 0 /\ G2 f1 f2 b - G2 f1 f2 a = 0).
    { unfold G1, G2, clamp. change (minn (maxn b f0) f1) with (clipn b f0 f1). change (minn (maxn a f0) f1) with (clipn a f0 f1).
      change (minn (maxn b f1) f2) with (clipn b f1 f2). change (minn (maxn a f1) f2) with (clipn a f1 f2). unfold sqn.
      destruct OUT as [O|O]; c3 b f0 f1 H01; c3 a f0 f1 H01; c3 b f1 f2 H12; c3 a f1 f2 H12; split; try lra; nra. }
    destruct Z1 as [-> ->]. lra.
  - assert (f1 = f0) by lra. subst f1 f2. rewrite flat_contrib. destruct (leb a f0) eqn:E1; destruct (ltb f0 b) eqn:E2; bools; cbn [andb]; lra.
Qed.
