(* C13: the TriAvg orientation set of mode 'sphere' is the set of integer points of the octahedron surface |x| + |y| + |z| = N (normalised), with a
   weight that depends on the point only through (|x|, |y|, |z|) up to order (the code uses |r|^-3).  For ANY such weight, the weighted sum of a
   quadratic form n.T.n over the set is (trace T) times one number; hence the weighted average of every traceless rank-2 function vanishes exactly,
   for every N.  (Reals for the sums; the point set over Z.) *)
From Coq Require Import ZArith List Reals Lra Lia Permutation.
Import ListNotations.

Definition pt := (Z * Z * Z)%type.
Definition zr (N : Z) : list Z := map (fun k => Z.of_nat k - N)%Z (seq 0 (Z.to_nat (2 * N + 1))).           (* -N .. N *)
Definition box (N : Z) : list pt := flat_map (fun x => flat_map (fun y => map (fun z => (x, y, z)) (zr N)) (zr N)) (zr N).
Definition on_oct (N : Z) (r : pt) : bool := let '(x, y, z) := r in (Z.abs x + Z.abs y + Z.abs z =? N)%Z.
Definition oct (N : Z) : list pt := filter (on_oct N) (box N).

Lemma zr_In N x : (0 <= N)%Z -> In x (zr N) <-> (- N <= x <= N)%Z.
Proof.
  intros HN. unfold zr. rewrite in_map_iff. split.
  - intros (k & <- & I). apply in_seq in I. lia.
  - intros H. exists (Z.to_nat (x + N)). split; [lia|]. apply in_seq. lia.
Qed.
Lemma zr_NoDup N : NoDup (zr N).
Proof. unfold zr. apply FinFun.Injective_map_NoDup; [intros a b E; lia|apply seq_NoDup]. Qed.
Lemma box_In N x y z : (0 <= N)%Z -> In (x, y, z) (box N) <-> (- N <= x <= N /\ - N <= y <= N /\ - N <= z <= N)%Z.
Proof.
  intros HN. unfold box. rewrite in_flat_map. split.
  - intros (x0 & Ix & I). rewrite in_flat_map in I. destruct I as (y0 & Iy & I). apply in_map_iff in I. destruct I as (z0 & E & Iz). injection E as <- <- <-.
    rewrite zr_In in Ix, Iy, Iz by exact HN. tauto.
  - intros (Hx & Hy & Hz). exists x. split; [apply zr_In; assumption|]. rewrite in_flat_map. exists y. split; [apply zr_In; assumption|].
    apply in_map_iff. exists z. split; [reflexivity|apply zr_In; assumption].
Qed.
Lemma NoDup_flat_map {A B} (f : A -> list B) (l : list A) : NoDup l -> (forall a, In a l -> NoDup (f a)) ->
  (forall a a' b, In a l -> In a' l -> In b (f a) -> In b (f a') -> a = a') -> NoDup (flat_map f l).
Proof.
  induction l as [|a l IH]; intros ND Hf Hd; cbn [flat_map]; [constructor|]. inversion ND as [|? ? NI ND']; subst.
  assert (Q: forall l1 l2 : list B, NoDup l1 -> NoDup l2 -> (forall b, In b l1 -> ~ In b l2) -> NoDup (l1 ++ l2)).
  { induction l1 as [|b l1 IH1]; intros l2 N1 N2 D; cbn [app]; [exact N2|]. inversion N1; subst. constructor.
    - intros I. apply in_app_or in I. destruct I as [I|I]; [contradiction|]. apply (D b); [left; reflexivity|exact I].
    - apply IH1; [assumption|assumption|intros b' I'; apply D; right; exact I']. }
  apply Q.
  - apply Hf. left. reflexivity.
  - apply IH; [exact ND'|intros a' I'; apply Hf; right; exact I'|intros a1 a2 b I1 I2; apply Hd; right; assumption].
  - intros b Ib I2. rewrite in_flat_map in I2. destruct I2 as (a' & Ia' & Ib'). assert (a = a') by (apply (Hd a a' b); [left; reflexivity|right; exact Ia'|exact Ib|exact Ib']).
    subst. contradiction.
Qed.
Lemma box_NoDup N : NoDup (box N).
Proof.
  unfold box. apply NoDup_flat_map; [apply zr_NoDup| |].
  - intros x _. apply NoDup_flat_map; [apply zr_NoDup| |].
    + intros y _. apply FinFun.Injective_map_NoDup; [intros a b E; congruence|apply zr_NoDup].
    + intros y y' b _ _ I1 I2. apply in_map_iff in I1. apply in_map_iff in I2. destruct I1 as (z1 & <- & _). destruct I2 as (z2 & E & _). congruence.
  - intros x x' b _ _ I1 I2. rewrite in_flat_map in I1, I2. destruct I1 as (y1 & _ & I1). destruct I2 as (y2 & _ & I2).
    apply in_map_iff in I1. apply in_map_iff in I2. destruct I1 as (z1 & <- & _). destruct I2 as (z2 & E & _). congruence.
Qed.
Lemma oct_In N x y z : (0 <= N)%Z -> In (x, y, z) (oct N) <-> (Z.abs x + Z.abs y + Z.abs z = N)%Z.
Proof.
  intros HN. unfold oct. rewrite filter_In, box_In by exact HN. unfold on_oct. rewrite Z.eqb_eq. split; [tauto|]. intros H. split; [lia|exact H].
Qed.
Lemma oct_NoDup N : NoDup (oct N).
Proof. unfold oct. apply NoDup_filter. apply box_NoDup. Qed.

(* ---- symmetries ---- *)
Definition flipx (r : pt) : pt := let '(x, y, z) := r in ((- x)%Z, y, z).
Definition flipy (r : pt) : pt := let '(x, y, z) := r in (x, (- y)%Z, z).
Definition flipz (r : pt) : pt := let '(x, y, z) := r in (x, y, (- z)%Z).
Definition swapxy (r : pt) : pt := let '(x, y, z) := r in (y, x, z).
Definition swapyz (r : pt) : pt := let '(x, y, z) := r in (x, z, y).
(* a symmetry of a point list: an involution that maps the list into itself *)
Definition symL (L : list pt) (g : pt -> pt) : Prop := (forall r, g (g r) = r) /\ forall r, In r L -> In (g r) L.
Lemma perm_of_sym L g : NoDup L -> symL L g -> Permutation (map g L) L.
Proof.
  intros ND [Inv Cl]. apply NoDup_Permutation.
  - apply FinFun.Injective_map_NoDup; [intros a b E; rewrite <- (Inv a), <- (Inv b), E; reflexivity|exact ND].
  - exact ND.
  - intros r. rewrite in_map_iff. split.
    + intros (s & <- & I). apply Cl; assumption.
    + intros I. exists (g r). split; [apply Inv|apply Cl; assumption].
Qed.
(* the upper half z >= 0 of the octahedron surface: the orientation set of mode 'hemisphere' *)
Definition hemi (N : Z) : list pt := filter (fun r => (0 <=? snd r)%Z) (oct N).
Lemma hemi_In N x y z : (0 <= N)%Z -> In (x, y, z) (hemi N) <-> (Z.abs x + Z.abs y + Z.abs z = N /\ 0 <= z)%Z.
Proof. intros HN. unfold hemi. rewrite filter_In, oct_In by exact HN. cbn [snd]. rewrite Z.leb_le. tauto. Qed.
Lemma hemi_NoDup N : NoDup (hemi N).
Proof. apply NoDup_filter, oct_NoDup. Qed.
Lemma inv_flipx r : flipx (flipx r) = r. Proof. destruct r as [[x y] z]. cbn. f_equal. f_equal. lia. Qed.
Lemma inv_flipy r : flipy (flipy r) = r. Proof. destruct r as [[x y] z]. cbn. f_equal. f_equal. lia. Qed.
Lemma inv_flipz r : flipz (flipz r) = r. Proof. destruct r as [[x y] z]. cbn. f_equal. lia. Qed.
Lemma inv_swapxy r : swapxy (swapxy r) = r. Proof. destruct r as [[x y] z]. reflexivity. Qed.
Lemma inv_swapyz r : swapyz (swapyz r) = r. Proof. destruct r as [[x y] z]. reflexivity. Qed.
Lemma oct_syms N : (0 <= N)%Z -> symL (oct N) flipx /\ symL (oct N) flipy /\ symL (oct N) flipz /\ symL (oct N) swapxy /\ symL (oct N) swapyz.
Proof.
  intros HN. repeat split; try apply inv_flipx; try apply inv_flipy; try apply inv_flipz; try apply inv_swapxy; try apply inv_swapyz;
    intros [[x y] z]; cbn [flipx flipy flipz swapxy swapyz]; rewrite !oct_In by exact HN; lia.
Qed.
Lemma hemi_syms N : (0 <= N)%Z -> symL (hemi N) flipx /\ symL (hemi N) flipy /\ symL (hemi N) swapxy.
Proof.
  intros HN. repeat split; try apply inv_flipx; try apply inv_flipy; try apply inv_swapxy;
    intros [[x y] z]; cbn [flipx flipy swapxy]; rewrite !hemi_In by exact HN; lia.
Qed.

(* ---- sums over the point set ---- *)
Local Open Scope R_scope.
Definition rsum (h : pt -> R) (l : list pt) : R := fold_right (fun r a => h r + a) 0 l.
Lemma rsum_perm h l l' : Permutation l l' -> rsum h l = rsum h l'.
Proof. intros P. unfold rsum. induction P; cbn [fold_right]; try lra; congruence. Qed.
Lemma rsum_map h g l : rsum h (map g l) = rsum (fun r => h (g r)) l.
Proof. unfold rsum. induction l as [|r l IH]; cbn [map fold_right]; [reflexivity|rewrite IH; reflexivity]. Qed.
Lemma rsum_ext h1 h2 l : (forall r, h1 r = h2 r) -> rsum h1 l = rsum h2 l.
Proof. intros E. unfold rsum. induction l as [|r l IH]; cbn [fold_right]; [reflexivity|rewrite IH, E; reflexivity]. Qed.
Lemma rsum_plus h1 h2 l : rsum (fun r => h1 r + h2 r) l = rsum h1 l + rsum h2 l.
Proof. unfold rsum. induction l as [|r l IH]; cbn [fold_right]; [lra|rewrite IH; lra]. Qed.
Lemma rsum_scal c h l : rsum (fun r => c * h r) l = c * rsum h l.
Proof. unfold rsum. induction l as [|r l IH]; cbn [fold_right]; [lra|rewrite IH; lra]. Qed.
Lemma rsum_inv h g L : NoDup L -> symL L g -> rsum h L = rsum (fun r => h (g r)) L.
Proof. intros ND S. rewrite <- (rsum_map h g L). symmetry. apply rsum_perm. apply perm_of_sym; assumption. Qed.

Definition X (r : pt) : R := IZR (fst (fst r)).
Definition Y (r : pt) : R := IZR (snd (fst r)).
Definition Zc (r : pt) : R := IZR (snd r).
Definition wsym (w : pt -> R) : Prop := forall r, w (flipx r) = w r /\ w (flipy r) = w r /\ w (flipz r) = w r /\ w (swapxy r) = w r /\ w (swapyz r) = w r.

Definition wsym3 (w : pt -> R) : Prop := forall r, w (flipx r) = w r /\ w (flipy r) = w r /\ w (swapxy r) = w r.
Lemma wsym_wsym3 w : wsym w -> wsym3 w. Proof. intros W r. destruct (W r) as (A & B & _ & C & _). auto. Qed.

Section Quad.
Variable w : pt -> R.
Variable L : list pt.
Hypothesis ND : NoDup L.
Hypothesis W : wsym3 w.
Hypothesis FX : symL L flipx.
Hypothesis FY : symL L flipy.
Hypothesis SXY : symL L swapxy.
Notation S h := (rsum (fun r => w r * h r) L).

Lemma odd_zero h g : symL L g -> (forall r, w (g r) = w r) -> (forall r, h (g r) = - h r) -> S h = 0.
Proof.
  intros Sg Wg Hg. assert (E: S h = - S h).
  { rewrite (rsum_inv _ g L ND Sg) at 1. transitivity (rsum (fun r => (-1) * (w r * h r)) L); [apply rsum_ext; intros r; rewrite Wg, Hg; lra|rewrite rsum_scal; lra]. }
  lra.
Qed.
Lemma Sxy : S (fun r => X r * Y r) = 0.
Proof. apply (odd_zero _ flipx FX); [intros r; apply W|intros [[x y] z]; unfold X, Y; cbn [flipx fst snd]; rewrite opp_IZR; lra]. Qed.
Lemma Sxz : S (fun r => X r * Zc r) = 0.
Proof. apply (odd_zero _ flipx FX); [intros r; apply W|intros [[x y] z]; unfold X, Zc; cbn [flipx fst snd]; rewrite opp_IZR; lra]. Qed.
Lemma Syz : S (fun r => Y r * Zc r) = 0.
Proof. apply (odd_zero _ flipy FY); [intros r; apply W|intros [[x y] z]; unfold Y, Zc; cbn [flipy fst snd]; rewrite opp_IZR; lra]. Qed.
Lemma Sxx_yy : S (fun r => X r * X r) = S (fun r => Y r * Y r).
Proof. rewrite (rsum_inv _ swapxy L ND SXY). apply rsum_ext. intros [[x y] z]. destruct (W (x, y, z)) as (_ & _ & ->). unfold X, Y. cbn [swapxy fst snd]. reflexivity. Qed.

(* the quadratic form r.T.r of an arbitrary 3x3 matrix *)
Definition qform (t11 t12 t13 t21 t22 t23 t31 t32 t33 : R) (r : pt) : R :=
  X r * (t11 * X r + t12 * Y r + t13 * Zc r) + Y r * (t21 * X r + t22 * Y r + t23 * Zc r) + Zc r * (t31 * X r + t32 * Y r + t33 * Zc r).
(* with the symmetries of the upper half: only the diagonal survives, and x and y weigh the same *)
Lemma quad_sum_axial t11 t12 t13 t21 t22 t23 t31 t32 t33 :
  S (qform t11 t12 t13 t21 t22 t23 t31 t32 t33) = (t11 + t22) * S (fun r => X r * X r) + t33 * S (fun r => Zc r * Zc r).
Proof.
  transitivity (t11 * S (fun r => X r * X r) + t22 * S (fun r => Y r * Y r) + t33 * S (fun r => Zc r * Zc r)
                + (t12 + t21) * S (fun r => X r * Y r) + (t13 + t31) * S (fun r => X r * Zc r) + (t23 + t32) * S (fun r => Y r * Zc r)).
  - rewrite <- !rsum_scal, <- !rsum_plus. apply rsum_ext. intros r. unfold qform. ring.
  - rewrite Sxy, Sxz, Syz, <- Sxx_yy. ring.
Qed.
(* with the swap y <-> z as well (the whole surface): a multiple of the trace *)
Hypothesis SYZ : symL L swapyz.
Hypothesis WYZ : forall r, w (swapyz r) = w r.
Lemma Syy_zz : S (fun r => Y r * Y r) = S (fun r => Zc r * Zc r).
Proof. rewrite (rsum_inv _ swapyz L ND SYZ). apply rsum_ext. intros [[x y] z]. rewrite WYZ. unfold Y, Zc. cbn [swapyz fst snd]. reflexivity. Qed.
Lemma quad_sum t11 t12 t13 t21 t22 t23 t31 t32 t33 :
  S (qform t11 t12 t13 t21 t22 t23 t31 t32 t33) = (t11 + t22 + t33) * S (fun r => X r * X r).
Proof. rewrite quad_sum_axial, <- Syy_zz, <- Sxx_yy. ring. Qed.
End Quad.
