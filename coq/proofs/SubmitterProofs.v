(* C18: invariants of the Submitter transition system over every reachable state: any interleaving of steps, stops (signal handler)
   and restarts, any job stream, lifetimes and max_jobs.  No axioms. *)
From Coq Require Import List Arith Bool Lia.
Import ListNotations.
Require Import Sop.model.Submitter.

Lemma cnt_app n a b : cnt n (a ++ b) = cnt n a + cnt n b.
Proof. induction a as [|x a IH]; cbn [cnt app]; [reflexivity|rewrite IH; lia]. Qed.
Lemma cnt_remove1 g f l : cnt g (remove1 f l) = cnt g l - (if Nat.eqb f g then 1 else 0).
Proof.
  induction l as [|y t IH]; cbn [remove1 cnt]; [destruct (Nat.eqb f g); reflexivity|].
  destruct (Nat.eqb_spec f y) as [E|N].
  - subst. destruct (Nat.eqb y g); lia.
  - cbn [cnt]. rewrite IH. destruct (Nat.eqb_spec y g) as [E2|N2]; destruct (Nat.eqb_spec f g) as [E3|N3]; try lia.
Qed.
Lemma cnt_zero_nil l : (forall f, cnt f l = 0) -> l = [].
Proof. destruct l as [|x t]; [reflexivity|]. intros H. specialize (H x). cbn [cnt] in H. rewrite Nat.eqb_refl in H. lia. Qed.
Lemma names_remove_id n c l j : find_id c l = Some j ->
  cnt n (names_of (remove_id c l)) + (if Nat.eqb (jname j) n then 1 else 0) = cnt n (names_of l).
Proof.
  induction l as [|[k j'] t IH]; cbn [find_id remove_id names_of map cnt snd]; [discriminate|].
  destruct (Nat.eqb c k); intros H.
  - inversion H; subst. fold (names_of t). lia.
  - cbn [names_of map cnt snd]. fold (names_of (remove_id c t)). fold (names_of t). specialize (IH H). lia.
Qed.
Lemma folders_remove_id g c l j : find_id c l = Some j ->
  cnt g (folders_of (remove_id c l)) + (if Nat.eqb (jfolder j) g then 1 else 0) = cnt g (folders_of l).
Proof.
  induction l as [|[k j'] t IH]; cbn [find_id remove_id folders_of map cnt snd]; [discriminate|].
  destruct (Nat.eqb c k); intros H.
  - inversion H; subst. fold (folders_of t). lia.
  - cbn [folders_of map cnt snd]. fold (folders_of (remove_id c t)). fold (folders_of t). specialize (IH H). lia.
Qed.
Lemma length_remove_id c l : length (remove_id c l) <= length l.
Proof. induction l as [|[k j] t IH]; cbn [remove_id length]; [lia|]. destruct (Nat.eqb c k); cbn [length]; lia. Qed.
Lemma names_of_app a b : names_of (a ++ b) = names_of a ++ names_of b.
Proof. apply map_app. Qed.
Lemma folders_of_app a b : folders_of (a ++ b) = folders_of a ++ folders_of b.
Proof. apply map_app. Qed.

Section Inv.
Variable max_jobs : nat.
Variable continuation : bool.

Definition fillphase (p : pc) : bool :=
  match p with PNext | PMk _ _ | PSetup _ _ | PGate _ | PSubmit _ => true | _ => false end.
Definition killphase (p : pc) : bool := match p with PKill | PKillFin | PKillRm _ => true | _ => false end.
Definition termphase (p : pc) : bool := match p with PDrop | PKill | PKillFin | PKillRm _ => true | _ => false end.

Definition pend (n : nat) (s : st) : nat :=
  if (nextname s <=? n) && (n <? nextname s + length (pending s)) then 1 else 0.
(* every job of the stream is in exactly one place *)
Definition C1 (n : nat) (s : st) : Prop :=
  pend n s + cnt n (map jname (waiting s)) + cnt n (pc_names (at_ s)) + cnt n (names_of (jobs s)) + nfin n s + cnt n (dropped s)
  + nskip n s + cnt n (names_of (saved_jobs s)) + cnt n (map jname (saved_waiting s))
  = (if n <? nextname s + length (pending s) then 1 else 0).
(* a submitted job is in the job table, finalised, or saved for the next run *)
Definition C2 (n : nat) (s : st) : Prop :=
  nsub n s = cnt n (names_of (jobs s)) + nfin n s + cnt n (names_of (saved_jobs s)).
(* a temporary folder exists iff it belongs to a job that is waiting, in flight, submitted and not finalised, or saved *)
Definition CF (f : nat) (s : st) : Prop :=
  cnt f (folders s) = cnt f (map jfolder (waiting s)) + cnt f (pc_folders (at_ s)) + cnt f (folders_of (jobs s))
                      + cnt f (folders_of (saved_jobs s)) + cnt f (map jfolder (saved_waiting s)).

Record Inv (s : st) : Prop := {
  i_bound : length (jobs s) <= max_jobs;
  i_fill : fillphase (at_ s) = true -> length (jobs s) < max_jobs;
  i_saved : forall js ws, saved s = Some (js, ws) -> length js <= max_jobs;
  i_test : at_ s = PTest -> running s = false;
  i_nosave : continuation = false -> saved s = None;
  i_nodrop : continuation = true -> dropped s = [];
  i_term : termphase (at_ s) = true -> continuation = false;
  i_kill : killphase (at_ s) = true -> waiting s = [];
  i_exit : at_ s = PExit -> jobs s = [] /\ waiting s = [];
  i_c1 : forall n, C1 n s;
  i_c2 : forall n, C2 n s;
  i_cf : forall f, CF f s
}.

Ltac eqbs := repeat match goal with
  | |- context [Nat.eqb ?a ?b] => destruct (Nat.eqb_spec a b)
  | H : context [Nat.eqb ?a ?b] |- _ => destruct (Nat.eqb_spec a b)
  | |- context [Nat.leb ?a ?b] => destruct (Nat.leb_spec a b)
  | H : context [Nat.leb ?a ?b] |- _ => destruct (Nat.leb_spec a b)
  | |- context [Nat.ltb ?a ?b] => destruct (Nat.ltb_spec a b)
  | H : context [Nat.ltb ?a ?b] |- _ => destruct (Nat.ltb_spec a b)
  end.
Ltac simp := cbn [at_ running nextname pending waiting jobs queue lifes nextid nextfolder folders saved dropped trace
                  set_at emit set_running set_waiting set_jobs set_folders
                  pc_names pc_folders fillphase killphase termphase cnt count map fst snd
                  length app andb] in *.
Ltac unf := unfold C1, C2, CF, pend, nsub, nfin, nskip, saved_jobs, saved_waiting in *.

Lemma inv_init stream lf : Inv (init stream lf).
Proof.
  unfold init. constructor; simp; try (intros; try discriminate; try reflexivity; lia); try (split; reflexivity).
  intros n. unf. simp. eqbs; cbn; lia.
Qed.

Lemma inv_stop s : Inv s -> Inv (stop s).
Proof.
  intros I. destruct I. unfold stop. constructor; simp; auto.
Qed.

Ltac cnt_norm := repeat (rewrite ?cnt_app, ?map_app, ?app_length, ?cnt_remove1 in *; simp).
Ltac rw1 f := repeat match goal with
  | P : f ?s = _ |- context [f ?s] => rewrite P
  | P : f ?s = _, H : context [f ?s] |- _ => rewrite P in H
  end.
Ltac rw := rw1 at_; rw1 waiting; rw1 jobs; rw1 pending; rw1 running; rw1 saved.
Ltac finish :=
  simp; rw; rewrite ?app_length; simp; try solve [intros; try discriminate; try congruence; try lia; eauto];
  try solve [intros; split; try reflexivity; try congruence; eauto].
Ltac cprep I1 I2 IF :=
  let n := fresh "n" in intros n;
  repeat match goal with H : forall x : nat, _ |- _ => specialize (H n) end;
  unf; unfold names_of, folders_of in *; simp; rw; simp; unfold jname, jfolder in *; simp; cnt_norm; eqbs; subst; simp.
Ltac cgoals I1 I2 IF := try solve [ cprep I1 I2 IF; try lia ].
Ltac done I1 I2 IF := solve [constructor; finish; cgoals I1 I2 IF].

Lemma inv_step s : Inv s -> Inv (step max_jobs continuation s).
Proof.
  intros I. destruct I as [B Fi Sv Te Ns Nd Tm Ki Ex I1 I2 IF]. unfold step.
  destruct (at_ s) eqn:P; simp.
  - (* PLoop *) destruct (running s) eqn:R; done I1 I2 IF.
  - (* PTest *) rewrite (Te eq_refl). done I1 I2 IF.
  - (* PFill *) destruct (length (jobs s) <? max_jobs) eqn:LT; [apply Nat.ltb_lt in LT; destruct (waiting s) as [|wj w] eqn:W|]; done I1 I2 IF.
  - (* PNext *) destruct (pending s) as [|ok0 rest] eqn:PE; done I1 I2 IF.
  - (* PMk *) done I1 I2 IF.
  - (* PSetup *) destruct ok; done I1 I2 IF.
  - (* PRm *) done I1 I2 IF.
  - (* PGate *) destruct (running s) eqn:R; done I1 I2 IF.
  - (* PSubmit *) done I1 I2 IF.
  - (* PCheck *) destruct todo as [|[i j] todo]; [|destruct (remaining i (queue s) =? 0)]; done I1 I2 IF.
  - (* PFin *) destruct cs as [|c cs]; [|destruct (find_id c (jobs s)) as [j|] eqn:FI; [pose proof (fun n => names_remove_id n c (jobs s) j FI) as RN; pose proof (fun g => folders_remove_id g c (jobs s) j FI) as RF; pose proof (length_remove_id c (jobs s))|]]; done I1 I2 IF.
  - (* PFinRm *) done I1 I2 IF.
  - (* PTerm *) destruct continuation eqn:CO; done I1 I2 IF.
  - (* PDrop *) destruct (waiting s) as [|wj w] eqn:W; done I1 I2 IF.
  - (* PKill *) assert (SN: saved s = None) by (apply Ns; apply Tm; reflexivity). destruct (jobs s) as [|[i j] js] eqn:J; done I1 I2 IF.
  - (* PKillFin *) assert (SN: saved s = None) by (apply Ns; apply Tm; reflexivity). destruct (jobs s) as [|[i j] js] eqn:J; done I1 I2 IF.
  - (* PKillRm *) done I1 I2 IF.
  - (* PExit *) constructor; rewrite ?P; auto.
Qed.

Lemma inv_restart s : Inv s -> Inv (restart continuation s).
Proof.
  intros I. pose proof I as I'. destruct I as [B Fi Sv Te Ns Nd Tm Ki Ex I1 I2 IF]. unfold restart.
  destruct (at_ s) eqn:P; try exact I'.
  destruct continuation eqn:CO; [|exact I'].
  destruct (Ex eq_refl) as [EJ EW].
  destruct (saved s) as [[js ws]|] eqn:SV.
  - pose proof (Sv js ws eq_refl). done I1 I2 IF.
  - done I1 I2 IF.
Qed.

Lemma inv_reach stream lf s : reach max_jobs continuation (init stream lf) s -> Inv s.
Proof.
  induction 1 as [|s R IH|s R IH|s R IH]; [apply inv_init|apply inv_step|apply inv_stop|apply inv_restart]; exact IH.
Qed.

End Inv.
