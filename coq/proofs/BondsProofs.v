(* C04: the bond list is exactly the vdW contact set (all images), and the molecule traversal partitions the atoms into sets closed under bonding. *)
From Coq Require Import ZArith List Bool Lia Permutation.
Import ListNotations.
Require Import Sop.model.Lattice Sop.proofs.LatticeProofs Sop.model.Bonds.
Local Open Scope Z_scope.

Lemma zseq_In lo n x : In x (zseq lo n) <-> lo <= x < lo + n.
Proof.
  unfold zseq. rewrite in_map_iff. split.
  - intros (k & E & I). apply in_seq in I. lia.
  - intros H. exists (Z.to_nat (x - lo)). split; [lia|]. apply in_seq. lia.
Qed.
Lemma triu_In N i j : In (i, j) (triu N) <-> 0 <= i < j /\ j < N.
Proof.
  unfold triu. rewrite in_flat_map. split.
  - intros (i' & Ii & Ij). apply zseq_In in Ii. apply in_map_iff in Ij. destruct Ij as (j' & E & Ij). inversion E; subst. apply zseq_In in Ij. lia.
  - intros [H1 H2]. exists i. split; [apply zseq_In; lia|]. apply in_map. apply zseq_In. lia.
Qed.
Lemma zmaxl_spec l : forall a, a <= fold_left Z.max l a /\ forall x, In x l -> x <= fold_left Z.max l a.
Proof.
  induction l as [|y t IH]; intros a; cbn [fold_left]; [split; [lia|intros x []]|].
  destruct (IH (Z.max a y)) as [A B]. split; [lia|]. intros x [E|I]; [subst; lia|apply B; exact I].
Qed.
Lemma radius_le radii i : Forall (fun r => 0 <= r) radii -> 0 <= nthZ radii i 0 <= zmaxl radii.
Proof.
  intros F. unfold nthZ, zmaxl. destruct (zmaxl_spec radii 0) as [A B].
  destruct (nth_in_or_default (Z.to_nat i) radii 0) as [I|E].
  - split; [rewrite Forall_forall in F; apply F; exact I|apply B; exact I].
  - rewrite E. lia.
Qed.
Lemma norm2_vneg v : norm2 (vneg v) = norm2 v.
Proof. destruct v as [[a b] c]. cbv [norm2 dotv vneg]. ring. Qed.
Lemma admissible_vneg pbc n : admissible pbc (vneg n) <-> admissible pbc n.
Proof. destruct pbc as [[p1 p2] p3], n as [[a b] c]. cbn [admissible vneg]. split; intros (A & B & C); repeat split; intros H; [specialize (A H)|specialize (B H)|specialize (C H)|specialize (A H)|specialize (B H)|specialize (C H)]; lia. Qed.
Lemma vneg_vneg v : vneg (vneg v) = v.
Proof. destruct v as [[a b] c]. cbv [vneg]. repeat f_equal; ring. Qed.
Lemma image_flip L pi pj n : vadd (vsub pj pi) (comb (vneg n) L) = vneg (vadd (vsub pi pj) (comb n L)).
Proof.
  destruct L as [[[[a1 a2] a3] [[b1 b2] b3]] [[c1 c2] c3]], pi as [[x1 x2] x3], pj as [[y1 y2] y3], n as [[n1 n2] n3].
  cbv [vadd vsub comb smul vneg]. repeat f_equal; ring.
Qed.

Lemma flip_norm L pi pj c : norm2 (vadd (vsub pi pj) (comb (vneg c) L)) = norm2 (vadd (vsub pj pi) (comb c L)).
Proof.
  destruct L as [[[[a1 a2] a3] [[b1 b2] b3]] [[c1 c2] c3]], pi as [[x1 x2] x3], pj as [[y1 y2] y3], c as [[n1 n2] n3].
  cbv [vadd vsub comb smul vneg norm2 dotv]. ring.
Qed.

(* the bond list is exactly: i < j, an admissible cell c, d^2 = |x_j + c L - x_i|^2, 2 d <= R_i + R_j *)
Lemma bonds_exact_l L pbc pos radii i j c d2 : det L <> 0 -> Forall (fun r => 0 <= r) radii ->
  In (i, j, c, d2) (bonds_m L pbc pos radii) <->
  (0 <= i < j /\ j < Z.of_nat (length pos) /\ admissible pbc c /\
   d2 = norm2 (vadd (vsub (nthZ pos j (0,0,0)) (nthZ pos i (0,0,0))) (comb c L)) /\
   4 * d2 <= (nthZ radii i 0 + nthZ radii j 0) * (nthZ radii i 0 + nthZ radii j 0)).
Proof.
  intros HD HR. unfold bonds_m. set (N := Z.of_nat (length pos)). set (prs := triu N).
  set (vs := map (fun p => vsub (nthZ pos (fst p) (0,0,0)) (nthZ pos (snd p) (0,0,0))) prs). set (rmax := zmaxl radii).
  assert (Hr: 0 <= rmax * rmax) by nia.
  rewrite in_flat_map. split.
  - intros ([[w k] n] & IA & IB). apply (all_periodic_spec_l L pbc (rmax * rmax) 1 vs w k n HD Hr ltac:(lia)) in IA.
    destruct IA as (K0 & v & NE & [EW AD] & RR). unfold vs in NE. rewrite nth_error_map in NE.
    destruct (nth_error prs (Z.to_nat k)) as [[i' j']|] eqn:NP; [|discriminate]. cbn in NE. inversion NE; subst v.
    assert (EN: nthZ prs k (0,0) = (i', j')) by (unfold nthZ; apply nth_error_nth; exact NP). rewrite EN in IB.
    destruct (4 * norm2 w <=? (nthZ radii i' 0 + nthZ radii j' 0) * (nthZ radii i' 0 + nthZ radii j' 0)) eqn:T; [|destruct IB].
    destruct IB as [E|[]]. inversion E; subst. apply Z.leb_le in T.
    apply nth_error_In in NP. apply triu_In in NP. split; [lia|]. split; [lia|]. split; [apply (proj2 (admissible_vneg pbc n)); exact AD|].
    rewrite image_flip, norm2_vneg. split; [reflexivity|exact T].
  - intros (Hi & Hj & AD & ED & T).
    assert (IP: In (i, j) prs) by (apply triu_In; unfold N; lia). apply In_nth_error in IP. destruct IP as (kn & NP).
    set (n := vneg c). set (w := vadd (vsub (nthZ pos i (0,0,0)) (nthZ pos j (0,0,0))) (comb n L)).
    assert (EW: norm2 w = d2). { unfold w, n. rewrite ED. apply flip_norm. }
    exists (w, Z.of_nat kn, n). split.
    + apply (all_periodic_spec_l L pbc (rmax * rmax) 1 vs w (Z.of_nat kn) n HD Hr ltac:(lia)). split; [lia|].
      exists (vsub (nthZ pos i (0,0,0)) (nthZ pos j (0,0,0))). rewrite Nat2Z.id. unfold vs. rewrite nth_error_map, NP. cbn [option_map fst snd].
      split; [reflexivity|]. split; [split; [reflexivity|unfold n; apply (proj2 (admissible_vneg pbc c)); exact AD]|].
      rewrite EW. pose proof (radius_le radii i HR). pose proof (radius_le radii j HR). fold rmax in H, H0. nia.
    + assert (EN: nthZ prs (Z.of_nat kn) (0,0) = (i, j)) by (unfold nthZ; rewrite Nat2Z.id; apply nth_error_nth; exact NP). rewrite EN, EW.
      replace (4 * d2 <=? (nthZ radii i 0 + nthZ radii j 0) * (nthZ radii i 0 + nthZ radii j 0)) with true by (symmetry; apply Z.leb_le; exact T).
      left. unfold n. rewrite vneg_vneg. reflexivity.
Qed.

(* the bond matrix is the symmetric projection of the bond list onto atom pairs *)
Lemma bond_matrix_l N b i j : bond_matrix N b i j = bond_matrix N b j i /\
  (bond_matrix N b i j = true <-> exists c d, In (i, j, c, d) b \/ In (j, i, c, d) b).
Proof.
  unfold bond_matrix. split.
  - induction b as [|[[[a c] cc] d] t IH]; cbn [existsb]; [reflexivity|rewrite IH; f_equal; apply orb_comm].
  - rewrite existsb_exists. split.
    + intros ([[[a c] cc] d] & I & H). apply orb_true_iff in H. destruct H as [H|H]; apply andb_true_iff in H; destruct H as [H1 H2]; apply Z.eqb_eq in H1, H2; subst; exists cc, d; [left|right]; exact I.
    + intros (c & d & [I|I]); [exists (i, j, c, d)|exists (j, i, c, d)]; (split; [exact I|]); rewrite !Z.eqb_refl; cbn; [reflexivity|apply orb_true_r].
Qed.

(* ---------------- molecules: every atom belongs to exactly one molecule ---------------- *)
Lemma memz_In x l : memz x l = true <-> In x l.
Proof.
  unfold memz. rewrite existsb_exists. split; [intros (y & I & E); apply Z.eqb_eq in E; subst; exact I|intros I; exists x; split; [exact I|apply Z.eqb_refl]].
Qed.
Lemma remove1z_perm a u : In a u -> Permutation (a :: remove1z a u) u.
Proof.
  induction u as [|y t IH]; intros I; [destruct I|]. cbn [remove1z]. destruct (Z.eqb_spec a y) as [E|NE].
  - subst. apply Permutation_refl.
  - destruct I as [E|I]; [congruence|]. eapply Permutation_trans; [apply perm_swap|]. apply perm_skip. apply IH. exact I.
Qed.
Definition qat (q : list (Z * vec)) : list Z := map fst q.
Lemma visit_perm c1 q u l : let '(q', u') := visit c1 (q, u) l in Permutation (qat q' ++ u') (qat q ++ u) /\ (length q <= length q')%nat.
Proof.
  unfold visit. destruct l as [a cl]. destruct (memz a u) eqn:M; [|split; [apply Permutation_refl|lia]].
  apply memz_In in M. split; [|rewrite app_length; cbn; lia]. unfold qat. rewrite map_app, <- app_assoc. cbn [map fst app]. apply Permutation_app_head. apply remove1z_perm. exact M.
Qed.
Lemma fold_visit_perm c1 links : forall q u, let '(q', u') := fold_left (visit c1) links (q, u) in Permutation (qat q' ++ u') (qat q ++ u) /\ (length q <= length q')%nat.
Proof.
  induction links as [|l t IH]; intros q u; cbn [fold_left]; [split; [apply Permutation_refl|lia]|].
  pose proof (visit_perm c1 q u l) as V. destruct (visit c1 (q, u) l) as [q1 u1]. specialize (IH q1 u1).
  destruct (fold_left (visit c1) t (q1, u1)) as [q' u']. destruct V as [V1 V2]. destruct IH as [I1 I2]. split; [eapply Permutation_trans; [exact I1|exact V1]|lia].
Qed.

Lemma bfs_perm b : forall fuel queue unsorted acc, (length queue + length unsorted <= fuel)%nat ->
  let '(m, u') := bfs fuel b queue unsorted acc in
  Permutation (atoms_of m ++ u') (atoms_of acc ++ qat queue ++ unsorted) /\ (length acc + length queue <= length m)%nat.
Proof.
  induction fuel as [|f IH]; intros queue unsorted acc H; cbn [bfs].
  - destruct queue; [|cbn in H; lia]. destruct unsorted; [|cbn in H; lia]. cbn. rewrite app_nil_r. split; [apply Permutation_refl|lia].
  - destruct queue as [|[a1 c1] q]; [cbn; split; [apply Permutation_refl|lia]|].
    pose proof (fold_visit_perm c1 (get_linked b a1) q unsorted) as FV0.
    destruct (fold_left (visit c1) (get_linked b a1) (q, unsorted)) as [q' u'] eqn:EF. destruct FV0 as [FV FL].
    assert (LEN: (length q' + length u' = length q + length unsorted)%nat).
    { apply Permutation_length in FV. unfold qat in FV. rewrite !app_length, !map_length in FV. exact FV. }
    specialize (IH q' u' (acc ++ [(a1, c1, map fst (get_linked b a1))]) ltac:(cbn [length] in H; lia)).
    destruct (bfs f b q' u' (acc ++ [(a1, c1, map fst (get_linked b a1))])) as [m uf]. destruct IH as [P L]. split.
    + eapply Permutation_trans; [exact P|]. unfold atoms_of. rewrite map_app, <- app_assoc. apply Permutation_app_head. cbn [map fst app qat].
      apply perm_skip. exact FV.
    + rewrite app_length in L. cbn [length] in *. unfold molrec in *. lia.
Qed.

Lemma mols_perm b n : forall fuel unsorted, (length unsorted <= fuel)%nat -> (length unsorted <= n)%nat ->
  Permutation (concat (map atoms_of (mols fuel n b unsorted))) unsorted.
Proof.
  induction fuel as [|f IH]; intros unsorted H Hn; cbn [mols].
  - destruct unsorted; [constructor|cbn in H; lia].
  - destruct unsorted as [|a u]; [constructor|].
    pose proof (bfs_perm b n [(a, (0,0,0))] u [] ltac:(cbn [length] in *; lia)) as BP.
    destruct (bfs n b [(a, (0,0,0))] u []) as [m u']. destruct BP as [P L]. cbn [map concat].
    assert (LU: (length u' <= length u)%nat).
    { apply Permutation_length in P. unfold atoms_of, qat in P. rewrite !app_length, !map_length in P. cbn [length] in P, L. unfold molrec in *. lia. }
    eapply Permutation_trans; [apply Permutation_app_head; apply IH; cbn [length] in *; lia|]. cbn [atoms_of map app qat] in P. exact P.
Qed.

(* the molecules partition the atoms: their atom lists, concatenated, are a rearrangement of 0 .. N-1 (each atom exactly once) *)
Lemma molecules_partition_l N b : 0 <= N -> Permutation (concat (map atoms_of (molecules_m N b))) (zseq 0 N).
Proof.
  intros H. unfold molecules_m. assert (L: length (zseq 0 N) = Z.to_nat N) by (unfold zseq; rewrite map_length, seq_length; reflexivity).
  apply mols_perm; rewrite L; lia.
Qed.

(* ---------------- molecules are closed under bonding: bonded atoms share a molecule ---------------- *)
Definition nb (b : list (Z * Z * vec)) (a : Z) : list Z := map fst (get_linked b a).
Lemma nb_spec b a l : In l (nb b a) <-> exists x y c, In (x, y, c) b /\ ((x = a /\ y = l) \/ (x <> a /\ y = a /\ x = l)).
Proof.
  unfold nb, get_linked. rewrite in_map_iff. split.
  - intros ([l' cl] & E & I). cbn in E. subst l'. apply in_flat_map in I. destruct I as ([[x y] c] & IB & I).
    exists x, y, c. split; [exact IB|]. destruct (Z.eqb_spec x a) as [E1|N1].
    + destruct I as [E|[]]. inversion E; subst. left. tauto.
    + destruct (Z.eqb_spec y a) as [E2|N2]; [|destruct I]. destruct I as [E|[]]. inversion E; subst. right. tauto.
  - intros (x & y & c & IB & H). destruct H as [[E1 E2]|[N1 [E2 E3]]]; subst.
    + exists (l, c). split; [reflexivity|]. apply in_flat_map. exists (a, l, c). split; [exact IB|]. rewrite Z.eqb_refl. left. reflexivity.
    + exists (l, vneg c). split; [reflexivity|]. apply in_flat_map. exists (l, a, c). split; [exact IB|].
      destruct (Z.eqb_spec l a) as [E|_]; [contradiction|]. rewrite Z.eqb_refl. left. reflexivity.
Qed.
Lemma nb_sym b a l : In l (nb b a) -> In a (nb b l).
Proof.
  rewrite !nb_spec. intros (x & y & c & IB & H). exists x, y, c. split; [exact IB|]. destruct H as [[E1 E2]|[N1 [E2 E3]]]; subst.
  - destruct (Z.eq_dec a l) as [E|N]; [subst; left; tauto|right; tauto].
  - left. tauto.
Qed.

Lemma visit_grows c1 q u l : let '(q', u') := visit c1 (q, u) l in
  (forall x, In x (qat q) -> In x (qat q')) /\ (In (fst l) u -> In (fst l) (qat q')) /\ (forall x, In x u -> In x (qat q') \/ In x u').
Proof.
  unfold visit. destruct l as [a cl]. cbn [fst]. destruct (memz a u) eqn:M.
  - split; [intros x I; unfold qat; rewrite map_app; apply in_or_app; left; exact I|]. split.
    + intros _. unfold qat. rewrite map_app. apply in_or_app. right. left. reflexivity.
    + intros x I. destruct (Z.eq_dec x a) as [E|N]; [subst; left; unfold qat; rewrite map_app; apply in_or_app; right; left; reflexivity|].
      right. clear M. induction u as [|y t IH]; [destruct I|]. cbn [remove1z]. destruct (Z.eqb_spec a y) as [E|NE].
      * subst. destruct I as [E|I]; [congruence|exact I].
      * destruct I as [E|I]; [left; exact E|right; apply IH; exact I].
  - split; [tauto|]. split; [|tauto]. intros I. apply memz_In in I. congruence.
Qed.
Lemma fold_visit_grows c1 links : forall q u, let '(q', u') := fold_left (visit c1) links (q, u) in
  (forall x, In x (qat q) -> In x (qat q')) /\ (forall l, In l (map fst links) -> In l u -> In l (qat q')) /\ (forall x, In x u -> In x (qat q') \/ In x u').
Proof.
  induction links as [|l t IH]; intros q u; cbn [fold_left map]; [split; [tauto|split; [intros l []|tauto]]|].
  pose proof (visit_grows c1 q u l) as V. destruct (visit c1 (q, u) l) as [q1 u1]. specialize (IH q1 u1).
  destruct (fold_left (visit c1) t (q1, u1)) as [q' u']. destruct V as (V1 & V2 & V3). destruct IH as (I1 & I2 & I3). split; [|split].
  - intros x I. apply I1, V1, I.
  - intros l0 [E|I] Iu.
    + subst. apply I1, V2, Iu.
    + destruct (V3 l0 Iu) as [Q|Q]; [apply I1; exact Q|apply I2; assumption].
  - intros x I. destruct (V3 x I) as [Q|Q]; [left; apply I1; exact Q|apply I3; exact Q].
Qed.

Section Closure.
Variable b : list (Z * Z * vec).
Variable U : list Z.
Hypothesis NDU : NoDup U.
Hypothesis ENDS : forall x y c, In (x, y, c) b -> In x U /\ In y U.
Definition closed (S : list Z) : Prop := forall x, In x S -> forall l, In l (nb b x) -> In l S.

Lemma nb_in_U a l : In l (nb b a) -> In l U.
Proof. rewrite nb_spec. intros (x & y & c & IB & H). destruct (ENDS x y c IB) as [Hx Hy]. destruct H as [[E1 E2]|[N1 [E2 E3]]]; subst; assumption. Qed.

Lemma bfs_closed Done : closed Done -> forall fuel queue unsorted acc, (length queue + length unsorted <= fuel)%nat ->
  Permutation (Done ++ atoms_of acc ++ qat queue ++ unsorted) U ->
  (forall x, In x (atoms_of acc) -> forall l, In l (nb b x) -> In l (atoms_of acc ++ qat queue)) ->
  let '(m, u') := bfs fuel b queue unsorted acc in closed (atoms_of m).
Proof.
  intros CD. induction fuel as [|f IH]; intros queue unsorted acc H P INV; cbn [bfs].
  - destruct queue; [|cbn in H; lia]. intros x I l Il. specialize (INV x I l Il). cbn [qat map] in INV. rewrite app_nil_r in INV. exact INV.
  - destruct queue as [|[a1 c1] q].
    + intros x I l Il. specialize (INV x I l Il). cbn [qat map] in INV. rewrite app_nil_r in INV. exact INV.
    + pose proof (fold_visit_perm c1 (get_linked b a1) q unsorted) as FP. pose proof (fold_visit_grows c1 (get_linked b a1) q unsorted) as FG.
      destruct (fold_left (visit c1) (get_linked b a1) (q, unsorted)) as [q' u'] eqn:EF. destruct FP as [FP FL]. destruct FG as (G1 & G2 & G3).
      assert (LEN: (length q' + length u' = length q + length unsorted)%nat).
      { apply Permutation_length in FP. unfold qat in FP. rewrite !app_length, !map_length in FP. exact FP. }
      apply IH.
      * cbn [length] in H. lia.
      * eapply Permutation_trans; [|exact P]. apply Permutation_app_head. unfold atoms_of. rewrite map_app, <- app_assoc. apply Permutation_app_head.
        cbn [map fst app qat]. apply perm_skip. exact FP.
      * intros x I l Il. unfold atoms_of in I. rewrite map_app in I. apply in_app_or in I. unfold atoms_of. rewrite map_app, <- app_assoc. cbn [map fst app].
        destruct I as [I|[E|[]]].
        -- specialize (INV x I l Il). apply in_app_or in INV. destruct INV as [Q|Q]; [apply in_or_app; left; exact Q|].
           apply in_or_app. right. destruct Q as [E|Q]; [left; exact E|right; apply G1; exact Q].
        -- cbn in E. subst x. pose proof (nb_in_U a1 l Il) as LU.
           apply (Permutation_in l (Permutation_sym P)) in LU. apply in_app_or in LU. destruct LU as [LD|LU].
           { (* l in an earlier molecule: then a1 would be there too *)
             exfalso. pose proof (CD l LD a1 (nb_sym b a1 l Il)) as A1D.
             pose proof (Permutation_NoDup (Permutation_sym P) NDU) as ND.
             clear - A1D ND. induction Done as [|d D IHD]; [destruct A1D|]. cbn [app] in ND. inversion ND; subst. destruct A1D as [E|I].
             - subst. apply H1. apply in_or_app. right. apply in_or_app. right. left. reflexivity.
             - apply IHD; assumption. }
           apply in_app_or in LU. destruct LU as [LA|LU]; [apply in_or_app; left; exact LA|]. apply in_or_app. right.
           apply in_app_or in LU. destruct LU as [LQ|LUN].
           { destruct LQ as [E|LQ]; [left; exact E|right; apply G1; exact LQ]. }
           right. apply G2; [exact Il|exact LUN].
Qed.
End Closure.

Section Closure2.
Variable b : list (Z * Z * vec).
Variable U : list Z.
Hypothesis NDU : NoDup U.
Hypothesis ENDS : forall x y c, In (x, y, c) b -> In x U /\ In y U.

Lemma closed_app A B : closed b A -> closed b B -> closed b (A ++ B).
Proof. intros CA CB x I l Il. apply in_app_or in I. apply in_or_app. destruct I as [I|I]; [left; apply (CA x I l Il)|right; apply (CB x I l Il)]. Qed.

Lemma mols_closed n : forall fuel unsorted Done, closed b Done -> Permutation (Done ++ unsorted) U ->
  (length unsorted <= fuel)%nat -> (length unsorted <= n)%nat ->
  forall m, In m (mols fuel n b unsorted) -> closed b (atoms_of m).
Proof.
  induction fuel as [|f IH]; intros unsorted Done CD P H Hn m I; cbn [mols] in I; [destruct I|].
  destruct unsorted as [|a u]; [destruct I|].
  pose proof (bfs_perm b n [(a, (0,0,0))] u [] ltac:(cbn [length] in *; lia)) as BP.
  pose proof (bfs_closed b U NDU ENDS Done CD n [(a, (0,0,0))] u [] ltac:(cbn [length] in *; lia)) as BC.
  destruct (bfs n b [(a, (0,0,0))] u []) as [m0 u'] eqn:EB. destruct BP as [BP BL].
  assert (C0: closed b (atoms_of m0)).
  { apply BC; [cbn [atoms_of map app qat fst]; exact P|intros x []]. }
  destruct I as [E|I]; [subst; exact C0|].
  assert (LU: (length u' <= length u)%nat).
  { apply Permutation_length in BP. unfold atoms_of, qat in BP. rewrite !app_length, !map_length in BP. cbn [length] in BP, BL. unfold molrec in *. lia. }
  apply (IH u' (Done ++ atoms_of m0)); try assumption.
  - apply closed_app; assumption.
  - rewrite <- app_assoc. eapply Permutation_trans; [apply Permutation_app_head; exact BP|]. cbn [atoms_of map app qat fst]. exact P.
  - cbn [length] in *; lia.
  - cbn [length] in *; lia.
Qed.
End Closure2.

(* bonded atoms share a molecule *)
Lemma molecules_closed_l N b : 0 <= N -> (forall x y c, In (x, y, c) b -> 0 <= x < N /\ 0 <= y < N) ->
  forall m, In m (molecules_m N b) -> forall x y c, In (x, y, c) b -> (In x (atoms_of m) <-> In y (atoms_of m)).
Proof.
  intros HN HE m I x y c IB.
  assert (NDU: NoDup (zseq 0 N)).
  { unfold zseq. apply FinFun.Injective_map_NoDup; [intros p q E; lia|apply seq_NoDup]. }
  assert (ENDS: forall x y c, In (x, y, c) b -> In x (zseq 0 N) /\ In y (zseq 0 N)).
  { intros x0 y0 c0 I0. destruct (HE x0 y0 c0 I0). split; apply zseq_In; lia. }
  assert (L: length (zseq 0 N) = Z.to_nat N) by (unfold zseq; rewrite map_length, seq_length; reflexivity).
  assert (C: closed b (atoms_of m)).
  { apply (mols_closed b (zseq 0 N) NDU ENDS (S (Z.to_nat N)) (S (Z.to_nat N)) (zseq 0 N) []); try (rewrite L; lia); [intros z []|apply Permutation_refl|exact I]. }
  split; intros Ix.
  - apply (C x Ix). apply nb_spec. exists x, y, c. split; [exact IB|left; tauto].
  - apply (C y Ix). apply nb_sym. apply nb_spec. exists x, y, c. split; [exact IB|left; tauto].
Qed.

(* ---- converse: every atom of a molecule is joined to the molecule's first atom by a chain of bonds ---- *)
Inductive conn (b : list (Z * Z * vec)) (s : Z) : Z -> Prop :=
  | conn_refl : conn b s s
  | conn_step x l : conn b s x -> In l (nb b x) -> conn b s l.
Lemma visit_conn b s c1 a1 q u l : conn b s a1 -> In (fst l) (nb b a1) -> (forall x, In x (qat q) -> conn b s x) ->
  forall x, In x (qat (fst (visit c1 (q, u) l))) -> conn b s x.
Proof.
  intros C1 Il Hq x. unfold visit. destruct l as [a cl]. cbn [fst] in Il. destruct (memz a u); cbn [fst]; [|apply Hq].
  unfold qat. rewrite map_app. intros I. apply in_app_or in I. destruct I as [I|[E|[]]]; [apply Hq; exact I|]. cbn [fst map] in E. subst x.
  eapply conn_step; [exact C1|exact Il].
Qed.
Lemma fold_visit_conn b s c1 a1 links : conn b s a1 -> (forall l, In l links -> In (fst l) (nb b a1)) -> forall q u,
  (forall x, In x (qat q) -> conn b s x) -> forall x, In x (qat (fst (fold_left (visit c1) links (q, u)))) -> conn b s x.
Proof.
  intros C1. induction links as [|l t IH]; intros HL q u Hq; cbn [fold_left]; [exact Hq|].
  pose proof (visit_conn b s c1 a1 q u l C1 (HL l (or_introl eq_refl)) Hq) as V. destruct (visit c1 (q, u) l) as [q1 u1]. cbn [fst] in V.
  apply IH; [intros l0 I0; apply HL; right; exact I0|exact V].
Qed.
Lemma bfs_conn b s : forall fuel queue unsorted acc, (forall x, In x (atoms_of acc ++ qat queue) -> conn b s x) ->
  forall x, In x (atoms_of (fst (bfs fuel b queue unsorted acc))) -> conn b s x.
Proof.
  induction fuel as [|f IH]; intros queue unsorted acc INV; cbn [bfs].
  - cbn [fst]. intros x I. apply INV. apply in_or_app. left. exact I.
  - destruct queue as [|[a1 c1] q]; [cbn [fst]; intros x I; apply INV; apply in_or_app; left; exact I|].
    assert (C1: conn b s a1) by (apply INV; apply in_or_app; right; left; reflexivity).
    pose proof (fold_visit_conn b s c1 a1 (get_linked b a1) C1 (fun l I => in_map fst _ _ I) q unsorted) as FV.
    destruct (fold_left (visit c1) (get_linked b a1) (q, unsorted)) as [q' u']. cbn [fst] in FV. apply IH.
    intros x I. apply in_app_or in I. destruct I as [I|I].
    + unfold atoms_of in I. rewrite map_app in I. apply in_app_or in I. destruct I as [I|[E|[]]]; [apply INV; apply in_or_app; left; exact I|].
      cbn [fst] in E. subst. exact C1.
    + apply FV; [|exact I]. intros y Iy. apply INV. apply in_or_app. right. right. exact Iy.
Qed.
Lemma mols_conn b n : forall fuel unsorted m, In m (mols fuel n b unsorted) -> exists s, forall x, In x (atoms_of m) -> conn b s x.
Proof.
  induction fuel as [|f IH]; intros unsorted m I; cbn [mols] in I; [destruct I|]. destruct unsorted as [|a u]; [destruct I|].
  pose proof (bfs_conn b a n [(a, (0,0,0))] u []) as BC. destruct (bfs n b [(a, (0,0,0))] u []) as [m0 u']. cbn [fst] in BC.
  destruct I as [E|I]; [|exact (IH u' m I)]. subst. exists a. apply BC. intros x [E|[]]. cbn [fst] in E. subst. apply conn_refl.
Qed.
Lemma molecules_connected_l N b m : In m (molecules_m N b) -> exists s, forall x, In x (atoms_of m) -> conn b s x.
Proof. apply mols_conn. Qed.
(* a chain of bonds never leaves a set closed under bonding *)
Lemma conn_closed b S s x : closed b S -> In s S -> conn b s x -> In x S.
Proof. intros C Is K. induction K as [|x l K IH Il]; [exact Is|exact (C x IH l Il)]. Qed.

(* ---- the cell offsets of a molecule: every member is reached from the first atom (offset 0) by a chain of bonds whose image cells add up to the
        member's recorded offset, so that position + offset.cell re-assembles the molecule along bonds ---- *)
Inductive connc (b : list (Z * Z * vec)) (s : Z) (c0 : vec) : Z -> vec -> Prop :=
  | connc_refl : connc b s c0 s c0
  | connc_step x cx l cl : connc b s c0 x cx -> In (l, cl) (get_linked b x) -> connc b s c0 l (vadd cx cl).
Definition qok (b : list (Z * Z * vec)) (s : Z) (c0 : vec) (q : list (Z * vec)) : Prop := forall a c, In (a, c) q -> connc b s c0 a c.
Lemma visit_connc b s c0 c1 a1 q u l : connc b s c0 a1 c1 -> In l (get_linked b a1) -> qok b s c0 q -> qok b s c0 (fst (visit c1 (q, u) l)).
Proof.
  intros C1 Il Hq. unfold visit. destruct l as [a cl]. destruct (memz a u); cbn [fst]; [|exact Hq].
  intros x c I. apply in_app_or in I. destruct I as [I|[E|[]]]; [apply Hq; exact I|]. injection E as <- <-. eapply connc_step; [exact C1|exact Il].
Qed.
Lemma fold_visit_connc b s c0 c1 a1 links : connc b s c0 a1 c1 -> (forall l, In l links -> In l (get_linked b a1)) -> forall q u,
  qok b s c0 q -> qok b s c0 (fst (fold_left (visit c1) links (q, u))).
Proof.
  intros C1. induction links as [|l t IH]; intros HL q u Hq; cbn [fold_left]; [exact Hq|].
  pose proof (visit_connc b s c0 c1 a1 q u l C1 (HL l (or_introl eq_refl)) Hq) as V. destruct (visit c1 (q, u) l) as [q1 u1]. cbn [fst] in V.
  apply IH; [intros l0 I0; apply HL; right; exact I0|exact V].
Qed.
Definition offs (m : list molrec) : list (Z * vec) := map (fun r => (fst (fst r), snd (fst r))) m.
Lemma bfs_connc b s c0 : forall fuel queue unsorted acc, qok b s c0 (offs acc ++ queue) ->
  qok b s c0 (offs (fst (bfs fuel b queue unsorted acc))).
Proof.
  induction fuel as [|f IH]; intros queue unsorted acc INV; cbn [bfs].
  - cbn [fst]. intros x c I. apply INV. apply in_or_app. left. exact I.
  - destruct queue as [|[a1 c1] q]; [cbn [fst]; intros x c I; apply INV; apply in_or_app; left; exact I|].
    assert (C1: connc b s c0 a1 c1) by (apply INV; apply in_or_app; right; left; reflexivity).
    pose proof (fold_visit_connc b s c0 c1 a1 (get_linked b a1) C1 (fun l I => I) q unsorted) as FV.
    destruct (fold_left (visit c1) (get_linked b a1) (q, unsorted)) as [q' u']. cbn [fst] in FV. apply IH.
    intros x c I. apply in_app_or in I. destruct I as [I|I].
    + unfold offs in I. rewrite map_app in I. apply in_app_or in I. destruct I as [I|[E|[]]]; [apply INV; apply in_or_app; left; exact I|].
      cbn [fst snd] in E. injection E as <- <-. exact C1.
    + apply FV; [|exact I]. intros y cy Iy. apply INV. apply in_or_app. right. right. exact Iy.
Qed.
Lemma mols_connc b n : forall fuel unsorted m, In m (mols fuel n b unsorted) -> exists s, qok b s (0, 0, 0) (offs m).
Proof.
  induction fuel as [|f IH]; intros unsorted m I; cbn [mols] in I; [destruct I|]. destruct unsorted as [|a u]; [destruct I|].
  pose proof (bfs_connc b a (0, 0, 0) n [(a, (0,0,0))] u []) as BC. destruct (bfs n b [(a, (0,0,0))] u []) as [m0 u']. cbn [fst] in BC.
  destruct I as [E|I]; [|exact (IH u' m I)]. subst. exists a. apply BC. intros x c [E|[]]. injection E as <- <-. apply connc_refl.
Qed.
Lemma molecules_offsets_l N b m : In m (molecules_m N b) -> exists s, forall a c nbs, In (a, c, nbs) m -> connc b s (0, 0, 0) a c.
Proof.
  intros I. destruct (mols_connc b _ _ _ m I) as [s H]. exists s. intros a c nbs Im. apply H. unfold offs. apply in_map_iff. exists (a, c, nbs). split; [reflexivity|exact Im].
Qed.
