(* C04: the bond list is exactly the vdW contact set (all images), and the molecule traversal partitions the atoms into sets closed under bonding. *)
From Coq Require Import ZArith List Bool Lia Permutation.
Import ListNotations.
Require Import Sop.model.Lattice Sop.proofs.LatticeProofs Sop.model.Bonds.
Local Open Scope Z_scope.

Lemma zseq_In lo n x : In x (zseq lo n) <-> lo <= x < lo + n.
Proof.
  unfold zseq. rewrite in_map_iff. split.
  - intros (k & E & I). apply in_seq in I. lia.
  - intros H. exists (Z.to_nat (x - lo)). split; [lia|]. apply in_seq. lia.
Qed.
Lemma triu_In N i j : In (i, j) (triu N) <-> 0 <= i < j /\ j < N.
Proof.
  unfold triu. rewrite in_flat_map. split.
  - intros (i' & Ii & Ij). apply zseq_In in Ii. apply in_map_iff in Ij. destruct Ij as (j' & E & Ij). inversion E; subst. apply zseq_In in Ij. lia.
  - intros [H1 H2]. exists i. split; [apply zseq_In; lia|]. apply in_map. apply zseq_In. lia.
Qed.
Lemma zmaxl_spec l : forall a, a <= fold_left Z.max l a /\ forall x, In x l -> x <= fold_left Z.max l a.
Proof.
  induction l as [|y t IH]; intros a; cbn [fold_left]; [split; [lia|intros x []]|].
  destruct (IH (Z.max a y)) as [A B]. split; [lia|]. intros x [E|I]; [subst; lia|apply B; exact I].
Qed.
Lemma radius_le radii i : Forall (fun r => 0 <= r) radii -> 0 <= nthZ radii i 0 <= zmaxl radii.
Proof.
  intros F. unfold nthZ, zmaxl. destruct (zmaxl_spec radii 0) as [A B].
  destruct (nth_in_or_default (Z.to_nat i) radii 0) as [I|E].
  - split; [rewrite Forall_forall in F; apply F; exact I|apply B; exact I].
  - rewrite E. lia.
Qed.
Lemma norm2_vneg v : norm2 (vneg v) = norm2 v.
Proof. destruct v as [[a b] c]. cbv [norm2 dotv vneg]. ring. Qed.
Lemma admissible_vneg pbc n : admissible pbc (vneg n) <-> admissible pbc n.
Proof. destruct pbc as [[p1 p2] p3], n as [[a b] c]. cbn [admissible vneg]. split; intros (A & B & C); repeat split; intros H; [specialize (A H)|specialize (B H)|specialize (C H)|specialize (A H)|specialize (B H)|specialize (C H)]; lia. Qed.
Lemma vneg_vneg v : vneg (vneg v) = v.
Proof. destruct v as [[a b] c]. cbv [vneg]. repeat f_equal; ring. Qed.
Lemma image_flip L pi pj n : vadd (vsub pj pi) (comb (vneg n) L) = vneg (vadd (vsub pi pj) (comb n L)).
Proof.
  destruct L as [[[[a1 a2] a3] [[b1 b2] b3]] [[c1 c2] c3]], pi as [[x1 x2] x3], pj as [[y1 y2] y3], n as [[n1 n2] n3].
  cbv [vadd vsub comb smul vneg]. repeat f_equal; ring.
Qed.

Lemma flip_norm L pi pj c : norm2 (vadd (vsub pi pj) (comb (vneg c) L)) = norm2 (vadd (vsub pj pi) (comb c L)).
Proof.
  destruct L as [[[[a1 a2] a3] [[b1 b2] b3]] [[c1 c2] c3]], pi as [[x1 x2] x3], pj as [[y1 y2] y3], c as [[n1 n2] n3].
  cbv [vadd vsub comb smul vneg norm2 dotv]. ring.
Qed.

(* the bond list is exactly: i < j, an admissible cell c, d^2 = |x_j + c L - x_i|^2, 2 d <= R_i + R_j *)
Lemma bonds_exact_l L pbc pos radii i j c d2 : det L <> 0 -> Forall (fun r => 0 <= r) radii ->
  In (i, j, c, d2) (bonds_m L pbc pos radii) <->
  (0 <= i < j /\ j < Z.of_nat (length pos) /\ admissible pbc c /\
   d2 = norm2 (vadd (vsub (nthZ pos j (0,0,0)) (nthZ pos i (0,0,0))) (comb c L)) /\
   4 * d2 <= (nthZ radii i 0 + nthZ radii j 0) * (nthZ radii i 0 + nthZ radii j 0)).
Proof.
  intros HD HR. unfold bonds_m. set (N := Z.of_nat (length pos)). set (prs := triu N).
  set (vs := map (fun p => vsub (nthZ pos (fst p) (0,0,0)) (nthZ pos (snd p) (0,0,0))) prs). set (rmax := zmaxl radii).
  assert (Hr: 0 <= rmax * rmax) by nia.
  rewrite in_flat_map. split.
  - intros ([[w k] n] & IA & IB). apply (all_periodic_spec_l L pbc (rmax * rmax) 1 vs w k n HD Hr ltac:(lia)) in IA.
    destruct IA as (K0 & v & NE & [EW AD] & RR). unfold vs in NE. rewrite nth_error_map in NE.
    destruct (nth_error prs (Z.to_nat k)) as [[i' j']|] eqn:NP; [|discriminate]. cbn in NE. inversion NE; subst v.
    assert (EN: nthZ prs k (0,0) = (i', j')) by (unfold nthZ; apply nth_error_nth; exact NP). rewrite EN in IB.
    destruct (4 * norm2 w <=? (nthZ radii i' 0 + nthZ radii j' 0) * (nthZ radii i' 0 + nthZ radii j' 0)) eqn:T; [|destruct IB].
    destruct IB as [E|[]]. inversion E; subst. apply Z.leb_le in T.
    apply nth_error_In in NP. apply triu_In in NP. split; [lia|]. split; [lia|]. split; [apply (proj2 (admissible_vneg pbc n)); exact AD|].
    rewrite image_flip, norm2_vneg. split; [reflexivity|exact T].
  - intros (Hi & Hj & AD & ED & T).
    assert (IP: In (i, j) prs) by (apply triu_In; unfold N; lia). apply In_nth_error in IP. destruct IP as (kn & NP).
    set (n := vneg c). set (w := vadd (vsub (nthZ pos i (0,0,0)) (nthZ pos j (0,0,0))) (comb n L)).
    assert (EW: norm2 w = d2). { unfold w, n. rewrite ED. apply flip_norm. }
    exists (w, Z.of_nat kn, n). split.
    + apply (all_periodic_spec_l L pbc (rmax * rmax) 1 vs w (Z.of_nat kn) n HD Hr ltac:(lia)). split; [lia|].
      exists (vsub (nthZ pos i (0,0,0)) (nthZ pos j (0,0,0))). rewrite Nat2Z.id. unfold vs. rewrite nth_error_map, NP. cbn [option_map fst snd].
      split; [reflexivity|]. split; [split; [reflexivity|unfold n; apply (proj2 (admissible_vneg pbc c)); exact AD]|].
      rewrite EW. pose proof (radius_le radii i HR). pose proof (radius_le radii j HR). fold rmax in H, H0. nia.
    + assert (EN: nthZ prs (Z.of_nat kn) (0,0) = (i, j)) by (unfold nthZ; rewrite Nat2Z.id; apply nth_error_nth; exact NP). rewrite EN, EW.
      replace (4 * d2 <=? (nthZ radii i 0 + nthZ radii j 0) * (nthZ radii i 0 + nthZ radii j 0)) with true by (symmetry; apply Z.leb_le; exact T).
      left. unfold n. rewrite vneg_vneg. reflexivity.
Qed.

(* the bond matrix is the symmetric projection of the bond list onto atom pairs *)
Lemma bond_matrix_l N b i j : bond_matrix N b i j = bond_matrix N b j i /\
  (bond_matrix N b i j = true <-> exists c d, In (i, j, c, d) b \/ In (j, i, c, d) b).
Proof.
  unfold bond_matrix. split.
  - induction b as [|[[[a c] cc] d] t IH]; cbn [existsb]; [reflexivity|rewrite IH; f_equal; apply orb_comm].
  - rewrite existsb_exists. split.
    + intros ([[[a c] cc] d] & I & H). apply orb_true_iff in H. destruct H as [H|H]; apply andb_true_iff in H; destruct H as [H1 H2]; apply Z.eqb_eq in H1, H2; subst; exists cc, d; [left|right]; exact I.
    + intros (c & d & [I|I]); [exists (i, j, c, d)|exists (j, i, c, d)]; (split; [exact I|]); rewrite !Z.eqb_refl; cbn; [reflexivity|apply orb_true_r].
Qed.

(* ---------------- molecules: every atom belongs to exactly one molecule ---------------- *)
Lemma memz_In x l : memz x l = true <-> In x l.
Proof.
  unfold memz. rewrite existsb_exists. split; [intros (y & I & E); apply Z.eqb_eq in E; subst; exact I|intros I; exists x; split; [exact I|apply Z.eqb_refl]].
Qed.
Lemma remove1z_perm a u : In a u -> Permutation (a :: remove1z a u) u.
Proof.
  induction u as [|y t IH]; intros I; [destruct I|]. cbn [remove1z]. destruct (Z.eqb_spec a y) as [E|NE].
  - subst. apply Permutation_refl.
  - destruct I as [E|I]; [congruence|]. eapply Permutation_trans; [apply perm_swap|]. apply perm_skip. apply IH. exact I.
Qed.
Definition qat (q : list (Z * vec)) : list Z := map fst q.
Lemma visit_perm c1 q u l : let '(q', u') := visit c1 (q, u) l in Permutation (qat q' ++ u') (qat q ++ u) /\ (length q <= length q')%nat.
Proof.
  unfold visit. destruct l as [a cl]. destruct (memz a u) eqn:M; [|split; [apply Permutation_refl|lia]].
  apply memz_In in M. split; [|rewrite app_length; cbn; lia]. unfold qat. rewrite map_app, <- app_assoc. cbn [map fst app]. apply Permutation_app_head. apply remove1z_perm. exact M.
Qed.
Lemma fold_visit_perm c1 links : forall q u, let '(q', u') := fold_left (visit c1) links (q, u) in Permutation (qat q' ++ u') (qat q ++ u) /\ (length q <= length q')%nat.
Proof.
  induction links as [|l t IH]; intros q u; cbn [fold_left]; [split; [apply Permutation_refl|lia]|].
  pose proof (visit_perm c1 q u l) as V. destruct (visit c1 (q, u) l) as [q1 u1]. specialize (IH q1 u1).
  destruct (fold_left (visit c1) t (q1, u1)) as [q' u']. destruct V as [V1 V2]. destruct IH as [I1 I2]. split; [eapply Permutation_trans; [exact I1|exact V1]|lia].
Qed.

Lemma bfs_perm b : forall fuel queue unsorted acc, (length queue + length unsorted <= fuel)%nat ->
  let '(m, u') := bfs fuel b queue unsorted acc in
  Permutation (atoms_of m ++ u') (atoms_of acc ++ qat queue ++ unsorted) /\ (length acc + length queue <= length m)%nat.
Proof.
  induction fuel as [|f IH]; intros queue unsorted acc H; cbn [bfs].
  - destruct queue; [|cbn in H; lia]. destruct unsorted; [|cbn in H; lia]. cbn. rewrite app_nil_r. split; [apply Permutation_refl|lia].
  - destruct queue as [|[a1 c1] q]; [cbn; split; [apply Permutation_refl|lia]|].
    pose proof (fold_visit_perm c1 (get_linked b a1) q unsorted) as FV0.
    destruct (fold_left (visit c1) (get_linked b a1) (q, unsorted)) as [q' u'] eqn:EF. destruct FV0 as [FV FL].
    assert (LEN: (length q' + length u' = length q + length unsorted)%nat).
    { apply Permutation_length in FV. unfold qat in FV. rewrite !app_length, !map_length in FV. exact FV. }
    specialize (IH q' u' (acc ++ [(a1, c1, map fst (get_linked b a1))]) ltac:(cbn [length] in H; lia)).
    destruct (bfs f b q' u' (acc ++ [(a1, c1, map fst (get_linked b a1))])) as [m uf]. destruct IH as [P L]. split.
    + eapply Permutation_trans; [exact P|]. unfold atoms_of. rewrite map_app, <- app_assoc. apply Permutation_app_head. cbn [map fst app qat].
      apply perm_skip. exact FV.
    + rewrite app_length in L. cbn [length] in *. unfold molrec in *. lia.
Qed.

Lemma mols_perm b n : forall fuel unsorted, (length unsorted <= fuel)%nat -> (length unsorted <= n)%nat ->
  Permutation (concat (map atoms_of (mols fuel n b unsorted))) unsorted.
Proof.
  induction fuel as [|f IH]; intros unsorted H Hn; cbn [mols].
  - destruct unsorted; [constructor|cbn in H; lia].
  - destruct unsorted as [|a u]; [constructor|].
    pose proof (bfs_perm b n [(a, (0,0,0))] u [] ltac:(cbn [length] in *; lia)) as BP.
    destruct (bfs n b [(a, (0,0,0))] u []) as [m u']. destruct BP as [P L]. cbn [map concat].
    assert (LU: (length u' <= length u)%nat).
    { apply Permutation_length in P. unfold atoms_of, qat in P. rewrite !app_length, !map_length in P. cbn [length] in P, L. unfold molrec in *. lia. }
    eapply Permutation_trans; [apply Permutation_app_head; apply IH; cbn [length] in *; lia|]. cbn [atoms_of map app qat] in P. exact P.
Qed.

(* the molecules partition the atoms: their atom lists, concatenated, are a rearrangement of 0 .. N-1 (each atom exactly once) *)
Lemma molecules_partition_l N b : 0 <= N -> Permutation (concat (map atoms_of (molecules_m N b))) (zseq 0 N).
Proof.
  intros H. unfold molecules_m. assert (L: length (zseq 0 N) = Z.to_nat N) by (unfold zseq; rewrite map_length, seq_length; reflexivity).
  apply mols_perm; rewrite L; lia.
Qed.
