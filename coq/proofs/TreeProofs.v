From Coq Require Import ZArith List Bool Lia ZifyBool.
Import ListNotations.
Require Import Sop.gen.TreeGen Sop.model.TreeFS.
Local Open Scope Z_scope.

Ltac splitifs :=
  repeat match goal with
         | |- context [if ?c then _ else _] => let E := fresh "E" in destruct c eqn:E
         | H : context [if ?c then _ else _] |- _ => let E := fresh "E" in destruct c eqn:E
         end.

(* the target is deleted only where the documentation permits it *)
Lemma no_unpermitted_delete_l check safety answer :
  0 <= safety <= 3 -> 0 <= check <= 2 ->
  has ERmtree (save_decide check safety answer) = true -> permitted safety check answer = true.
Proof.
  intros Hs Hc. unfold save_decide, permitted.
  splitifs; cbn; try lia; try discriminate; intros; try lia; destruct answer; cbn in *; try lia; try discriminate.
Qed.

Lemma declined_or_forbidden_intact_l check safety answer :
  0 <= safety <= 3 -> 0 <= check <= 2 ->
  permitted safety check answer = false ->
  has ERmtree (save_decide check safety answer) = false /\
  has EMkdir (save_decide check safety answer) = false /\
  has EWrite (save_decide check safety answer) = false.
Proof.
  intros Hs Hc. unfold save_decide, permitted.
  splitifs; cbn; intros; repeat split; try reflexivity; try lia; destruct answer; cbn in *; try lia; try discriminate.
Qed.

Definition strip_talk (l : list event) := filter (fun e => negb (is_ev EAsk e || is_ev EPrint e)) l.

Lemma permitted_rewrites_l check safety answer :
  0 <= safety <= 3 -> 0 <= check <= 2 ->
  permitted safety check answer = true ->
  strip_talk (save_decide check safety answer) = [ERmtree; EMkdir; EWrite].
Proof.
  intros Hs Hc. unfold save_decide, permitted.
  splitifs; cbn; intros; try reflexivity; try lia; destruct answer; cbn in *; try lia; try discriminate.
Qed.

Lemma absent_creates_l safety answer : save_decide (-1) safety answer = [EMkdir; EWrite].
Proof. reflexivity. Qed.

Lemma asks_iff_documented_l check safety answer :
  0 <= safety <= 3 -> 0 <= check <= 2 ->
  has EAsk (save_decide check safety answer) = ((safety =? 3) && (check =? 0)) || ((safety =? 1) && negb (check =? 0)).
Proof.
  intros Hs Hc. unfold save_decide.
  splitifs; cbn; try lia.
Qed.

Lemma raises_iff_documented_l check safety answer :
  0 <= safety <= 3 -> 0 <= check <= 2 ->
  has ERaise (save_decide check safety answer) = (2 <=? safety) && negb (check =? 0).
Proof.
  intros Hs Hc. unfold save_decide.
  splitifs; cbn; try lia.
Qed.

(* whole call on a target state: fate of the folder *)
Lemma save_fate_intact_l t safety answer c :
  0 <= safety <= 3 -> check_tree t = Some c -> 0 <= c ->
  permitted safety c answer = false -> fst (save_fate t safety answer) = Intact.
Proof.
  intros Hs Hc H0 Hp. unfold save_fate. rewrite Hc. cbn [fst].
  assert (0 <= c <= 2) by (destruct t; cbn in Hc; inversion Hc; lia).
  destruct (declined_or_forbidden_intact_l c safety answer Hs H Hp) as (A & B & _).
  rewrite A, B. reflexivity.
Qed.

Lemma bad_meta_untouched_l safety answer : save_fate BadMeta safety answer = (CheckRaises, []).
Proof. reflexivity. Qed.

(* load_tree: the documented checks of each level *)
Lemma load_checks_l check safety :
  0 <= safety <= 3 -> -1 <= check <= 2 ->
  load_dirs check safety =
    (if check =? -1 then None
     else if safety =? 3 then (if check =? 0 then Some DListed else None)
     else if safety =? 2 then (if check <? 2 then Some DListed else None)
     else if safety =? 1 then (if check <? 2 then Some DAll else None)
     else Some DAll)
  /\ (load_dirs check safety <> None -> load_arrays check safety = (2 <=? safety))
  /\ load_meta_info check safety = (check <? 2).
Proof.
  intros Hs Hc. unfold load_dirs, load_arrays, load_meta_info.
  repeat split; splitifs; try reflexivity; try lia.
Qed.

Lemma load_final_spec_l nload ntot tolerant :
  0 <= nload <= ntot -> 0 < ntot ->
  load_final nload ntot tolerant =
    (if nload =? ntot then EndFull else if nload =? 0 then EndRaise else if tolerant then EndPartial else EndRaise).
Proof.
  intros H1 H2. unfold load_final. destruct tolerant; cbn; splitifs; try reflexivity; lia.
Qed.
