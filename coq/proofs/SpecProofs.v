(* C12: intensity conservation, non-negativity, support and axis laws of the spectrum assembly (Reals). *)
Require Import Sop.model.SpecR Sop.proofs.TentProofs.

Lemma bin_val_eq tris a b : bin_val tris a b = fold_right (fun t acc => tri_bin t a b + acc) 0 tris.
Proof. reflexivity. Qed.
Lemma lsum_eq l : lsum l = fold_right (fun x acc => x + acc) 0 l.
Proof. reflexivity. Qed.

Ltac s3 := unfold sort3, leb; repeat (match goal with |- context [Rle_dec ?x ?y] => destruct (Rle_dec x y) end; cbv beta iota zeta).
Lemma sort3_sorted t : let '(a, b, c) := sort3 t in a <= b /\ b <= c.
Proof. destruct t as [[a b] c]. s3; split; lra. Qed.
Lemma sort3_bounds t lo hi : (let '(a, b, c) := t in lo <= a <= hi /\ lo <= b <= hi /\ lo <= c <= hi) -> let '(a, b, c) := sort3 t in lo <= a /\ c <= hi.
Proof. destruct t as [[a b] c]. intros (Ha & Hb & Hc). s3; split; lra. Qed.

Definition tri_ok (t : tri) : Prop := 0 <= fst t.
Lemma tri_bin_nonneg t a b : tri_ok t -> a <= b -> 0 <= tri_bin t a b.
Proof.
  destruct t as [w v]. unfold tri_ok, tri_bin, nrm. cbn [fst]. intros Hw Hab. pose proof (sort3_sorted v) as S. destruct (sort3 v) as [[f0 f1] f2]. destruct S as [S1 S2].
  apply Rmult_le_pos; [exact Hw|apply contrib_nonneg; assumption].
Qed.
Lemma bin_val_nonneg tris a b : Forall tri_ok tris -> a <= b -> 0 <= bin_val tris a b.
Proof.
  intros F Hab. unfold bin_val, nrm. induction F as [|t l Ht F IH]; cbn [fold_right]; [unfold of_Z; lra|]. pose proof (tri_bin_nonneg t a b Ht Hab). lra.
Qed.
Lemma line_nonneg tris : forall edges e0, Forall tri_ok tris -> sorted_from e0 edges -> Forall (fun v => 0 <= v) (line tris e0 edges).
Proof.
  induction edges as [|e1 rest IH]; intros e0 F S; cbn [line]; [constructor|]. destruct S as [S1 S2]. constructor; [apply bin_val_nonneg; assumption|apply IH; assumption].
Qed.

(* support: with all vertex frequencies of all triangles in [lo, hi], a bin entirely below lo or above hi stays empty *)
Definition tri_in (lo hi : R) (t : tri) : Prop := let '(a, b, c) := snd t in lo <= a <= hi /\ lo <= b <= hi /\ lo <= c <= hi.
Lemma bin_val_support tris lo hi a b : Forall (tri_in lo hi) tris -> a <= b -> b < lo \/ hi < a -> bin_val tris a b = 0.
Proof.
  intros F Hab OUT. unfold bin_val, nrm. induction F as [|t l Ht F IH]; cbn [fold_right]; [reflexivity|]. rewrite IH. destruct t as [w v]. unfold tri_bin, nrm, tri_in in *. cbn [snd] in Ht.
  pose proof (sort3_sorted v) as S. pose proof (sort3_bounds v lo hi Ht) as B. destruct (sort3 v) as [[f0 f1] f2]. destruct S as [S1 S2]. destruct B as [B1 B2].
  rewrite (contrib_support f0 f1 f2 a b S1 S2 Hab); [unfold of_Z; lra|destruct OUT; [left|right]; lra|destruct OUT; [right; left|right; right]; lra].
Qed.

(* conservation: bins covering all the vertex frequencies hold the whole weight of every triangle *)
Definition tsum (f : tri -> R) (l : list tri) : R := fold_right (fun t acc => f t + acc) 0 l.
Lemma tsum_add f g l : tsum f l + tsum g l = tsum (fun t => f t + g t) l.
Proof. unfold tsum. induction l as [|t l IH]; cbn [fold_right]; [lra|]. rewrite <- IH. lra. Qed.
Lemma tsum_ext f g l : (forall t, f t = g t) -> tsum f l = tsum g l.
Proof. intros E. unfold tsum. induction l as [|t l IH]; cbn [fold_right]; [reflexivity|]. rewrite IH, E. reflexivity. Qed.
Definition tri_total (e0 : R) (edges : list R) (t : tri) : R := let '(w, v) := t in let '(f0, f1, f2) := sort3 v in w * total f0 f1 f2 e0 edges.
Lemma lsum_line tris : forall edges e0, lsum (line tris e0 edges) = tsum (tri_total e0 edges) tris.
Proof.
  induction edges as [|e1 rest IH]; intros e0; cbn [line].
  - unfold lsum, nrm. cbn [fold_right]. unfold tsum. induction tris as [|[w v] l IHl]; cbn [fold_right]; [reflexivity|]. rewrite <- IHl. unfold tri_total.
    destruct (sort3 v) as [[f0 f1] f2]. cbn [total]. unfold of_Z. lra.
  - unfold lsum, nrm. cbn [fold_right]. change (fold_right (fun x acc => x + acc) (of_Z 0) (line tris e1 rest)) with (lsum (line tris e1 rest)). rewrite IH.
    change (bin_val tris e0 e1) with (fold_right (fun t acc => tri_bin t e0 e1 + acc) (of_Z 0) tris). unfold of_Z. fold (tsum (fun t => tri_bin t e0 e1) tris).
    rewrite tsum_add. apply tsum_ext. intros [w v]. unfold tri_bin, nrm, tri_total. destruct (sort3 v) as [[f0 f1] f2]. cbn [total]. ring.
Qed.
Lemma line_conserves tris lo hi e0 edges : Forall (tri_in lo hi) tris -> sorted_from e0 edges -> e0 <= lo -> hi < last_of e0 edges ->
  lsum (line tris e0 edges) = tsum fst tris.
Proof.
  intros F S L U. rewrite lsum_line. unfold tsum. induction F as [|t l Ht F IH]; cbn [fold_right]; [reflexivity|]. rewrite IH. f_equal. destruct t as [w v]. unfold tri_total. cbn [fst]. unfold tri_in in Ht. cbn [snd] in Ht.
  pose proof (sort3_sorted v) as S3. pose proof (sort3_bounds v lo hi Ht) as B. destruct (sort3 v) as [[f0 f1] f2]. destruct S3 as [S1 S2]. destruct B as [B1 B2].
  destruct (Rle_lt_or_eq_dec f0 f2 ltac:(lra)) as [LT|EQ].
  - rewrite (tent_conserves_l f0 f1 f2 e0 edges S1 S2 LT S); lra.
  - assert (f1 = f0) by lra. subst f1 f2. rewrite (flat_conserves_l f0 edges e0 S); lra.
Qed.

(* normalisation *)
Lemma lsum_scale k l : lsum (map (fun v => v * k) l) = lsum l * k.
Proof. unfold lsum, nrm. induction l as [|x l IH]; cbn [map fold_right]; [unfold of_Z; lra|]. rewrite IH. lra. Qed.
Lemma lsum_nonneg l : Forall (fun v => 0 <= v) l -> 0 <= lsum l.
Proof. intros F. unfold lsum, nrm. induction F as [|x l Hx F IH]; cbn [fold_right]; [unfold of_Z; lra|lra]. Qed.
Lemma normalise_l n spec : lsum spec <> 0 ->
  lsum (normalise n spec) = n * INR (length spec) /\ length (normalise n spec) = length spec /\
  (0 <= n -> Forall (fun v => 0 <= v) spec -> Forall (fun v => 0 <= v) (normalise n spec)).
Proof.
  intros NZ. unfold normalise. destruct (eqb (lsum spec) (of_Z 0)) eqn:E; bools; [unfold of_Z in E; contradiction|].
  unfold of_Z. rewrite <- INR_IZR_INZ. split; [|split].
  - rewrite lsum_scale. cbv [num] in *. field. exact NZ.
  - apply map_length.
  - intros Hn F. pose proof (lsum_nonneg spec F) as S. assert (SP: 0 < lsum spec) by lra.
    assert (K: 0 <= n * INR (length spec) / lsum spec).
    { unfold Rdiv. apply Rmult_le_pos; [apply Rmult_le_pos; [exact Hn|apply pos_INR]|left; apply Rinv_0_lt_compat; exact SP]. }
    apply Forall_forall. intros v I. apply in_map_iff in I. destruct I as (u & <- & I). rewrite Forall_forall in F. specialize (F u I). nra.
Qed.

(* axis *)
Lemma axis_l a b u bins k r : u <> 0 ->
  axis_out None u (axis_in a b u bins k) = linspace a b bins k /\
  axis_out (Some (r * u)) u (axis_in a b u bins k) = r - linspace a b bins k /\
  axis_in a b u bins k = axis_in (a * u) (b * u) 1 bins k.
Proof.
  intros NZ. unfold axis_out, axis_in. split; [|split].
  - generalize (linspace a b bins k). cbv [num]. intros l. field. exact NZ.
  - generalize (linspace a b bins k). cbv [num]. intros l. field. exact NZ.
  - unfold linspace, of_Z. cbv [num] in *. unfold Rdiv. ring.
Qed.

(* single crystal *)
Lemma cs_line_l s iso x y z : x * x + y * y + z * z = 1 -> cs_line s iso (x, y, z) = quad s (x, y, z).
Proof. destruct s as [[[[a11 a12] a13] [[a21 a22] a23]] [[a31 a32] a33]]. intros U. unfold cs_line, quad, traceless_part. cbv [num] in *.
  match goal with |- ?L = ?Rr => transitivity (Rr + iso * (1 - (x * x + y * y + z * z))); [ring|rewrite U; ring] end. Qed.
(* in the principal frame: the direction cosines c of the field on the principal axes *)
Lemma rayleigh_l l1 l2 l3 c1 c2 c3 lo hi : c1 * c1 + c2 * c2 + c3 * c3 = 1 -> lo <= l1 <= hi -> lo <= l2 <= hi -> lo <= l3 <= hi ->
  lo <= quad (l1, 0, 0, (0, l2, 0), (0, 0, l3)) (c1, c2, c3) <= hi.
Proof.
  intros U H1 H2 H3. unfold quad. cbv [num] in *. pose proof (Rle_0_sqr c1) as Q1. pose proof (Rle_0_sqr c2) as Q2. pose proof (Rle_0_sqr c3) as Q3. unfold Rsqr in *.
  assert (A1: 0 <= (l1 - lo) * (c1 * c1)) by (apply Rmult_le_pos; lra). assert (A2: 0 <= (l2 - lo) * (c2 * c2)) by (apply Rmult_le_pos; lra).
  assert (A3: 0 <= (l3 - lo) * (c3 * c3)) by (apply Rmult_le_pos; lra). assert (B1: 0 <= (hi - l1) * (c1 * c1)) by (apply Rmult_le_pos; lra).
  assert (B2: 0 <= (hi - l2) * (c2 * c2)) by (apply Rmult_le_pos; lra). assert (B3: 0 <= (hi - l3) * (c3 * c3)) by (apply Rmult_le_pos; lra).
  assert (EL: lo = lo * (c1 * c1 + c2 * c2 + c3 * c3)) by (rewrite U; ring). assert (EH: hi = hi * (c1 * c1 + c2 * c2 + c3 * c3)) by (rewrite U; ring).
  split; [rewrite EL at 1|rewrite EH at 1]; nra.
Qed.
