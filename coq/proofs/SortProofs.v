(* C01/C02: the GENERATED eigenvalue sort (soprano/nmr/utils.py:_evals_sort) over the reals. *)
Require Import Sop.model.NmrUtilsR.

Definition is_perm3 (p : perm3) : Prop :=
  p = (0,1,2)%nat \/ p = (0,2,1)%nat \/ p = (1,0,2)%nat \/ p = (1,2,0)%nat \/ p = (2,0,1)%nat \/ p = (2,1,0)%nat.

Ltac unf := unfold evals_sort_i_True, evals_sort_d_True, evals_sort_h_True, evals_sort_n_True,
  argsort3, abs3, sub3s, absn, swap01, rev3, gather3, nth3.

Ltac lebs := repeat match goal with |- context [leb ?a ?b] =>
  lazymatch a with context [leb] => fail | _ => idtac end;
  lazymatch b with context [leb] => fail | _ => idtac end;
  let E := fresh "E" in destruct (leb a b) eqn:E end.

(* 1. the output is the input rearranged by the returned permutation *)
Lemma sort_perm_i e : let '(s,p) := evals_sort_i_True e in s = gather3 e p /\ is_perm3 p.
Proof. destruct e as [[e0 e1] e2]. unf. lebs; cbn; split; try reflexivity; unfold is_perm3; tauto. Qed.
Lemma sort_perm_d e : let '(s,p) := evals_sort_d_True e in s = gather3 e p /\ is_perm3 p.
Proof. destruct e as [[e0 e1] e2]. unf. lebs; cbn; split; try reflexivity; unfold is_perm3; tauto. Qed.
Lemma sort_perm_h e : let '(s,p) := evals_sort_h_True e in s = gather3 e p /\ is_perm3 p.
Proof. destruct e as [[e0 e1] e2]. unf. lebs; cbn; split; try reflexivity; unfold is_perm3; tauto. Qed.
Lemma sort_perm_n e : let '(s,p) := evals_sort_n_True e in s = gather3 e p /\ is_perm3 p.
Proof. destruct e as [[e0 e1] e2]. unf. lebs; cbn; split; try reflexivity; unfold is_perm3; tauto. Qed.

(* 2. the defining chains *)
Lemma sort_incr_l e : let '(x,y,z) := fst (evals_sort_i_True e) in x <= y <= z.
Proof. destruct e as [[e0 e1] e2]. unf. cbn [fst]. lebs; cbn; bools; lra. Qed.
Lemma sort_decr_l e : let '(x,y,z) := fst (evals_sort_d_True e) in z <= y <= x.
Proof. destruct e as [[e0 e1] e2]. unf. cbn [fst]. lebs; cbn; bools; lra. Qed.
Lemma sort_haeb_l e : let '(x,y,z) := fst (evals_sort_h_True e) in
  let m := avg3 e in Rabs (y-m) <= Rabs (x-m) <= Rabs (z-m).
Proof. destruct e as [[e0 e1] e2]. unf. cbn [fst]. generalize (avg3 (e0,e1,e2)); intro m. lebs; cbn; bools; lra. Qed.
Lemma sort_nqr_l e : let '(x,y,z) := fst (evals_sort_n_True e) in Rabs x <= Rabs y <= Rabs z.
Proof. destruct e as [[e0 e1] e2]. unf. cbn [fst]. lebs; cbn; bools; lra. Qed.

(* the Haeberlen sort through its public alias *)
Lemma haeb_sort_is e : haeb_sort_True e = evals_sort_h_True e. Proof. reflexivity. Qed.

(* 3. re-ordering = constructing, when the keys of the target convention are tie-free *)
Definition distinct3 (k : vec3) : Prop := let '(a,b,c) := k in a <> b /\ b <> c /\ a <> c.
Definition key (c : nat) (e : vec3) : vec3 :=
  match c with
  | 0%nat | 1%nat => e
  | 2%nat => abs3 (sub3s e (avg3 e))
  | _ => abs3 e
  end.
Definition sortc (c : nat) (e : vec3) : vec3 :=
  match c with
  | 0%nat => fst (evals_sort_i_True e) | 1%nat => fst (evals_sort_d_True e)
  | 2%nat => fst (evals_sort_h_True e) | _ => fst (evals_sort_n_True e) end.

Definition Perm3 (e s : vec3) : Prop := let '(a,b,c) := e in
  s = (a,b,c) \/ s = (a,c,b) \/ s = (b,a,c) \/ s = (b,c,a) \/ s = (c,a,b) \/ s = (c,b,a).

Lemma sortc_perm c e : Perm3 e (sortc c e).
Proof.
  destruct e as [[e0 e1] e2]. destruct c as [|[|[|c]]]; unfold sortc, Perm3; unf; cbn [fst];
  generalize (avg3 (e0,e1,e2)); intro m; lebs; cbn; tauto.
Qed.

Lemma Perm3_trans e s t : Perm3 e s -> Perm3 s t -> Perm3 e t.
Proof.
  destruct e as [[a b] c]. unfold Perm3 at 1. intros [H|[H|[H|[H|[H|H]]]]]; subst s; unfold Perm3; tauto.
Qed.

Lemma Perm3_avg e s : Perm3 e s -> avg3 s = avg3 e.
Proof.
  destruct e as [[a b] c]. unfold Perm3. intros [H|[H|[H|[H|[H|H]]]]]; subst s; unfold avg3, of_Z; lra.
Qed.

Definition chain (k : R -> R) (s : vec3) : Prop := let '(x,y,z) := s in k x <= k y <= k z.
Definition kfun (c : nat) (m : R) : R -> R :=
  match c with 0%nat => (fun x => x) | 1%nat => Ropp | 2%nat => (fun x => Rabs (x - m)) | _ => Rabs end.
Definition pos (c : nat) (s : vec3) : vec3 := match c with 2%nat => let '(x,y,z) := s in (y,x,z) | _ => s end.

Lemma sortc_chain c e : chain (kfun c (avg3 e)) (pos c (sortc c e)).
Proof.
  destruct e as [[e0 e1] e2]. destruct c as [|[|[|c]]]; unfold sortc, chain, kfun, pos; unf; cbn [fst];
  generalize (avg3 (e0,e1,e2)); intro m; lebs; cbn; bools; lra.
Qed.

Lemma pos_perm c e s : Perm3 e s -> Perm3 e (pos c s).
Proof.
  destruct e as [[a b] c0]. destruct c as [|[|[|c]]]; cbn [pos]; auto.
  unfold Perm3. intros [H|[H|[H|[H|[H|H]]]]]; subst s; tauto.
Qed.

Lemma pos_inj c s t : pos c s = pos c t -> s = t.
Proof.
  destruct s as [[x y] z], t as [[x' y'] z']. destruct c as [|[|[|c]]]; cbn [pos]; auto. congruence.
Qed.

Lemma chain_unique (k : R -> R) e s t :
  Perm3 e s -> Perm3 e t -> chain k s -> chain k t ->
  (let '(a,b,c) := e in k a <> k b /\ k b <> k c /\ k a <> k c) -> s = t.
Proof.
  destruct e as [[a b] c]. unfold Perm3.
  intros [H|[H|[H|[H|[H|H]]]]] [G|[G|[G|[G|[G|G]]]]]; subst s t; unfold chain; intros C1 C2 (D1 & D2 & D3);
  try reflexivity; exfalso; lra.
Qed.

Lemma reorder_tiefree c1 c2 e : distinct3 (key c2 e) -> sortc c2 (sortc c1 e) = sortc c2 e.
Proof.
  intros D. apply (pos_inj c2).
  pose proof (sortc_perm c1 e) as P1.
  apply (chain_unique (kfun c2 (avg3 e)) e).
  - apply pos_perm. eapply Perm3_trans; [exact P1 | apply sortc_perm].
  - apply pos_perm, sortc_perm.
  - rewrite <- (Perm3_avg e (sortc c1 e) P1). apply sortc_chain.
  - apply sortc_chain.
  - destruct e as [[a b] c]. revert D. unfold key. generalize (avg3 (a,b,c)); intro m.
    destruct c2 as [|[|[|c2]]]; unfold distinct3, key, kfun, abs3, sub3s, absn; intros (D1 & D2 & D3); repeat split; try assumption. all: try (intro H; first [apply D1; lra | apply D2; lra | apply D3; lra]).
Qed.

(* canonical order: the ordered spectrum depends only on the multiset of eigenvalues *)
Lemma sort_canonical_l c l l' : Perm3 l l' -> distinct3 (key c l) -> sortc c l' = sortc c l.
Proof.
  intros P D. apply (pos_inj c).
  apply (chain_unique (kfun c (avg3 l)) l).
  - apply pos_perm. eapply Perm3_trans; [exact P | apply sortc_perm].
  - apply pos_perm, sortc_perm.
  - rewrite <- (Perm3_avg l l' P). apply sortc_chain.
  - apply sortc_chain.
  - destruct l as [[a b] c0]. revert D. unfold key. generalize (avg3 (a,b,c0)); intro m.
    destruct c as [|[|[|c]]]; unfold distinct3, kfun, abs3, sub3s, absn; intros (D1 & D2 & D3); repeat split; try assumption;
    intro H; first [apply D1; lra | apply D2; lra | apply D3; lra].
Qed.

Lemma sort_canonical_id_l c l l' : (c < 2)%nat -> Perm3 l l' -> sortc c l' = sortc c l.
Proof.
  intros Hc. destruct l as [[a b] c0]. unfold Perm3.
  destruct c as [|[|c]]; try lia; intros [H|[H|[H|[H|[H|H]]]]]; subst l'; unfold sortc; unf; cbn [fst];
  lebs; cbn; bools; pairs; lra.
Qed.


(* F-01: with ties between keys of distinct values re-ordering differs from constructing *)
Lemma reorder_ties_refuted : exists e, sortc 3 (sortc 1 e) <> sortc 3 e.
Proof.
  assert (A1: Rabs (-1) = 1) by (unfold Rabs; destruct Rcase_abs; lra).
  assert (A2: Rabs 0 = 0) by (unfold Rabs; destruct Rcase_abs; lra).
  assert (A3: Rabs 1 = 1) by (unfold Rabs; destruct Rcase_abs; lra).
  exists (-1, 0, 1). unfold sortc; unf; cbn [fst].
  unfold leb. repeat (destruct Rle_dec; try lra); intro H; inversion H; lra.
Qed.
