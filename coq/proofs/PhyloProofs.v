(* C19: range normalisation puts every gene column inside the requested range (scaled by its weight) and attains both ends; the combined distance
   of _recalc is a pseudo-metric (Reals). *)
Require Import Sop.model.PhyloR Sop.proofs.MetricProofs.

Lemma maxn_spec x y : x <= maxn x y /\ y <= maxn x y /\ (maxn x y = x \/ maxn x y = y).
Proof. unfold maxn, leb. destruct (Rle_dec x y); cbv beta iota; repeat split; try lra; tauto. Qed.
Lemma minn_spec x y : minn x y <= x /\ minn x y <= y /\ (minn x y = x \/ minn x y = y).
Proof. unfold minn, leb. destruct (Rle_dec x y); cbv beta iota; repeat split; try lra; tauto. Qed.
Lemma lmax_spec l : forall x, (forall v, In v (x :: l) -> v <= lmax x l) /\ In (lmax x l) (x :: l).
Proof.
  unfold lmax. induction l as [|y l IH]; intros x; cbn [fold_left].
  - split; [intros v [E|[]]; subst; lra|left; reflexivity].
  - destruct (IH (maxn x y)) as [I1 I2]. destruct (maxn_spec x y) as (M1 & M2 & M3). split.
    + intros v [E|[E|I]]; subst.
      * eapply Rle_trans; [exact M1|apply I1; left; reflexivity].
      * eapply Rle_trans; [exact M2|apply I1; left; reflexivity].
      * apply I1. right. exact I.
    + destruct I2 as [E|I]; [|right; right; exact I]. rewrite <- E. destruct M3 as [-> | ->]; [left|right; left]; reflexivity.
Qed.
Lemma lmin_spec l : forall x, (forall v, In v (x :: l) -> lmin x l <= v) /\ In (lmin x l) (x :: l).
Proof.
  unfold lmin. induction l as [|y l IH]; intros x; cbn [fold_left].
  - split; [intros v [E|[]]; subst; lra|left; reflexivity].
  - destruct (IH (minn x y)) as [I1 I2]. destruct (minn_spec x y) as (M1 & M2 & M3). split.
    + intros v [E|[E|I]]; subst.
      * eapply Rle_trans; [apply I1; left; reflexivity|exact M1].
      * eapply Rle_trans; [apply I1; left; reflexivity|exact M2].
      * apply I1. right. exact I.
    + destruct I2 as [E|I]; [|right; right; exact I]. rewrite <- E. destruct M3 as [-> | ->]; [left|right; left]; reflexivity.
Qed.

(* both bounds given: every entry in [lo, hi]; a non-constant column attains lo and hi; a constant column is sent to lo *)
Lemma norm_both_range lo hi x l : lo <= hi ->
  (forall v, In v (norm_both lo hi x l) -> lo <= v <= hi) /\ length (norm_both lo hi x l) = length (x :: l) /\
  (lmin x l <> lmax x l -> In lo (norm_both lo hi x l) /\ In hi (norm_both lo hi x l)) /\
  (lmin x l = lmax x l -> forall v, In v (norm_both lo hi x l) -> v = lo).
Proof.
  intros H. destruct (lmax_spec l x) as [X1 X2]. destruct (lmin_spec l x) as [N1 N2]. unfold norm_both.
  set (mn := lmin x l) in *. set (mx := lmax x l) in *. assert (MM: mn <= mx) by (apply X1; exact N2).
  destruct (eqb (mx - mn) (of_Z 0)) eqn:E; bools; cbv [of_Z] in E.
  - repeat split.
    + apply in_map_iff in H0. destruct H0 as (u & <- & _). lra.
    + apply in_map_iff in H0. destruct H0 as (u & <- & _). lra.
    + apply map_length.
    + exfalso. lra.
    + exfalso. lra.
    + intros _ v I. apply in_map_iff in I. destruct I as (u & <- & _). reflexivity.
  - assert (SP: 0 < mx - mn) by lra. repeat split.
    + apply in_map_iff in H0. destruct H0 as (u & <- & I). specialize (X1 u I). specialize (N1 u I).
      unfold Rdiv. pose proof (Rinv_0_lt_compat _ SP) as K. set (k := / (mx - mn)) in *.
      assert (0 <= (u - mn) * k) by (apply Rmult_le_pos; lra). nra.
    + apply in_map_iff in H0. destruct H0 as (u & <- & I). specialize (X1 u I). specialize (N1 u I).
      unfold Rdiv. pose proof (Rinv_0_lt_compat _ SP) as K. assert (K1: (mx - mn) * / (mx - mn) = 1) by (apply Rinv_r; lra). set (k := / (mx - mn)) in *.
      assert ((u - mn) * k <= 1) by (rewrite <- K1; apply Rmult_le_compat_r; lra). nra.
    + apply map_length.
    + apply in_map_iff. exists mn. split; [|exact N2]. unfold Rdiv. ring.
    + apply in_map_iff. exists mx. split; [|exact X2]. field. lra.
    + intros EQ. exfalso. lra.
Qed.
Lemma scale_range w lo hi l : 0 <= w -> (forall v, In v l -> lo <= v <= hi) -> forall v, In v (scale w l) -> lo * w <= v <= hi * w.
Proof. intros Hw HL v I. apply in_map_iff in I. destruct I as (u & <- & I). specialize (HL u I). nra. Qed.
(* one bound given: a rigid shift (differences between structures unchanged) that puts the maximum at hi / the minimum at lo *)
Lemma norm_max_spec hi x l : (forall v, In v (norm_max hi x l) -> v <= hi) /\ In hi (norm_max hi x l) /\
  norm_max hi x l = map (fun v => v + (hi - lmax x l)) (x :: l).
Proof.
  destruct (lmax_spec l x) as [X1 X2]. unfold norm_max. repeat split.
  - intros v I. apply in_map_iff in I. destruct I as (u & <- & I). specialize (X1 u I). lra.
  - apply in_map_iff. exists (lmax x l). split; [ring|exact X2].
Qed.
Lemma norm_min_spec lo x l : (forall v, In v (norm_min lo x l) -> lo <= v) /\ In lo (norm_min lo x l) /\
  norm_min lo x l = map (fun v => v + (lo - lmin x l)) (x :: l).
Proof.
  destruct (lmin_spec l x) as [X1 X2]. unfold norm_min. repeat split.
  - intros v I. apply in_map_iff in I. destruct I as (u & <- & I). specialize (X1 u I). lra.
  - apply in_map_iff. exists (lmin x l). split; [ring|exact X2].
Qed.

(* ---- the distance ---- *)
Lemma d2_sq a : forall b, length a = length b -> d2 a b = sq (vsub a b).
Proof. unfold sq. induction a as [|x a IH]; intros [|y b] H; cbn [length] in H; try discriminate; cbn [d2 vsub dot]; cbv [of_Z]; [reflexivity|]. rewrite IH by (injection H; auto). reflexivity. Qed.
Lemma sumsq_sq m : sumsq m = sq m.
Proof. unfold sq. induction m as [|x m IH]; cbn [sumsq dot]; cbv [of_Z]; [reflexivity|]. rewrite IH. reflexivity. Qed.
Definition distance (a b m : list R) : R := sqrt (dist2 a b m).     (* np.linalg.norm(append(norm(va - vb), m)) *)
Lemma distance_norm a b m : length a = length b -> distance a b m = norm (dist a b :: m).
Proof.
  intros H. unfold distance, dist2, norm at 1. f_equal. rewrite (d2_sq a b H), sumsq_sq. unfold sq at 3. cbn [dot]. fold (sq m).
  unfold dist, norm. rewrite sqrt_sqrt by apply sq_nonneg. reflexivity.
Qed.
(* pair-gene entries of the three pairs: non-negative and each satisfying the triangle inequality *)
Definition tri_ok (mac mab mbc : list R) : Prop := Forall2 (fun x y => 0 <= x <= y) mac (vaddl mab mbc).
Lemma distance_metric_l a b c mab mbc mac : length a = length b -> length b = length c -> length mac = length mab -> length mab = length mbc ->
  tri_ok mac mab mbc ->
  distance a b mab = distance b a mab /\ distance a a (map (fun _ => 0) mab) = 0 /\ 0 <= distance a b mab /\
  distance a c mac <= distance a b mab + distance b c mbc.
Proof.
  intros H1 H2 H3 H4 T. destruct (dist_metric_l a b c H1 H2) as (S1 & S2 & S3 & S4). repeat split.
  - rewrite !distance_norm by congruence. rewrite S1. reflexivity.
  - rewrite distance_norm by reflexivity. rewrite S2. unfold norm. replace (sq (0 :: map (fun _ => 0) mab)) with 0; [apply sqrt_0|].
    unfold sq. cbn [dot]. induction mab as [|x t IH]; cbn [map dot]; [ring|]. cbn [length] in *. rewrite <- Rplus_assoc.
    assert (E: 0 * 0 + dot (map (fun _ : R => 0) t) (map (fun _ : R => 0) t) = 0).
    { clear. induction t as [|y t IH]; cbn [map dot]; [ring|]. rewrite <- IH at 3. ring_simplify. lra. }
    lra.
  - apply sqrt_pos.
  - rewrite !distance_norm by congruence. apply combined_triangle; cbn [length]; try congruence. cbn [vaddl]. constructor; [|exact T].
    split; [exact (proj1 (proj2 (proj2 (dist_metric_l a c c ltac:(congruence) eq_refl))))|exact S4].
Qed.

(* ---- nearest-centroid assignment ---- *)
From Coq Require Import ZArith Lia.
Lemma argmin_from_spec ds : forall best bd k, (0 <= best < k)%Z ->
  let r := argmin_from best bd k ds in
  (0 <= r < k + Z.of_nat (length ds))%Z /\
  ((r = best /\ forall j, (j < length ds)%nat -> bd <= nth j ds 0) \/
   (exists j, (j < length ds)%nat /\ r = (k + Z.of_nat j)%Z /\ nth j ds 0 < bd /\ forall i, (i < length ds)%nat -> nth j ds 0 <= nth i ds 0)).
Proof.
  induction ds as [|d r IH]; intros best bd k Hb; cbn [argmin_from length].
  - split; [lia|]. left. split; [reflexivity|intros j Hj; inversion Hj].
  - destruct (ltb d bd) eqn:E; bools.
    + destruct (IH k d (k + 1)%Z ltac:(lia)) as [R1 R2]. cbv zeta in *. split; [lia|]. right. destruct R2 as [[E1 A]|(j & Hj & E1 & Lt & A)].
      * exists 0%nat. split; [lia|]. split; [rewrite E1; lia|]. split; [exact E|]. intros [|i] Hi; cbn [nth]; [lra|apply A; lia].
      * exists (S j). split; [lia|]. split; [rewrite E1; lia|]. cbn [nth]. split; [lra|]. intros [|i] Hi; cbn [nth]; [lra|apply A; lia].
    + destruct (IH best bd (k + 1)%Z ltac:(lia)) as [R1 R2]. cbv zeta in *. split; [lia|]. destruct R2 as [[E1 A]|(j & Hj & E1 & Lt & A)].
      * left. split; [exact E1|]. intros [|i] Hi; cbn [nth]; [lra|apply A; lia].
      * right. exists (S j). split; [lia|]. split; [rewrite E1; lia|]. cbn [nth]. split; [exact Lt|]. intros [|i] Hi; cbn [nth]; [lra|apply A; lia].
Qed.
(* every observation is labelled with an existing centroid that is at least as close as any other *)
Lemma nearest_l cents x : cents <> [] ->
  (0 <= nearest cents x < Z.of_nat (length cents))%Z /\
  forall k, (k < length cents)%nat -> d2 x (nth (Z.to_nat (nearest cents x)) cents []) <= d2 x (nth k cents []).
Proof.
  intros NE. unfold nearest. destruct cents as [|c0 cs]; [contradiction|]. cbn [map]. set (ds := map (d2 x) cs).
  assert (L: length ds = length cs) by (unfold ds; apply map_length).
  assert (N: forall j, (j < length cs)%nat -> nth j ds 0 = d2 x (nth j cs [])).
  { intros j Hj. unfold ds. rewrite (nth_indep _ 0 (d2 x [])) by (rewrite map_length; exact Hj). apply (map_nth (d2 x) cs [] j). }
  destruct (argmin_from_spec ds 0%Z (d2 x c0) 1%Z ltac:(lia)) as [R1 R2]. cbv zeta in *. cbn [length]. split; [lia|].
  destruct R2 as [[E1 A]|(j & Hj & E1 & Lt & A)]; rewrite E1.
  - cbn [Z.to_nat nth]. intros [|k] Hk; cbn [nth]; [lra|]. rewrite <- N by (cbn [length] in Hk; lia). apply A. cbn [length] in Hk. lia.
  - replace (Z.to_nat (1 + Z.of_nat j)) with (S j) by lia. cbn [nth]. rewrite <- N by lia. intros [|k] Hk; cbn [nth]; [lra|].
    rewrite <- N by (cbn [length] in Hk; lia). apply A. cbn [length] in Hk. lia.
Qed.
