(* C07: selections are index sets with aligned per-atom arrays (axiom-free). *)
From Coq Require Import ZArith List Bool Lia Sorted.
Import ListNotations.
Require Import Sop.model.Sel.
Local Open Scope Z_scope.

Lemma memz_In i l : memz i l = true <-> In i l.
Proof.
  unfold memz. rewrite existsb_exists. split.
  - intros (x & I & E). apply Z.eqb_eq in E. subst. exact I.
  - intros I. exists i. split; [exact I|apply Z.eqb_refl].
Qed.

Lemma zseq_In n i : In i (zseq n) <-> 0 <= i < n.
Proof.
  unfold zseq. rewrite in_map_iff. split.
  - intros (k & E & I). apply in_seq in I. lia.
  - intros H. exists (Z.to_nat i). split; [lia|apply in_seq; lia].
Qed.
Lemma zseq_sorted n : StronglySorted Z.lt (zseq n).
Proof.
  unfold zseq. generalize (Z.to_nat n) as m. intros m. generalize 0%nat as s.
  induction m as [|m IH]; intros s; cbn; constructor; [apply IH|].
  apply Forall_forall. intros x I. apply in_map_iff in I. destruct I as (k & E & I). apply in_seq in I. lia.
Qed.
Lemma filter_sorted (p : Z -> bool) l : StronglySorted Z.lt l -> StronglySorted Z.lt (filter p l).
Proof.
  induction 1 as [|x l S IH F]; cbn; [constructor|]. destruct (p x); [|exact IH].
  constructor; [exact IH|]. apply Forall_forall. intros y I. apply filter_In in I. destruct I as [I _].
  rewrite Forall_forall in F. apply F, I.
Qed.
Lemma sorted_NoDup l : StronglySorted Z.lt l -> NoDup l.
Proof.
  induction 1 as [|x l S IH F]; constructor; [|exact IH]. intros I. rewrite Forall_forall in F. specialize (F x I). lia.
Qed.

Lemma asc_set_spec n p : StronglySorted Z.lt (asc_set n p) /\ NoDup (asc_set n p) /\
  forall i, In i (asc_set n p) <-> (0 <= i < n /\ p i = true).
Proof.
  unfold asc_set. pose proof (filter_sorted p _ (zseq_sorted n)) as S. split; [exact S|]. split; [apply sorted_NoDup, S|].
  intros i. rewrite filter_In, zseq_In. tauto.
Qed.

Definition wf (s : sel) : Prop := forall i, In i (idx s) -> 0 <= i < natoms s.

Lemma sequence_F2 {A B} (f : A -> option B) l : forall r, sequence (map f l) = Some r -> Forall2 (fun x y => f x = Some y) l r.
Proof.
  induction l as [|x t IH]; cbn; intros r H; [inversion H; constructor|].
  destruct (f x) as [y|] eqn:E; [|discriminate]. destruct (sequence (map f t)) as [r'|]; [|discriminate].
  cbn in H. inversion H; subst. constructor; [exact E|apply IH; reflexivity].
Qed.

Lemma sequence_In {A} (l : list (option A)) r x : sequence l = Some r -> In x r -> In (Some x) l.
Proof.
  revert r. induction l as [|[y|] t IH]; cbn; intros r H I; [inversion H; subst; destruct I| |discriminate].
  destruct (sequence t) as [r'|]; [|discriminate]. cbn in H. inversion H; subst.
  destruct I as [I|I]; [subst; left; reflexivity|right; apply (IH r' eq_refl I)].
Qed.

(* ---------- refusal across different compositions ---------- *)
Lemma different_composition_refused_l a b : compatible a b = false ->
  sadd a b = Refused /\ ssub a b = Refused /\ smul a b = Refused.
Proof. intros H. unfold sadd, ssub, smul. rewrite H. cbn. auto. Qed.

(* ---------- index sets ---------- *)
Lemma sadd_idx a b r : wf a -> wf b -> natoms a = natoms b -> sadd a b = Ok r ->
  NoDup (idx r) /\ StronglySorted Z.lt (idx r) /\ forall i, In i (idx r) <-> (In i (idx a) \/ In i (idx b)).
Proof.
  intros Wa Wb Hn H. unfold sadd in H. destruct (negb (compatible a b)); [discriminate|].
  cbv zeta in H. match type of H with match ?X with _ => _ end = _ => destruct X; [|discriminate] end. inversion H; subst; cbn [idx].
  destruct (asc_set_spec (natoms a) (fun i => memz i (idx a) || memz i (idx b))) as (S & N & M).
  split; [exact N|split; [exact S|]]. intros i. rewrite M, orb_true_iff, !memz_In. split; [tauto|].
  intros [I|I]; (split; [first [apply Wa, I | rewrite Hn; apply Wb, I] | tauto]).
Qed.

Lemma ssub_idx a b r : wf a -> ssub a b = Ok r ->
  NoDup (idx r) /\ StronglySorted Z.lt (idx r) /\ forall i, In i (idx r) <-> (In i (idx a) /\ ~ In i (idx b)).
Proof.
  intros Wa H. unfold ssub in H. destruct (negb (compatible a b)); [discriminate|].
  cbv zeta in H. match type of H with match ?X with _ => _ end = _ => destruct X; [|discriminate] end. inversion H; subst; cbn [idx].
  destruct (asc_set_spec (natoms a) (fun i => memz i (idx a) && negb (memz i (idx b)))) as (S & N & M).
  split; [exact N|split; [exact S|]]. intros i. rewrite M, andb_true_iff, negb_true_iff, memz_In. split.
  - intros (_ & I & NI). split; [exact I|]. intros J. apply memz_In in J. congruence.
  - intros (I & NI). split; [apply Wa, I|]. split; [exact I|]. destruct (memz i (idx b)) eqn:E; [apply memz_In in E; contradiction|reflexivity].
Qed.

Lemma smul_idx a b r : wf a -> smul a b = Ok r ->
  NoDup (idx r) /\ StronglySorted Z.lt (idx r) /\ forall i, In i (idx r) <-> (In i (idx a) /\ In i (idx b)).
Proof.
  intros Wa H. unfold smul in H. destruct (negb (compatible a b)); [discriminate|].
  cbv zeta in H. match type of H with match ?X with _ => _ end = _ => destruct X; [|discriminate] end. inversion H; subst; cbn [idx].
  destruct (asc_set_spec (natoms a) (fun i => memz i (idx a) && memz i (idx b))) as (S & N & M).
  split; [exact N|split; [exact S|]]. intros i. rewrite M, andb_true_iff, !memz_In. split; [tauto|].
  intros (I & J). split; [apply Wa, I|tauto].
Qed.

(* ---------- arrays stay aligned ---------- *)
Lemma lookup_In k l v : lookup k l = Some v -> In (k, v) l.
Proof.
  induction l as [|[m r] t IH]; cbn; [discriminate|]. destruct (m =? k) eqn:E; intros H.
  - inversion H; subst. apply Z.eqb_eq in E. subst. left. reflexivity.
  - right. apply IH, H.
Qed.

Lemma ssub_aligned a b r k vr : ssub a b = Ok r -> In (k, vr) (sarrays r) ->
  exists va, In (k, va) (sarrays a) /\ Forall2 (fun i v => val_first (idx a) va i = Some v) (idx r) vr.
Proof.
  intros H I. unfold ssub in H. destruct (negb (compatible a b)); [discriminate|].
  cbv zeta in H. match type of H with match ?X with _ => _ end = _ => destruct X as [l|] eqn:E; [|discriminate] end.
  inversion H; subst; cbn [idx sarrays] in *. clear H.
  pose proof (sequence_In _ _ _ E I) as J. apply in_map_iff in J. destruct J as ([k' va] & Q & J). cbn [fst snd] in Q.
  destruct (sequence (map (val_first (idx a) va) _)) as [w|] eqn:S; [|discriminate]. cbn in Q. inversion Q; subst.
  exists va. split; [exact J|apply sequence_F2, S].
Qed.

Lemma sadd_aligned a b r k vr : sadd a b = Ok r -> In (k, vr) (sarrays r) ->
  exists va vb, In (k, va) (sarrays a) /\ In (k, vb) (sarrays b) /\
    Forall2 (fun i v => match val_last (idx a) va i with Some x => Some x | None => val_last (idx b) vb i end = Some v) (idx r) vr.
Proof.
  intros H I. unfold sadd in H. destruct (negb (compatible a b)); [discriminate|].
  cbv zeta in H. match type of H with match ?X with _ => _ end = _ => destruct X as [l|] eqn:E; [|discriminate] end.
  inversion H; subst; cbn [idx sarrays] in *. clear H.
  pose proof (sequence_In _ _ _ E I) as J. apply in_map_iff in J. destruct J as ([k' ov] & Q & J). cbn [fst snd] in Q.
  destruct ov as [w|]; [|discriminate]. cbn in Q. inversion Q; subst. clear Q.
  apply in_map_iff in J. destruct J as (k0 & Q & J).
  destruct (lookup k0 (sarrays a)) as [va|] eqn:La; [|inversion Q]. destruct (lookup k0 (sarrays b)) as [vb|] eqn:Lb; [|inversion Q].
  inversion Q; subst. exists va, vb. split; [apply lookup_In, La|split; [apply lookup_In, Lb|]]. apply sequence_F2. assumption.
Qed.

Lemma smul_aligned a b r k vr : smul a b = Ok r -> In (k, vr) (sarrays r) ->
  (exists va, lookup k (sarrays a) = Some va /\ Forall2 (fun i v => val_first (idx a) va i = Some v) (idx r) vr) \/
  (exists vb, lookup k (sarrays b) = Some vb /\ Forall2 (fun i v => val_first (idx b) vb i = Some v) (idx r) vr).
Proof.
  intros H I. unfold smul in H. destruct (negb (compatible a b)); [discriminate|].
  cbv zeta in H. match type of H with match ?X with _ => _ end = _ => destruct X as [l|] eqn:E; [|discriminate] end.
  inversion H; subst; cbn [idx sarrays] in *. clear H.
  pose proof (sequence_In _ _ _ E I) as J. apply in_flat_map in J. destruct J as (k0 & _ & J).
  set (ix := asc_set (natoms a) (fun i => memz i (idx a) && memz i (idx b))) in *.
  destruct (lookup k0 (sarrays a)) as [va|] eqn:La; destruct (lookup k0 (sarrays b)) as [vb|] eqn:Lb; cbn in J.
  - destruct (sequence (map (val_first (idx a) va) ix)) as [x|] eqn:Sa; [|destruct J as [J|[]]; discriminate].
    destruct (sequence (map (val_first (idx b) vb) ix)) as [y|] eqn:Sb; [|destruct J as [J|[]]; discriminate].
    destruct (zlist_eqb x y); [|destruct J]. destruct J as [J|[]]. inversion J; subst.
    left. exists va. split; [exact La|apply sequence_F2, Sa].
  - destruct (sequence (map (val_first (idx a) va) ix)) as [x|] eqn:Sa; [|destruct J as [J|[]]; discriminate].
    destruct J as [J|[]]. inversion J; subst. left. exists va. split; [exact La|apply sequence_F2, Sa].
  - destruct (sequence (map (val_first (idx b) vb) ix)) as [y|] eqn:Sb; [|destruct J as [J|[]]; discriminate].
    destruct J as [J|[]]. inversion J; subst. right. exists vb. split; [exact Lb|apply sequence_F2, Sb].
  - destruct J.
Qed.

(* slicing applies one list of positions to the indices and to every array *)
Lemma sget_aligned s ps r : sget s ps = Ok r ->
  Forall2 (fun p i => nthZ (idx s) p = Some i) ps (idx r) /\
  forall k vr, In (k, vr) (sarrays r) -> exists v, In (k, v) (sarrays s) /\ Forall2 (fun p x => nthZ v p = Some x) ps vr.
Proof.
  unfold sget, take_pos. destruct (sequence (map (nthZ (idx s)) ps)) as [ix|] eqn:E1; [|discriminate].
  match goal with |- match ?X with _ => _ end = _ -> _ => destruct X as [arrs|] eqn:E2; [|discriminate] end.
  intros H. inversion H; subst; cbn [idx sarrays]. split; [apply sequence_F2, E1|].
  intros k vr I. pose proof (sequence_In _ _ _ E2 I) as J. apply in_map_iff in J. destruct J as ([k' v] & Q & J). cbn [fst snd] in Q.
  destruct (sequence (map (nthZ v) ps)) as [w|] eqn:S; [|discriminate]. cbn in Q. inversion Q; subst.
  exists v. split; [exact J|apply sequence_F2, S].
Qed.

(* ---------- selectors ---------- *)
Lemma positions_spec {A} (p : A -> bool) l : forall k i, In i (positions p k l) <->
  exists j x, nth_error l j = Some x /\ p x = true /\ i = k + Z.of_nat j.
Proof.
  induction l as [|y t IH]; intros k i; cbn [positions].
  - split; [intros []|intros (j & x & H & _); destruct j; discriminate].
  - rewrite in_app_iff, IH. split.
    + intros [H|(j & x & N & P & E)].
      * destruct (p y) eqn:Py; [|destruct H]. destruct H as [H|[]]. subst. exists 0%nat, y. repeat split; [exact Py|lia].
      * exists (S j), x. repeat split; [exact N|exact P|lia].
    + intros (j & x & N & P & E). destruct j as [|j].
      * cbn in N. inversion N; subst. left. rewrite P. left. lia.
      * right. exists j, x. repeat split; [exact N|exact P|lia].
Qed.

Lemma from_element_spec_l syms e i : In i (from_element syms e) <-> (0 <= i /\ nth_error syms (Z.to_nat i) = Some e).
Proof.
  unfold from_element. rewrite positions_spec. split.
  - intros (j & x & N & P & E). apply Z.eqb_eq in P. subst. replace (Z.to_nat (0 + Z.of_nat j)) with j by lia. split; [lia|exact N].
  - intros [H N]. exists (Z.to_nat i), e. repeat split; [exact N|apply Z.eqb_refl|lia].
Qed.

Lemma from_array_spec_l vals c v i : In i (from_array vals c v) <->
  (0 <= i /\ exists x, nth_error vals (Z.to_nat i) = Some x /\ cmpf c x v = true).
Proof.
  unfold from_array. rewrite positions_spec. split.
  - intros (j & x & N & P & E). subst. replace (Z.to_nat (0 + Z.of_nat j)) with j by lia. split; [lia|]. exists x. tauto.
  - intros [H (x & N & P)]. exists (Z.to_nat i), x. repeat split; [exact N|exact P|lia].
Qed.

(* ---------- selection strings ---------- *)
Lemma first_occ_spec l : forall seen, NoDup (first_occ l seen) /\
  forall x, In x (first_occ l seen) <-> (In x l /\ ~ In x seen).
Proof.
  induction l as [|y t IH]; intros seen; cbn [first_occ].
  - split; [constructor|]. intros x. split; [intros []|intros [[] _]].
  - destruct (memz y seen) eqn:M.
    + destruct (IH seen) as [N S]. split; [exact N|]. intros x. rewrite S. apply memz_In in M. split.
      * intros [I NS]. split; [right; exact I|exact NS].
      * intros [[E|I] NS]; [subst; contradiction|split; assumption].
    + destruct (IH (y :: seen)) as [N S]. assert (NM: ~ In y seen) by (intros I; apply memz_In in I; congruence). split.
      * constructor; [|exact N]. intros I. apply S in I. destruct I as [_ NI]. apply NI. left. reflexivity.
      * intros x. cbn [In]. rewrite S. cbn [In]. split.
        -- intros [E|[I NS]]; [subst; split; [left; reflexivity|exact NM]|split; [right; exact I|tauto]].
        -- intros [[E|I] NS]; [left; exact E|]. destruct (Z.eq_dec y x) as [E|NE]; [left; exact E|right; split; [exact I|tauto]].
Qed.

Lemma from_items_NoDup syms labels items : forall prev g l, from_items syms labels items prev g = Ok l -> NoDup l.
Proof.
  induction items as [|it rest IH]; intros prev g l H; cbn [from_items] in H.
  - inversion H. apply first_occ_spec.
  - destruct (match it, prev with IBare ss, Some e => Some (IIdx e ss) | IBare _, None => None | x, _ => Some x end) as [it'|]; [|discriminate].
    destruct (negb (memz _ syms)); [discriminate|].
    destruct it' as [e|e ss|e lab|ss]; try discriminate.
    + eapply IH; exact H.
    + destruct (memz 0 _); [discriminate|]. destruct (pick_sites _ _); [|discriminate]. eapply IH; exact H.
    + destruct (positions _ 0 labels); [discriminate|]. eapply IH; exact H.
Qed.

(* a bare element selects exactly the atoms of that element, in atom order *)
Lemma from_items_element syms labels e : memz e syms = true ->
  from_items syms labels [IEl e] None [] = Ok (from_element syms e).
Proof.
  intros M. cbn [from_items]. rewrite M. cbn [negb group_set flat_map snd]. rewrite app_nil_r. f_equal.
  assert (G: forall l seen, NoDup l -> (forall x, In x l -> ~ In x seen) -> first_occ l seen = l).
  { induction l as [|y t IH]; intros seen N D; cbn [first_occ]; [reflexivity|]. inversion N; subst.
    destruct (memz y seen) eqn:E; [apply memz_In in E; exfalso; apply (D y); [left; reflexivity|exact E]|].
    f_equal. apply IH; [assumption|]. intros x I [Q|Q]; [subst; contradiction|apply (D x); [right; exact I|exact Q]]. }
  apply G; [|intros x _ []].
  assert (P: forall (l : list Z) k, StronglySorted Z.lt (positions (Z.eqb e) k l) /\ forall i, In i (positions (Z.eqb e) k l) -> k <= i).
  { induction l as [|y t IHl]; intros k; cbn [positions]; [split; [constructor|intros i []]|].
    destruct (IHl (k + 1)) as [S B]. destruct (e =? y); cbn [app].
    - split; [constructor; [exact S|]|intros i [E|I]; [lia|specialize (B i I); lia]].
      apply Forall_forall. intros i I. specialize (B i I). lia.
    - split; [exact S|intros i I; specialize (B i I); lia]. }
  apply sorted_NoDup. apply P.
Qed.

(* 'El.i' with 1 <= i <= count selects the i-th atom of that element *)
Lemma from_items_site syms labels e i x : memz e syms = true -> 1 <= i ->
  nth_error (from_element syms e) (Z.to_nat (i - 1)) = Some x ->
  from_items syms labels [IIdx e [SOne i]] None [] = Ok [x].
Proof.
  intros M Hi N. cbn [from_items]. rewrite M. cbn [negb flat_map expand_site app memz existsb].
  replace (0 =? i) with false by (symmetry; apply Z.eqb_neq; lia). cbn [orb].
  unfold pick_sites. cbn [map]. replace (i - 1 <? 0) with false by (symmetry; apply Z.ltb_ge; lia).
  unfold nthZ. replace (i - 1 <? 0) with false by (symmetry; apply Z.ltb_ge; lia). rewrite N. cbn [sequence option_map].
  cbn [group_ext flat_map snd app first_occ memz existsb]. reflexivity.
Qed.
