(* C14: the peak list is sound, complete for ALL hkl in Z^3, grouped by spacing and sorted (no axioms). *)
From Coq Require Import ZArith List Bool Lia Sorted.
Import ListNotations.
Require Import Sop.model.Lattice Sop.proofs.LatticeProofs Sop.model.Peaks.
Local Open Scope Z_scope.

Lemma insert_u_In x l y : In y (insert_u x l) <-> y = x \/ In y l.
Proof.
  induction l as [|z t IH]; cbn [insert_u In]; [intuition congruence|].
  destruct (x <? z); [cbn [In]; intuition congruence|]. destruct (x =? z) eqn:E; [apply Z.eqb_eq in E; subst; cbn [In]; intuition congruence|].
  cbn [In]. rewrite IH. intuition congruence.
Qed.
Lemma usort_In l y : In y (usort l) <-> In y l.
Proof. induction l as [|x l IH]; cbn [usort fold_right In]; [tauto|]. fold (usort l). rewrite insert_u_In, IH. intuition congruence. Qed.
Lemma insert_u_sorted x l : StronglySorted Z.lt l -> StronglySorted Z.lt (insert_u x l).
Proof.
  induction l as [|z t IH]; intros S; cbn [insert_u]; [repeat constructor|].
  inversion S as [|? ? S' F]; subst. destruct (x <? z) eqn:E1.
  - apply Z.ltb_lt in E1. constructor; [exact S|]. constructor; [exact E1|]. eapply Forall_impl; [|exact F]. cbn. intros; lia.
  - apply Z.ltb_ge in E1. destruct (x =? z) eqn:E2; [exact S|]. apply Z.eqb_neq in E2. constructor; [apply IH; exact S'|].
    apply Forall_forall. intros y I. apply insert_u_In in I. destruct I as [Q|I]; [subst; lia|]. rewrite Forall_forall in F. apply F. exact I.
Qed.
Lemma usort_sorted l : StronglySorted Z.lt (usort l).
Proof. induction l as [|x l IH]; cbn [usort fold_right]; [constructor|]. apply insert_u_sorted. exact IH. Qed.

Lemma selected_spec G rn rd rule n : PD G -> 0 <= rn -> 0 < rd ->
  In n (selected G rn rd rule) <->
  ((let '(h,k,l) := n in rule h k l = true) /\ 0 < qform G n /\ qform G n * rd < rn).
Proof.
  intros HP Hn Hd. destruct n as [[h k] l]. unfold selected. rewrite !filter_In. unfold in_window. rewrite andb_true_iff, Z.ltb_lt, Z.ltb_lt.
  split; [intros [[_ R] [Q0 Q1]]; split; [exact R|split; assumption]|].
  intros (R & Q0 & Q1). split; [split; [|exact R]|split; assumption].
  unfold hkl_grid. apply grid_In.
  pose proof (box_complete_metric_l G (h,k,l) rn rd 0%nat HP Hn Hd ltac:(lia) ltac:(lia)) as B0.
  pose proof (box_complete_metric_l G (h,k,l) rn rd 1%nat HP Hn Hd ltac:(lia) ltac:(lia)) as B1.
  pose proof (box_complete_metric_l G (h,k,l) rn rd 2%nat HP Hn Hd ltac:(lia) ltac:(lia)) as B2.
  cbn [nthv] in *. lia.
Qed.

(* soundness + completeness over all of Z^3, grouping by spacing, exactly one group per spacing, ascending *)
Lemma peaks_spec_l G rn rd rule : PD G -> 0 <= rn -> 0 < rd ->
  (forall q g n, In (q, g) (peaks G rn rd rule) ->
     (In n g <-> ((let '(h,k,l) := n in rule h k l = true) /\ 0 < qform G n /\ qform G n * rd < rn /\ qform G n = q))) /\
  (forall n, (let '(h,k,l) := n in rule h k l = true) -> 0 < qform G n -> qform G n * rd < rn ->
     exists g, In (qform G n, g) (peaks G rn rd rule) /\ In n g) /\
  StronglySorted Z.lt (map fst (peaks G rn rd rule)) /\
  (forall q g, In (q, g) (peaks G rn rd rule) -> g <> []).
Proof.
  intros HP Hn Hd. unfold peaks. set (sel := selected G rn rd rule).
  assert (SS: forall n, In n sel <-> ((let '(h,k,l) := n in rule h k l = true) /\ 0 < qform G n /\ qform G n * rd < rn))
    by (intros n; apply selected_spec; assumption).
  split; [|split; [|split]].
  - intros q g n I. apply in_map_iff in I. destruct I as (q' & E & _). inversion E; subst. rewrite filter_In, Z.eqb_eq, SS. tauto.
  - intros n R Q0 Q1. exists (filter (fun m => qform G m =? qform G n) sel). split.
    + apply in_map_iff. exists (qform G n). split; [reflexivity|]. apply usort_In. apply in_map. apply SS. tauto.
    + apply filter_In. split; [apply SS; tauto|apply Z.eqb_refl].
  - rewrite map_map. cbn [fst]. rewrite map_id. apply usort_sorted.
  - intros q g I. apply in_map_iff in I. destruct I as (q' & E & IQ). inversion E; subst. apply (proj1 (usort_In _ _)) in IQ. apply in_map_iff in IQ.
    destruct IQ as (n & EQ & IN). intros F. assert (X: In n (filter (fun m => qform G m =? q) sel)) by (apply filter_In; split; [exact IN|apply Z.eqb_eq; exact EQ]).
    rewrite F in X. destruct X.
Qed.
