(* C19: the Euclidean combination used by PhylogenCluster._recalc is a (pseudo-)metric: symmetry, zero diagonal, non-negativity and the triangle
   inequality, for vectors of any length; and a componentwise combination of pseudo-metrics in the Euclidean norm is again one (Reals). *)
From Coq Require Import Reals Lra Psatz List.
Import ListNotations.
Local Open Scope R_scope.

Fixpoint dot (a b : list R) : R := match a, b with x :: a', y :: b' => x * y + dot a' b' | _, _ => 0 end.
Definition sq (a : list R) : R := dot a a.
Fixpoint vsub (a b : list R) : list R := match a, b with x :: a', y :: b' => (x - y) :: vsub a' b' | _, _ => [] end.
Fixpoint vaddl (a b : list R) : list R := match a, b with x :: a', y :: b' => (x + y) :: vaddl a' b' | _, _ => [] end.
Definition norm (a : list R) : R := sqrt (sq a).
Definition dist (a b : list R) : R := norm (vsub a b).

Lemma sq_nonneg a : 0 <= sq a.
Proof. unfold sq. induction a as [|x a IH]; cbn [dot]; [lra|nra]. Qed.
(* Cauchy-Schwarz *)
Lemma cauchy_schwarz a : forall b, dot a b * dot a b <= sq a * sq b.
Proof.
  unfold sq. induction a as [|x a IH]; intros [|y b]; cbn [dot]; try lra.
  - specialize (IH b). pose proof (sq_nonneg a) as HA. pose proof (sq_nonneg b) as HB. unfold sq in HA, HB.
    set (s := dot a b) in *. set (A := dot a a) in *. set (B := dot b b) in *.
    assert (K: 2 * s * (x * y) <= A * (y * y) + B * (x * x)).
    { destruct (Rle_dec (2 * s * (x * y)) 0) as [L|G]; [nra|].
      assert (P: (2 * s * (x * y)) * (2 * s * (x * y)) <= (A * (y * y) + B * (x * x)) * (A * (y * y) + B * (x * x))).
      { assert (Q: 4 * (s * s) * ((x * y) * (x * y)) <= 4 * (A * B) * ((x * y) * (x * y))) by (apply Rmult_le_compat_r; [nra|nra]).
        assert (Q2: 0 <= (A * (y * y) - B * (x * x)) * (A * (y * y) - B * (x * x))) by (pose proof (Rle_0_sqr (A * (y * y) - B * (x * x))) as Z0; unfold Rsqr in Z0; exact Z0). nra. }
      assert (0 <= A * (y * y) + B * (x * x)) by nra. nra. }
    nra.
Qed.
Lemma sq_vaddl a : forall b, length a = length b -> sq (vaddl a b) = sq a + 2 * dot a b + sq b.
Proof.
  unfold sq. induction a as [|x a IH]; intros [|y b] H; cbn [length] in H; try discriminate; cbn [vaddl dot]; [lra|].
  rewrite IH by (injection H; auto). ring.
Qed.
(* Minkowski *)
Lemma norm_triangle a b : length a = length b -> norm (vaddl a b) <= norm a + norm b.
Proof.
  intros H. unfold norm. pose proof (sq_nonneg a) as HA. pose proof (sq_nonneg b) as HB. pose proof (sq_nonneg (vaddl a b)) as HS.
  apply Rsqr_incr_0_var; [|pose proof (sqrt_pos (sq a)); pose proof (sqrt_pos (sq b)); lra].
  unfold Rsqr. rewrite sqrt_sqrt by exact HS. rewrite (sq_vaddl a b H).
  assert (E: (sqrt (sq a) + sqrt (sq b)) * (sqrt (sq a) + sqrt (sq b)) = sq a + 2 * (sqrt (sq a) * sqrt (sq b)) + sq b).
  { transitivity (sqrt (sq a) * sqrt (sq a) + 2 * (sqrt (sq a) * sqrt (sq b)) + sqrt (sq b) * sqrt (sq b)); [ring|]. rewrite !sqrt_sqrt by assumption. reflexivity. }
  rewrite E. assert (K: dot a b <= sqrt (sq a) * sqrt (sq b)).
  { rewrite <- sqrt_mult by assumption. destruct (Rle_dec (dot a b) 0) as [L|G]; [pose proof (sqrt_pos (sq a * sq b)); lra|].
    apply Rsqr_incr_0_var; [|apply sqrt_pos]. unfold Rsqr. rewrite sqrt_sqrt by nra. apply cauchy_schwarz. }
  lra.
Qed.
Lemma vsub_split a : forall b c, length a = length b -> length b = length c -> vsub a c = vaddl (vsub a b) (vsub b c).
Proof.
  induction a as [|x a IH]; intros [|y b] [|z c] H1 H2; cbn [length] in *; try discriminate; cbn [vsub vaddl]; [reflexivity|].
  f_equal; [ring|]. apply IH; [injection H1; auto|injection H2; auto].
Qed.
Lemma vsub_length a : forall b, length a = length b -> length (vsub a b) = length a.
Proof. induction a as [|x a IH]; intros [|y b] H; cbn [length] in *; try discriminate; cbn [vsub length]; [reflexivity|]. f_equal. apply IH. injection H; auto. Qed.

Lemma dist_metric_l a b c : length a = length b -> length b = length c ->
  dist a b = dist b a /\ dist a a = 0 /\ 0 <= dist a b /\ dist a c <= dist a b + dist b c.
Proof.
  intros H1 H2. unfold dist. repeat split.
  - clear H2. unfold norm. f_equal. unfold sq. revert b H1. induction a as [|x a IH]; intros [|y b] H1; cbn [length] in H1; try discriminate; cbn [vsub dot]; [reflexivity|].
    rewrite (IH b) by (injection H1; auto). ring.
  - clear H1 H2. unfold norm. replace (sq (vsub a a)) with 0; [apply sqrt_0|]. unfold sq. induction a as [|x a IH]; cbn [vsub dot]; [reflexivity|]. rewrite <- IH. ring.
  - apply sqrt_pos.
  - rewrite (vsub_split a b c H1 H2). apply norm_triangle. rewrite !vsub_length by assumption. congruence.
Qed.

(* monotonicity: a vector of non-negative entries dominated entry by entry has the smaller norm *)
Lemma norm_mono u : forall v, length u = length v -> Forall2 (fun x y => 0 <= x <= y) u v -> norm u <= norm v.
Proof.
  intros v H F. unfold norm. apply sqrt_le_1_alt. unfold sq. induction F as [|x y u v [H0 H1] F IH]; cbn [dot]; [lra|].
  assert (dot u u <= dot v v) by (apply IH; cbn in H; injection H; auto). nra.
Qed.
(* combining component (pseudo-)metrics in the Euclidean norm: if every component satisfies the triangle inequality so does the combination *)
Lemma combined_triangle dac dab dbc : length dac = length dab -> length dab = length dbc ->
  Forall2 (fun x y => 0 <= x <= y) dac (vaddl dab dbc) -> norm dac <= norm dab + norm dbc.
Proof.
  intros H1 H2 F. eapply Rle_trans; [apply norm_mono; [|exact F]|apply norm_triangle; exact H2].
  clear F. revert dab dbc H1 H2. induction dac as [|x u IH]; intros [|y v] [|z w] H1 H2; cbn [length] in *; try discriminate; cbn [vaddl length]; [reflexivity|].
  f_equal. apply IH; [injection H1; auto|injection H2; auto].
Qed.
