(* C08/C09: consequences of the table lemmas - every listed equivalent set reproduces the same tensor - and the folding of
   _normalise_euler_angles (GENERATED) as a D2 coset with its ranges. *)
Require Import Sop.model.NmrUtilsR Sop.proofs.EulerBase.

Ltac mat9 := unfold mmul, mtr, dg, diag; repeat (f_equal; try ring).
Lemma mmul_assoc A B C : mmul (mmul A B) C = mmul A (mmul B C).
Proof. destruct A as [[[[[[[[a1 a2] a3] a4] a5] a6] a7] a8] a9], B as [[[[[[[[b1 b2] b3] b4] b5] b6] b7] b8] b9], C as [[[[[[[[c1 c2] c3] c4] c5] c6] c7] c8] c9]. mat9. Qed.
Lemma mtr_mmul A B : mtr (mmul A B) = mmul (mtr B) (mtr A).
Proof. destruct A as [[[[[[[[a1 a2] a3] a4] a5] a6] a7] a8] a9], B as [[[[[[[[b1 b2] b3] b4] b5] b6] b7] b8] b9]. mat9. Qed.
Lemma mtr_dg f : mtr (dg f) = dg f.
Proof. destruct f; reflexivity. Qed.

(* active: tensor = M D M^T; a member M' = M S of the coset gives the same tensor *)
Lemma reproduce_right M M' f x y z : M' = mmul M (dg f) -> mmul (mmul M' (diag x y z)) (mtr M') = mmul (mmul M (diag x y z)) (mtr M).
Proof.
  intros ->. rewrite mtr_mmul, mtr_dg. rewrite <- (flip_conj f x y z) at 2. rewrite !mmul_assoc. reflexivity.
Qed.
(* passive: tensor = M^T D M; a member M' = S M gives the same tensor *)
Lemma reproduce_left M M' f x y z : M' = mmul (dg f) M -> mmul (mmul (mtr M') (diag x y z)) M' = mmul (mmul (mtr M) (diag x y z)) M.
Proof.
  intros ->. rewrite mtr_mmul, mtr_dg. rewrite <- (flip_conj f x y z) at 2. rewrite !mmul_assoc. reflexivity.
Qed.

(* axially symmetric tensors: with the first two principal values equal, the third Euler angle is free (the code sets it to 0) *)
Lemma Rz_conj c x z : mmul (mmul (Rz c) (diag x x z)) (mtr (Rz c)) = diag x x z.
Proof.
  unfold Rz, mmul, mtr, diag. pose proof (sin2_cos2 c) as H. unfold Rsqr in H. revert H. generalize (sin c) (cos c). intros s co H.
  assert (Hx: x * (s * s + co * co) = x) by (rewrite H; ring).
  repeat f_equal; try ring; lra.
Qed.
Lemma rot_split_Y a b c : rotY a b c = mmul (rotY a b 0) (Rz c).
Proof. unfold rotY, Rz, Ry, mmul. rewrite sin_0, cos_0. repeat (f_equal; try ring). Qed.
Lemma rot_split_X a b c : rotX a b c = mmul (rotX a b 0) (Rz c).
Proof. unfold rotX, Rz, Rx, mmul. rewrite sin_0, cos_0. repeat (f_equal; try ring). Qed.
Lemma axial_gamma_free a b c x z : mmul (mmul (rotY a b c) (diag x x z)) (mtr (rotY a b c)) = mmul (mmul (rotY a b 0) (diag x x z)) (mtr (rotY a b 0)).
Proof. rewrite (rot_split_Y a b c), mtr_mmul. rewrite <- (Rz_conj c x z) at 2. rewrite !mmul_assoc. reflexivity. Qed.
Lemma axial_gamma_free_X a b c x z : mmul (mmul (rotX a b c) (diag x x z)) (mtr (rotX a b c)) = mmul (mmul (rotX a b 0) (diag x x z)) (mtr (rotX a b 0)).
Proof. rewrite (rot_split_X a b c), mtr_mmul. rewrite <- (Rz_conj c x z) at 2. rewrite !mmul_assoc. reflexivity. Qed.
(* isotropic tensors are reproduced by any angles, in particular (0,0,0): the rotation matrices are orthogonal *)
Lemma Rz_orth t : mmul (Rz t) (mtr (Rz t)) = diag 1 1 1.
Proof. unfold Rz, mmul, mtr, diag. pose proof (sin2_cos2 t) as H. unfold Rsqr in H. revert H. generalize (sin t) (cos t). intros s co H. repeat f_equal; try ring; lra. Qed.
Lemma Ry_orth t : mmul (Ry t) (mtr (Ry t)) = diag 1 1 1.
Proof. unfold Ry, mmul, mtr, diag. pose proof (sin2_cos2 t) as H. unfold Rsqr in H. revert H. generalize (sin t) (cos t). intros s co H. repeat f_equal; try ring; lra. Qed.
Lemma Rx_orth t : mmul (Rx t) (mtr (Rx t)) = diag 1 1 1.
Proof. unfold Rx, mmul, mtr, diag. pose proof (sin2_cos2 t) as H. unfold Rsqr in H. revert H. generalize (sin t) (cos t). intros s co H. repeat f_equal; try ring; lra. Qed.
Lemma mmul_id_l A : mmul (diag 1 1 1) A = A.
Proof. destruct A as [[[[[[[[a1 a2] a3] a4] a5] a6] a7] a8] a9]. unfold mmul, diag. repeat (f_equal; try ring). Qed.
Lemma mmul_id_r A : mmul A (diag 1 1 1) = A.
Proof. destruct A as [[[[[[[[a1 a2] a3] a4] a5] a6] a7] a8] a9]. unfold mmul, diag. repeat (f_equal; try ring). Qed.
Lemma orth_prod A B : mmul A (mtr A) = diag 1 1 1 -> mmul B (mtr B) = diag 1 1 1 -> mmul (mmul A B) (mtr (mmul A B)) = diag 1 1 1.
Proof. intros HA HB. rewrite mtr_mmul, mmul_assoc, <- (mmul_assoc B), HB, mmul_id_l. exact HA. Qed.
Lemma rotY_orth a b c : mmul (rotY a b c) (mtr (rotY a b c)) = diag 1 1 1.
Proof. unfold rotY. apply orth_prod; [apply orth_prod; [apply Rz_orth|apply Ry_orth]|apply Rz_orth]. Qed.
Lemma rotX_orth a b c : mmul (rotX a b c) (mtr (rotX a b c)) = diag 1 1 1.
Proof. unfold rotX. apply orth_prod; [apply orth_prod; [apply Rz_orth|apply Rx_orth]|apply Rz_orth]. Qed.
Lemma scal_comm A x : mmul A (diag x x x) = mmul (diag x x x) A.
Proof. destruct A as [[[[[[[[a1 a2] a3] a4] a5] a6] a7] a8] a9]. unfold mmul, diag. repeat (f_equal; try ring). Qed.
Lemma iso_any a b c x : mmul (mmul (rotY a b c) (diag x x x)) (mtr (rotY a b c)) = diag x x x /\ mmul (mmul (rotX a b c) (diag x x x)) (mtr (rotX a b c)) = diag x x x.
Proof. split; rewrite scal_comm, mmul_assoc; [rewrite rotY_orth|rewrite rotX_orth]; apply mmul_id_r. Qed.
