(* C02: convention descriptors of the GENERATED helpers (_anisotropy, _asymmetry, _span, _skew) over the reals. *)
Require Import Sop.model.NmrUtilsR Sop.proofs.SortProofs.
Local Open Scope R_scope.

Definition haeb (e : vec3) : vec3 := fst (evals_sort_h_True e).
Definition iso (e : vec3) : R := avg3 e.

Ltac unfd := unfold haeb, iso, asymmetry, anisotropy_True, anisotropy_False, span, skew, median3, max3, min3, max2, min2,
  avg3, div_opt, of_Z.

Lemma haeb_props e : let '(x,y,z) := haeb e in
  Perm3 e (x,y,z) /\ Rabs (y - iso e) <= Rabs (x - iso e) <= Rabs (z - iso e) /\ x + y + z = 3 * iso e.
Proof.
  unfold haeb, iso. pose proof (sortc_perm 2 e) as P. pose proof (sort_haeb_l e) as C.
  unfold sortc in P. destruct (fst (evals_sort_h_True e)) as [[x y] z]. cbv zeta in C.
  split; [exact P|]. split; [exact C|]. rewrite <- (Perm3_avg e (x,y,z) P). unfold avg3, of_Z. lra.
Qed.

(* reduced anisotropy = zz - iso = 2/3 anisotropy *)
Lemma redaniso_def_l e : let '(x,y,z) := haeb e in
  anisotropy_True (haeb e) = z - iso e /\ anisotropy_True (haeb e) = 2/3 * anisotropy_False (haeb e)
  /\ anisotropy_False (haeb e) = z - (x + y) / 2.
Proof.
  pose proof (haeb_props e) as H. destruct (haeb e) as [[x y] z]. destruct H as (_ & _ & S).
  unfold anisotropy_True, anisotropy_False, nth3, of_Z. repeat split; lra.
Qed.

Lemma eta_core x y z m : x + y + z = 3 * m -> Rabs (y-m) <= Rabs (x-m) <= Rabs (z-m) ->
  let d := (z - (x+y)/2) * (2/3) in d <> 0 -> 0 <= (y-x)/d <= 1.
Proof. intros S [H1 H2] d Hd. assert (E: (y-x)/d*d = y-x) by (field; exact Hd).
  unfold d in *. unfold Rabs in *. repeat destruct Rcase_abs; nra. Qed.

(* asymmetry = (yy - xx)/reduced anisotropy, in [0,1]; 0 (no division) when the anisotropy vanishes *)
Lemma eta_range_l e : 0 <= asymmetry (haeb e) <= 1.
Proof.
  pose proof (haeb_props e) as H. destruct (haeb e) as [[x y] z]. destruct H as (_ & C & S).
  unfold asymmetry, anisotropy_True, nth3.
  destruct (eqb _ _) eqn:E; cbn [div_opt]; bools; unfold of_Z in *.
  - lra.
  - apply (eta_core x y z (iso e) S C). exact E.
Qed.

Lemma eta_def_l e : let '(x,y,z) := haeb e in
  (anisotropy_True (haeb e) <> 0 -> asymmetry (haeb e) = (y - x) / anisotropy_True (haeb e)) /\
  (anisotropy_True (haeb e) = 0 -> asymmetry (haeb e) = 0).
Proof.
  destruct (haeb e) as [[x y] z]. unfold asymmetry.
  destruct (eqb _ _) eqn:E; cbn [div_opt nth3]; bools; unfold of_Z in *; split; intro H; try lra; try contradiction; reflexivity.
Qed.

Lemma div_bounds n d : 0 < d -> - d <= n <= d -> -1 <= n / d <= 1.
Proof.
  intros Hd [H1 H2]. assert (E: n / d * d = n) by (field; lra). nra.
Qed.

Lemma span_nonneg_l e : 0 <= span e.
Proof. destruct e as [[a b] c]. unfd. lebs; bools; lra. Qed.

Lemma span_minmax_l e : let '(x,y,z) := fst (evals_sort_i_True e) in span e = z - x.
Proof. destruct e as [[a b] c]. unf. unfd. cbn [fst]. lebs; cbn; bools; lra. Qed.

Lemma skew_def_l e : let '(x,y,z) := fst (evals_sort_i_True e) in
  (span e <> 0 -> skew e = 3 * (iso e - y) / span e) /\ (span e = 0 -> skew e = 0).
Proof.
  destruct e as [[a b] c]. unfold skew.
  destruct (eqb (span (a,b,c)) (of_Z 0)) eqn:E; cbn [div_opt]; bools; unfold of_Z in *.
  - unf. cbn [fst]. lebs; cbn; split; intro H; try lra; contradiction.
  - revert E. unf. unfold median3, argsort3, iso, nth3. cbn [fst]. lebs; cbn; intros EE; split; intro H; try lra; reflexivity.
Qed.

Lemma skew_range_l e : -1 <= skew e <= 1.
Proof.
  destruct e as [[a b] c]. unfold skew.
  destruct (eqb (span (a,b,c)) (of_Z 0)) eqn:E; cbn [div_opt]; bools; unfold of_Z in *.
  - lra.
  - pose proof (span_nonneg_l (a,b,c)) as P. apply div_bounds; [lra|].
    revert E P. unfd. unfold argsort3, nth3. lebs; cbn; bools; intros; lra.
Qed.

(* invariance under any rearrangement of the eigenvalues (= independence of the ordering selected) *)
Lemma span_skew_perm_l e e' : Perm3 e e' -> span e' = span e /\ skew e' = skew e /\ iso e' = iso e.
Proof.
  intros P.
  assert (I: iso e' = iso e) by (apply Perm3_avg; exact P).
  assert (S: fst (evals_sort_i_True e') = fst (evals_sort_i_True e)) by (apply (sort_canonical_id_l 0 e e'); [lia|exact P]).
  assert (SP: span e' = span e).
  { pose proof (span_minmax_l e) as A. pose proof (span_minmax_l e') as B. rewrite S in B.
    destruct (fst (evals_sort_i_True e)) as [[x y] z]. lra. }
  repeat split; try assumption.
  pose proof (skew_def_l e) as A. pose proof (skew_def_l e') as B. rewrite S, SP, I in B.
  destruct (fst (evals_sort_i_True e)) as [[x y] z]. destruct A as [A1 A2], B as [B1 B2].
  destruct (Req_EM_T (span e) 0) as [Z|NZ].
  - rewrite (A2 Z), (B2 Z). reflexivity.
  - rewrite (A1 NZ), (B1 NZ). reflexivity.
Qed.

Lemma haeb_perm_l e e' : Perm3 e e' -> distinct3 (key 2 e) -> haeb e' = haeb e.
Proof. intros P D. exact (sort_canonical_l 2 e e' P D). Qed.

(* ---------- adding c*I shifts only the isotropy ---------- *)
Definition shift3 (e : vec3) (c : R) : vec3 := let '(a,b,d) := e in (a+c, b+c, d+c).
Definition scale3 (k : R) (e : vec3) : vec3 := let '(a,b,d) := e in (k*a, k*b, k*d).

Lemma haeb_shift_l e c : haeb (shift3 e c) = shift3 (haeb e) c.
Proof.
  destruct e as [[a b] d]. unfold haeb, shift3. unf. cbn [fst].
  replace (a + c - avg3 (a + c, b + c, d + c)) with (a - avg3 (a,b,d)) by (unfold avg3, of_Z; lra).
  replace (b + c - avg3 (a + c, b + c, d + c)) with (b - avg3 (a,b,d)) by (unfold avg3, of_Z; lra).
  replace (d + c - avg3 (a + c, b + c, d + c)) with (d - avg3 (a,b,d)) by (unfold avg3, of_Z; lra).
  generalize (avg3 (a,b,d)); intro m. lebs; reflexivity.
Qed.

Lemma shift_law_l e c :
  iso (shift3 e c) = iso e + c /\
  anisotropy_False (haeb (shift3 e c)) = anisotropy_False (haeb e) /\
  anisotropy_True (haeb (shift3 e c)) = anisotropy_True (haeb e) /\
  asymmetry (haeb (shift3 e c)) = asymmetry (haeb e) /\
  span (shift3 e c) = span e /\ skew (shift3 e c) = skew e.
Proof.
  rewrite haeb_shift_l.
  assert (A: anisotropy_True (shift3 (haeb e) c) = anisotropy_True (haeb e)).
  { destruct (haeb e) as [[x y] z]. unfold shift3, anisotropy_True, nth3, of_Z. lra. }
  assert (SP: span (shift3 e c) = span e).
  { destruct e as [[a b] d]. unfold shift3. unfd. lebs; bools; lra. }
  repeat split.
  - destruct e as [[a b] d]. unfold shift3, iso, avg3, of_Z. lra.
  - destruct (haeb e) as [[x y] z]. unfold shift3, anisotropy_False, nth3, of_Z. lra.
  - exact A.
  - unfold asymmetry. rewrite A. destruct (haeb e) as [[x y] z]. unfold shift3, nth3.
    destruct (eqb _ _); cbn [div_opt]; [reflexivity|]. unfold Rdiv. f_equal. lra.
  - exact SP.
  - unfold skew. rewrite SP. destruct (eqb (span e) (of_Z 0)); cbn [div_opt]; [reflexivity|].
    unfold Rdiv. f_equal. f_equal.
    destruct e as [[a b] d]. unfold shift3, median3, argsort3, nth3, avg3, of_Z. lebs; bools; lra.
Qed.

(* ---------- scaling by k (k <> 0, negative k included) ---------- *)
Lemma haeb_scale_l k e : k <> 0 -> haeb (scale3 k e) = scale3 k (haeb e).
Proof.
  intros Hk. destruct e as [[a b] d]. unfold haeb, scale3. unf. cbn [fst].
  replace (k * a - avg3 (k * a, k * b, k * d)) with (k * (a - avg3 (a,b,d))) by (unfold avg3, of_Z; lra).
  replace (k * b - avg3 (k * a, k * b, k * d)) with (k * (b - avg3 (a,b,d))) by (unfold avg3, of_Z; lra).
  replace (k * d - avg3 (k * a, k * b, k * d)) with (k * (d - avg3 (a,b,d))) by (unfold avg3, of_Z; lra).
  rewrite !Rabs_mult.
  assert (HK: 0 < Rabs k) by (apply Rabs_pos_lt; exact Hk).
  generalize dependent (Rabs k). intros K HK.
  generalize (Rabs (a - avg3 (a,b,d))) (Rabs (b - avg3 (a,b,d))) (Rabs (d - avg3 (a,b,d))). intros X Y Z.
  lebs; try reflexivity; exfalso; bools; nra.
Qed.

Lemma median_scale_l k e : k <> 0 -> median3 (scale3 k e) = k * median3 e.
Proof.
  intros Hk. destruct e as [[a b] d]. unfold scale3, median3, argsort3, nth3.
  destruct (Rtotal_order 0 k) as [P|[Z|N]]; [| exfalso; apply Hk; lra |]; lebs; try reflexivity; bools; first [exfalso; nra | assert (a = b) by nra; subst; reflexivity | assert (b = d) by nra; subst; reflexivity | assert (a = d) by nra; subst; reflexivity].
Qed.

Lemma span_scale_l k e : span (scale3 k e) = Rabs k * span e.
Proof.
  destruct e as [[a b] d]. unfold scale3. unfd. unfold Rabs. destruct Rcase_abs; lebs; bools; nra.
Qed.

Lemma scale_law_l k e : k <> 0 ->
  iso (scale3 k e) = k * iso e /\
  anisotropy_False (haeb (scale3 k e)) = k * anisotropy_False (haeb e) /\
  anisotropy_True (haeb (scale3 k e)) = k * anisotropy_True (haeb e) /\
  asymmetry (haeb (scale3 k e)) = asymmetry (haeb e) /\
  span (scale3 k e) = Rabs k * span e /\
  (0 < k -> skew (scale3 k e) = skew e) /\ (k < 0 -> skew (scale3 k e) = - skew e).
Proof.
  intros Hk. rewrite (haeb_scale_l k e Hk).
  assert (A: anisotropy_True (scale3 k (haeb e)) = k * anisotropy_True (haeb e)).
  { destruct (haeb e) as [[x y] z]. unfold scale3, anisotropy_True, nth3, of_Z. lra. }
  assert (I: iso (scale3 k e) = k * iso e).
  { destruct e as [[a b] d]. unfold scale3, iso, avg3, of_Z. lra. }
  repeat split.
  - exact I.
  - destruct (haeb e) as [[x y] z]. unfold scale3, anisotropy_False, nth3, of_Z. lra.
  - exact A.
  - unfold asymmetry. rewrite A. generalize (anisotropy_True (haeb e)). intro t.
    destruct (haeb e) as [[x y] z]. unfold scale3, nth3.
    destruct (eqb (k * t) (of_Z 0)) eqn:E1; destruct (eqb t (of_Z 0)) eqn:E2; cbn [div_opt]; bools; unfold of_Z in *;
    try reflexivity; try (exfalso; nra). unfold num; field. split; assumption.
  - apply span_scale_l.
  - intros P. unfold skew. rewrite span_scale_l, (median_scale_l k e Hk). fold (iso (scale3 k e)). rewrite I.
    fold (iso e). generalize (span e) (iso e) (median3 e). intros s i m. rewrite (Rabs_right k) by lra.
    destruct (eqb (k * s) (of_Z 0)) eqn:E1; destruct (eqb s (of_Z 0)) eqn:E2; cbn [div_opt]; bools; unfold of_Z in *;
    try reflexivity; try (exfalso; nra). unfold num; field. split; assumption.
  - intros N. unfold skew. rewrite span_scale_l, (median_scale_l k e Hk). fold (iso (scale3 k e)). rewrite I.
    fold (iso e). generalize (span e) (iso e) (median3 e). intros s i m. rewrite (Rabs_left k) by lra.
    destruct (eqb (- k * s) (of_Z 0)) eqn:E1; destruct (eqb s (of_Z 0)) eqn:E2; cbn [div_opt]; bools; unfold of_Z in *;
    try lra; try (exfalso; nra). unfold num; field. split; assumption.
Qed.

(* ---------- the notations encode the same three principal values ---------- *)
Lemma maryland_roundtrip_l l : let '(i,om,ka) := n_maryland l in dec_maryland i om ka = d_incr l.
Proof.
  unfold n_maryland, d_iso, d_span, d_skew, d_incr, dec_maryland.
  pose proof (span_minmax_l l) as A. pose proof (skew_def_l l) as B.
  pose proof (sortc_perm 0 l) as P. unfold sortc in P. pose proof (Perm3_avg _ _ P) as V.
  pose proof (sort_incr_l l) as C.
  destruct (fst (evals_sort_i_True l)) as [[x y] z]. destruct B as [B1 B2]. fold (iso l) in *.
  assert (S: x + y + z = 3 * iso l) by (rewrite <- V; unfold avg3, of_Z; lra).
  unfold of_Z. destruct (Req_EM_T (span l) 0) as [Z|NZ].
  - rewrite (B2 Z), Z. pairs; lra.
  - rewrite (B1 NZ). assert (E: 3 * (iso l - y) / span l * span l = 3 * (iso l - y)) by (unfold num; field; exact NZ).
    pairs; lra.
Qed.

Lemma haeberlen_roundtrip_l l : let '(i,sg,dl,eta) := n_haeberlen l in dec_haeberlen i sg eta = d_haeb l /\ sg = 2/3 * dl.
Proof.
  unfold n_haeberlen, d_iso, d_redaniso, d_aniso, d_asym, d_haeb, dec_haeberlen. rewrite haeb_sort_is. fold (haeb l).
  pose proof (haeb_props l) as H. pose proof (redaniso_def_l l) as R. pose proof (eta_def_l l) as E.
  destruct (haeb l) as [[x y] z]. destruct H as (_ & C & S). destruct R as (R1 & R2 & R3). destruct E as [E1 E2].
  fold (iso l). split; [|lra]. unfold of_Z.
  destruct (Req_EM_T (anisotropy_True (x,y,z)) 0) as [Z|NZ].
  - rewrite (E2 Z), Z. rewrite R1 in Z.
    assert (x = iso l /\ y = iso l) as [X Y].
    { revert C. unfold Rabs. repeat destruct Rcase_abs; intros; split; lra. }
    pairs; lra.
  - rewrite (E1 NZ). assert (Q: (y - x) / anisotropy_True (x,y,z) * anisotropy_True (x,y,z) = y - x) by (unfold num; field; exact NZ).
    rewrite R1 in *. pairs; lra.
Qed.

Lemma haeb_incr_same_values_l l : Perm3 (d_incr l) (d_haeb l).
Proof.
  unfold d_incr, d_haeb. rewrite haeb_sort_is.
  pose proof (sortc_perm 0 l) as P0. pose proof (sortc_perm 2 l) as P2. unfold sortc in *.
  destruct l as [[a b] c]. unfold Perm3 in P0.
  destruct P0 as [H|[H|[H|[H|[H|H]]]]]; rewrite H; unfold Perm3 in *; tauto.
Qed.

(* isotropy: trace of the raw matrix / 3 = mean eigenvalue; the antisymmetric part does not enter *)
Lemma trace_symm_l M : trace3 (symm M) = trace3 M.
Proof. destruct M as [[[[a b] c] [[d e] f]] [[g h] i]]. reflexivity. Qed.
Lemma trace_recon_l l F : Ortho F -> trace3 (recon l F) = 3 * avg3 l.
Proof.
  destruct F as [[[[a0 a1] a2] [[b0 b1] b2]] [[c0 c1] c2]]. destruct l as [[l0 l1] l2].
  unfold Ortho, of_Z. intros (H1&H2&H3&_).
  transitivity (l0 * dot (a0,a1,a2) (a0,a1,a2) + l1 * dot (b0,b1,b2) (b0,b1,b2) + l2 * dot (c0,c1,c2) (c0,c1,c2)).
  - cbv [trace3 recon madd vadd3 outer dot]. unfold num. ring.
  - rewrite H1, H2, H3. unfold avg3, of_Z. lra.
Qed.

(* F-02: with an exact tie of the Haeberlen keys (eta = 1) the sign of the anisotropy depends on the order the tensor was built with *)
Lemma eta1_sign_refuted_l : exists l l', Perm3 l l' /\ d_redaniso l <> d_redaniso l'.
Proof.
  assert (A1: Rabs (-1) = 1) by (unfold Rabs; destruct Rcase_abs; lra).
  assert (A2: Rabs 0 = 0) by (unfold Rabs; destruct Rcase_abs; lra).
  assert (A3: Rabs 1 = 1) by (unfold Rabs; destruct Rcase_abs; lra).
  exists (-1, 0, 1), (1, 0, -1). split; [unfold Perm3; tauto|].
  unfold d_redaniso, d_haeb, haeb_sort_True. unf. cbn [fst]. unfold avg3, of_Z.
  replace ((-1 + 0 + 1) / 3) with 0 by lra. replace ((1 + 0 + -1) / 3) with 0 by lra.
  rewrite !Rminus_0_r, A1, A2, A3.
  unfold leb. repeat (destruct Rle_dec; try lra); unfold anisotropy_True, nth3, of_Z; lra.
Qed.
