(* C06: every operation keeps every array row attached to its structure (axiom-free). *)
From Coq Require Import ZArith List Bool Lia Permutation Sorted.
Import ListNotations.
Require Import Sop.model.Coll.
Local Open Scope Z_scope.

Lemma nthZ_F2 {A B} (R : A -> B -> Prop) l1 l2 i x y :
  Forall2 R l1 l2 -> nthZ l1 i = Some x -> nthZ l2 i = Some y -> R x y.
Proof.
  unfold nthZ. destruct (i <? 0); [discriminate|]. generalize (Z.to_nat i). intros n H. revert n.
  induction H as [|a b l1 l2 Hab H IH]; intros [|n] H1 H2; cbn in *; try discriminate.
  - inversion H1; inversion H2; subst. exact Hab.
  - eapply IH; eassumption.
Qed.

Lemma take_F2 {A B} (R : A -> B -> Prop) l1 l2 : Forall2 R l1 l2 -> forall idx r1 r2,
  take l1 idx = Some r1 -> take l2 idx = Some r2 -> Forall2 R r1 r2.
Proof.
  intros H. induction idx as [|i t IH]; intros r1 r2 H1 H2; cbn in *.
  - inversion H1; inversion H2. constructor.
  - destruct (nthZ l1 i) as [x|] eqn:E1; [|discriminate]. destruct (take l1 t) as [t1|] eqn:T1; [|discriminate].
    destruct (nthZ l2 i) as [y|] eqn:E2; [|discriminate]. destruct (take l2 t) as [t2|] eqn:T2; [|discriminate].
    inversion H1; inversion H2; subst. constructor; [eapply nthZ_F2; eassumption|apply IH; reflexivity].
Qed.

Lemma take_arrays_In arrs idx out n rows : take_arrays arrs idx = Some out -> In (n, rows) out ->
  exists r0, In (n, r0) arrs /\ take r0 idx = Some rows.
Proof.
  revert out. induction arrs as [|[m r] t IH]; intros out H I; cbn in H.
  - inversion H; subst. destruct I.
  - destruct (take r idx) as [r'|] eqn:E; [|discriminate]. destruct (take_arrays t idx) as [t'|] eqn:T; [|discriminate].
    inversion H; subst. destruct I as [I|I].
    + inversion I; subst. exists r. split; [left; reflexivity|exact E].
    + destruct (IH t' eq_refl I) as (r0 & I0 & T0). exists r0. split; [right; exact I0|exact T0].
Qed.

Lemma select_inv c idx c' : Inv c -> select c idx = Ok c' -> Inv c'.
Proof.
  unfold select. intros HI H. destruct (take (structs c) idx) as [s|] eqn:E1; [|discriminate].
  destruct (take_arrays (arrays c) idx) as [a|] eqn:E2; [|discriminate]. inversion H; subst. clear H.
  intros n rows I. cbn in *. destruct (take_arrays_In _ _ _ _ _ E2 I) as (r0 & I0 & T0).
  eapply take_F2; [apply (HI n r0 I0)|exact E1|exact T0].
Qed.

Lemma select_structs c idx c' : select c idx = Ok c' -> take (structs c) idx = Some (structs c').
Proof.
  unfold select. destruct (take (structs c) idx) as [s|]; [|discriminate].
  destruct (take_arrays (arrays c) idx) as [a|]; [|discriminate]. intros H. inversion H. reflexivity.
Qed.

Lemma lookup_In n l r : lookup n l = Some r -> In (n, r) l.
Proof.
  induction l as [|[m r0] t IH]; cbn; [discriminate|]. destruct (m =? n) eqn:E.
  - intros H. inversion H; subst. apply Z.eqb_eq in E. subst. left. reflexivity.
  - intros H. right. apply IH. exact H.
Qed.

Lemma pads_ok ss : Forall2 row_ok ss (pads (length ss)).
Proof. induction ss as [|s t IH]; cbn; constructor; [right; reflexivity|exact IH]. Qed.

Lemma add_inv c o : Inv c -> Inv o -> Inv (add c o).
Proof.
  intros Hc Ho n rows I. unfold add in I. cbn [structs arrays] in *. apply in_app_or in I. destruct I as [I|I].
  - apply in_map_iff in I. destruct I as ([m r] & E & I). cbn [fst snd] in E. inversion E; subst. clear E.
    apply Forall2_app; [apply (Hc n r I)|].
    destruct (lookup n (arrays o)) as [r2|] eqn:L; [apply (Ho n r2), lookup_In, L|apply pads_ok].
  - apply in_flat_map in I. destruct I as ([m r] & I & H). cbn [fst snd] in H. destruct (has c m); [destruct H|].
    destruct H as [H|[]]. inversion H; subst. apply Forall2_app; [apply pads_ok|apply (Ho n r I)].
Qed.

Lemma assign_In n r l m rows : In (m, rows) (assign n r l) -> (m, rows) = (n, r) \/ In (m, rows) l.
Proof.
  induction l as [|[k r0] t IH]; cbn.
  - intros [H|[]]. left. symmetry. exact H.
  - destruct (k =? n) eqn:E.
    + intros [H|H]; [apply Z.eqb_eq in E; subst; left; symmetry; exact H|right; right; exact H].
    + intros [H|H]; [right; left; exact H|]. destruct (IH H) as [X|X]; [left; exact X|right; right; exact X].
Qed.

Lemma own_ok ss : Forall2 row_ok ss (map Own ss).
Proof. induction ss as [|s t IH]; cbn; constructor; [left; reflexivity|exact IH]. Qed.

Lemma set_array_fn_inv c n : Inv c -> Inv (set_array_fn c n).
Proof.
  intros H m rows I. unfold set_array_fn in I. cbn [structs arrays] in *.
  destruct (assign_In _ _ _ _ _ I) as [E|I0]; [inversion E; subst; apply own_ok|apply (H m rows I0)].
Qed.

Lemma repeat_pad_ok ss l : length ss = l -> Forall2 row_ok ss (repeat Pad l).
Proof. intros <-. apply pads_ok. Qed.

Lemma set_array_pad_inv c n l c' : Inv c -> set_array c n (repeat Pad l) = Ok c' -> Inv c'.
Proof.
  unfold set_array. intros H S. rewrite repeat_length in S. destruct (Nat.eqb l (length (structs c))) eqn:E; [|discriminate].
  apply Nat.eqb_eq in E. inversion S; subst. clear S. intros m rows I. cbn [structs arrays] in *.
  destruct (assign_In _ _ _ _ _ I) as [X|I0]; [inversion X; subst; apply repeat_pad_ok; reflexivity|apply (H m rows I0)].
Qed.

Lemma getitem_inv c i c' : Inv c -> getitem c i = Ok c' -> Inv c'.
Proof.
  intros H. destruct i as [k|a b s|l|m]; cbn.
  - destruct (len c =? 0); [discriminate|]. apply select_inv, H.
  - destruct (slice_idx (len c) a b s); [apply select_inv, H|discriminate].
  - destruct (norm_idx (len c) l); [apply select_inv, H|discriminate].
  - destruct (norm_idx (len c) (mask_idx 0 m)); [apply select_inv, H|discriminate].
Qed.

Lemma chunk_fold_In (parts : list (outcome coll)) l x : collect parts = Ok l -> In x l -> In (Ok x) parts.
Proof.
  unfold collect. revert l. induction parts as [|p t IH]; cbn; intros l H I.
  - inversion H; subst. destruct I.
  - destruct p as [y| |]; try discriminate.
    destruct (fold_right _ (Ok []) t) as [l'| |] eqn:E; try discriminate.
    inversion H; subst. destruct I as [I|I]; [subst; left; reflexivity|right; apply (IH l' eq_refl I)].
Qed.

Section WithKey.
Variable keyf : Z -> Z -> Z.

Definition wf_op (o : op) : Prop := match o with OAdd other | OAddTo other => Inv other | _ => True end.

Lemma step_preserves_inv_l c o c' : Inv c -> wf_op o -> step keyf c o = Ok c' -> Inv c'.
Proof.
  intros H W. destruct o; cbn [step wf_op] in *.
  - apply getitem_inv, H.
  - intros E. inversion E. apply add_inv; assumption.
  - intros E. inversion E. apply add_inv; assumption.
  - unfold sorted_by. destruct (lookup n (arrays c)); [|discriminate]. apply select_inv, H.
  - apply select_inv, H.
  - apply select_inv, H.
  - destruct (chunkify c size n) as [l| |] eqn:E; try discriminate.
    destruct (nthZ l which) as [x|] eqn:N; [|discriminate]. intros X. inversion X; subst. clear X.
    unfold chunkify in E. destruct (chunk_size_of c size n) as [k|]; [|discriminate]. destruct (k <=? 0); [discriminate|]. cbv zeta in E.
    assert (I: In c' l).
    { unfold nthZ in N. destruct (which <? 0); [discriminate|]. eapply nth_error_In, N. }
    pose proof (chunk_fold_In _ _ _ E I) as P. apply in_map_iff in P. destruct P as (i & S & _).
    eapply select_inv; [exact H|exact S].
  - intros E. inversion E; subst. exact H.
  - intros E. inversion E; subst. exact H.
  - intros E. inversion E. apply set_array_fn_inv, H.
  - apply set_array_pad_inv, H.
Qed.

Lemma history_inv_l ops : forall c c', Inv c -> Forall wf_op ops -> run keyf c ops = Ok c' -> Inv c'.
Proof.
  unfold run. induction ops as [|o ops IH]; cbn [fold_left]; intros c c' HI HW HR.
  - inversion HR; subst. exact HI.
  - inversion HW as [|? ? Ho Hops]; subst.
    destruct (step keyf c o) as [c1| |] eqn:E.
    + eapply IH; [eapply step_preserves_inv_l; eauto | exact Hops | exact HR].
    + exfalso. clear -HR. induction ops; cbn in HR; [discriminate | auto].
    + exfalso. clear -HR. induction ops; cbn in HR; [discriminate | auto].
Qed.
End WithKey.

(* counts agree *)
Lemma inv_lengths c : Inv c -> forall n rows, In (n, rows) (arrays c) -> length rows = length (structs c).
Proof.
  intros H n rows I. specialize (H n rows I). clear I. generalize dependent (structs c). intros ss H. symmetry. induction H as [|a b l1 l2 _ _ IH]; cbn; [reflexivity|rewrite IH; reflexivity].
Qed.

(* ---------- order semantics ---------- *)
Lemma nthZ_app_r {A} (pre l : list A) k : nthZ (pre ++ l) (Z.of_nat (length pre) + Z.of_nat k) = nth_error l k.
Proof.
  unfold nthZ. destruct (Z.of_nat (length pre) + Z.of_nat k <? 0) eqn:E; [apply Z.ltb_lt in E; lia|].
  replace (Z.to_nat (Z.of_nat (length pre) + Z.of_nat k)) with (length pre + k)%nat by lia.
  rewrite nth_error_app2 by lia. f_equal. lia.
Qed.

Lemma take_positions (p : Z -> bool) (l pre : list Z) :
  take (pre ++ l) (positions p (Z.of_nat (length pre)) l) = Some (filter p l).
Proof.
  revert pre. induction l as [|x t IH]; intros pre; cbn [positions filter]; [reflexivity|].
  specialize (IH (pre ++ [x])). rewrite app_length in IH. cbn [length] in IH.
  replace (Z.of_nat (length pre + 1)) with (Z.of_nat (length pre) + 1) in IH by lia.
  rewrite <- app_assoc in IH. cbn [app] in IH.
  destruct (p x); cbn [app]; [|exact IH]. cbn [take].
  replace (Z.of_nat (length pre)) with (Z.of_nat (length pre) + Z.of_nat 0) at 1 by lia.
  rewrite nthZ_app_r. cbn [nth_error]. rewrite IH. reflexivity.
Qed.

Lemma filter_spec_l c p c' : filter_c c p = Ok c' -> structs c' = filter p (structs c).
Proof.
  unfold filter_c. intros H. apply select_structs in H.
  pose proof (take_positions p (structs c) []) as T. cbn [app length] in T. change (Z.of_nat 0) with 0 in T.
  rewrite T in H. inversion H. reflexivity.
Qed.

Lemma classify_spec_l c cls k c' : classify_c c cls k = Ok c' -> structs c' = filter (fun s => cls s =? k) (structs c).
Proof. apply filter_spec_l. Qed.

Lemma add_spec_l c o : structs (add c o) = structs c ++ structs o /\
  (forall n r1, lookup n (arrays c) = Some r1 ->
     exists rows, In (n, rows) (arrays (add c o)) /\
       rows = r1 ++ match lookup n (arrays o) with Some r2 => r2 | None => pads (length (structs o)) end) /\
  (forall n r2, In (n, r2) (arrays o) -> has c n = false -> In (n, pads (length (structs c)) ++ r2) (arrays (add c o))).
Proof.
  split; [reflexivity|split].
  - intros n r1 L. eexists. split; [|reflexivity]. unfold add. cbn [arrays]. apply in_or_app. left.
    apply in_map_iff. exists (n, r1). split; [reflexivity|apply lookup_In, L].
  - intros n r2 I H. unfold add. cbn [arrays]. apply in_or_app. right. apply in_flat_map.
    exists (n, r2). split; [exact I|]. cbn [fst snd]. rewrite H. left. reflexivity.
Qed.

(* the stable argsort *)
Definition le_pair (rev : bool) (a b : Z * Z) : Prop := if rev then fst b <= fst a else fst a <= fst b.

Lemma insert_perm rev k x l : Permutation (insert_by rev k x l) ((k, x) :: l).
Proof.
  induction l as [|[ky y] t IH]; cbn; [reflexivity|].
  destruct (if rev then k <? ky else ky <? k); [|reflexivity].
  rewrite IH. apply perm_swap.
Qed.

Lemma insert_sorted rev k x l : Sorted (le_pair rev) l -> Sorted (le_pair rev) (insert_by rev k x l).
Proof.
  induction l as [|[ky y] t IH]; intros S; cbn; [repeat constructor|].
  destruct (if rev then k <? ky else ky <? k) eqn:E.
  - inversion S as [|? ? S' H']; subst. constructor; [apply IH, S'|].
    destruct t as [|[kz z] u]; cbn.
    + constructor. unfold le_pair; cbn. destruct rev; [apply Z.ltb_lt in E|apply Z.ltb_lt in E]; lia.
    + destruct (if rev then k <? kz else kz <? k) eqn:E2.
      * constructor. inversion H'; subst. assumption.
      * constructor. unfold le_pair; cbn. destruct rev; apply Z.ltb_lt in E; lia.
  - constructor; [exact S|]. constructor. unfold le_pair; cbn. destruct rev; apply Z.ltb_ge in E; lia.
Qed.

Definition sort_pairs (rev : bool) (kxs : list (Z * Z)) : list (Z * Z) :=
  fold_right (fun kx acc => insert_by rev (fst kx) (snd kx) acc) [] kxs.

Lemma sort_pairs_spec rev kxs : Permutation (sort_pairs rev kxs) kxs /\ Sorted (le_pair rev) (sort_pairs rev kxs).
Proof.
  induction kxs as [|[k x] t [P S]]; cbn; [split; constructor|]. split.
  - rewrite insert_perm. constructor. exact P.
  - apply insert_sorted, S.
Qed.

Lemma map_snd_combine_eq {A B} (l1 : list A) : forall (l2 : list B), length l1 = length l2 -> map snd (combine l1 l2) = l2.
Proof. induction l1 as [|a t IH]; intros [|b u] H; cbn in *; try discriminate; [reflexivity|f_equal; apply IH; lia]. Qed.

Lemma argsort_spec_l rev keys :
  Permutation (argsort rev keys) (map Z.of_nat (seq 0 (length keys))) /\
  exists pairs, argsort rev keys = map snd pairs /\ Sorted (le_pair rev) pairs /\
                forall k i, In (k, i) pairs -> nthZ keys i = Some k.
Proof.
  unfold argsort. set (kxs := combine keys (map Z.of_nat (seq 0 (length keys)))). fold (sort_pairs rev kxs).
  destruct (sort_pairs_spec rev kxs) as [P S]. split.
  - rewrite P. unfold kxs. rewrite map_snd_combine_eq; [reflexivity|rewrite map_length, seq_length; reflexivity].
  - exists (sort_pairs rev kxs). split; [reflexivity|split; [exact S|]].
    intros k i I. apply (Permutation_in _ P) in I. unfold kxs in I.
    assert (G: forall (l : list Z) s, In (k, i) (combine l (map Z.of_nat (seq s (length l)))) ->
               exists j, i = Z.of_nat (s + j) /\ nth_error l j = Some k).
    { induction l as [|a t IH]; intros s H; cbn in H; [destruct H|]. destruct H as [H|H].
      - inversion H; subst. exists 0%nat. split; [f_equal; lia|reflexivity].
      - destruct (IH (Datatypes.S s) H) as (j & E & N). exists (Datatypes.S j). split; [rewrite E; f_equal; lia|exact N]. }
    destruct (G keys 0%nat I) as (j & E & N). subst i. unfold nthZ.
    destruct (Z.of_nat (0 + j) <? 0) eqn:E0; [apply Z.ltb_lt in E0; lia|].
    replace (Z.to_nat (Z.of_nat (0 + j))) with j by lia. exact N.
Qed.

(* ---------- chunks concatenate back to the original ---------- *)
Lemma take_seq {A} (l : list A) : forall m a, (a + m <= length l)%nat ->
  take l (map Z.of_nat (seq a m)) = Some (firstn m (skipn a l)).
Proof.
  induction m as [|m IH]; intros a H; cbn [seq map take firstn]; [destruct (skipn a l); reflexivity|].
  unfold nthZ at 1. destruct (Z.of_nat a <? 0) eqn:E; [apply Z.ltb_lt in E; lia|]. rewrite Nat2Z.id.
  destruct (nth_error l a) as [x|] eqn:N; [|apply nth_error_None in N; lia].
  rewrite (IH (Datatypes.S a)) by lia.
  assert (K: skipn a l = x :: skipn (Datatypes.S a) l).
  { clear -N. revert a N. induction l as [|y t IH]; intros [|a] N; cbn in *; try discriminate; [inversion N; reflexivity|apply IH, N]. }
  rewrite K. reflexivity.
Qed.

Lemma collect_map parts l : collect parts = Ok l -> parts = map Ok l.
Proof.
  unfold collect. revert l. induction parts as [|p t IH]; cbn; intros l H; [inversion H; reflexivity|].
  destruct p as [y| |]; try discriminate. destruct (fold_right _ (Ok []) t) as [l'| |] eqn:E; try discriminate.
  inversion H; subst. cbn. f_equal. apply IH. reflexivity.
Qed.

Lemma skipn_add {A} (l : list A) a b : skipn (a + b) l = skipn b (skipn a l).
Proof. revert l. induction a as [|a IH]; intros l; cbn; [reflexivity|]. destruct l as [|x t]; [destruct b; reflexivity|apply IH]. Qed.

Lemma concat_chunks {A} (kn : nat) : (0 < kn)%nat -> forall cnt (l : list A), (length l <= cnt * kn)%nat ->
  concat (map (fun i => firstn kn (skipn (i * kn) l)) (seq 0 cnt)) = l.
Proof.
  intros Hk. induction cnt as [|cnt IH]; intros l H; cbn [seq map concat].
  - destruct l; [reflexivity|cbn in H; lia].
  - rewrite <- seq_shift, map_map. cbn [Nat.mul Nat.add skipn].
    rewrite (map_ext _ (fun i => firstn kn (skipn (i * kn) (skipn kn l)))).
    + rewrite IH; [apply firstn_skipn|]. rewrite skipn_length. lia.
    + intros i. cbn [Nat.mul]. rewrite skipn_add. reflexivity.
Qed.

Lemma firstn_min {A} (l : list A) k : firstn (Nat.min k (length l)) l = firstn k l.
Proof.
  destruct (Nat.le_ge_cases k (length l)) as [H|H]; [rewrite Nat.min_l by lia; reflexivity|].
  rewrite Nat.min_r by lia. rewrite firstn_all. symmetry. apply firstn_all2. lia.
Qed.

Lemma nth_error_seq' : forall n a i, (i < n)%nat -> nth_error (seq a n) i = Some (a + i)%nat.
Proof.
  induction n as [|n IH]; intros a i H; [lia|]. destruct i as [|i]; cbn; [f_equal; lia|].
  rewrite IH by lia. f_equal. lia.
Qed.
Lemma list_ext {A} : forall (l1 l2 : list A), (forall i, nth_error l1 i = nth_error l2 i) -> l1 = l2.
Proof.
  induction l1 as [|a t IH]; intros [|b u] H; [reflexivity|specialize (H 0%nat); discriminate|specialize (H 0%nat); discriminate|].
  pose proof (H 0%nat) as H0. cbn in H0. inversion H0; subst. f_equal. apply IH. intros i. apply (H (Datatypes.S i)).
Qed.

Lemma chunk_concat_l c size n l : chunkify c size n = Ok l ->
  concat (map structs l) = structs c /\
  (forall k, chunk_size_of c size n = Some k -> forall i x, nth_error l i = Some x ->
     (Datatypes.S i < length l)%nat -> length (structs x) = Z.to_nat k).
Proof.
  unfold chunkify. destruct (chunk_size_of c size n) as [k|] eqn:CS; [|discriminate].
  destruct (k <=? 0) eqn:K0; [discriminate|]. apply Z.leb_gt in K0. cbv zeta.
  set (kn := Z.to_nat k). set (N := length (structs c)). set (cnt := Z.to_nat ((len c + k - 1) / k)).
  intros H. apply collect_map in H.
  assert (CK: (N <= cnt * kn)%nat).
  { unfold cnt, kn, len. fold N. pose proof (Z.div_mod (Z.of_nat N + k - 1) k ltac:(lia)) as DM.
    pose proof (Z.mod_pos_bound (Z.of_nat N + k - 1) k K0) as MB.
    assert (0 <= (Z.of_nat N + k - 1) / k) by (apply Z.div_pos; lia). nia. }
  assert (SEL: forall i, (i < cnt)%nat -> nth_error (map Ok l) i = Some (select c (chunk_idx kn i N))).
  { intros i Hi. rewrite <- H. rewrite nth_error_map, nth_error_seq' by lia. reflexivity. }
  assert (LEN: length l = cnt) by (rewrite <- (map_length Ok l), <- H, map_length, seq_length; reflexivity).
  assert (ST: forall i x, nth_error l i = Some x -> structs x = firstn kn (skipn (i * kn) (structs c))).
  { intros i x Nx. assert (Hi: (i < cnt)%nat) by (rewrite <- LEN; apply nth_error_Some; congruence).
    specialize (SEL i Hi). rewrite nth_error_map, Nx in SEL. cbn in SEL. inversion SEL as [S0]. symmetry in S0.
    apply select_structs in S0. unfold chunk_idx in S0.
    destruct (Nat.le_gt_cases (i * kn) N) as [LE|GT].
    - rewrite take_seq in S0 by (fold N; lia). injection S0 as S1. rewrite <- S1.
      replace (N - i * kn)%nat with (length (skipn (i * kn) (structs c))) by (rewrite skipn_length; reflexivity).
      apply firstn_min.
    - replace (N - i * kn)%nat with 0%nat in S0 by lia. rewrite Nat.min_0_r in S0. cbn in S0. injection S0 as S1. rewrite <- S1.
      rewrite skipn_all2 by (fold N; lia). destruct kn; reflexivity. }
  split.
  - rewrite <- (concat_chunks kn ltac:(unfold kn; lia) cnt (structs c) CK). f_equal.
    apply list_ext. intros i. rewrite !nth_error_map.
    destruct (nth_error l i) as [x|] eqn:Nx.
    + assert (Hi: (i < cnt)%nat) by (rewrite <- LEN; apply nth_error_Some; congruence).
      rewrite nth_error_seq' by lia. cbn. f_equal. apply ST, Nx.
    + assert (Hi: (cnt <= i)%nat) by (rewrite <- LEN; apply nth_error_None; exact Nx).
      destruct (nth_error (seq 0 cnt) i) eqn:Q; [|reflexivity]. exfalso. assert (QQ: nth_error (seq 0 cnt) i <> None) by congruence. apply nth_error_Some in QQ. rewrite seq_length in QQ. lia.
  - intros k' E i x Nx Hl. inversion E; subst k'. rewrite (ST i x Nx). rewrite firstn_length, skipn_length. fold N kn.
    rewrite LEN in Hl.
    assert (G: (Datatypes.S i * kn <= N)%nat).
    { unfold cnt, len in Hl. fold N in Hl. unfold kn.
      set (q := (Z.of_nat N + k - 1) / k) in *.
      pose proof (Z.div_mod (Z.of_nat N + k - 1) k ltac:(lia)) as DM. fold q in DM.
      pose proof (Z.mod_pos_bound (Z.of_nat N + k - 1) k K0) as MB.
      assert (Q0: 0 <= q) by (apply Z.div_pos; lia).
      assert (A: Z.of_nat (Datatypes.S i) <= q - 1) by lia.
      assert (B: Z.of_nat (Datatypes.S i) * k <= (q - 1) * k) by (apply Z.mul_le_mono_nonneg_r; lia).
      replace ((q - 1) * k) with (k * q - k) in B by ring.
      assert (C: Z.of_nat (Datatypes.S i * Z.to_nat k) = Z.of_nat (Datatypes.S i) * k) by (rewrite Nat2Z.inj_mul, Z2Nat.id; lia).
      lia. }
    cbn [Nat.mul] in G. lia.
Qed.
