(* C17: remap is a permutation pairing same-species atoms; merge conserves multiplicity and ignores listing order (no axioms). *)
From Coq Require Import List Arith Bool Lia Permutation Sorted.
Import ListNotations.
Require Import Sop.model.Remap.

(* ---------------- remap ---------------- *)
Lemma lookup_self ps d : NoDup (map fst ps) -> map (fun i => lookup i ps d) (map fst ps) = map snd ps.
Proof.
  induction ps as [|[k v] t IH]; intros N; cbn [map fst snd lookup]; [reflexivity|].
  inversion N as [|? ? NI N']; subst. rewrite Nat.eqb_refl. f_equal. rewrite <- (IH N').
  apply map_ext_in. intros i Hi. destruct (Nat.eqb_spec i k) as [E|_]; [subst; contradiction|reflexivity].
Qed.

Lemma map_nth_seq (g : list nat) d : map (fun i => nth i g d) (seq 0 (length g)) = g.
Proof.
  induction g as [|a g IH]; [reflexivity|]. cbn [length seq map nth]. f_equal.
  rewrite <- seq_shift, map_map. exact IH.
Qed.

Lemma group_pairs_fst rg sg col : length col = length rg -> map fst (group_pairs rg sg col) = rg.
Proof.
  unfold group_pairs. intros H. revert col H. induction rg as [|r rg IH]; intros [|c col] H; cbn in *; try lia; [reflexivity|].
  f_equal. apply IH. lia.
Qed.
Lemma group_pairs_snd rg sg col : length col = length rg -> map snd (group_pairs rg sg col) = map (fun c => nth c sg 0) col.
Proof.
  unfold group_pairs. intros H. revert col H. induction rg as [|r rg IH]; intros [|c col] H; cbn in *; try lia; [reflexivity|].
  f_equal. apply IH. lia.
Qed.

Lemma nth_map_seq (f : nat -> nat) n i d : i < n -> nth i (map f (seq 0 n)) d = f i.
Proof.
  intros H. rewrite (nth_indep _ d (f 0)) by (rewrite map_length, seq_length; exact H).
  rewrite (map_nth f (seq 0 n) 0 i). rewrite seq_nth by exact H. reflexivity.
Qed.

(* the oracle contract for one group *)
Definition assignment_ok (rg sg col : list nat) : Prop := length rg = length sg /\ Permutation col (seq 0 (length sg)).

Lemma all_pairs_spec rgs : forall sgs cols, Forall2 (fun rs col => assignment_ok (fst rs) (snd rs) col) (combine rgs sgs) cols ->
  length rgs = length sgs ->
  map fst (all_pairs rgs sgs cols) = concat rgs /\ Permutation (map snd (all_pairs rgs sgs cols)) (concat sgs).
Proof.
  induction rgs as [|rg rgs IH]; intros sgs cols F L.
  - destruct sgs; [|discriminate]. cbn. split; [reflexivity|constructor].
  - destruct sgs as [|sg sgs]; [discriminate|]. cbn [combine] in F. inversion F as [|? col ? cols' [HL HP] F']; subst.
    cbn [all_pairs concat]. rewrite !map_app. cbn [fst snd] in *.
    assert (LC: length col = length rg) by (rewrite (Permutation_length HP), seq_length; lia).
    destruct (IH sgs cols' F' ltac:(cbn in L; lia)) as [A B]. split.
    + rewrite group_pairs_fst by exact LC. rewrite A. reflexivity.
    + apply Permutation_app; [|exact B]. rewrite group_pairs_snd by exact LC.
      eapply Permutation_trans; [apply Permutation_map; exact HP|]. rewrite (map_nth_seq sg 0). apply Permutation_refl.
Qed.

(* the re-ordered index list is a permutation of 0..N-1 and pairs reference atom i with the structure atom assigned to it *)
Lemma remap_perm_l mt syms_s syms_r species cols :
  let rgs := map (group mt syms_r) species in let sgs := map (group mt syms_s) species in
  Forall2 (fun rs col => assignment_ok (fst rs) (snd rs) col) (combine rgs sgs) cols ->
  Permutation (concat rgs) (seq 0 (length syms_r)) -> Permutation (concat sgs) (seq 0 (length syms_r)) ->
  Permutation (remap mt syms_s syms_r species cols) (seq 0 (length syms_r)) /\
  forall i, i < length syms_r -> In (i, nth i (remap mt syms_s syms_r species cols) 0) (all_pairs rgs sgs cols).
Proof.
  intros rgs sgs F PR PS. unfold remap. fold rgs. fold sgs.
  destruct (all_pairs_spec rgs sgs cols F ltac:(unfold rgs, sgs; rewrite !map_length; reflexivity)) as [A B].
  set (ps := all_pairs rgs sgs cols) in *.
  assert (ND: NoDup (map fst ps)).
  { rewrite A. apply (Permutation_NoDup (Permutation_sym PR)). apply seq_NoDup. }
  split.
  - eapply Permutation_trans; [|exact PS]. eapply Permutation_trans; [|exact B].
    rewrite <- (lookup_self ps 0 ND). apply Permutation_map. rewrite A. apply Permutation_sym. exact PR.
  - intros i Hi. rewrite (nth_map_seq (fun i => lookup i ps 0)) by exact Hi.
    assert (IK: In i (map fst ps)) by (rewrite A; apply (Permutation_in i (Permutation_sym PR)); apply in_seq; lia).
    clear - IK. induction ps as [|[k v] t IH]; [destruct IK|]. cbn [lookup]. destruct (Nat.eqb_spec i k) as [E|NE].
    + subst. left. reflexivity.
    + right. apply IH. destruct IK as [E|I]; [cbn in E; congruence|exact I].
Qed.

(* every pair joins a reference atom and a structure atom of the same species group *)
Lemma all_pairs_in_group rgs : forall sgs cols r s, In (r, s) (all_pairs rgs sgs cols) ->
  Forall2 (fun rs col => assignment_ok (fst rs) (snd rs) col) (combine rgs sgs) cols ->
  exists k rg sg, nth_error rgs k = Some rg /\ nth_error sgs k = Some sg /\ In r rg /\ In s sg.
Proof.
  induction rgs as [|rg rgs IH]; intros sgs cols r s I F; [destruct I|].
  destruct sgs as [|sg sgs]; [destruct I|]. destruct cols as [|col cols]; [destruct I|].
  cbn [all_pairs] in I. cbn [combine] in F. inversion F as [|? ? ? ? [HL HP] F']; subst. apply in_app_or in I. destruct I as [I|I].
  - exists 0, rg, sg. split; [reflexivity|]. split; [reflexivity|]. unfold group_pairs in I. pose proof (in_combine_l _ _ _ _ I) as IL.
    pose proof (in_combine_r _ _ _ _ I) as IR. split; [exact IL|]. apply in_map_iff in IR. destruct IR as (c & E & IC). subst.
    apply nth_In. apply (Permutation_in c HP) in IC. apply in_seq in IC. cbn [fst snd] in *. lia.
  - destruct (IH sgs cols r s I F') as (k & rg' & sg' & A & B & C & D). exists (S k), rg', sg'. tauto.
Qed.

Lemma positions_spec p l : forall k i, In i (positions p k l) <-> (k <= i /\ exists x, nth_error l (i - k) = Some x /\ p x = true).
Proof.
  induction l as [|y t IH]; intros k i; cbn [positions].
  - split; [intros []|intros [_ (x & H & _)]; destruct (i - k); discriminate].
  - rewrite in_app_iff, IH. split.
    + intros [H|[H (x & N & P)]].
      * destruct (p y) eqn:E; [|destruct H]. destruct H as [H|[]]. subst. split; [lia|]. exists y. rewrite Nat.sub_diag. tauto.
      * split; [lia|]. exists x. replace (i - k) with (S (i - S k)) by lia. tauto.
    + intros [H (x & N & P)]. destruct (Nat.eq_dec i k) as [E|NE].
      * subst. rewrite Nat.sub_diag in N. cbn in N. inversion N; subst. rewrite P. left. left. reflexivity.
      * right. split; [lia|]. exists x. replace (i - k) with (S (i - S k)) in N by lia. tauto.
Qed.

(* with the equality test, a group holds exactly the atoms of that species *)
Lemma group_eq_spec syms sp i : In i (group Nat.eqb syms sp) <-> nth_error syms i = Some sp.
Proof.
  unfold group. rewrite positions_spec. rewrite Nat.sub_0_r. split.
  - intros [_ (x & N & E)]. apply Nat.eqb_eq in E. subst. exact N.
  - intros N. split; [lia|]. exists sp. split; [exact N|apply Nat.eqb_refl].
Qed.

(* ---------------- merge ---------------- *)
Lemma insert_comm a b l : insert a (insert b l) = insert b (insert a l).
Proof.
  induction l as [|y t IH]; cbn [insert].
  - destruct (a <=? b) eqn:E1, (b <=? a) eqn:E2; try reflexivity; apply Nat.leb_le in E1 || apply Nat.leb_gt in E1;
      apply Nat.leb_le in E2 || apply Nat.leb_gt in E2; try lia. replace a with b by lia. reflexivity.
  - destruct (b <=? y) eqn:B, (a <=? y) eqn:A; cbn [insert]; rewrite ?A, ?B.
    + destruct (a <=? b) eqn:E1, (b <=? a) eqn:E2; try reflexivity; apply Nat.leb_le in E1 || apply Nat.leb_gt in E1;
        apply Nat.leb_le in E2 || apply Nat.leb_gt in E2; try lia. replace a with b by lia. reflexivity.
    + apply Nat.leb_le in B. apply Nat.leb_gt in A. replace (a <=? b) with false by (symmetry; apply Nat.leb_gt; lia). reflexivity.
    + apply Nat.leb_gt in B. apply Nat.leb_le in A. replace (b <=? a) with false by (symmetry; apply Nat.leb_gt; lia). reflexivity.
    + f_equal. exact IH.
Qed.
Lemma sort_perm_eq l l' : Permutation l l' -> sort l = sort l'.
Proof.
  induction 1 as [|x l l' P IH|x y l|l l' l'' P1 IH1 P2 IH2]; cbn [sort fold_right]; try reflexivity.
  - fold (sort l). fold (sort l'). rewrite IH. reflexivity.
  - apply insert_comm.
  - congruence.
Qed.

(* the result does not depend on the order in which the group's indices are listed *)
Lemma merge_order_l keep st ix ix' : Permutation ix ix' -> merge keep st ix = merge keep st ix'.
Proof. intros P. unfold merge. rewrite (sort_perm_eq ix ix' P). reflexivity. Qed.

Lemma insert_perm x l : Permutation (insert x l) (x :: l).
Proof.
  induction l as [|y t IH]; cbn [insert]; [apply Permutation_refl|]. destruct (x <=? y); [apply Permutation_refl|].
  eapply Permutation_trans; [apply perm_skip; exact IH|apply perm_swap].
Qed.
Lemma sort_perm l : Permutation (sort l) l.
Proof.
  induction l as [|x l IH]; cbn [sort fold_right]; [constructor|]. fold (sort l).
  eapply Permutation_trans; [apply insert_perm|apply perm_skip; exact IH].
Qed.
Lemma insert_sorted x l : StronglySorted le l -> StronglySorted le (insert x l).
Proof.
  induction l as [|y t IH]; intros S; cbn [insert]; [repeat constructor|].
  inversion S as [|? ? S' F]; subst. destruct (x <=? y) eqn:E.
  - apply Nat.leb_le in E. constructor; [exact S|]. constructor; [exact E|]. eapply Forall_impl; [|exact F]. cbn. intros; lia.
  - apply Nat.leb_gt in E. constructor; [apply IH; exact S'|].
    apply (Permutation_Forall (Permutation_sym (insert_perm x t))). constructor; [lia|exact F].
Qed.
Lemma sort_sorted l : StronglySorted le (sort l).
Proof. induction l as [|x l IH]; cbn [sort fold_right]; [constructor|]. apply insert_sorted. exact IH. Qed.
Lemma sorted_strict l : StronglySorted le l -> NoDup l -> StronglySorted lt l.
Proof.
  induction 1 as [|x l S IH F]; intros N; [constructor|]. inversion N as [|? ? NI N']; subst. constructor; [apply IH; exact N'|].
  rewrite Forall_forall in *. intros y I. specialize (F y I). assert (x <> y) by (intros E; subst; contradiction). lia.
Qed.

Definition dflt := mkSite 0 0 [].
Lemma total_del i : forall L, i < length L -> total_mult (del_nth i L) + mult (nth i L dflt) = total_mult L.
Proof.
  unfold total_mult. induction i as [|i IH]; intros [|y t] H; cbn [length] in H; try lia; cbn [del_nth map sum fold_right nth].
  - lia.
  - specialize (IH t ltac:(lia)). cbn [sum] in *. unfold sum in *. lia.
Qed.
Lemma length_del {A} i : forall (L : list A), i < length L -> S (length (del_nth i L)) = length L.
Proof. induction i as [|i IH]; intros [|y t] H; cbn [length] in H; try lia; cbn [del_nth length]; [reflexivity|]. rewrite IH by lia. reflexivity. Qed.
Lemma firstn_del {A} k : forall i (L : list A), k <= i -> firstn k (del_nth i L) = firstn k L.
Proof.
  induction k as [|k IH]; intros i L H; [reflexivity|]. destruct L as [|y t]; [destruct i; reflexivity|].
  destruct i as [|i]; [lia|]. cbn [del_nth firstn]. f_equal. apply IH. lia.
Qed.
Lemma firstn_nth_eq {A} i : forall (X Y : list A) d, firstn (S i) X = firstn (S i) Y -> i < length Y -> nth i X d = nth i Y d /\ i < length X.
Proof.
  induction i as [|i IH]; intros [|x X] [|y Y] d E H; cbn [length] in H; try lia; cbn [firstn] in E; try discriminate.
  - inversion E. cbn. split; [reflexivity|lia].
  - inversion E as [[E1 E2]]. destruct (IH X Y d E2 ltac:(lia)) as [QA QB]. cbn [nth length]. split; [exact QA|lia].
Qed.
Lemma firstn_le_eq {A} k k' (X Y : list A) : k <= k' -> firstn k' X = firstn k' Y -> firstn k X = firstn k Y.
Proof.
  intros H E. rewrite <- (Nat.min_l k k') by exact H. rewrite <- !firstn_firstn. rewrite E. reflexivity.
Qed.
Lemma total_set i x : forall L, i < length L -> total_mult (set_nth i x L) + mult (nth i L dflt) = total_mult L + mult x.
Proof.
  unfold total_mult. induction i as [|i IH]; intros [|y t] H; cbn [length] in H; try lia; cbn [set_nth map sum fold_right nth].
  - lia.
  - specialize (IH t ltac:(lia)). unfold sum in *. lia.
Qed.
Lemma set_same_mult i x : forall L, mult x = mult (nth i L dflt) -> total_mult (set_nth i x L) = total_mult L.
Proof.
  unfold total_mult, sum. induction i as [|i IH]; intros [|y t] H; cbn [set_nth map fold_right nth] in *; try reflexivity.
  - lia.
  - rewrite (IH t H). reflexivity.
Qed.
Lemma length_set {A} i (x : A) : forall L, length (set_nth i x L) = length L.
Proof. induction i as [|i IH]; intros [|y t]; cbn [set_nth length]; try reflexivity. rewrite IH. reflexivity. Qed.

Definition Dl (rest : list nat) (st : list site) : list site := fold_right (fun i s => del_nth i s) st rest.
Lemma Dl_spec st : forall rest, StronglySorted lt rest -> Forall (fun r => r < length st) rest ->
  forall k, Forall (fun r => k <= r) rest ->
  firstn k (Dl rest st) = firstn k st /\
  total_mult (Dl rest st) + sum (map (fun r => mult (nth r st dflt)) rest) = total_mult st /\
  length (Dl rest st) + length rest = length st.
Proof.
  induction rest as [|r1 rest IH]; intros HS B k K; cbn [Dl fold_right map sum length].
  - repeat split; lia.
  - inversion HS as [|? ? S' F]; subst. inversion B as [|? ? B1 B']; subst. inversion K as [|? ? K1 K']; subst.
    destruct (IH S' B' (S r1)) as (P1 & P2 & P3).
    { eapply Forall_impl; [|exact F]. cbn. intros; lia. }
    fold (Dl rest st). destruct (firstn_nth_eq r1 (Dl rest st) st dflt P1 B1) as [N1 N2].
    split; [|split].
    + rewrite firstn_del by exact K1. apply (firstn_le_eq k (S r1)); [lia|exact P1].
    + pose proof (total_del r1 (Dl rest st) N2). rewrite N1 in H. unfold sum in *. lia.
    + pose proof (length_del r1 (Dl rest st) N2). lia.
Qed.

(* the total multiplicity is conserved by a merge of any group of distinct valid indices, listed in any order *)
Lemma merge_total_l keep st indices : NoDup indices -> Forall (fun i => i < length st) indices ->
  total_mult (merge keep st indices) = total_mult st.
Proof.
  intros ND B. unfold merge.
  assert (SS: StronglySorted lt (sort indices)).
  { apply sorted_strict; [apply sort_sorted|]. apply (Permutation_NoDup (Permutation_sym (sort_perm indices)) ND). }
  assert (BB: Forall (fun i => i < length st) (sort indices)) by (apply (Permutation_Forall (Permutation_sym (sort_perm indices)) B)).
  destruct (sort indices) as [|i0 rest] eqn:E; [reflexivity|].
  destruct keep.
  - (* keep_all: every site keeps its multiplicity *)
    set (grp := sel st (i0 :: rest)). clearbody grp. clear E SS BB.
    generalize (i0 :: rest) as ix. intros ix. revert st ND B. induction ix as [|i ix IH]; intros st ND B; cbn [fold_left]; [reflexivity|].
    rewrite IH; [apply set_same_mult; reflexivity|exact ND|].
    rewrite length_set. exact B.
  - inversion SS as [|? ? S' F]; subst. inversion BB as [|? ? B0 B']; subst.
    rewrite <- fold_left_rev_right. rewrite rev_involutive. fold (Dl rest st).
    destruct (Dl_spec st rest S' B' (S i0)) as (P1 & P2 & P3).
    { eapply Forall_impl; [|exact F]. cbn. intros; lia. }
    destruct (firstn_nth_eq i0 (Dl rest st) st dflt P1 B0) as [N1 N2].
    pose proof (total_set i0 {| mult := sum (map mult (sel st (i0 :: rest))); tag := tag (hd (nth i0 st dflt) (sel st (i0 :: rest)));
                                 vals := vsum (map vals (sel st (i0 :: rest))) |} (Dl rest st) N2) as T.
    cbn [mult] in T. rewrite N1 in T. unfold sel in T. rewrite map_map in T. cbn [map sum fold_right] in T.
    unfold dflt in *. unfold sel. rewrite map_map. cbn [map sum fold_right]. unfold sum in *. change (fold_right del_nth st rest) with (Dl rest st). lia.
Qed.


Inductive valid_seq (keep : bool) : list site -> list (list nat) -> Prop :=
| vs_nil st : valid_seq keep st []
| vs_cons st g gs : NoDup g -> Forall (fun i => i < length st) g -> valid_seq keep (merge keep st g) gs -> valid_seq keep st (g :: gs).

(* ... and by any sequence of merges; starting from unit multiplicities it stays equal to the number of original sites *)
Lemma merges_total_l keep st gs : valid_seq keep st gs -> total_mult (fold_left (merge keep) gs st) = total_mult st.
Proof.
  induction 1 as [st|st g gs ND B V IH]; cbn [fold_left]; [reflexivity|]. rewrite IH. apply merge_total_l; assumption.
Qed.
Lemma unit_total st : Forall (fun s => mult s = 1) st -> total_mult st = length st.
Proof. unfold total_mult, sum. induction 1 as [|s st H F IH]; cbn [map fold_right length]; [reflexivity|]. rewrite H, IH. reflexivity. Qed.

Lemma nth_set {A} i (x d : A) : forall L, i < length L -> nth i (set_nth i x L) d = x.
Proof. induction i as [|i IH]; intros [|y t] H; cbn [length] in H; try lia; cbn [set_nth nth]; [reflexivity|]. apply IH. lia. Qed.
Lemma firstn_set {A} k (x : A) : forall i L, k <= i -> firstn k (set_nth i x L) = firstn k L.
Proof.
  induction k as [|k IH]; intros i L H; [reflexivity|]. destruct L as [|y t]; [destruct i; reflexivity|].
  destruct i as [|i]; [lia|]. cbn [set_nth firstn]. f_equal. apply IH. lia.
Qed.

(* merging (keep_all = False) leaves ONE site, at the lowest index of the group, carrying the strategies applied to the group
   (sum of multiplicities, first value, element-wise sum), removes the others and leaves the sites before it untouched *)
Lemma merge_site_l st indices i0 rest : NoDup indices -> Forall (fun i => i < length st) indices -> sort indices = i0 :: rest ->
  let grp := sel st (i0 :: rest) in let r := merge false st indices in
  nth i0 r dflt = mkSite (sum (map mult grp)) (tag (nth i0 st dflt)) (vsum (map vals grp)) /\
  length r + length rest = length st /\ firstn i0 r = firstn i0 st.
Proof.
  intros ND B E grp r. unfold r, merge. rewrite E.
  assert (SS: StronglySorted lt (i0 :: rest)).
  { rewrite <- E. apply sorted_strict; [apply sort_sorted|]. apply (Permutation_NoDup (Permutation_sym (sort_perm indices)) ND). }
  assert (BB: Forall (fun i => i < length st) (i0 :: rest)) by (rewrite <- E; apply (Permutation_Forall (Permutation_sym (sort_perm indices)) B)).
  inversion SS as [|? ? S' F]; subst. inversion BB as [|? ? B0 B']; subst.
  rewrite <- fold_left_rev_right. rewrite rev_involutive. change (fold_right (fun y x => del_nth y x) st rest) with (Dl rest st).
  destruct (Dl_spec st rest S' B' (S i0)) as (P1 & P2 & P3).
  { eapply Forall_impl; [|exact F]. cbn. intros; lia. }
  destruct (firstn_nth_eq i0 (Dl rest st) st dflt P1 B0) as [N1 N2].
  split; [|split].
  - rewrite nth_set by exact N2. reflexivity.
  - rewrite length_set. exact P3.
  - rewrite firstn_set by lia. apply (firstn_le_eq i0 (S i0)); [lia|exact P1].
Qed.

(* ---------------- the species groups partition the atoms (equality test) ---------------- *)
Lemma positions_sorted p l : forall k, StronglySorted lt (positions p k l).
Proof.
  induction l as [|y t IH]; intros k; cbn [positions]; [constructor|]. destruct (p y); cbn [app]; [|apply IH].
  constructor; [apply IH|]. apply Forall_forall. intros i I. apply positions_spec in I. lia.
Qed.
Lemma lt_sorted_NoDup l : StronglySorted lt l -> NoDup l.
Proof.
  induction 1 as [|x l S IH F]; constructor; [|exact IH]. intros I. rewrite Forall_forall in F. specialize (F x I). lia.
Qed.
Lemma NoDup_app_disj {A} (a b : list A) : NoDup a -> NoDup b -> (forall x, In x a -> ~ In x b) -> NoDup (a ++ b).
Proof.
  induction 1 as [|x a NI N IH]; intros NB D; cbn [app]; [exact NB|]. constructor.
  - intros I. apply in_app_or in I. destruct I as [I|I]; [contradiction|]. apply (D x); [left; reflexivity|exact I].
  - apply IH; [exact NB|]. intros y I. apply D. right. exact I.
Qed.
Lemma groups_partition syms species : NoDup species -> (forall x, In x syms -> In x species) ->
  Permutation (concat (map (group Nat.eqb syms) species)) (seq 0 (length syms)).
Proof.
  intros ND COV. apply NoDup_Permutation; [|apply seq_NoDup|].
  - clear COV. induction species as [|sp species IH]; cbn [map concat]; [constructor|]. inversion ND as [|? ? NI ND']; subst.
    apply NoDup_app_disj; [apply lt_sorted_NoDup; apply positions_sorted|apply IH; exact ND'|].
    intros i I1 I2. apply group_eq_spec in I1. apply in_concat in I2. destruct I2 as (g & IG & II). apply in_map_iff in IG.
    destruct IG as (sr & E & IS). subst. apply group_eq_spec in II. rewrite I1 in II. inversion II; subst. contradiction.
  - intros i. rewrite in_seq. split.
    + intros I. apply in_concat in I. destruct I as (g & IG & II). apply in_map_iff in IG. destruct IG as (sp & E & IS). subst.
      apply group_eq_spec in II. split; [lia|]. apply nth_error_Some. congruence.
    + intros [_ H]. destruct (nth_error syms i) as [sp|] eqn:E; [|apply nth_error_Some in H; congruence].
      apply in_concat. exists (group Nat.eqb syms sp). split; [|apply group_eq_spec; exact E].
      apply in_map. apply COV. eapply nth_error_In. exact E.
Qed.

(* RemapIndices with the equality test: a permutation of all atom indices pairing every reference atom with a structure atom of the
   same species, for ANY composition, provided each per-species assignment returned by the oracle is a permutation of its group *)
Lemma remap_species_l syms_s syms_r species cols :
  NoDup species -> (forall x, In x syms_r -> In x species) -> (forall x, In x syms_s -> In x species) -> length syms_s = length syms_r ->
  Forall2 (fun rs col => assignment_ok (fst rs) (snd rs) col)
          (combine (map (group Nat.eqb syms_r) species) (map (group Nat.eqb syms_s) species)) cols ->
  let r := remap Nat.eqb syms_s syms_r species cols in
  Permutation r (seq 0 (length syms_r)) /\
  forall i, i < length syms_r -> nth_error syms_s (nth i r 0) = nth_error syms_r i.
Proof.
  intros ND CR CS LE F r.
  pose proof (groups_partition syms_r species ND CR) as PR. pose proof (groups_partition syms_s species ND CS) as PS. rewrite LE in PS.
  destruct (remap_perm_l Nat.eqb syms_s syms_r species cols F PR PS) as [P Q]. split; [exact P|].
  intros i Hi. specialize (Q i Hi). fold r in Q.
  destruct (all_pairs_in_group _ _ _ _ _ Q F) as (k & rg & sg & A & B & C & D).
  rewrite nth_error_map in A, B. destruct (nth_error species k) as [sp|]; [|discriminate]. cbn in A, B. inversion A; inversion B; subst.
  apply group_eq_spec in C. apply group_eq_spec in D. congruence.
Qed.
