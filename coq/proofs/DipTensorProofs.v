(* C11: the dipolar tensor is symmetric, traceless, axial about the connecting vector with principal values (-d, -d, 2d); the rotationally
   averaged tensor is the same form about the rotation axis with d scaled by (3 cos^2 - 1)/2 and keeps the component along the axis. *)
Require Import Sop.model.DipTensorR.
Lemma dip_tensor_l d r : dot3 r r = 1 ->
  transp (dip_tensor d r) = dip_tensor d r /\ tr3 (dip_tensor d r) = 0 /\ mv (dip_tensor d r) r = sc3 (2 * d) r /\
  (forall u, dot3 u r = 0 -> mv (dip_tensor d r) u = sc3 (- d) u).
Proof.
  destruct r as [[x y] z]. unfold dot3, dip_tensor, axial, transp, tr3, mv, sc3, of_Z. intros H. unfold num in *.
  assert (H3: 3 * (x*x) + 3 * (y*y) + 3 * (z*z) = 3) by lra.
  split; [|split; [|split]].
  - pairs; cbv [num v3 m3 dot3] in *; ring.
  - transitivity (d * (3 * (x*x) + 3 * (y*y) + 3 * (z*z) - 3)); [ring|]. rewrite H3. ring.
  - pairs; cbv [num v3 m3 dot3] in *.
    + transitivity (d * x * (3 * (x*x) + 3 * (y*y) + 3 * (z*z) - 1)); [ring|]. rewrite H3. ring.
    + transitivity (d * y * (3 * (x*x) + 3 * (y*y) + 3 * (z*z) - 1)); [ring|]. rewrite H3. ring.
    + transitivity (d * z * (3 * (x*x) + 3 * (y*y) + 3 * (z*z) - 1)); [ring|]. rewrite H3. ring.
  - intros [[u1 u2] u3] U. pairs; cbv [num v3 m3 dot3] in *.
    + transitivity (3 * d * x * (u1*x + u2*y + u3*z) - d * u1); [ring|]. rewrite U. ring.
    + transitivity (3 * d * y * (u1*x + u2*y + u3*z) - d * u2); [ring|]. rewrite U. ring.
    + transitivity (3 * d * z * (u1*x + u2*y + u3*z) - d * u3); [ring|]. rewrite U. ring.
Qed.
Lemma dip_rot_l d r a : dot3 a a = 1 ->
  let c := dot3 r a in let d' := d * (3 * (c * c) - 1) / 2 in
  dip_tensor_rot d r a = dip_tensor d' a /\
  dot3 a (mv (dip_tensor_rot d r a) a) = dot3 a (mv (dip_tensor d r) a).
Proof.
  intros H c d'. split.
  - unfold dip_tensor_rot, dip_tensor, d', c, of_Z. f_equal. unfold num in *. field.
  - assert (E: dip_tensor_rot d r a = dip_tensor d' a) by (unfold dip_tensor_rot, dip_tensor, d', c, of_Z; f_equal; unfold num in *; field).
    rewrite E. destruct (dip_tensor_l d' a H) as (_ & _ & AX & _). rewrite AX.
    destruct a as [[a1 a2] a3]. destruct r as [[x y] z]. unfold d', c, sc3, dip_tensor, axial, mv, of_Z in *. cbv [num v3 m3 dot3] in *.
    set (q := x * a1 + y * a2 + z * a3).
    transitivity (d * (3 * (q * q) - 1) * (a1*a1 + a2*a2 + a3*a3)); [unfold q; field|].
    transitivity (d * (3 * (q * q) - (a1*a1 + a2*a2 + a3*a3))); [rewrite H; ring|unfold q; ring].
Qed.
