(* C08: the GENERATED _normalise_euler_angles only moves the angles inside their D2 coset (so the tensor is reproduced) and puts them in the
   conventional ranges (up to the tolerance eps the code uses at the folding boundaries). *)
Require Import Sop.model.NmrUtilsR Sop.proofs.EulerBase.

Ltac trigs := repeat (progress trig).
Ltac conds := repeat match goal with
  | |- context [if ltb ?x ?y then _ else _] => destruct (ltb x y) eqn:?
  | |- context [if leb ?x ?y then _ else _] => destruct (leb x y) eqn:?
  end.
Ltac closeY := unfold rotY3, rotY, Rz, Ry, dg, mmul; trigs; repeat (f_equal; try ring).
Ltac closeX := unfold rotX3, rotX, Rz, Rx, dg, mmul; trigs; repeat (f_equal; try ring).

(* active, ZXZ *)
Lemma normalise_coset a b c eps : exists f, rotX3 (normalise_euler_angles (a, b, c) false eps) = mmul (rotX a b c) (dg f).
Proof.
  unfold normalise_euler_angles. cbv beta iota. conds;
    first [ exists FI; solve [closeX] | exists Dx; solve [closeX] | exists Dy; solve [closeX] | exists Dz; solve [closeX] ].
Qed.
