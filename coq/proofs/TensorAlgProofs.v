(* C15: arithmetic keeps class and metadata, refuses conflicting metadata, and is the matrix operation; the weighted mean is the tensor of the
   weighted mean matrix, is unchanged by rescaling the weights and by entries of zero weight (Reals). *)
Require Import Sop.model.TensorAlgR.
From Coq Require Import ZArith Lia.
Local Open Scope R_scope.

Lemma zl_eqb_eq a : forall b, zl_eqb a b = true <-> a = b.
Proof.
  induction a as [|x a IH]; intros [|y b]; cbn [zl_eqb]; try (split; [discriminate|discriminate]); [tauto|].
  rewrite andb_true_iff, Z.eqb_eq, IH. split; [intros [-> ->]; reflexivity|intros E; inversion E; auto].
Qed.

Lemma ops_meta_l t u r k :
  (cls (tneg t) = cls t /\ meta (tneg t) = meta t /\ data (tneg t) = mneg (data t)) /\
  (cls (tscale k t) = cls t /\ meta (tscale k t) = meta t /\ data (tscale k t) = mscale k (data t)) /\
  (tadd t u = RT r -> cls r = cls t /\ meta r = meta t /\ data r = madd (data t) (data u)) /\
  (tsub t u = RT r -> cls r = cls t /\ meta r = meta t /\ data r = msub (data t) (data u)) /\
  (cls t = cls u -> meta t <> meta u -> tadd t u = RRefused /\ tsub t u = RRefused) /\
  (cls t = cls u -> meta t = meta u -> tadd t u = RT (like t (madd (data t) (data u))) /\ tsub t u = RT (like t (msub (data t) (data u)))).
Proof.
  unfold tneg, tscale, tadd, tsub, like, compatible. cbn [cls meta data].
  split; [repeat split; reflexivity|]. split; [repeat split; reflexivity|]. split; [|split; [|split]].
  - destruct (negb (cls t =? cls u)%Z || zl_eqb (meta t) (meta u)); intros H; inversion H; repeat split; reflexivity.
  - destruct (negb (cls t =? cls u)%Z || zl_eqb (meta t) (meta u)); intros H; inversion H; repeat split; reflexivity.
  - intros H NE. rewrite H, Z.eqb_refl. cbn [negb orb]. destruct (zl_eqb (meta t) (meta u)) eqn:E; [apply zl_eqb_eq in E; contradiction|split; reflexivity].
  - intros H EQ. rewrite H, Z.eqb_refl. cbn [negb orb]. replace (zl_eqb (meta t) (meta u)) with true by (symmetry; apply zl_eqb_eq; assumption). split; reflexivity.
Qed.

(* entrywise: the operations are the matrix operations *)
Lemma nth_mmap2 f a b i : (i < length a)%nat -> (i < length b)%nat -> nth i (mmap2 f a b) 0 = f (nth i a 0) (nth i b 0).
Proof.
  unfold mmap2. revert b i. induction a as [|x a IH]; intros [|y b] i Ha Hb; cbn [length] in *; try lia.
  destruct i as [|i]; cbn [combine map nth]; [reflexivity|]. apply IH; lia.
Qed.
Lemma nth_mscale k a i : nth i (mscale k a) 0 = k * nth i a 0.
Proof. unfold mscale. revert i. induction a as [|x a IH]; intros [|i]; cbn [map nth]; try (cbv [num] in *; ring); apply IH. Qed.

(* the weighted mean of matrices, entry by entry, for lists of 1x1 "matrices" generalises pointwise; the laws of the weights: *)
Lemma wsum_cons (x : R) (l : list R) : wsum (x :: l) = x + wsum l.
Proof. reflexivity. Qed.
Lemma wsum_nil : wsum (@nil R) = 0.
Proof. reflexivity. Qed.
Lemma wsum_scale (c : R) (ws : list R) : wsum (map (fun w => c * w) ws) = c * wsum ws.
Proof. cbv [num] in *. induction ws as [|w ws IH]; cbn [map]; rewrite ?wsum_cons, ?wsum_nil; [ring|rewrite IH; ring]. Qed.

(* scalar model of one entry: sum w_i x_i / sum w_i *)
Definition wdot (xs ws : list R) : R := wsum (map (fun xw => snd xw * fst xw) (combine xs ws)).
Definition wmean (xs ws : list R) : R := wdot xs ws / wsum ws.
Lemma wdot_cons (a : R) xs (b : R) ws : wdot (a :: xs) (b :: ws) = b * a + wdot xs ws.
Proof. reflexivity. Qed.
Lemma wdot_nil_l ws : wdot [] ws = 0.
Proof. reflexivity. Qed.
Lemma wdot_nil_r xs : wdot xs [] = 0.
Proof. destruct xs; reflexivity. Qed.
Lemma wdot_scale_w (c : R) xs : forall ws, wdot xs (map (fun v => c * v) ws) = c * wdot xs ws.
Proof.
  cbv [num] in *. induction xs as [|a xs IH]; intros [|b ws]; cbn [map]; rewrite ?wdot_nil_l, ?wdot_nil_r, ?wdot_cons; try ring.
  rewrite IH. ring.
Qed.
Lemma wdot_scale_x (c : R) xs : forall ws, wdot (map (fun v => c * v) xs) ws = c * wdot xs ws.
Proof.
  cbv [num] in *. induction xs as [|a xs IH]; intros [|b ws]; cbn [map]; rewrite ?wdot_nil_l, ?wdot_nil_r, ?wdot_cons; try ring.
  rewrite IH. ring.
Qed.
Lemma wmean_laws (x : R) xs (w : R) ws (c : R) : c <> 0 -> wsum ws <> 0 ->
  wmean xs (map (fun v => c * v) ws) = wmean xs ws /\          (* only the ratios of the weights matter *)
  wmean (x :: xs) (0 :: ws) = wmean xs ws /\                  (* entries of zero weight drop out *)
  (w <> 0 -> wmean [x] [w] = x) /\
  wmean (map (fun v => c * v) xs) ws = c * wmean xs ws.       (* linear in the data *)
Proof.
  intros Hc Hw. unfold wmean. split; [|split; [|split]].
  - rewrite wsum_scale, wdot_scale_w. cbv [num] in *. field. split; assumption.
  - rewrite wdot_cons, wsum_cons. cbv [num] in *. rewrite Rplus_0_l. field. exact Hw.
  - intros Hw1. rewrite wdot_cons, wdot_nil_l, wsum_cons, wsum_nil. cbv [num] in *. field. lra.
  - rewrite wdot_scale_x. cbv [num] in *. field. exact Hw.
Qed.

(* the mean keeps the class and metadata of the first tensor, refuses incompatible lists and weight lists of the wrong length *)
Lemma tmean_meta_l ts ws r : tmean ts ws = RT r ->
  exists t rest, ts = t :: rest /\ cls r = cls t /\ meta r = meta t /\ data r = mean_data (map data ts) ws /\
                 length ws = length ts /\ forall u, In u rest -> meta u = meta t.
Proof.
  unfold tmean. destruct ts as [|t rest]; [discriminate|]. destruct (all_compatible (t :: rest) && Nat.eqb (length ws) (length (t :: rest))) eqn:E; [|discriminate].
  intros H. inversion H; subst. apply andb_true_iff in E. destruct E as [E1 E2]. exists t, rest. repeat split; try reflexivity.
  - apply Nat.eqb_eq. exact E2.
  - intros u I. cbn [all_compatible] in E1. rewrite forallb_forall in E1. specialize (E1 u I). apply zl_eqb_eq in E1. symmetry. exact E1.
Qed.
