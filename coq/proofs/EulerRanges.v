(* C08: ranges of the GENERATED _normalise_euler_angles (up to the tolerance eps used at the folding boundaries). *)
Require Import Sop.model.NmrUtilsR Sop.proofs.EulerBase.

Lemma modn_range x : 0 <= modn x (of_Z 2 * PIn) < 2 * PI.
Proof.
  unfold modn, of_Z, PIn. pose proof PI_RGT_0 as HP. destruct (base_Int_part (x / (2 * PI))) as [B1 B2]. set (k := IZR (Int_part (x / (2 * PI)))) in *.
  assert (E: x = (x / (2 * PI)) * (2 * PI)) by (field; lra). split.
  - assert (k * (2 * PI) <= (x / (2 * PI)) * (2 * PI)) by (apply Rmult_le_compat_r; lra). lra.
  - assert ((x / (2 * PI)) * (2 * PI) < (k + 1) * (2 * PI)) by (apply Rmult_lt_compat_r; lra). lra.
Qed.
Lemma modn_id y : 0 <= y < 2 * PI -> modn y (of_Z 2 * PIn) = y.
Proof.
  intros H. unfold modn, of_Z, PIn. pose proof PI_RGT_0 as HP. destruct (base_Int_part (y / (2 * PI))) as [B1 B2].
  assert (Q0: 0 <= y / (2 * PI)) by (apply Rmult_le_pos; [lra|left; apply Rinv_0_lt_compat; lra]).
  assert (Q1: y / (2 * PI) < 1) by (apply (Rmult_lt_reg_r (2 * PI)); [lra|]; replace (y / (2 * PI) * (2 * PI)) with y by (field; lra); lra).
  assert (K: Int_part (y / (2 * PI)) = 0%Z).
  { assert (A: (Int_part (y / (2 * PI)) < 1)%Z) by (apply lt_IZR; lra). assert (B: (-1 < Int_part (y / (2 * PI)))%Z) by (apply lt_IZR; lra). lia. }
  rewrite K. lra.
Qed.

(* active sense *)
Lemma normalise_ranges_active a b c eps : 0 <= eps < PI / 2 ->
  let '(a', b', c') := normalise_euler_angles (a, b, c) false eps in
  0 <= a' < 2 * PI /\ 0 <= b' <= PI / 2 + eps /\ - eps <= c' < PI.
Proof.
  intros He. unfold normalise_euler_angles. cbv beta iota.
  pose proof (modn_range a) as Ra. pose proof (modn_range b) as Rb. pose proof (modn_range c) as Rc. pose proof PI_RGT_0 as HP.
  set (a0 := modn a (of_Z 2 * PIn)) in *. set (b0 := modn b (of_Z 2 * PIn)) in *. set (c0 := modn c (of_Z 2 * PIn)) in *.
  unfold of_Z, PIn in *.
  destruct (ltb PI b0) eqn:E1; bools.
  - pose proof (modn_range (a0 - PI)) as Ra1. unfold of_Z, PIn in Ra1. set (a1 := modn (a0 - PI) (2 * PI)) in *.
    destruct (leb (PI / 2 - eps) (2 * PI - b0)) eqn:E2; bools.
    + pose proof (modn_range (a1 + PI)) as Ra2. pose proof (modn_range (PI - c0)) as Rc2. unfold of_Z, PIn in Ra2, Rc2.
      pose proof (modn_id (PI - (2 * PI - b0)) ltac:(lra)) as MI. unfold of_Z, PIn in MI. rewrite MI.
      destruct (leb (PI - eps) (modn (PI - c0) (2 * PI))) eqn:E3; bools; repeat split; lra.
    + destruct (leb (PI - eps) c0) eqn:E3; bools; repeat split; lra.
  - destruct (leb (PI / 2 - eps) b0) eqn:E2; bools.
    + pose proof (modn_range (a0 + PI)) as Ra2. pose proof (modn_range (PI - c0)) as Rc2. unfold of_Z, PIn in Ra2, Rc2.
      pose proof (modn_id (PI - b0) ltac:(lra)) as MI. unfold of_Z, PIn in MI. rewrite MI.
      destruct (leb (PI - eps) (modn (PI - c0) (2 * PI))) eqn:E3; bools; repeat split; lra.
    + destruct (leb (PI - eps) c0) eqn:E3; bools; repeat split; lra.
Qed.

(* passive sense: the roles of alpha and gamma are mirrored *)
Lemma normalise_ranges_passive a b c eps : 0 <= eps < PI / 2 ->
  let '(a', b', c') := normalise_euler_angles (a, b, c) true eps in
  - eps <= a' < PI /\ 0 <= b' <= PI / 2 + eps /\ 0 <= c' < 2 * PI.
Proof.
  intros He. unfold normalise_euler_angles. cbv beta iota.
  pose proof (modn_range a) as Ra. pose proof (modn_range b) as Rb. pose proof (modn_range c) as Rc. pose proof PI_RGT_0 as HP.
  set (a0 := modn a (of_Z 2 * PIn)) in *. set (b0 := modn b (of_Z 2 * PIn)) in *. set (c0 := modn c (of_Z 2 * PIn)) in *.
  unfold of_Z, PIn in *.
  destruct (ltb PI b0) eqn:E1; bools.
  - pose proof (modn_range (c0 - PI)) as Rc1. unfold of_Z, PIn in Rc1. set (c1 := modn (c0 - PI) (2 * PI)) in *.
    destruct (leb (PI / 2 - eps) (2 * PI - b0)) eqn:E2; bools.
    + pose proof (modn_range (PI + c1)) as Rc2. pose proof (modn_range (PI - a0)) as Ra2. unfold of_Z, PIn in Ra2, Rc2.
      pose proof (modn_id (PI - (2 * PI - b0)) ltac:(lra)) as MI. unfold of_Z, PIn in MI. rewrite MI.
      destruct (leb (PI - eps) (modn (PI - a0) (2 * PI))) eqn:E3; bools; repeat split; lra.
    + destruct (leb (PI - eps) a0) eqn:E3; bools; repeat split; lra.
  - destruct (leb (PI / 2 - eps) b0) eqn:E2; bools.
    + pose proof (modn_range (PI + c0)) as Rc2. pose proof (modn_range (PI - a0)) as Ra2. unfold of_Z, PIn in Ra2, Rc2.
      pose proof (modn_id (PI - b0) ltac:(lra)) as MI. unfold of_Z, PIn in MI. rewrite MI.
      destruct (leb (PI - eps) (modn (PI - a0) (2 * PI))) eqn:E3; bools; repeat split; lra.
    + destruct (leb (PI - eps) a0) eqn:E3; bools; repeat split; lra.
Qed.
