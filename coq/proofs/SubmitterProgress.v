(* C18: progress.  Without further signals the Submitter loop reaches, from ANY state (whatever the program counter, the tables, the flag), either its
   exit or - while it is still running - the quiescent point of the main loop where no job is pending, waiting or outstanding.  Queue lifetimes are
   finite by construction of the model (each job stops being listed after its number of polls); max_jobs >= 1.  No axioms. *)
From Coq Require Import List Arith Bool Lia.
Import ListNotations.
Require Import Sop.model.Submitter.

Section Progress.
Variable max_jobs : nat.
Variable continuation : bool.
Hypothesis MJ : 1 <= max_jobs.
Notation stp := (step max_jobs continuation).
Fixpoint steps (n : nat) (s : st) : st := match n with O => s | S n' => steps n' (stp s) end.
Lemma steps_add a : forall b s, steps (a + b) s = steps b (steps a s).
Proof. induction a as [|a IH]; intros b s; cbn [steps Nat.add]; [reflexivity|apply IH]. Qed.

Definition W (lf : list nat) : nat := 2 + list_max lf.
Definition qsum (q : list (nat * nat)) : nat := fold_right (fun kr a => snd kr + a) 0 q.
Definition held (p : pc) : nat := match p with PMk _ _ | PSetup _ _ | PGate _ | PSubmit _ => 1 | _ => 0 end.
(* potential: polls still owed by the queue + jobs in the table + W for every job not yet submitted *)
Definition G (s : st) : nat := qsum (queue s) + length (jobs s) + W (lifes s) * (length (pending s) + length (waiting s) + held (at_ s)).
Definition quiescent (s : st) : Prop := jobs s = [] /\ pending s = [] /\ waiting s = [].
Definition done (s : st) : Prop := at_ s = PExit \/ (at_ s = PLoop /\ running s = true /\ quiescent s).

Lemma qsum_app a b : qsum (a ++ b) = qsum a + qsum b.
Proof. unfold qsum. induction a as [|x a IH]; cbn [app fold_right]; [reflexivity|rewrite IH; lia]. Qed.
Lemma tick_id i q : remaining i q = 0 -> tick i q = q.
Proof. induction q as [|[k r] t IH]; cbn [remaining tick]; [reflexivity|]. destruct (Nat.eqb i k); intros H; [subst; reflexivity|rewrite IH by exact H; reflexivity]. Qed.
Lemma tick_lt i q : remaining i q <> 0 -> S (qsum (tick i q)) = qsum q.
Proof.
  unfold qsum. induction q as [|[k r] t IH]; cbn [remaining tick fold_right snd]; [intros H; lia|].
  destruct (Nat.eqb i k); intros H; cbn [fold_right snd]; [destruct r; [lia|cbn [pred]; lia]|specialize (IH H); lia].
Qed.
Lemma nth_le_max n lf : nth n lf 0 <= list_max lf.
Proof. revert n. induction lf as [|x t IH]; intros [|n]; cbn [nth list_max fold_right]; try lia. specialize (IH n). unfold list_max in IH. lia. Qed.
Lemma remove_id_len c l j : find_id c l = Some j -> S (length (remove_id c l)) = length l.
Proof. induction l as [|[k j'] t IH]; cbn [find_id remove_id length]; [discriminate|]. destruct (Nat.eqb c k); intros H; [reflexivity|cbn [length]; rewrite IH by exact H; reflexivity]. Qed.

Definition core (s : st) := (running s, pending s, waiting s, jobs s, queue s, lifes s).
Definition good (g : nat) (s : st) : Prop := G s < g \/ done s.
Definition ev_good (g : nat) (s : st) : Prop := exists k, good g (steps k s).
Lemma ev_now g s : good g s -> ev_good g s. Proof. intros H. exists 0. exact H. Qed.
Lemma ev_step g s : ev_good g (stp s) -> ev_good g s. Proof. intros [k H]. exists (S k). exact H. Qed.
Lemma ev_steps g s n : ev_good g (steps n s) -> ev_good g s.
Proof. intros [k H]. exists (n + k). rewrite steps_add. exact H. Qed.

Lemma G_core s s' : core s' = core s -> held (at_ s') <= held (at_ s) -> G s' <= G s.
Proof.
  unfold core. intros E Hh. assert (E1: pending s' = pending s) by congruence. assert (E2: waiting s' = waiting s) by congruence.
  assert (E3: jobs s' = jobs s) by congruence. assert (E4: queue s' = queue s) by congruence. assert (E5: lifes s' = lifes s) by congruence.
  unfold G. rewrite E1, E2, E3, E4, E5. apply Nat.add_le_mono_l. apply Nat.mul_le_mono_l. lia.
Qed.
Lemma core_mk p r nn pe w js q lf ni nf fo sv dr tr : core (mk p r nn pe w js q lf ni nf fo sv dr tr) = (r, pe, w, js, q, lf).
Proof. reflexivity. Qed.
Ltac fields s := destruct s as [p r nn pe w js q lf ni nf fo sv dr tr].
Ltac sim := cbn [steps step at_ running nextname pending waiting jobs queue lifes nextid nextfolder folders saved dropped trace set_at emit set_running
                 set_waiting set_jobs set_folders G held length app core fst snd jname jfolder] in *.

(* the check phase: either some poll is consumed (progress) or every job checked so far was already finished and the state is untouched *)
Lemma check_phase g : forall todo acc s, at_ s = PCheck todo acc -> G s <= g ->
  ev_good g s \/ exists k, at_ (steps k s) = PFin (acc ++ map fst todo) /\ core (steps k s) = core s.
Proof.
  induction todo as [|[i j] todo IH]; intros acc s P Hg.
  - right. exists 1. fields s. sim. subst p. sim. rewrite app_nil_r. split; reflexivity.
  - fields s. sim. subst p. destruct (remaining i q) as [|rm] eqn:R.
    + (* nothing owed: state untouched *)
      set (s1 := stp (mk (PCheck ((i, j) :: todo) acc) r nn pe w js q lf ni nf fo sv dr tr)).
      assert (E1: at_ s1 = PCheck todo (acc ++ [i]) /\ core s1 = (r, pe, w, js, q, lf)).
      { unfold s1. sim. rewrite R. cbn [Nat.eqb]. sim. rewrite (tick_id i q R). split; reflexivity. }
      destruct E1 as [E1 E2]. destruct (IH (acc ++ [i]) s1 E1) as [Hev|[k [K1 K2]]].
      * eapply Nat.le_trans; [apply (G_core (mk (PCheck ((i, j) :: todo) acc) r nn pe w js q lf ni nf fo sv dr tr) s1); [rewrite E2; reflexivity|rewrite E1; cbn [held at_]; lia]|exact Hg].
      * left. apply ev_step. exact Hev.
      * right. exists (S k). cbn [steps]. fold s1. rewrite K1, K2, E2, <- app_assoc. split; reflexivity.
    + left. apply ev_step. apply ev_now. left. sim. rewrite R. cbn [Nat.eqb]. sim.
      pose proof (tick_lt i q ltac:(rewrite R; discriminate)) as T. unfold G in *. sim. lia.
Qed.

(* the finalisation phase: either a job is finalised (progress) or nothing in the list is in the table and the loop is re-entered with the state untouched *)
Lemma fin_phase g : forall cs s, at_ s = PFin cs -> G s <= g ->
  ev_good g s \/ exists k, at_ (steps k s) = PLoop /\ core (steps k s) = core s.
Proof.
  induction cs as [|c cs IH]; intros s P Hg.
  - right. exists 1. fields s. sim. subst p. sim. split; reflexivity.
  - fields s. sim. subst p. destruct (find_id c js) as [j|] eqn:F.
    + left. apply ev_step. apply ev_now. left. sim. rewrite F. sim. pose proof (remove_id_len c js j F). unfold G in *. sim. lia.
    + set (s1 := stp (mk (PFin (c :: cs)) r nn pe w js q lf ni nf fo sv dr tr)).
      assert (E1: at_ s1 = PFin cs /\ core s1 = (r, pe, w, js, q, lf)) by (unfold s1; sim; rewrite F; sim; split; reflexivity).
      destruct E1 as [E1 E2]. destruct (IH s1 E1) as [Hev|[k [K1 K2]]].
      * unfold core in E2. inversion E2 as [[Hr Hp Hw Hj Hq Hl]]. unfold G. rewrite Hp, Hw, Hj, Hq, Hl, E1. sim. exact Hg.
      * left. apply ev_step. exact Hev.
      * right. exists (S k). cbn [steps]. fold s1. rewrite K1, K2, E2. split; reflexivity.
Qed.

Lemma ev_mono g g' s : g <= g' -> ev_good g s -> ev_good g' s.
Proof. intros L [k [H|H]]; exists k; [left; lia|right; exact H]. Qed.
Ltac go := apply ev_step; sim.
Ltac here := apply ev_now; left; unfold G in *; sim.
Ltac byl L := eapply L; [unfold G in *; sim; try lia|reflexivity].

Lemma A_exit g s : at_ s = PExit -> ev_good g s.
Proof. intros P. apply ev_now. right. left. exact P. Qed.
Lemma A_killfin g s : G s <= g -> at_ s = PKillFin -> ev_good g s.
Proof. intros Hg P. fields s. sim. subst p. destruct js as [|[i j] js]; go; [apply A_exit; reflexivity|here; lia]. Qed.
Lemma A_kill g s : G s <= g -> at_ s = PKill -> ev_good g s.
Proof. intros Hg P. fields s. sim. subst p. destruct js as [|[i j] js]; go; [apply A_exit; reflexivity|byl A_killfin]. Qed.
Lemma A_killrm g s f : G s <= g -> at_ s = PKillRm f -> ev_good g s.
Proof. intros Hg P. fields s. sim. subst p. go. byl A_kill. Qed.
Lemma A_drop g s : G s <= g -> at_ s = PDrop -> ev_good g s.
Proof. intros Hg P. fields s. sim. subst p. destruct w as [|j w]; go; [byl A_kill|here; unfold W in *; lia]. Qed.
Lemma A_term g s : G s <= g -> at_ s = PTerm -> ev_good g s.
Proof. intros Hg P. fields s. sim. subst p. go. destruct continuation; sim; [apply A_exit; reflexivity|byl A_drop]. Qed.
Lemma A_test g s : G s <= g -> at_ s = PTest -> ev_good g s.
Proof. intros Hg P. fields s. sim. subst p. go. destruct r; sim; [apply A_exit; reflexivity|byl A_term]. Qed.
Lemma A_loop_false g s : G s <= g -> at_ s = PLoop -> running s = false -> ev_good g s.
Proof. intros Hg P Rn. fields s. sim. subst p r. go. byl A_test. Qed.

(* a check phase entered with a non-empty job table always makes progress: a poll is consumed, or the head job is finalised *)
Lemma check_head g s i j t : G s <= g -> at_ s = PCheck ((i, j) :: t) [] -> jobs s = (i, j) :: t -> ev_good g s.
Proof.
  intros Hg P J. destruct (check_phase g _ _ s P Hg) as [H|[k [K1 K2]]]; [exact H|].
  apply (ev_steps g s k). set (s' := steps k s) in *. cbn [app map fst] in K1.
  assert (J': jobs s' = (i, j) :: t) by (unfold core in K2; congruence).
  assert (G': G s' <= g) by (eapply Nat.le_trans; [apply (G_core s s' K2); rewrite K1, P; cbn [held]; lia|exact Hg]).
  clearbody s'. fields s'. sim. subst p js. go. cbn [find_id]. rewrite Nat.eqb_refl. sim. here. cbn [remove_id]. rewrite Nat.eqb_refl. lia.
Qed.
Lemma W_pos lf : 2 <= W lf. Proof. unfold W. lia. Qed.
Lemma A_submit g s j : G s <= g -> at_ s = PSubmit j -> ev_good g s.
Proof.
  intros Hg P. fields s. sim. subst p. go. here. rewrite qsum_app, app_length. cbn [qsum fold_right snd length]. pose proof (nth_le_max (fst j) lf). unfold W, jname in *. nia.
Qed.
Lemma A_gate_true g s j : G s <= g -> at_ s = PGate j -> running s = true -> ev_good g s.
Proof. intros Hg P Rn. fields s. sim. subst p r. go. byl A_submit. Qed.
Lemma A_setup_true g s j ok : G s <= g -> at_ s = PSetup j ok -> running s = true -> ev_good g s.
Proof. intros Hg P Rn. fields s. sim. subst p r. go. destruct ok; sim; [apply (A_gate_true g _ j); [unfold G in *; sim; lia|reflexivity|reflexivity]|here; pose proof (W_pos lf); nia]. Qed.
Lemma A_mk_true g s n ok : G s <= g -> at_ s = PMk n ok -> running s = true -> ev_good g s.
Proof. intros Hg P Rn. fields s. sim. subst p r. go. apply (A_setup_true g _ (n, nf) ok); [unfold G in *; sim; lia|reflexivity|reflexivity]. Qed.

(* the main loop, still running: quiescent, or some progress within the round *)
Lemma A_fill_true g s : G s <= g -> at_ s = PFill -> running s = true -> jobs s <> [] \/ pending s <> [] \/ waiting s <> [] -> ev_good g s.
Proof.
  intros Hg P Rn NQ. fields s. sim. subst p r. go. destruct (length js <? max_jobs) eqn:LT.
  - destruct w as [|j w]; sim.
    + go. destruct pe as [|ok rest]; sim.
      * destruct js as [|[i j] t]; [exfalso; destruct NQ as [N|[N|N]]; apply N; reflexivity|]. apply (check_head g _ i j t); [unfold G in *; sim; lia|reflexivity|reflexivity].
      * apply (A_mk_true g _ nn ok); [unfold G in *; sim; lia|reflexivity|reflexivity].
    + apply (A_gate_true g _ j); [unfold G in *; sim; lia|reflexivity|reflexivity].
  - apply Nat.ltb_ge in LT. destruct js as [|[i j] t]; [cbn [length] in LT; lia|]. apply (check_head g _ i j t); [unfold G in *; sim; lia|reflexivity|reflexivity].
Qed.
Lemma A_loop_true g s : G s <= g -> at_ s = PLoop -> running s = true -> ev_good g s.
Proof.
  intros Hg P Rn. destruct (jobs s) as [|x t] eqn:J; [destruct (pending s) as [|y u] eqn:Pe; [destruct (waiting s) as [|z v] eqn:Wa|]|].
  - apply ev_now. right. right. repeat split; assumption.
  - fields s. sim. subst p r. go. apply A_fill_true; [unfold G in *; sim; lia|reflexivity|reflexivity|sim; right; right; subst; discriminate].
  - fields s. sim. subst p r. go. apply A_fill_true; [unfold G in *; sim; lia|reflexivity|reflexivity|sim; right; left; subst; discriminate].
  - fields s. sim. subst p r. go. apply A_fill_true; [unfold G in *; sim; lia|reflexivity|reflexivity|sim; left; subst; discriminate].
Qed.
Lemma A_loop g s : G s <= g -> at_ s = PLoop -> ev_good g s.
Proof. intros Hg P. destruct (running s) eqn:Rn; [apply A_loop_true|apply A_loop_false]; assumption. Qed.
(* any check / finalisation phase: progress, or back at the top of the loop with the tables untouched *)
Lemma A_fin g s cs : G s <= g -> at_ s = PFin cs -> ev_good g s.
Proof.
  intros Hg P. destruct (fin_phase g cs s P Hg) as [H|[k [K1 K2]]]; [exact H|]. apply (ev_steps g s k). apply A_loop; [|exact K1].
  eapply Nat.le_trans; [apply (G_core s (steps k s) K2); rewrite K1; cbn [held]; lia|exact Hg].
Qed.
Lemma A_check g s todo acc : G s <= g -> at_ s = PCheck todo acc -> ev_good g s.
Proof.
  intros Hg P. destruct (check_phase g todo acc s P Hg) as [H|[k [K1 K2]]]; [exact H|]. apply (ev_steps g s k). apply (A_fin g _ (acc ++ map fst todo)); [|exact K1].
  eapply Nat.le_trans; [apply (G_core s (steps k s) K2); rewrite K1; cbn [held]; lia|exact Hg].
Qed.
Lemma A_finrm g s f cs : G s <= g -> at_ s = PFinRm f cs -> ev_good g s.
Proof. intros Hg P. fields s. sim. subst p. go. apply (A_fin g _ cs); [unfold G in *; sim; lia|reflexivity]. Qed.
Lemma A_gate g s j : G s <= g -> at_ s = PGate j -> ev_good g s.
Proof.
  intros Hg P. destruct (running s) eqn:Rn; [apply (A_gate_true g s j); assumption|]. fields s. sim. subst p r. go.
  apply (A_check g _ js []); [unfold G in *; sim; lia|reflexivity].
Qed.
Lemma A_setup g s j ok : G s <= g -> at_ s = PSetup j ok -> ev_good g s.
Proof. intros Hg P. fields s. sim. subst p. go. destruct ok; sim; [apply (A_gate g _ j); [unfold G in *; sim; lia|reflexivity]|here; pose proof (W_pos lf); nia]. Qed.
Lemma A_mk g s n ok : G s <= g -> at_ s = PMk n ok -> ev_good g s.
Proof. intros Hg P. fields s. sim. subst p. go. apply (A_setup g _ (n, nf) ok); [unfold G in *; sim; lia|reflexivity]. Qed.
Lemma A_next g s : G s <= g -> at_ s = PNext -> ev_good g s.
Proof.
  intros Hg P. fields s. sim. subst p. go. destruct pe as [|ok rest]; sim; [apply (A_check g _ js []); [unfold G in *; sim; lia|reflexivity]|apply (A_mk g _ nn ok); [unfold G in *; sim; lia|reflexivity]].
Qed.
Lemma A_fill g s : G s <= g -> at_ s = PFill -> ev_good g s.
Proof.
  intros Hg P. fields s. sim. subst p. go. destruct (length js <? max_jobs); [destruct w as [|j w]; sim|].
  - apply A_next; [unfold G in *; sim; lia|reflexivity].
  - apply (A_gate g _ j); [unfold G in *; sim; lia|reflexivity].
  - apply (A_check g _ js []); [unfold G in *; sim; lia|reflexivity].
Qed.
Lemma A_rm g s f : G s <= g -> at_ s = PRm f -> ev_good g s.
Proof. intros Hg P. fields s. sim. subst p. go. apply A_fill; [unfold G in *; sim; lia|reflexivity]. Qed.

Lemma advance s : ev_good (G s) s.
Proof.
  destruct (at_ s) eqn:P.
  - apply A_loop; [lia|exact P].
  - apply A_test; [lia|exact P].
  - apply A_fill; [lia|exact P].
  - apply A_next; [lia|exact P].
  - eapply A_mk; [lia|exact P].
  - eapply A_setup; [lia|exact P].
  - eapply A_rm; [lia|exact P].
  - eapply A_gate; [lia|exact P].
  - eapply A_submit; [lia|exact P].
  - eapply A_check; [lia|exact P].
  - eapply A_fin; [lia|exact P].
  - eapply A_finrm; [lia|exact P].
  - apply A_term; [lia|exact P].
  - apply A_drop; [lia|exact P].
  - apply A_kill; [lia|exact P].
  - apply A_killfin; [lia|exact P].
  - eapply A_killrm; [lia|exact P].
  - apply A_exit. exact P.
Qed.

Theorem progress_l : forall s, exists k, done (steps k s).
Proof.
  intros s. remember (G s) as n eqn:E. revert s E. induction n as [n IH] using lt_wf_ind. intros s E.
  destruct (advance s) as [k [H|H]].
  - destruct (IH (G (steps k s)) ltac:(lia) (steps k s) eq_refl) as [k2 D]. exists (k + k2). rewrite steps_add. exact D.
  - exists k. exact H.
Qed.
End Progress.
