(* C03: completeness of the supercell box and exactness of the periodic searches (Z, no axioms). *)
From Coq Require Import ZArith List Bool Lia FinFun.
Import ListNotations.
Require Import Sop.model.Lattice.
Local Open Scope Z_scope.

Ltac veq := repeat match goal with |- (_, _) = (_, _) => apply f_equal2 end; try ring.

(* ---------- algebra ---------- *)
Lemma recip_dot L : let '(r1,r2,r3) := L in let '(c1,c2,c3) := recip L in
  dotv r1 c1 = det L /\ dotv r2 c2 = det L /\ dotv r3 c3 = det L /\
  dotv r1 c2 = 0 /\ dotv r1 c3 = 0 /\ dotv r2 c1 = 0 /\ dotv r2 c3 = 0 /\ dotv r3 c1 = 0 /\ dotv r3 c2 = 0.
Proof.
  destruct L as [[[[a1 a2] a3] [[b1 b2] b3]] [[c1 c2] c3]]. cbv [recip det dotv crossv]. repeat split; ring.
Qed.

Lemma comb_dot_recip m L : let '(c1,c2,c3) := recip L in let '(m1,m2,m3) := m in
  dotv (comb m L) c1 = m1 * det L /\ dotv (comb m L) c2 = m2 * det L /\ dotv (comb m L) c3 = m3 * det L.
Proof.
  destruct L as [[[[a1 a2] a3] [[b1 b2] b3]] [[c1 c2] c3]]. destruct m as [[m1 m2] m3].
  cbv [recip det dotv crossv comb vadd smul]. repeat split; ring.
Qed.

Lemma comb_fracnum L v : comb (fracnum L v) L = smul (det L) v.
Proof.
  destruct L as [[[[a1 a2] a3] [[b1 b2] b3]] [[c1 c2] c3]]. destruct v as [[v1 v2] v3].
  cbv [fracnum recip det dotv crossv comb vadd smul]. veq.
Qed.

Lemma comb_add m n L : comb (vadd m n) L = vadd (comb m L) (comb n L).
Proof.
  destruct L as [[[[a1 a2] a3] [[b1 b2] b3]] [[c1 c2] c3]]. destruct m as [[m1 m2] m3]. destruct n as [[n1 n2] n3].
  cbv [comb vadd smul]. veq.
Qed.
Lemma comb_sub m n L : comb (vsub m n) L = vsub (comb m L) (comb n L).
Proof.
  destruct L as [[[[a1 a2] a3] [[b1 b2] b3]] [[c1 c2] c3]]. destruct m as [[m1 m2] m3]. destruct n as [[n1 n2] n3].
  cbv [comb vadd vsub smul]. veq.
Qed.
Lemma comb_smul k n L : comb (smul k n) L = smul k (comb n L).
Proof.
  destruct L as [[[[a1 a2] a3] [[b1 b2] b3]] [[c1 c2] c3]]. destruct n as [[n1 n2] n3].
  cbv [comb vadd smul]. veq.
Qed.
Lemma norm2_smul k v : norm2 (smul k v) = k * k * norm2 v.
Proof. destruct v as [[a b] c]. cbv [norm2 dotv smul]. ring. Qed.
Lemma norm2_nonneg v : 0 <= norm2 v.
Proof. destruct v as [[a b] c]. cbv [norm2 dotv]. nia. Qed.
Lemma sq0 x : x*x = 0 -> x = 0.
Proof. intros H. apply Z.mul_eq_0 in H. destruct H; assumption. Qed.
Lemma norm2_zero v : norm2 v = 0 -> v = (0,0,0).
Proof.
  destruct v as [[a b] c]. cbv [norm2 dotv]. intros H.
  assert (0 <= a*a) by nia. assert (0 <= b*b) by nia. assert (0 <= c*c) by nia.
  assert (a*a = 0) by lia. assert (b*b = 0) by lia. assert (c*c = 0) by lia.
  assert (a = 0) by (apply sq0; assumption). assert (b = 0) by (apply sq0; assumption). assert (c = 0) by (apply sq0; assumption). subst. reflexivity.
Qed.

(* Cauchy-Schwarz through Lagrange's identity *)
Lemma cauchy u w : dotv u w * dotv u w <= norm2 u * norm2 w.
Proof.
  destruct u as [[u1 u2] u3]. destruct w as [[w1 w2] w3]. cbv [norm2 dotv].
  assert (H: (u1*u1+u2*u2+u3*u3)*(w1*w1+w2*w2+w3*w3) - (u1*w1+u2*w2+u3*w3)*(u1*w1+u2*w2+u3*w3)
             = (u2*w3-u3*w2)*(u2*w3-u3*w2) + (u3*w1-u1*w3)*(u3*w1-u1*w3) + (u1*w2-u2*w1)*(u1*w2-u2*w1)) by ring.
  pose proof (Z.square_nonneg (u2*w3-u3*w2)). pose proof (Z.square_nonneg (u3*w1-u1*w3)). pose proof (Z.square_nonneg (u1*w2-u2*w1)).
  lia.
Qed.

(* every real-space point m (in units of 1/D of the cell) obeys  (m_i D)^2 <= |mL|^2 |c_i|^2 *)
Lemma ellipsoid m L i : (i < 3)%nat ->
  let '(c1,c2,c3) := recip L in let c := match i with 0%nat => c1 | 1%nat => c2 | _ => c3 end in
  (nthv m i * det L) * (nthv m i * det L) <= norm2 (comb m L) * norm2 c.
Proof.
  intros Hi. pose proof (comb_dot_recip m L) as H. destruct (recip L) as [[c1 c2] c3]. destruct m as [[m1 m2] m3].
  destruct H as (H1 & H2 & H3). cbn [nthv].
  destruct i as [|[|[|i]]]; try lia; [rewrite <- H1|rewrite <- H2|rewrite <- H3]; apply cauchy.
Qed.

(* ---------- ceil_sqrt_frac ---------- *)
Lemma ceil_sqrt_frac_ge num den : 0 <= num -> 0 < den ->
  let b := ceil_sqrt_frac num den in 0 <= b /\ num <= b * b * den.
Proof.
  intros Hn Hd. unfold ceil_sqrt_frac. set (q := num / den). set (b0 := Z.sqrt q).
  assert (Hq: 0 <= q) by (apply Z.div_pos; lia).
  pose proof (Z.sqrt_spec q Hq) as [S1 S2]. fold b0 in S1, S2. assert (0 <= b0) by (apply Z.sqrt_nonneg).
  destruct (num <=? b0*b0*den) eqn:E.
  - split; [assumption|]. apply Z.leb_le in E. exact E.
  - split; [lia|].
    assert (Hm: num < (q + 1) * den).
    { pose proof (Z.div_mod num den ltac:(lia)) as DM. pose proof (Z.mod_pos_bound num den Hd). fold q in DM. nia. }
    unfold Z.succ in S2. nia.
Qed.

Lemma ceil_sqrt_frac_least num den b' : 0 <= num -> 0 < den -> 0 <= b' -> num <= b'*b'*den -> ceil_sqrt_frac num den <= b'.
Proof.
  intros Hn Hd Hb H. unfold ceil_sqrt_frac. set (q := num / den). set (b0 := Z.sqrt q).
  assert (Hq: 0 <= q) by (apply Z.div_pos; lia).
  pose proof (Z.sqrt_spec q Hq) as [S1 S2]. fold b0 in S1, S2. assert (0 <= b0) by (apply Z.sqrt_nonneg).
  assert (Q1: q * den <= num).
  { pose proof (Z.div_mod num den ltac:(lia)) as DM. pose proof (Z.mod_pos_bound num den Hd). fold q in DM. nia. }
  destruct (num <=? b0*b0*den) eqn:E.
  - assert (A: q*den <= b'*b'*den) by lia.
    assert (B: q <= b'*b') by (apply Z.mul_le_mono_pos_r with den; assumption).
    apply Z.square_le_simpl_nonneg; lia.
  - apply Z.leb_gt in E. assert (A: b0*b0*den < b'*b'*den) by lia.
    assert (B: b0*b0 < b'*b') by (apply Z.mul_lt_mono_pos_r with den; assumption).
    assert (b0 < b') by (apply Z.square_lt_simpl_nonneg; lia). lia.
Qed.

(* ---------- the box contains every wrapped point within the radius ---------- *)
Lemma box_core Fi D ni b W C rn rd :
  D <> 0 -> Z.abs Fi < Z.abs D -> (Fi + D*ni)*(Fi + D*ni) * (D*D) <= (D*D*W) * C -> W * rd <= rn ->
  0 <= C -> 0 < rd -> 0 <= b -> rn * C <= b*b*(D*D*rd) -> Z.abs ni <= b.
Proof.
  intros HD HF H1 H2 HC Hrd Hb H3.
  set (X := (Fi + D*ni)*(Fi + D*ni)) in *.
  assert (D2: 0 < D*D) by nia.
  assert (E1: X <= W * C).
  { apply Z.mul_le_mono_pos_r with (D*D); [exact D2|]. replace (W*C*(D*D)) with (D*D*W*C) by ring. exact H1. }
  assert (E2: X * rd <= rn * C).
  { assert (X*rd <= W*C*rd) by (apply Z.mul_le_mono_nonneg_r; lia).
    assert (W*rd*C <= rn*C) by (apply Z.mul_le_mono_nonneg_r; lia). lia. }
  assert (E4: X <= (b*D)*(b*D)).
  { apply Z.mul_le_mono_pos_r with rd; [exact Hrd|]. replace (b*D*(b*D)*rd) with (b*b*(D*D*rd)) by ring. lia. }
  destruct (Z_le_gt_dec (Z.abs ni) b) as [|G]; [assumption|exfalso].
  assert (K: Z.abs D * (b + 1) <= Z.abs (D*ni)).
  { rewrite Z.abs_mul. apply Z.mul_le_mono_nonneg_l; lia. }
  assert (K2: Z.abs D * b < Z.abs (Fi + D*ni)) by lia.
  assert (K0: 0 <= Z.abs D * b) by (apply Z.mul_nonneg_nonneg; lia).
  assert (K3: (Z.abs D * b)*(Z.abs D * b) < Z.abs (Fi + D*ni) * Z.abs (Fi + D*ni)) by (apply Z.mul_lt_mono_nonneg; lia).
  assert (K4: Z.abs (Fi + D*ni) * Z.abs (Fi + D*ni) = X) by (unfold X; lia).
  assert (K5: (Z.abs D * b)*(Z.abs D * b) = (b*D)*(b*D)).
  { replace (Z.abs D * b * (Z.abs D * b)) with ((Z.abs D * Z.abs D) * (b*b)) by ring.
    replace (Z.abs D * Z.abs D) with (D*D) by lia. ring. }
  lia.
Qed.

(* ---------- the grid ---------- *)
Lemma zrange_In lo hi x : In x (zrange lo hi) <-> lo <= x <= hi.
Proof.
  unfold zrange. rewrite in_map_iff. split.
  - intros (k & E & I). apply in_seq in I. lia.
  - intros H. exists (Z.to_nat (x - lo)). split; [lia|]. apply in_seq. lia.
Qed.

Lemma zrange_NoDup lo hi : NoDup (zrange lo hi).
Proof.
  unfold zrange. apply FinFun.Injective_map_NoDup; [|apply seq_NoDup].
  intros a b H. lia.
Qed.

Lemma grid_In b n : In n (grid b) <->
  (let '(bx,by_,bz) := b in let '(x,y,z) := n in -bx <= x <= bx /\ -by_ <= y <= by_ /\ -bz <= z <= bz).
Proof.
  destruct b as [[bx by_] bz]. destruct n as [[x y] z]. unfold grid. rewrite in_flat_map. split.
  - intros (z' & Iz & H). rewrite in_flat_map in H. destruct H as (y' & Iy & H). rewrite in_map_iff in H.
    destruct H as (x' & E & Ix). inversion E; subst. rewrite zrange_In in *. lia.
  - intros (Hx & Hy & Hz). exists z. split; [apply zrange_In; lia|]. rewrite in_flat_map.
    exists y. split; [apply zrange_In; lia|]. rewrite in_map_iff. exists x. split; [reflexivity|apply zrange_In; lia].
Qed.

Lemma grid_mask pbc b n : In n (grid (maskv pbc b)) -> admissible pbc n.
Proof.
  intros H. apply grid_In in H. destruct pbc as [[p1 p2] p3]. destruct b as [[bx by_] bz]. destruct n as [[x y] z].
  cbn [maskv admissible] in *. destruct p1, p2, p3; repeat split; intros; try discriminate; lia.
Qed.

Lemma grid_zero b : (let '(bx,by_,bz) := b in 0 <= bx /\ 0 <= by_ /\ 0 <= bz) -> In (0,0,0) (grid b).
Proof. intros H. apply grid_In. destruct b as [[bx by_] bz]. lia. Qed.

(* ---------- argmin ---------- *)
Lemma amin_go_spec {A} (key : A -> option Z) l : forall best,
  (match best with Some (x,k) => key x = Some k | None => True end) ->
  match amin_go key l best with
  | Some (x,k) => key x = Some k /\ (In x l \/ best = Some (x,k)) /\
                  (forall y ky, In y l -> key y = Some ky -> k <= ky) /\
                  (match best with Some (_,kb) => k <= kb | None => True end)
  | None => best = None /\ forall y, In y l -> key y = None
  end.
Proof.
  induction l as [|x r IH]; intros best Hb; cbn [amin_go].
  - destruct best as [[x k]|]; [|split; [reflexivity|intros y []]].
    repeat split; auto. intros y ky []. lia.
  - set (best' := match key x with None => best | Some k => match best with None => Some (x,k) | Some (_,kb) => if k <? kb then Some (x,k) else best end end).
    assert (Hb': match best' with Some (x0,k0) => key x0 = Some k0 | None => True end).
    { unfold best'. destruct (key x) as [k|] eqn:E; [|exact Hb]. destruct best as [[xb kb]|]; [|exact E].
      destruct (k <? kb); [exact E|exact Hb]. }
    specialize (IH best' Hb'). destruct (amin_go key r best') as [[xm km]|].
    + destruct IH as (K & I & M & B). split; [exact K|]. split; [|split].
      * destruct I as [I|I]; [left; right; exact I|].
        unfold best' in I. destruct (key x) as [k|] eqn:E; [|right; exact I].
        destruct best as [[xb kb]|]; [|inversion I; subst; left; left; reflexivity].
        destruct (k <? kb); [inversion I; subst; left; left; reflexivity|right; exact I].
      * intros y ky [Iy|Iy] Ky; [|apply (M y ky Iy Ky)]. subst y.
        unfold best' in B. rewrite Ky in B. destruct best as [[xb kb]|]; [|exact B].
        destruct (ky <? kb) eqn:E2; [exact B|]. apply Z.ltb_ge in E2. lia.
      * unfold best' in B. destruct (key x) as [k|] eqn:E; [|exact B]. destruct best as [[xb kb]|]; [|trivial].
        destruct (k <? kb) eqn:E2; [apply Z.ltb_lt in E2; lia|exact B].
    + destruct IH as (N & F). unfold best' in N. destruct (key x) as [k|] eqn:E.
      * destruct best as [[xb kb]|]; [destruct (k <? kb); discriminate|discriminate].
      * split; [exact N|]. intros y [Iy|Iy]; [subst; exact E|apply F; exact Iy].
Qed.

(* ---------- fractional coordinates, reduction ---------- *)
Lemma fracnum_comb L s : fracnum L (comb s L) = smul (det L) s.
Proof.
  destruct L as [[[[a1 a2] a3] [[b1 b2] b3]] [[c1 c2] c3]]. destruct s as [[s1 s2] s3].
  cbv [fracnum recip det dotv crossv comb vadd smul]. veq.
Qed.
Lemma fracnum_sub L u w : fracnum L (vsub u w) = vsub (fracnum L u) (fracnum L w).
Proof.
  destruct L as [[[[a1 a2] a3] [[b1 b2] b3]] [[c1 c2] c3]]. destruct u as [[u1 u2] u3]. destruct w as [[w1 w2] w3].
  cbv [fracnum recip dotv crossv vsub]. veq.
Qed.

Lemma round_div_spec a d : d <> 0 -> 2 * Z.abs (a - d * round_div a d) <= Z.abs d.
Proof.
  intros Hd. unfold round_div.
  set (a' := if d <? 0 then - a else a). set (d' := Z.abs d).
  assert (Hd': 0 < d') by (unfold d'; lia).
  pose proof (Z.div_mod a' d' ltac:(lia)) as DM. pose proof (Z.mod_pos_bound a' d' Hd') as MB.
  set (q := a' / d') in *. set (r := a' mod d') in *.
  assert (K: forall t, Z.abs (a - d * t) = Z.abs (a' - d' * t)).
  { intro t. unfold a', d'. destruct (d <? 0) eqn:E; [apply Z.ltb_lt in E|apply Z.ltb_ge in E]; lia. }
  destruct (2*r <? d') eqn:E1; [apply Z.ltb_lt in E1|apply Z.ltb_ge in E1].
  - rewrite K. fold d'. lia.
  - destruct (d' <? 2*r) eqn:E2; [apply Z.ltb_lt in E2|apply Z.ltb_ge in E2].
    + rewrite K. fold d'. lia.
    + destruct (Z.even q); rewrite K; fold d'; lia.
Qed.

Definition wrapped (L : latt) (pbc : mask) (v : vec) : Prop :=
  forall i, (i < 3)%nat -> nthm pbc i = true -> Z.abs (nthv (fracnum L v) i) < Z.abs (det L).

Lemma shift_admissible L pbc v : admissible pbc (shift_of L pbc v).
Proof.
  unfold shift_of. destruct (fracnum L v) as [[f1 f2] f3]. destruct pbc as [[p1 p2] p3]. cbn [maskv admissible].
  destruct p1, p2, p3; repeat split; intros; try discriminate; reflexivity.
Qed.

Lemma reduce_wrapped L pbc v : det L <> 0 -> wrapped L pbc (fst (reduce L pbc v)).
Proof.
  intros HD i Hi Hp. unfold reduce. cbn [fst]. rewrite fracnum_sub, fracnum_comb.
  unfold shift_of. destruct (fracnum L v) as [[f1 f2] f3]. destruct pbc as [[p1 p2] p3].
  cbn [maskv nthm] in *.
  destruct i as [|[|[|i]]]; try lia; cbn [nthm] in Hp; subst; cbn [vsub smul nthv].
  - pose proof (round_div_spec f1 (det L) HD). lia.
  - pose proof (round_div_spec f2 (det L) HD). lia.
  - pose proof (round_div_spec f3 (det L) HD). lia.
Qed.

Lemma admissible_sub pbc a b : admissible pbc a -> admissible pbc b -> admissible pbc (vsub a b).
Proof.
  destruct pbc as [[p1 p2] p3]. destruct a as [[a1 a2] a3]. destruct b as [[b1 b2] b3]. cbn [admissible vsub].
  intros (A1&A2&A3) (B1&B2&B3). repeat split; intros H; [rewrite (A1 H), (B1 H)|rewrite (A2 H), (B2 H)|rewrite (A3 H), (B3 H)]; reflexivity.
Qed.
Lemma admissible_add pbc a b : admissible pbc a -> admissible pbc b -> admissible pbc (vadd a b).
Proof.
  destruct pbc as [[p1 p2] p3]. destruct a as [[a1 a2] a3]. destruct b as [[b1 b2] b3]. cbn [admissible vadd].
  intros (A1&A2&A3) (B1&B2&B3). repeat split; intros H; [rewrite (A1 H), (B1 H)|rewrite (A2 H), (B2 H)|rewrite (A3 H), (B3 H)]; reflexivity.
Qed.

(* ---------- box completeness: every admissible image of a wrapped vector within the radius is in the grid ---------- *)
Lemma bound_axis_spec L rn rd i : det L <> 0 -> 0 <= rn -> 0 < rd -> (i < 3)%nat ->
  let '(c1,c2,c3) := recip L in let c := match i with 0%nat => c1 | 1%nat => c2 | _ => c3 end in
  0 <= bound_axis L rn rd i /\ rn * norm2 c <= bound_axis L rn rd i * bound_axis L rn rd i * (det L * det L * rd).
Proof.
  intros HD Hn Hd Hi. unfold bound_axis. destruct (recip L) as [[c1 c2] c3].
  apply ceil_sqrt_frac_ge.
  - apply Z.mul_nonneg_nonneg; [lia|apply norm2_nonneg].
  - assert (0 < det L * det L) by nia. nia.
Qed.

Lemma vadd_smul k u w : vadd (smul k u) (smul k w) = smul k (vadd u w).
Proof. destruct u as [[u1 u2] u3]. destruct w as [[w1 w2] w3]. cbv [vadd smul]. veq. Qed.

Lemma axis_in_box L v n rn rd i : det L <> 0 -> 0 <= rn -> 0 < rd -> (i < 3)%nat ->
  Z.abs (nthv (fracnum L v) i) < Z.abs (det L) ->
  norm2 (vadd v (comb n L)) * rd <= rn ->
  Z.abs (nthv n i) <= bound_axis L rn rd i.
Proof.
  intros HD Hn Hd Hi HW HR.
  pose proof (bound_axis_spec L rn rd i HD Hn Hd Hi) as B.
  pose proof (ellipsoid (vadd (fracnum L v) (smul (det L) n)) L i Hi) as E.
  rewrite comb_add, comb_fracnum, comb_smul, vadd_smul, norm2_smul in E.
  destruct (recip L) as [[c1 c2] c3].
  set (c := match i with 0%nat => c1 | 1%nat => c2 | _ => c3 end) in *.
  destruct B as [B0 B1].
  apply (box_core (nthv (fracnum L v) i) (det L) (nthv n i) (bound_axis L rn rd i) (norm2 (vadd v (comb n L))) (norm2 c) rn rd);
    try assumption; try apply norm2_nonneg.
  replace (nthv (vadd (fracnum L v) (smul (det L) n)) i) with (nthv (fracnum L v) i + det L * nthv n i) in E.
  - eapply Z.le_trans; [|eapply Z.le_trans; [exact E|]]; apply Z.eq_le_incl; ring.
  - destruct (fracnum L v) as [[f1 f2] f3]. destruct n as [[n1 n2] n3]. destruct i as [|[|i]]; reflexivity.
Qed.

Lemma box_complete_wrapped_l L pbc v n rn rd : det L <> 0 -> 0 <= rn -> 0 < rd ->
  wrapped L pbc v -> admissible pbc n -> norm2 (vadd v (comb n L)) * rd <= rn ->
  In n (grid (bounds L pbc rn rd)).
Proof.
  intros HD Hn Hd HW HA HR. apply grid_In. unfold bounds.
  pose proof (fun i Hi Hp => axis_in_box L v n rn rd i HD Hn Hd Hi (HW i Hi Hp) HR) as AX.
  destruct pbc as [[p1 p2] p3]. destruct n as [[n1 n2] n3]. cbn [maskv admissible nthm nthv] in *.
  destruct HA as (A1 & A2 & A3).
  assert (X: -(if p1 then bound_axis L rn rd 0 else 0) <= n1 <= (if p1 then bound_axis L rn rd 0 else 0)).
  { destruct p1; [specialize (AX 0%nat ltac:(lia) eq_refl); cbn [nthv] in AX; lia|rewrite (A1 eq_refl); lia]. }
  assert (Y: -(if p2 then bound_axis L rn rd 1 else 0) <= n2 <= (if p2 then bound_axis L rn rd 1 else 0)).
  { destruct p2; [specialize (AX 1%nat ltac:(lia) eq_refl); cbn [nthv] in AX; lia|rewrite (A2 eq_refl); lia]. }
  assert (Zz: -(if p3 then bound_axis L rn rd 2 else 0) <= n3 <= (if p3 then bound_axis L rn rd 2 else 0)).
  { destruct p3; [specialize (AX 2%nat ltac:(lia) eq_refl); cbn [nthv] in AX; lia|rewrite (A3 eq_refl); lia]. }
  tauto.
Qed.

(* plain lattice points (v = 0): the statement of minimum_supcell *)
Lemma box_complete_l L pbc n rn rd : det L <> 0 -> 0 <= rn -> 0 < rd ->
  admissible pbc n -> norm2 (comb n L) * rd <= rn -> In n (grid (bounds L pbc rn rd)).
Proof.
  intros HD Hn Hd HA HR. apply (box_complete_wrapped_l L pbc (0,0,0) n rn rd); try assumption.
  - intros i Hi Hp. replace (fracnum L (0,0,0)) with (0,0,0).
    + destruct i as [|[|i]]; cbn [nthv]; lia.
    + destruct L as [[[[a1 a2] a3] [[b1 b2] b3]] [[c1 c2] c3]]. cbv [fracnum recip dotv crossv]. veq.
  - replace (vadd (0,0,0) (comb n L)) with (comb n L); [exact HR|].
    destruct (comb n L) as [[x y] z]. reflexivity.
Qed.

(* ---------- minimum image of one reduced vector ---------- *)
Lemma vadd_zero_comb v L : vadd v (comb (0,0,0) L) = v.
Proof. destruct L as [[[[a1 a2] a3] [[b1 b2] b3]] [[c1 c2] c3]]. destruct v as [[v1 v2] v3]. cbv [comb vadd smul]. veq. Qed.

Lemma bounds_nonneg L pbc rn rd : det L <> 0 -> 0 <= rn -> 0 < rd ->
  let '(bx,by_,bz) := bounds L pbc rn rd in 0 <= bx /\ 0 <= by_ /\ 0 <= bz.
Proof.
  intros HD Hn Hd. unfold bounds.
  pose proof (bound_axis_spec L rn rd 0 HD Hn Hd ltac:(lia)) as B0.
  pose proof (bound_axis_spec L rn rd 1 HD Hn Hd ltac:(lia)) as B1.
  pose proof (bound_axis_spec L rn rd 2 HD Hn Hd ltac:(lia)) as B2.
  destruct (recip L) as [[c1 c2] c3]. cbv zeta in B0, B1, B2. destruct pbc as [[p1 p2] p3]. cbn [maskv].
  destruct p1, p2, p3; lia.
Qed.

Lemma min_image1_exact L pbc v rho : det L <> 0 -> wrapped L pbc v -> norm2 v <= rho ->
  let '(w,n) := min_image1 L false (bounds L pbc rho 1) v in IsMinImage L pbc v w n.
Proof.
  intros HD HW Hr. unfold min_image1, amin.
  assert (R0: 0 <= rho) by (pose proof (norm2_nonneg v); lia).
  set (G := grid (bounds L pbc rho 1)).
  assert (Z0: In (0,0,0) G).
  { apply grid_zero. apply bounds_nonneg; lia. }
  pose proof (amin_go_spec (key_of L false v) G None I) as S.
  destruct (amin_go (key_of L false v) G None) as [[n k]|].
  - destruct S as (K & IN & M & _). destruct IN as [IN|IN]; [|discriminate].
    unfold key_of in K. cbn [andb] in K. inversion K as [K']. clear K.
    split; [split; [reflexivity|apply (grid_mask pbc _ n IN)]|].
    intros n' A'.
    assert (M0: norm2 (vadd v (comb n L)) <= norm2 v).
    { specialize (M (0,0,0) (norm2 v) Z0). unfold key_of in M. cbn [andb] in M. rewrite vadd_zero_comb in M. rewrite K'. apply M. reflexivity. }
    destruct (Z_le_gt_dec (norm2 (vadd v (comb n' L)) * 1) rho) as [Le|Gt].
    + pose proof (box_complete_wrapped_l L pbc v n' rho 1 HD R0 ltac:(lia) HW A' Le) as IN'.
      rewrite K'. apply (M n' _ IN'). unfold key_of. cbn [andb]. reflexivity.
    + lia.
  - destruct S as [_ F]. specialize (F (0,0,0) Z0). unfold key_of in F. cbn [andb] in F. discriminate.
Qed.

(* with self-exclusion: the shortest NON-ZERO image *)
Definition IsMinNonzeroImage (L : latt) (pbc : mask) (v w n : vec) : Prop :=
  IsImage L pbc v w n /\ 0 < norm2 w /\
  forall n', admissible pbc n' -> 0 < norm2 (vadd v (comb n' L)) -> norm2 w <= norm2 (vadd v (comb n' L)).

Lemma min_image1_excl L pbc v rho n0 : det L <> 0 -> wrapped L pbc v ->
  admissible pbc n0 -> 0 < norm2 (vadd v (comb n0 L)) -> norm2 (vadd v (comb n0 L)) <= rho ->   (* some non-zero image within the radius *)
  let '(w,n) := min_image1 L true (bounds L pbc rho 1) v in IsMinNonzeroImage L pbc v w n.
Proof.
  intros HD HW A0 P0 Hr. unfold min_image1, amin.
  assert (R0: 0 <= rho) by lia.
  set (G := grid (bounds L pbc rho 1)).
  assert (IN0: In n0 G) by (apply (box_complete_wrapped_l L pbc v n0 rho 1); try assumption; lia).
  assert (K0: key_of L true v n0 = Some (norm2 (vadd v (comb n0 L)))).
  { unfold key_of. cbn [andb]. destruct (norm2 (vadd v (comb n0 L)) =? 0) eqn:E; [apply Z.eqb_eq in E; lia|reflexivity]. }
  pose proof (amin_go_spec (key_of L true v) G None I) as S.
  destruct (amin_go (key_of L true v) G None) as [[n k]|].
  - destruct S as (K & IN & M & _). destruct IN as [IN|IN]; [|discriminate].
    unfold key_of in K. cbn [andb] in K.
    destruct (norm2 (vadd v (comb n L)) =? 0) eqn:E; [discriminate|]. apply Z.eqb_neq in E. inversion K as [K']. clear K.
    pose proof (norm2_nonneg (vadd v (comb n L))).
    split; [split; [reflexivity|apply (grid_mask pbc _ n IN)]|]. split; [lia|].
    intros n' A' P'.
    assert (M0: norm2 (vadd v (comb n L)) <= rho).
    { rewrite K'. specialize (M n0 _ IN0 K0). lia. }
    destruct (Z_le_gt_dec (norm2 (vadd v (comb n' L)) * 1) rho) as [Le|Gt].
    + pose proof (box_complete_wrapped_l L pbc v n' rho 1 HD R0 ltac:(lia) HW A' Le) as IN'.
      rewrite K'. apply (M n' _ IN'). unfold key_of. cbn [andb].
      destruct (norm2 (vadd v (comb n' L)) =? 0) eqn:E'; [apply Z.eqb_eq in E'; lia|reflexivity].
    + lia.
  - destruct S as [_ F]. specialize (F n0 IN0). rewrite K0 in F. discriminate.
Qed.

(* ---------- from the reduced vector back to the original one ---------- *)
Lemma vadd_vsub_comb v s n L : vadd (vsub v (comb s L)) (comb n L) = vadd v (comb (vsub n s) L).
Proof.
  rewrite comb_sub. destruct v as [[v1 v2] v3]. destruct (comb s L) as [[s1 s2] s3]. destruct (comb n L) as [[n1 n2] n3].
  cbv [vadd vsub]. veq.
Qed.
Lemma vsub_vadd_id n s : vsub (vadd n s) s = n.
Proof. destruct n as [[n1 n2] n3]. destruct s as [[s1 s2] s3]. cbv [vadd vsub]. veq. Qed.

Lemma minimage_shift L pbc v s w n : admissible pbc s ->
  IsMinImage L pbc (vsub v (comb s L)) w n -> IsMinImage L pbc v w (vsub n s).
Proof.
  intros As [[E A] M]. split; [split|].
  - rewrite E. apply vadd_vsub_comb.
  - apply admissible_sub; assumption.
  - intros n' A'. specialize (M (vadd n' s) (admissible_add pbc n' s A' As)).
    rewrite vadd_vsub_comb, vsub_vadd_id in M. exact M.
Qed.
Lemma minnz_shift L pbc v s w n : admissible pbc s ->
  IsMinNonzeroImage L pbc (vsub v (comb s L)) w n -> IsMinNonzeroImage L pbc v w (vsub n s).
Proof.
  intros As [[E A] [P M]]. split; [split|split].
  - rewrite E. apply vadd_vsub_comb.
  - apply admissible_sub; assumption.
  - exact P.
  - intros n' A' P'. specialize (M (vadd n' s) (admissible_add pbc n' s A' As)).
    rewrite vadd_vsub_comb, vsub_vadd_id in M. apply M. exact P'.
Qed.

Lemma zmax_ge a b : a <= zmax a b /\ b <= zmax a b.
Proof. unfold zmax. destruct (a <? b) eqn:E; [apply Z.ltb_lt in E|apply Z.ltb_ge in E]; lia. Qed.
Lemma fold_zmax_ge vs : forall m, m <= fold_left (fun m v => zmax m (norm2 v)) vs m /\
  forall v, In v vs -> norm2 v <= fold_left (fun m v => zmax m (norm2 v)) vs m.
Proof.
  induction vs as [|x r IH]; intros m; cbn [fold_left]; [split; [lia|intros v []]|].
  destruct (IH (zmax m (norm2 x))) as [A B]. pose proof (zmax_ge m (norm2 x)) as [C D].
  split; [lia|]. intros v [E|I]; [subst; lia|apply B; exact I].
Qed.
Lemma maxnorm2_ge vs v : In v vs -> norm2 v <= maxnorm2 vs.
Proof. intros H. unfold maxnorm2. apply (proj2 (fold_zmax_ge vs 0)). exact H. Qed.

Lemma rho_min_ge L pbc excl red x : In x red -> norm2 (fst x) <= rho_min L pbc excl red.
Proof.
  intros H. unfold rho_min. assert (A: norm2 (fst x) <= maxnorm2 (map fst red)) by (apply maxnorm2_ge, in_map, H).
  destruct excl; [|exact A]. destruct (min_row2 L pbc) as [m|]; [|exact A].
  pose proof (zmax_ge (maxnorm2 (map fst red)) m). lia.
Qed.

Lemma minimum_periodic_exact_l L pbc vs k v w c : det L <> 0 ->
  nth_error vs k = Some v -> nth_error (minimum_periodic_m L pbc false vs) k = Some (w, c) ->
  IsMinImage L pbc v w c.
Proof.
  intros HD Hv Hr. unfold minimum_periodic_m in Hr.
  rewrite nth_error_map in Hr. rewrite nth_error_map in Hr. rewrite Hv in Hr. cbn [option_map] in Hr.
  set (red := map (reduce L pbc) vs) in *.
  assert (IN: In (reduce L pbc v) red) by (unfold red; apply in_map; eapply nth_error_In; exact Hv).
  pose proof (rho_min_ge L pbc false red _ IN) as RG.
  pose proof (reduce_wrapped L pbc v HD) as W.
  unfold reduce in *. cbn [fst] in *.
  pose proof (min_image1_exact L pbc (vsub v (comb (shift_of L pbc v) L)) (rho_min L pbc false red) HD W RG) as X.
  destruct (min_image1 L false (bounds L pbc (rho_min L pbc false red) 1) (vsub v (comb (shift_of L pbc v) L))) as [w' n'].
  inversion Hr; subst. apply minimage_shift; [apply shift_admissible|exact X].
Qed.

(* ---------- exclude_self ---------- *)
Definition unit_axis (i : nat) : vec := match i with 0%nat => (1,0,0) | 1%nat => (0,1,0) | _ => (0,0,1) end.
Definition rowL (L : latt) (i : nat) : vec := let '(r1,r2,r3) := L in match i with 0%nat => r1 | 1%nat => r2 | _ => r3 end.
Lemma comb_unit L i : comb (unit_axis i) L = rowL L i.
Proof.
  destruct L as [[[[a1 a2] a3] [[b1 b2] b3]] [[c1 c2] c3]]. destruct i as [|[|i]]; cbv [unit_axis rowL comb vadd smul]; veq.
Qed.
Lemma row_nonzero L i : det L <> 0 -> 0 < norm2 (rowL L i).
Proof.
  intros HD. pose proof (norm2_nonneg (rowL L i)) as N.
  destruct (Z.eq_dec (norm2 (rowL L i)) 0) as [E|]; [|lia]. exfalso. apply HD. apply norm2_zero in E.
  destruct L as [[[[a1 a2] a3] [[b1 b2] b3]] [[c1 c2] c3]]. destruct i as [|[|i]]; cbn [rowL] in E; inversion E; subst;
  cbv [det dotv crossv]; ring.
Qed.
Lemma zmin_le a b : zmin a b <= a /\ zmin a b <= b /\ (zmin a b = a \/ zmin a b = b).
Proof. unfold zmin. destruct (a <? b) eqn:E; [apply Z.ltb_lt in E|apply Z.ltb_ge in E]; lia. Qed.
Lemma min_row2_spec L pbc m : min_row2 L pbc = Some m ->
  exists i, (i < 3)%nat /\ nthm pbc i = true /\ m = norm2 (rowL L i).
Proof.
  destruct L as [[r1 r2] r3]. destruct pbc as [[p1 p2] p3]. unfold min_row2.
  destruct p1, p2, p3; cbn [app fold_left]; intros H; inversion H; clear H; unfold zmin;
  repeat match goal with |- context [?a <? ?b] => destruct (a <? b) end; cbn [nthm rowL];
  first [ exists 0%nat; split; [lia|split; reflexivity]
        | exists 1%nat; split; [lia|split; reflexivity]
        | exists 2%nat; split; [lia|split; reflexivity] ].
Qed.
Lemma unit_admissible pbc i : (i < 3)%nat -> nthm pbc i = true -> admissible pbc (unit_axis i).
Proof.
  destruct pbc as [[p1 p2] p3]. destruct i as [|[|[|i]]]; try lia; cbn [nthm unit_axis admissible]; intros _ H; subst;
  repeat split; intros; try discriminate; reflexivity.
Qed.

Lemma minimum_periodic_excl_l L pbc vs k v w c : det L <> 0 ->
  (exists i, (i < 3)%nat /\ nthm pbc i = true) ->
  nth_error vs k = Some v -> nth_error (minimum_periodic_m L pbc true vs) k = Some (w, c) ->
  IsMinNonzeroImage L pbc v w c.
Proof.
  intros HD (i0 & Hi0 & Hp0) Hv Hr. unfold minimum_periodic_m in Hr.
  rewrite nth_error_map in Hr. rewrite nth_error_map in Hr. rewrite Hv in Hr. cbn [option_map] in Hr.
  set (red := map (reduce L pbc) vs) in *.
  assert (IN: In (reduce L pbc v) red) by (unfold red; apply in_map; eapply nth_error_In; exact Hv).
  pose proof (rho_min_ge L pbc true red _ IN) as RG.
  pose proof (reduce_wrapped L pbc v HD) as W.
  assert (MR: exists m, min_row2 L pbc = Some m).
  { destruct L as [[r1 r2] r3]. destruct pbc as [[p1 p2] p3]. unfold min_row2.
    destruct p1, p2, p3; cbn [app]; try (eexists; reflexivity).
    destruct i0 as [|[|[|i0]]]; cbn [nthm] in Hp0; try discriminate; lia. }
  destruct MR as [m Hm]. destruct (min_row2_spec L pbc m Hm) as (i & Hi & Hp & Em).
  assert (RM: m <= rho_min L pbc true red).
  { unfold rho_min. rewrite Hm. apply zmax_ge. }
  unfold reduce in *. cbn [fst] in *.
  set (v' := vsub v (comb (shift_of L pbc v) L)) in *.
  assert (C: exists n0, admissible pbc n0 /\ 0 < norm2 (vadd v' (comb n0 L)) /\ norm2 (vadd v' (comb n0 L)) <= rho_min L pbc true red).
  { destruct (Z.eq_dec (norm2 v') 0) as [E0|N0].
    - exists (unit_axis i). split; [apply unit_admissible; assumption|].
      apply norm2_zero in E0. rewrite E0, comb_unit.
      replace (vadd (0,0,0) (rowL L i)) with (rowL L i) by (destruct (rowL L i) as [[x y] z]; reflexivity).
      split; [apply row_nonzero; exact HD|lia].
    - exists (0,0,0). rewrite vadd_zero_comb. pose proof (norm2_nonneg v').
      split; [destruct pbc as [[p1 p2] p3]; cbn; tauto|]. split; lia. }
  destruct C as (n0 & A0 & P0 & R0).
  pose proof (min_image1_excl L pbc v' (rho_min L pbc true red) n0 HD W A0 P0 R0) as X.
  destruct (min_image1 L true (bounds L pbc (rho_min L pbc true red) 1) v') as [w' n'].
  inversion Hr; subst. apply minnz_shift; [apply shift_admissible|exact X].
Qed.

(* ---------- all_periodic ---------- *)
Lemma enumerate_In {A} (l : list A) : forall k0 k x, In (k, x) (enumerate_from k0 l) <-> (k0 <= k /\ nth_error l (Z.to_nat (k - k0)) = Some x).
Proof.
  induction l as [|y r IH]; intros k0 k x; cbn [enumerate_from].
  - split; [intros []|intros [_ H]; destruct (Z.to_nat (k - k0)); discriminate].
  - split.
    + intros [E|I]; [inversion E; subst; split; [lia|]; replace (Z.to_nat (k - k)) with 0%nat by lia; reflexivity|].
      apply IH in I. destruct I as [Hk Hn]. split; [lia|].
      replace (Z.to_nat (k - k0)) with (S (Z.to_nat (k - (k0 + 1)))) by lia. exact Hn.
    + intros [Hk Hn]. destruct (Z.eq_dec k k0) as [E|N].
      * subst. replace (Z.to_nat (k0 - k0)) with 0%nat in Hn by lia. cbn in Hn. inversion Hn. left. reflexivity.
      * right. apply IH. split; [lia|].
        replace (Z.to_nat (k - k0)) with (S (Z.to_nat (k - (k0 + 1)))) in Hn by lia. exact Hn.
Qed.

Lemma all_periodic_spec_l L pbc rn rd vs w k c : det L <> 0 -> 0 <= rn -> 0 < rd ->
  In (w, k, c) (all_periodic_m L pbc rn rd vs) <->
  (0 <= k /\ exists v, nth_error vs (Z.to_nat k) = Some v /\ IsImage L pbc v w c /\ norm2 w * rd <= rn).
Proof.
  intros HD Hn Hd. unfold all_periodic_m. rewrite in_flat_map. split.
  - intros ([k' v] & IE & H). apply enumerate_In in IE. destruct IE as [K0 NE]. replace (k' - 0) with k' in NE by lia.
    unfold reduce in H. rewrite in_flat_map in H. destruct H as (n & IG & H).
    destruct (norm2 (vadd (vsub v (comb (shift_of L pbc v) L)) (comb n L)) * rd <=? rn) eqn:E; [|destruct H].
    destruct H as [H|[]]. inversion H; subst. apply Z.leb_le in E.
    split; [exact K0|]. exists v. split; [exact NE|]. split; [|exact E].
    split; [apply vadd_vsub_comb|]. apply admissible_sub; [apply (grid_mask pbc _ n IG)|apply shift_admissible].
  - intros (K0 & v & NE & [E A] & R). exists (k, v). split; [apply enumerate_In; split; [lia|]; replace (k - 0) with k by lia; exact NE|].
    unfold reduce. rewrite in_flat_map. set (s := shift_of L pbc v).
    exists (vadd c s). assert (As: admissible pbc s) by apply shift_admissible.
    assert (EQ: vadd (vsub v (comb s L)) (comb (vadd c s) L) = w).
    { rewrite vadd_vsub_comb, vsub_vadd_id. symmetry. exact E. }
    split.
    + apply (box_complete_wrapped_l L pbc (vsub v (comb s L)) (vadd c s) rn rd HD Hn Hd).
      * apply (reduce_wrapped L pbc v HD).
      * apply admissible_add; assumption.
      * rewrite EQ. exact R.
    + rewrite EQ. destruct (norm2 w * rd <=? rn) eqn:E2; [|apply Z.leb_gt in E2; lia].
      left. rewrite vsub_vadd_id. reflexivity.
Qed.

(* ---------- minimum_supcell for an arbitrary positive-definite metric (e.g. the reciprocal one) ---------- *)
Definition PD (G : metric) : Prop := let '(a,b,c,d,e,f) := G in
  0 < a /\ 0 < d /\ 0 < f /\ 0 < a*d - b*b /\ 0 < a*f - c*c /\ 0 < d*f - e*e /\ 0 < mdet G.

Lemma metric_axis_ineq G n i : PD G -> (i < 3)%nat -> nthv n i * nthv n i * mdet G <= mcof G i * qform G n.
Proof.
  destruct G as [[[[[a b] c] d] e] f]. destruct n as [[n1 n2] n3]. unfold PD. intros (Ha & Hd & Hf & Hab & Hac & Hde & HD) Hi.
  destruct i as [|[|[|i]]]; try lia; cbn [nthv mcof]; cbv [qform mdet].
  - pose (cof := d*f - e*e). pose (w1 := cof*n3 + n1*(d*c - e*b)). pose (w2 := cof*n2 + n1*(-e*c + f*b)).
    pose (Q := a*n1*n1 + d*n2*n2 + f*n3*n3 + 2*b*n1*n2 + 2*c*n1*n3 + 2*e*n2*n3).
    pose (DG := a*(d*f - e*e) - b*(b*f - e*c) + c*(b*e - d*c)).
    change (n1*n1*DG <= cof*Q). change (0 < cof) in Hde.
    assert (I: f*cof*(cof*Q - n1*n1*DG) = (f*w1 + e*w2)*(f*w1 + e*w2) + cof*(w2*w2)) by (unfold w1, w2, Q, DG, cof; ring).
    pose proof (Z.square_nonneg (f*w1 + e*w2)) as S1. pose proof (Z.square_nonneg w2) as S2.
    assert (S3: 0 <= cof*(w2*w2)) by (apply Z.mul_nonneg_nonneg; lia).
    assert (P: 0 <= f*cof*(cof*Q - n1*n1*DG)) by (rewrite I; lia).
    assert (LC: 0 < f*cof) by (apply Z.mul_pos_pos; lia).
    pose proof (proj1 (Z.mul_nonneg_cancel_l (f*cof) _ LC) P) as P2. clear - P2. clearbody cof Q DG. lia.
  - pose (cof := a*f - c*c). pose (w1 := cof*n1 + n2*(f*b - c*e)). pose (w2 := cof*n3 + n2*(-c*b + a*e)).
    pose (Q := a*n1*n1 + d*n2*n2 + f*n3*n3 + 2*b*n1*n2 + 2*c*n1*n3 + 2*e*n2*n3).
    pose (DG := a*(d*f - e*e) - b*(b*f - e*c) + c*(b*e - d*c)).
    change (n2*n2*DG <= cof*Q). change (0 < cof) in Hac.
    assert (I: a*cof*(cof*Q - n2*n2*DG) = (a*w1 + c*w2)*(a*w1 + c*w2) + cof*(w2*w2)) by (unfold w1, w2, Q, DG, cof; ring).
    pose proof (Z.square_nonneg (a*w1 + c*w2)) as S1. pose proof (Z.square_nonneg w2) as S2.
    assert (S3: 0 <= cof*(w2*w2)) by (apply Z.mul_nonneg_nonneg; lia).
    assert (P: 0 <= a*cof*(cof*Q - n2*n2*DG)) by (rewrite I; lia).
    assert (LC: 0 < a*cof) by (apply Z.mul_pos_pos; lia).
    pose proof (proj1 (Z.mul_nonneg_cancel_l (a*cof) _ LC) P) as P2. clear - P2. clearbody cof Q DG. lia.
  - pose (cof := a*d - b*b). pose (w1 := cof*n1 + n3*(d*c - b*e)). pose (w2 := cof*n2 + n3*(-b*c + a*e)).
    pose (Q := a*n1*n1 + d*n2*n2 + f*n3*n3 + 2*b*n1*n2 + 2*c*n1*n3 + 2*e*n2*n3).
    pose (DG := a*(d*f - e*e) - b*(b*f - e*c) + c*(b*e - d*c)).
    change (n3*n3*DG <= cof*Q). change (0 < cof) in Hab.
    assert (I: a*cof*(cof*Q - n3*n3*DG) = (a*w1 + b*w2)*(a*w1 + b*w2) + cof*(w2*w2)) by (unfold w1, w2, Q, DG, cof; ring).
    pose proof (Z.square_nonneg (a*w1 + b*w2)) as S1. pose proof (Z.square_nonneg w2) as S2.
    assert (S3: 0 <= cof*(w2*w2)) by (apply Z.mul_nonneg_nonneg; lia).
    assert (P: 0 <= a*cof*(cof*Q - n3*n3*DG)) by (rewrite I; lia).
    assert (LC: 0 < a*cof) by (apply Z.mul_pos_pos; lia).
    pose proof (proj1 (Z.mul_nonneg_cancel_l (a*cof) _ LC) P) as P2. clear - P2. clearbody cof Q DG. lia.
Qed.

Lemma box_complete_metric_l G n rn rd i : PD G -> 0 <= rn -> 0 < rd -> (i < 3)%nat ->
  qform G n * rd <= rn -> Z.abs (nthv n i) <= bound_metric G rn rd i.
Proof.
  intros HP Hn Hd Hi HQ. pose proof (metric_axis_ineq G n i HP Hi) as M.
  assert (HD: 0 < mdet G) by (destruct G as [[[[[a b] c] d] e] f]; unfold PD in HP; tauto).
  assert (HC: 0 <= mcof G i).
  { destruct G as [[[[[a b] c] d] e] f]. unfold PD in HP. destruct i as [|[|i]]; cbn [mcof]; lia. }
  unfold bound_metric.
  pose proof (ceil_sqrt_frac_ge (rn * mcof G i) (mdet G * rd) ltac:(nia) ltac:(nia)) as [B0 B1].
  set (b := ceil_sqrt_frac (rn * mcof G i) (mdet G * rd)) in *. set (x := nthv n i) in *.
  (* x^2 detG rd <= cof Q rd <= cof rn <= b^2 detG rd *)
  assert (E1: x*x*mdet G*rd <= mcof G i * (qform G n * rd)) by nia.
  assert (E2: mcof G i * (qform G n * rd) <= mcof G i * rn) by (apply Z.mul_le_mono_nonneg_l; lia).
  assert (E3: x*x*(mdet G*rd) <= b*b*(mdet G*rd)) by lia.
  assert (E4: x*x <= b*b) by (apply Z.mul_le_mono_pos_r with (mdet G * rd); [nia|exact E3]).
  assert (Z.abs x * Z.abs x <= b*b) by lia.
  apply Z.square_le_simpl_nonneg; lia.
Qed.
