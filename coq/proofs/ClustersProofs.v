(* C19: index groups agree with the label list; the threshold-graph components are a partition, are closed under "closer than t" and are connected. *)
From Coq Require Import ZArith List Bool Lia Permutation.
Import ListNotations.
Require Import Sop.model.Lattice Sop.model.Bonds Sop.model.Clusters Sop.proofs.BondsProofs.
Local Open Scope Z_scope.

Lemma combine_seq_In (l : list Z) : forall s x v, In (x, v) (combine (map (fun k => 0 + Z.of_nat k) (seq s (length l))) l) <->
  exists k, (k < length l)%nat /\ x = Z.of_nat (s + k) /\ nth k l 0 = v.
Proof.
  induction l as [|y l IH]; intros s x v; cbn [length seq map combine].
  - split; [intros []|intros (k & H & _); lia].
  - split.
    + intros [E|I].
      * injection E as E1 E2. exists 0%nat. split; [lia|]. split; [rewrite Nat.add_0_r; lia|exact E2].
      * apply IH in I. destruct I as (k & Hk & Hx & Hv). exists (S k). split; [lia|]. split; [rewrite Hx; f_equal; lia|exact Hv].
    + intros (k & Hk & Hx & Hv). destruct k as [|k].
      * left. cbn [nth] in Hv. rewrite Nat.add_0_r in Hx. subst. f_equal.
      * right. apply IH. exists k. split; [lia|]. split; [rewrite Hx; f_equal; lia|exact Hv].
Qed.
Lemma where_eq_spec labels k x : In x (where_eq labels k) <-> 0 <= x < Z.of_nat (length labels) /\ nthZ labels x 0 = k.
Proof.
  unfold where_eq, zseq, nthZ. rewrite Nat2Z.id, in_map_iff. split.
  - intros ([x0 v] & E & I). cbn [fst] in E. subst x0. apply filter_In in I. destruct I as [I F]. cbn [snd] in F. apply Z.eqb_eq in F.
    apply (combine_seq_In labels 0%nat) in I. destruct I as (j & Hj & Hx & Hv). cbn [Nat.add] in Hx. subst x. rewrite Nat2Z.id. split; [lia|congruence].
  - intros [Hx Hv]. exists (x, k). split; [reflexivity|]. apply filter_In. split; [|cbn [snd]; apply Z.eqb_refl].
    apply (combine_seq_In labels 0%nat). exists (Z.to_nat x). split; [lia|]. split; [cbn [Nat.add]; lia|exact Hv].
Qed.
Lemma NoDup_map_fst_filter {A} (f : Z * A -> bool) (l : list (Z * A)) : NoDup (map fst l) -> NoDup (map fst (filter f l)).
Proof.
  induction l as [|p l IH]; cbn [map filter]; intros ND; [constructor|]. inversion ND as [|? ? NI ND']; subst. destruct (f p); [|apply IH; exact ND'].
  cbn [map]. constructor; [|apply IH; exact ND']. intros I. apply NI. apply in_map_iff in I. destruct I as (q & E & I). apply filter_In in I. apply in_map_iff. exists q. tauto.
Qed.
Lemma zseq_NoDup lo n : NoDup (zseq lo n).
Proof. unfold zseq. apply FinFun.Injective_map_NoDup; [intros p q E; lia|apply seq_NoDup]. Qed.
Lemma where_eq_NoDup labels k : NoDup (where_eq labels k).
Proof.
  unfold where_eq. apply NoDup_map_fst_filter.
  assert (E: map fst (combine (zseq 0 (Z.of_nat (length labels))) labels) = zseq 0 (Z.of_nat (length labels))).
  { assert (L: length (zseq 0 (Z.of_nat (length labels))) = length labels) by (unfold zseq; rewrite map_length, seq_length; lia).
    revert L. generalize (zseq 0 (Z.of_nat (length labels))) as zs. induction labels as [|y l IH]; intros [|z zs] L; cbn [length] in L; try discriminate; cbn [combine map fst]; [reflexivity|].
    f_equal. apply IH. lia. }
  rewrite E. apply zseq_NoDup.
Qed.
Lemma label_max_spec labels : (forall v, In v labels -> v <= label_max labels) /\ 0 <= label_max labels.
Proof. unfold label_max. destruct (zmaxl_spec labels 0) as [H1 H2]. split; [exact H2|exact H1]. Qed.

(* the label list and the index groups agree: structure x is in group number k (counting from 0) iff its label is k + 1; every structure whose
   label is at least 1 is in exactly one group; no group lists a structure twice *)
Lemma groups_agree_l labels : (forall v, In v labels -> 1 <= v) ->
  length (groups labels) = Z.to_nat (label_max labels) /\
  (forall k x, (k < length (groups labels))%nat -> (In x (nth k (groups labels) []) <-> 0 <= x < Z.of_nat (length labels) /\ nthZ labels x 0 = Z.of_nat k + 1)) /\
  (forall x, 0 <= x < Z.of_nat (length labels) -> exists k, (k < length (groups labels))%nat /\ In x (nth k (groups labels) [])) /\
  (forall g, In g (groups labels) -> NoDup g).
Proof.
  intros POS. destruct (label_max_spec labels) as [MX M0].
  assert (L: length (groups labels) = Z.to_nat (label_max labels)) by (unfold groups, zseq; rewrite !map_length, seq_length; reflexivity).
  assert (NTH: forall k, (k < length (groups labels))%nat -> nth k (groups labels) [] = where_eq labels (Z.of_nat k + 1)).
  { intros k Hk. unfold groups, zseq. rewrite map_map. rewrite L in Hk.
    rewrite (nth_indep _ [] (where_eq labels (1 + Z.of_nat 0))) by (rewrite map_length, seq_length; exact Hk).
    rewrite (map_nth (fun j => where_eq labels (1 + Z.of_nat j)) (seq 0 (Z.to_nat (label_max labels))) 0%nat k). rewrite seq_nth by exact Hk. f_equal. lia. }
  split; [exact L|]. split; [|split].
  - intros k x Hk. rewrite (NTH k Hk). apply where_eq_spec.
  - intros x Hx. set (v := nthZ labels x 0). assert (Iv: In v labels) by (apply nth_In; lia). pose proof (POS v Iv). pose proof (MX v Iv).
    exists (Z.to_nat (v - 1)). assert (Hk: (Z.to_nat (v - 1) < length (groups labels))%nat) by (rewrite L; lia). split; [exact Hk|].
    rewrite (NTH _ Hk). apply where_eq_spec. split; [exact Hx|fold v; lia].
  - intros g Ig. unfold groups in Ig. apply in_map_iff in Ig. destruct Ig as (k & <- & _). apply where_eq_NoDup.
Qed.

(* ---- threshold-graph components ---- *)
Definition near (N : Z) (D : list (list Z)) (t : Z) (x l : Z) : Prop :=
  0 <= x < N /\ 0 <= l < N /\ x <> l /\ Dget D (Z.min x l) (Z.max x l) <= t.
Lemma thr_edges_spec N D t i j c : In (i, j, c) (thr_edges N D t) <-> c = (0, 0, 0) /\ 0 <= i < j /\ j < N /\ Dget D i j <= t.
Proof.
  unfold thr_edges. rewrite in_map_iff. split.
  - intros ([a b'] & E & I). cbn [fst snd] in E. injection E as -> -> <-. apply filter_In in I. cbn [fst snd] in I. destruct I as [I F].
    apply triu_In in I. apply Z.leb_le in F. tauto.
  - intros (-> & H1 & H2 & H3). exists (i, j). split; [reflexivity|]. apply filter_In. cbn [fst snd]. split; [apply triu_In; lia|apply Z.leb_le; exact H3].
Qed.
Lemma nb_near N D t x l : In l (nb (thr_edges N D t) x) <-> near N D t x l.
Proof.
  rewrite nb_spec. unfold near. split.
  - intros (a & b' & c & I & H). apply thr_edges_spec in I. destruct I as (_ & H1 & H2 & H3).
    destruct H as [[-> ->]|(NE & -> & ->)]; (split; [lia|]; split; [lia|]; split; [lia|]).
    + rewrite Z.min_l, Z.max_r by lia. exact H3.
    + rewrite Z.min_r, Z.max_l by lia. exact H3.
  - intros (H1 & H2 & NE & HD). destruct (Z.lt_ge_cases x l) as [LT|GE].
    + rewrite Z.min_l, Z.max_r in HD by lia. exists x, l, (0,0,0). split; [apply thr_edges_spec; repeat split; try lia|left; tauto].
    + rewrite Z.min_r, Z.max_l in HD by lia. exists l, x, (0,0,0). split; [apply thr_edges_spec; repeat split; try lia|right; repeat split; try lia].
Qed.
Inductive chain (N : Z) (D : list (list Z)) (t : Z) (s : Z) : Z -> Prop :=
  | chain_refl : chain N D t s s
  | chain_step x l : chain N D t s x -> near N D t x l -> chain N D t s l.
Lemma conn_chain N D t s x : conn (thr_edges N D t) s x <-> chain N D t s x.
Proof. split; intros K; induction K as [|y l K IH Il]; try constructor; econstructor; try exact IH; apply nb_near; exact Il. Qed.

Lemma components_l N D t : 0 <= N ->
  Permutation (concat (components N D t)) (zseq 0 N) /\
  (forall C x l, In C (components N D t) -> near N D t x l -> (In x C <-> In l C)) /\
  (forall C, In C (components N D t) -> exists s, forall x, In x C -> chain N D t s x) /\
  (forall C s x, In C (components N D t) -> In s C -> chain N D t s x -> In x C).
Proof.
  intros HN. unfold components.
  assert (ENDS: forall x y c, In (x, y, c) (thr_edges N D t) -> 0 <= x < N /\ 0 <= y < N) by (intros x y c I; apply thr_edges_spec in I; lia).
  split; [apply molecules_partition_l; exact HN|]. split; [|split].
  - intros C x l IC NR. apply in_map_iff in IC. destruct IC as (m & <- & Im). destruct NR as (H1 & H2 & NE & HD).
    destruct (Z.lt_ge_cases x l) as [LT|GE].
    + rewrite Z.min_l, Z.max_r in HD by lia. apply (molecules_closed_l N _ HN ENDS m Im x l (0,0,0)). apply thr_edges_spec. repeat split; lia.
    + rewrite Z.min_r, Z.max_l in HD by lia. symmetry. apply (molecules_closed_l N _ HN ENDS m Im l x (0,0,0)). apply thr_edges_spec. repeat split; lia.
  - intros C IC. apply in_map_iff in IC. destruct IC as (m & <- & Im). destruct (molecules_connected_l N _ m Im) as [s Hs]. exists s.
    intros x Ix. apply conn_chain. apply Hs. exact Ix.
  - intros C s x IC Is K. induction K as [|y l K IH NR]; [exact Is|].
    apply in_map_iff in IC. destruct IC as (m & <- & Im). destruct NR as (H1 & H2 & NE & HD). destruct (Z.lt_ge_cases y l) as [LT|GE].
    + rewrite Z.min_l, Z.max_r in HD by lia. apply (molecules_closed_l N _ HN ENDS m Im y l (0,0,0)); [apply thr_edges_spec; repeat split; lia|exact IH].
    + rewrite Z.min_r, Z.max_l in HD by lia. apply (molecules_closed_l N _ HN ENDS m Im l y (0,0,0)); [apply thr_edges_spec; repeat split; lia|exact IH].
Qed.
