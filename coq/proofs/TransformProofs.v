(* C16: the transforms move exactly the selected atoms by an isometry (Reals). *)
Require Import Sop.model.TransformR.
From Coq Require Import Arith.

Ltac un1 := unfold translate, mirror_point, mirror_plane, rotate, lerp, rattle_u, dist2, padd, psub, pscale, mapply, qmat, qconj, qnorm2, of_Z in *.
Ltac un := un1; un1; unfold pdot in *; cbv [num p3] in *.

Lemma apply_from_spec f sel : forall pos k i d, nth i (apply_from k f sel pos) d =
  if (i <? length pos)%nat then (if existsb (Nat.eqb (k + i)) sel then f (nth i pos d) else nth i pos d) else d.
Proof.
  induction pos as [|p t IH]; intros k i d; cbn [apply_from length nth].
  - destruct i; reflexivity.
  - destruct i as [|i].
    + rewrite Nat.add_0_r. reflexivity.
    + rewrite IH. replace (S k + i)%nat with (k + S i)%nat by ring. reflexivity.
Qed.
Lemma apply_from_length f sel : forall pos k, length (apply_from k f sel pos) = length pos.
Proof. induction pos as [|p t IH]; intros k; cbn [apply_from length]; [reflexivity|rewrite IH; reflexivity]. Qed.

(* exactly the selected atoms are moved, the others are untouched, nothing is added or lost *)
Lemma frame_l f sel pos : length (apply_sel f sel pos) = length pos /\
  forall i d, (i < length pos)%nat ->
    (In i sel -> nth i (apply_sel f sel pos) d = f (nth i pos d)) /\ (~ In i sel -> nth i (apply_sel f sel pos) d = nth i pos d).
Proof.
  unfold apply_sel. split; [apply apply_from_length|]. intros i d H. rewrite apply_from_spec. cbn [Nat.add].
  replace (i <? length pos)%nat with true by (symmetry; apply Nat.ltb_lt; exact H). split; intros I.
  - replace (existsb (Nat.eqb i) sel) with true; [reflexivity|]. symmetry. apply existsb_exists. exists i. split; [exact I|apply Nat.eqb_refl].
  - destruct (existsb (Nat.eqb i) sel) eqn:E; [|reflexivity]. apply existsb_exists in E. destruct E as (j & Ij & Ej). apply Nat.eqb_eq in Ej. subst. contradiction.
Qed.

Lemma translate_l v p q : dist2 (translate v p) (translate v q) = dist2 p q /\ translate (pscale (-1) v) (translate v p) = p.
Proof. destruct v as [[v1 v2] v3], p as [[p1 p2] p3], q as [[q1 q2] q3]. un. split; [ring|pairs; ring]. Qed.
Lemma mirror_point_l c p q : mirror_point c (mirror_point c p) = p /\ dist2 (mirror_point c p) (mirror_point c q) = dist2 p q /\ mirror_point c c = c.
Proof. destruct c as [[c1 c2] c3], p as [[p1 p2] p3], q as [[q1 q2] q3]. un. split; [pairs; ring|split; [ring|pairs; ring]]. Qed.
Lemma mirror_plane_l n d p q k : pdot n n <> 0 -> k <> 0 ->
  mirror_plane n d (mirror_plane n d p) = p /\ dist2 (mirror_plane n d p) (mirror_plane n d q) = dist2 p q /\
  mirror_plane (pscale k n) (k * d) p = mirror_plane n d p /\ (pdot p n + d = 0 -> mirror_plane n d p = p).
Proof.
  destruct n as [[n1 n2] n3], p as [[p1 p2] p3], q as [[q1 q2] q3]. un. intros HN HK.
  split; [pairs; field; repeat split; assumption|]. split; [field; repeat split; assumption|]. split.
  - assert (HS: k * n1 * (k * n1) + k * n2 * (k * n2) + k * n3 * (k * n3) <> 0).
    { intros E. apply HN. assert (E2: k * k * (n1 * n1 + n2 * n2 + n3 * n3) = 0) by (rewrite <- E; ring).
      apply Rmult_integral in E2. destruct E2 as [E2|E2]; [exfalso; apply Rmult_integral in E2; tauto|exact E2]. }
    pairs; field; repeat split; assumption.
  - intros E. pairs.
    + replace (2 * (p1 * n1 + p2 * n2 + p3 * n3 + d)) with 0 by lra. field; repeat split; assumption.
    + replace (2 * (p1 * n1 + p2 * n2 + p3 * n3 + d)) with 0 by lra. field; repeat split; assumption.
    + replace (2 * (p1 * n1 + p2 * n2 + p3 * n3 + d)) with 0 by lra. field; repeat split; assumption.
Qed.
Lemma rotate_l qt c p r : qnorm2 qt = 1 ->
  dist2 (rotate qt c p) (rotate qt c r) = dist2 p r /\ rotate (qconj qt) c (rotate qt c p) = p /\ rotate qt c c = c.
Proof.
  destruct qt as [[[w x] y] z], c as [[c1 c2] c3], p as [[p1 p2] p3], r as [[r1 r2] r3]. un. intros H.
  set (N := w*w + x*x + y*y + z*z) in *. split; [|split].
  - transitivity (N * N * ((p1 - r1) * (p1 - r1) + (p2 - r2) * (p2 - r2) + (p3 - r3) * (p3 - r3))); [unfold N; ring|rewrite H; ring].
  - pairs.
    + transitivity (N * N * (p1 - c1) + c1); [unfold N; ring|rewrite H; ring].
    + transitivity (N * N * (p2 - c2) + c2); [unfold N; ring|rewrite H; ring].
    + transitivity (N * N * (p3 - c3) + c3); [unfold N; ring|rewrite H; ring].
  - pairs; ring.
Qed.
Lemma lerp_l a b : lerp 0 a b = a /\ lerp 1 a b = b.
Proof. destruct a as [[a1 a2] a3], b as [[b1 b2] b3]. un. split; pairs; ring. Qed.
Lemma rattle_bound_l u amp : 0 <= u < 1 -> 0 <= amp -> - amp <= rattle_u u amp <= amp.
Proof. un. intros Hu Ha. split; nra. Qed.
