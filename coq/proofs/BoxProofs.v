(* C07: the periodic box selector (from_box) returns exactly the images strictly inside the box (Z, no axioms). *)
From Coq Require Import ZArith List Bool Lia.
Import ListNotations.
Require Import Sop.model.Lattice Sop.proofs.LatticeProofs.
Local Open Scope Z_scope.

Lemma images_where_spec_l L pbc rn rd P vs w k c : det L <> 0 -> 0 <= rn -> 0 < rd ->
  (forall u, P u = true -> norm2 u * rd <= rn) ->
  In (w, k, c) (images_where_m L pbc rn rd P vs) <->
  (0 <= k /\ exists v, nth_error vs (Z.to_nat k) = Some v /\ IsImage L pbc v w c /\ P w = true).
Proof.
  intros HD Hn Hd HP. unfold images_where_m. rewrite in_flat_map. split.
  - intros ([k' v] & IE & H). apply enumerate_In in IE. destruct IE as [K0 NE]. replace (k' - 0) with k' in NE by lia.
    unfold reduce in H. rewrite in_flat_map in H. destruct H as (n & IG & H).
    destruct (P (vadd (vsub v (comb (shift_of L pbc v) L)) (comb n L))) eqn:E; [|destruct H].
    destruct H as [H|[]]. inversion H; subst.
    split; [exact K0|]. exists v. split; [exact NE|]. split; [|exact E].
    split; [apply vadd_vsub_comb|]. apply admissible_sub; [apply (grid_mask pbc _ n IG)|apply shift_admissible].
  - intros (K0 & v & NE & [E A] & R). exists (k, v). split; [apply enumerate_In; split; [lia|]; replace (k - 0) with k by lia; exact NE|].
    unfold reduce. rewrite in_flat_map. set (s := shift_of L pbc v).
    exists (vadd c s). assert (As: admissible pbc s) by apply shift_admissible.
    assert (EQ: vadd (vsub v (comb s L)) (comb (vadd c s) L) = w).
    { rewrite vadd_vsub_comb, vsub_vadd_id. symmetry. exact E. }
    split.
    + apply (box_complete_wrapped_l L pbc (vsub v (comb s L)) (vadd c s) rn rd HD Hn Hd).
      * apply (reduce_wrapped L pbc v HD).
      * apply admissible_add; assumption.
      * rewrite EQ. apply HP. exact R.
    + rewrite EQ, R. left. rewrite vsub_vadd_id. reflexivity.
Qed.

Lemma det_dblL L : det (dblL L) = 8 * det L.
Proof. destruct L as [[[[a1 a2] a3] [[b1 b2] b3]] [[c1 c2] c3]]. cbv [dblL det dotv crossv smul]. ring. Qed.
Lemma comb_dblL n L : comb n (dblL L) = smul 2 (comb n L).
Proof.
  destruct L as [[[[a1 a2] a3] [[b1 b2] b3]] [[c1 c2] c3]]. destruct n as [[n1 n2] n3]. cbv [dblL comb vadd smul]. veq.
Qed.

Lemma inbox2_radius d u : inbox2 d u = true -> norm2 u * 1 <= 4 * norm2 d.
Proof.
  destruct d as [[d1 d2] d3]. destruct u as [[u1 u2] u3]. unfold inbox2. rewrite !andb_true_iff, !Z.ltb_lt.
  intros [[[[[A B] C] D] E] F]. cbv [norm2 dotv]. nia.
Qed.

Lemma inbox2_inside lo hi q : inbox2 (vsub hi lo) (vsub (smul 2 q) (vadd lo hi)) = true <-> inside lo hi q.
Proof.
  destruct lo as [[l1 l2] l3]. destruct hi as [[h1 h2] h3]. destruct q as [[q1 q2] q3].
  cbv [inbox2 vsub smul vadd inside]. rewrite !andb_true_iff, !Z.ltb_lt. lia.
Qed.

(* from_box(periodic=True): sound and complete for positions stored in any periodic image *)
Lemma box_spec_l L pbc lo hi pos w k c : det L <> 0 ->
  In (w, k, c) (box_m L pbc lo hi pos) <->
  (0 <= k /\ exists p, nth_error pos (Z.to_nat k) = Some p /\ admissible pbc c /\
     w = vsub (smul 2 (vadd p (comb c L))) (vadd lo hi) /\ inside lo hi (vadd p (comb c L))).
Proof.
  intros HD. unfold box_m.
  assert (HD2: det (dblL L) <> 0) by (rewrite det_dblL; lia).
  assert (HN: 0 <= 4 * norm2 (vsub hi lo)) by (pose proof (norm2_nonneg (vsub hi lo)); lia).
  rewrite (images_where_spec_l (dblL L) pbc _ 1 _ _ w k c HD2 HN ltac:(lia) (inbox2_radius (vsub hi lo))).
  assert (EQ: forall p, vadd (vsub (smul 2 p) (vadd lo hi)) (comb c (dblL L)) = vsub (smul 2 (vadd p (comb c L))) (vadd lo hi)).
  { intros p. rewrite comb_dblL. destruct (comb c L) as [[x y] z]. destruct p as [[p1 p2] p3].
    destruct lo as [[l1 l2] l3]. destruct hi as [[h1 h2] h3]. cbv [vadd vsub smul]. veq. }
  split.
  - intros (K & v & N & [E A] & R). split; [exact K|]. rewrite nth_error_map in N.
    destruct (nth_error pos (Z.to_nat k)) as [p|]; [|discriminate]. cbn in N. inversion N; subst v. exists p.
    split; [reflexivity|]. split; [exact A|]. rewrite EQ in E. split; [exact E|]. apply inbox2_inside. rewrite <- E. exact R.
  - intros (K & p & N & A & E & I). split; [exact K|]. exists (vsub (smul 2 p) (vadd lo hi)). rewrite nth_error_map, N.
    split; [reflexivity|]. split; [split; [rewrite EQ; exact E|exact A]|]. rewrite E. apply inbox2_inside. exact I.
Qed.
