(* C14: lifting the computed box checks to statements about all hkl of the box (no axioms). *)
From Coq Require Import ZArith List Bool Lia.
Import ListNotations.
Require Import Sop.model.XrdSpec.
Local Open Scope Z_scope.

Lemma zr_In b x : - b <= x <= b -> In x (zr b).
Proof.
  intros H. unfold zr. apply in_map_iff. exists (Z.to_nat (x + b)). split; [lia|]. apply in_seq. lia.
Qed.
Lemma box_In b h k l : - b <= h <= b -> - b <= k <= b -> - b <= l <= b -> In (h, k, l) (box b).
Proof.
  intros Hh Hk Hl. unfold box. apply in_flat_map. exists h. split; [apply zr_In; exact Hh|].
  apply in_flat_map. exists k. split; [apply zr_In; exact Hk|]. apply in_map. apply zr_In. exact Hl.
Qed.
Definition code (b h k l : Z) : Z := ((h + b) * (2*b + 1) + (k + b)) * (2*b + 1) + (l + b).
Lemma mismatches_spec b rule ops h k l : - b <= h <= b -> - b <= k <= b -> - b <= l <= b ->
  rule h k l <> allowed ops h k l -> In (code b h k l) (mismatches b rule ops).
Proof.
  intros Hh Hk Hl NE. unfold mismatches. apply in_flat_map. exists (h, k, l). split; [apply box_In; assumption|].
  destruct (Bool.eqb (rule h k l) (allowed ops h k l)) eqn:E; [apply eqb_prop in E; contradiction|left; reflexivity].
Qed.
Lemma mismatches_nil_spec b rule ops : mismatches b rule ops = [] ->
  forall h k l, - b <= h <= b -> - b <= k <= b -> - b <= l <= b -> rule h k l = allowed ops h k l.
Proof.
  intros E h k l Hh Hk Hl. destruct (bool_dec (rule h k l) (allowed ops h k l)) as [Q|NE]; [exact Q|].
  pose proof (mismatches_spec b rule ops h k l Hh Hk Hl NE) as I. rewrite E in I. destruct I.
Qed.
(* every disagreement inside the box is one of the recorded ones *)
Lemma mismatches_sub_spec b rule ops rec : forallb (fun c => existsb (Z.eqb c) rec) (mismatches b rule ops) = true ->
  forall h k l, - b <= h <= b -> - b <= k <= b -> - b <= l <= b -> rule h k l <> allowed ops h k l -> In (code b h k l) rec.
Proof.
  intros E h k l Hh Hk Hl NE. rewrite forallb_forall in E. specialize (E _ (mismatches_spec b rule ops h k l Hh Hk Hl NE)).
  apply existsb_exists in E. destruct E as (c & I & Q). apply Z.eqb_eq in Q. subst. exact I.
Qed.
