(* Row-wise numpy idioms on an n x 3 array, for one row; Load-ed under NumQ or NumR. *)
Definition vec3 := (num * num * num)%type.
Definition perm3 := (nat * nat * nat)%type.
Inductive optnum := Inf | Fin (x:num).
Definition div_opt (a:num) (d:optnum) : num := match d with Inf => of_Z 0 | Fin x => a / x end.
Definition nth3 (v:vec3) (i:nat) : num := let '(a,b,c) := v in match i with 0%nat => a | 1%nat => b | _ => c end.
Definition avg3 (v:vec3) : num := let '(a,b,c) := v in (a+b+c) / of_Z 3.
Definition abs3 (v:vec3) : vec3 := let '(a,b,c) := v in (absn a, absn b, absn c).
Definition sub3s (v:vec3) (s:num) : vec3 := let '(a,b,c) := v in (a-s, b-s, c-s).
(* numpy's argsort of three keys (stable): checked against numpy on all 27 key patterns each run *)
Definition argsort3 (v:vec3) : perm3 := let '(k0,k1,k2) := v in
  if leb k0 k1 then (if leb k1 k2 then (0,1,2) else if leb k0 k2 then (0,2,1) else (2,0,1))%nat
  else (if leb k0 k2 then (1,0,2) else if leb k1 k2 then (1,2,0) else (2,1,0))%nat.
Definition rev3 (p:perm3) : perm3 := let '(i,j,k) := p in (k,j,i).
Definition swap01 (p:perm3) : perm3 := let '(i,j,k) := p in (j,i,k).
Definition gather3 (v:vec3) (p:perm3) : vec3 := let '(i,j,k) := p in (nth3 v i, nth3 v j, nth3 v k).
Definition max2 a b := if leb a b then b else a. Definition min2 a b := if leb a b then a else b.
Definition max3 (v:vec3) := let '(a,b,c) := v in max2 (max2 a b) c.
Definition min3 (v:vec3) := let '(a,b,c) := v in min2 (min2 a b) c.
Definition median3 (v:vec3) := nth3 v (let '(_,j,_) := argsort3 v in j).
Definition wrap1n (x:num) := if ltb x (of_Z 0) then modn x (of_Z 2 * PIn) else x.
Definition wrap1g (x:num) := if leb (of_Z 2 * PIn) x then modn x (of_Z 2 * PIn) else x.
Definition wrap_neg (v:vec3) : vec3 := let '(a,b,c) := v in (wrap1n a, wrap1n b, wrap1n c).
Definition wrap_ge (v:vec3) : vec3 := let '(a,b,c) := v in (wrap1g a, wrap1g b, wrap1g c).
(* 3-vectors and frames (three column vectors) *)
Definition dot (a b:vec3) : num := let '(a0,a1,a2) := a in let '(b0,b1,b2) := b in a0*b0 + a1*b1 + a2*b2.
Definition cross (a b:vec3) : vec3 := let '(a0,a1,a2) := a in let '(b0,b1,b2) := b in
  (a1*b2 - a2*b1, a2*b0 - a0*b2, a0*b1 - a1*b0).
Definition frame := (vec3 * vec3 * vec3)%type.
Definition nthc (F:frame) (i:nat) : vec3 := let '(a,b,c) := F in match i with 0%nat => a | 1%nat => b | _ => c end.
Definition gatherc (F:frame) (p:perm3) : frame := let '(i,j,k) := p in (nthc F i, nthc F j, nthc F k).
Definition mat3 := (vec3 * vec3 * vec3)%type.   (* rows *)
Definition outer (l:num) (v:vec3) : mat3 := let '(x,y,z) := v in
  ((l*x*x, l*x*y, l*x*z), (l*y*x, l*y*y, l*y*z), (l*z*x, l*z*y, l*z*z)).
Definition vadd3 (a b:vec3) : vec3 := let '(a0,a1,a2) := a in let '(b0,b1,b2) := b in (a0+b0, a1+b1, a2+b2).
Definition madd (A B:mat3) : mat3 := let '(a,b,c) := A in let '(d,e,f) := B in (vadd3 a d, vadd3 b e, vadd3 c f).
Definition recon (l:vec3) (F:frame) : mat3 := let '(l0,l1,l2) := l in let '(v0,v1,v2) := F in
  madd (madd (outer l0 v0) (outer l1 v1)) (outer l2 v2).
Definition det3 (F:frame) : num := let '(a,b,c) := F in dot a (cross b c).
Definition transpose (A:mat3) : mat3 := let '((a,b,c),(d,e,f),(g,h,i)) := A in ((a,d,g),(b,e,h),(c,f,i)).
Definition symm (A:mat3) : mat3 := let '((a,b,c),(d,e,f),(g,h,i)) := A in
  ((a, (b+d)/of_Z 2, (c+g)/of_Z 2), ((d+b)/of_Z 2, e, (f+h)/of_Z 2), ((g+c)/of_Z 2, (h+f)/of_Z 2, i)).
Definition trace3 (A:mat3) : num := let '((a,_,_),(_,e,_),(_,_,i)) := A in a + e + i.
