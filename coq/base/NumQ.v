(* Carrier header, executable instance: num := Q.  Angles are measured in units of pi (PIn = 1). *)
From Coq Require Export QArith Qabs Qround List Bool.
Export ListNotations.
Open Scope Q_scope.
Definition num := Q.
Definition of_Z (z : Z) : Q := inject_Z z.
Definition leb := Qle_bool.
Definition ltb (a b : Q) := negb (Qle_bool b a).
Definition eqb := Qeq_bool.
Definition absn := Qabs.
Definition PIn : Q := 1.
(* canonical form of an intermediate result (keeps long sums small under vm_compute); the identity under R *)
Definition nrm (x : Q) : Q := Qred x.
Definition modn (x m : Q) : Q := x - m * inject_Z (Qfloor (x / m)).
(* encoding of results for the correspondence check: reduced numerator / denominator *)
Definition encq (q : Q) : list Z := let r := Qred q in [Qnum r; Zpos (Qden r)].
Definition mkq (n d : Z) : Q := Qmake n (Z.to_pos d).
