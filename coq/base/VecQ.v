Require Export Sop.base.NumQ.
Load "base/VecBody".
Definition enc3 (v : vec3) : list Z := let '(a,b,c) := v in encq a ++ encq b ++ encq c.
Definition encp (p : perm3) : list Z := let '(i,j,k) := p in [Z.of_nat i; Z.of_nat j; Z.of_nat k].
Definition mk3 (a b c d e f : Z) : vec3 := (mkq a b, mkq c d, mkq e f).
