Require Export Sop.base.NumR.
Load "base/VecBody".
