(* Carrier header, proof instance: num := R.  Angles in radians (PIn = PI). *)
From Coq Require Export Reals Lra Psatz List Bool.
Export ListNotations.
Open Scope R_scope.
Definition num := R.
Definition of_Z (z : Z) : R := IZR z.
Definition leb (x y : R) : bool := if Rle_dec x y then true else false.
Definition ltb (x y : R) : bool := if Rlt_dec x y then true else false.
Definition eqb (x y : R) : bool := if Req_EM_T x y then true else false.
Definition absn := Rabs.
Definition PIn : R := PI.
Definition nrm (x : R) : R := x.
Definition modn (x m : R) : R := x - m * IZR (Int_part (x / m)).
Lemma leb_t a b : leb a b = true -> a <= b. Proof. unfold leb; destruct Rle_dec; congruence. Qed.
Lemma leb_f a b : leb a b = false -> b < a. Proof. unfold leb; destruct Rle_dec; [congruence|lra]. Qed.
Lemma ltb_t a b : ltb a b = true -> a < b. Proof. unfold ltb; destruct Rlt_dec; congruence. Qed.
Lemma ltb_f a b : ltb a b = false -> b <= a. Proof. unfold ltb; destruct Rlt_dec; [congruence|lra]. Qed.
Lemma eqb_t a b : eqb a b = true -> a = b. Proof. unfold eqb; destruct Req_EM_T; congruence. Qed.
Lemma eqb_f a b : eqb a b = false -> a <> b. Proof. unfold eqb; destruct Req_EM_T; congruence. Qed.
Ltac bools := repeat match goal with
  | H: leb _ _ = true |- _ => apply leb_t in H | H: leb _ _ = false |- _ => apply leb_f in H
  | H: ltb _ _ = true |- _ => apply ltb_t in H | H: ltb _ _ = false |- _ => apply ltb_f in H
  | H: eqb _ _ = true |- _ => apply eqb_t in H | H: eqb _ _ = false |- _ => apply eqb_f in H end.
Ltac pairs := repeat match goal with |- (_, _) = (_, _) => apply f_equal2 end.
