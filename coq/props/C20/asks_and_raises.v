From Coq Require Import ZArith List Bool.
Require Import Sop.gen.TreeGen Sop.model.TreeFS Sop.proofs.TreeProofs.
Local Open Scope Z_scope.
(* C20: the prompt appears exactly where documented (level 3 on a valid tree, level 1 on anything else)
   and the refusal (exception) exactly at levels >= 2 on a folder that fails check_tree. *)
Theorem asks_and_raises : forall check safety answer,
  0 <= safety <= 3 -> 0 <= check <= 2 ->
  has EAsk (save_decide check safety answer) = ((safety =? 3) && (check =? 0)) || ((safety =? 1) && negb (check =? 0))
  /\ has ERaise (save_decide check safety answer) = (2 <=? safety) && negb (check =? 0).
Proof. intros c s a Hs Hc. split; [apply asks_iff_documented_l | apply raises_iff_documented_l]; assumption. Qed.
Redirect "props/C20/asks_and_raises.assum" Print Assumptions asks_and_raises.
