From Coq Require Import ZArith List Bool.
Import ListNotations.
Require Import Sop.gen.TreeGen Sop.model.TreeFS Sop.proofs.TreeProofs.
Local Open Scope Z_scope.
(* C20: a permitted overwrite is exactly rmtree; mkdir; write (once each, in that order),
   and an absent target is simply created. *)
Theorem permitted_rewrites : forall check safety answer,
  0 <= safety <= 3 -> 0 <= check <= 2 ->
  permitted safety check answer = true ->
  strip_talk (save_decide check safety answer) = [ERmtree; EMkdir; EWrite].
Proof. exact permitted_rewrites_l. Qed.
Redirect "props/C20/permitted_rewrites.assum" Print Assumptions permitted_rewrites.
Theorem absent_creates : forall safety answer, save_decide (-1) safety answer = [EMkdir; EWrite].
Proof. exact absent_creates_l. Qed.
