From Coq Require Import ZArith List Bool.
Require Import Sop.gen.TreeGen Sop.model.TreeFS Sop.proofs.TreeProofs.
Local Open Scope Z_scope.
(* C20: load_tree honours the documented checks of each safety level:
   3 strict validation; 2 valid metadata, listed sub-folders only (arrays restored);
   1 valid metadata, all sub-folders, arrays discarded; 0 no checks, all sub-folders. *)
Theorem load_checks : forall check safety,
  0 <= safety <= 3 -> -1 <= check <= 2 ->
  load_dirs check safety =
    (if check =? -1 then None
     else if safety =? 3 then (if check =? 0 then Some DListed else None)
     else if safety =? 2 then (if check <? 2 then Some DListed else None)
     else if safety =? 1 then (if check <? 2 then Some DAll else None)
     else Some DAll)
  /\ (load_dirs check safety <> None -> load_arrays check safety = (2 <=? safety))
  /\ load_meta_info check safety = (check <? 2).
Proof. exact load_checks_l. Qed.
Redirect "props/C20/load_checks.assum" Print Assumptions load_checks.
Theorem load_final_spec : forall nload ntot tolerant,
  0 <= nload <= ntot -> 0 < ntot ->
  load_final nload ntot tolerant =
    (if nload =? ntot then EndFull else if nload =? 0 then EndRaise else if tolerant then EndPartial else EndRaise).
Proof. exact load_final_spec_l. Qed.
