From Coq Require Import ZArith List Bool.
Require Import Sop.gen.TreeGen Sop.model.TreeFS Sop.proofs.TreeProofs.
Local Open Scope Z_scope.
(* C20, whole call on a target state: not permitted => the folder is left intact;
   an unreadable .collection makes check_tree raise before anything is touched. *)
Theorem save_fate_intact : forall t safety answer c,
  0 <= safety <= 3 -> check_tree t = Some c -> 0 <= c ->
  permitted safety c answer = false -> fst (save_fate t safety answer) = Intact.
Proof. exact save_fate_intact_l. Qed.
Redirect "props/C20/save_fate_intact.assum" Print Assumptions save_fate_intact.
Example nv : check_tree MetaExtraFile = Some 1 /\ permitted 1 1 false = false.
Proof. vm_compute. auto. Qed.
