From Coq Require Import ZArith List Bool.
Require Import Sop.gen.TreeGen Sop.model.TreeFS Sop.proofs.TreeProofs.
Local Open Scope Z_scope.
(* C20: an existing target is removed only in the cases the documentation permits,
   for every safety level, every check_tree result and every answer. *)
Theorem no_unpermitted_delete : forall check safety answer,
  0 <= safety <= 3 -> 0 <= check <= 2 ->
  has ERmtree (save_decide check safety answer) = true -> permitted safety check answer = true.
Proof. exact no_unpermitted_delete_l. Qed.
Redirect "props/C20/no_unpermitted_delete.assum" Print Assumptions no_unpermitted_delete.
(* non-vacuity: a permitted deletion exists, and a declined one is covered by the hypothesis range *)
Example nv : has ERmtree (save_decide 0 3 true) = true /\ permitted 3 0 true = true /\ permitted 3 0 false = false.
Proof. vm_compute. auto. Qed.
