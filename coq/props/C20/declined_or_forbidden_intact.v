From Coq Require Import ZArith List Bool.
Require Import Sop.gen.TreeGen Sop.model.TreeFS Sop.proofs.TreeProofs.
Local Open Scope Z_scope.
(* C20: a declined or forbidden overwrite performs no rmtree, no mkdir and writes nothing:
   the existing folder and its files stay intact. *)
Theorem declined_or_forbidden_intact : forall check safety answer,
  0 <= safety <= 3 -> 0 <= check <= 2 ->
  permitted safety check answer = false ->
  has ERmtree (save_decide check safety answer) = false /\
  has EMkdir (save_decide check safety answer) = false /\
  has EWrite (save_decide check safety answer) = false.
Proof. exact declined_or_forbidden_intact_l. Qed.
Redirect "props/C20/declined_or_forbidden_intact.assum" Print Assumptions declined_or_forbidden_intact.
Example nv : permitted 3 0 false = false /\ permitted 1 2 false = false /\ permitted 2 1 true = false.
Proof. vm_compute. auto. Qed.
