From Coq Require Import ZArith List Bool Lia.
Import ListNotations.
Require Import Sop.model.Lattice Sop.proofs.LatticeProofs Sop.proofs.InterpProofs.
Local Open Scope Z_scope.
(* C16, linspaceGen(periodic=True), over the integer lattice model of C03 (any non-singular cell, any pbc mask, atoms anywhere): with w the
   minimum-image reduction of pos1 - pos0 computed by the model of minimum_periodic, and positions carried multiplied by (steps - 1):
   step 0 is the starting position; the last step is pos1 shifted by an admissible lattice vector (a periodic image of the target); no periodic image
   of the target is closer to the start than that one; and consecutive steps differ by the same vector w / (steps - 1) (a straight, evenly
   spaced path). *)
Theorem periodic_interpolation : forall L pbc p0 p1 w c steps, det L <> 0 ->
  nth_error (minimum_periodic_m L pbc false [vsub p1 p0]) 0 = Some (w, c) ->
  interp_scaled steps 0 p0 w = smul (steps - 1) p0 /\
  interp_scaled steps (steps - 1) p0 w = smul (steps - 1) (vadd p1 (comb c L)) /\
  admissible pbc c /\
  (forall n', admissible pbc n' -> norm2 w <= norm2 (vadd (vsub p1 p0) (comb n' L))) /\
  (forall k, vsub (interp_scaled steps (k + 1) p0 w) (interp_scaled steps k p0 w) = w).
Proof. exact interp_l. Qed.
Redirect "props/C16/periodic_interpolation.assum" Print Assumptions periodic_interpolation.
Example nv : let L := mkL 300 0 0 0 300 0 100 0 10 in
  map fst (minimum_periodic_m L (true,true,true) false [vsub (0,0,16) (0,0,0)]) = [(0,0,-14)] /\ interp_scaled 5 4 (0,0,0) (0,0,-14) = (0,0,-56).
Proof. split; vm_compute; reflexivity. Qed.
