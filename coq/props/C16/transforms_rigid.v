Require Import Sop.model.TransformR Sop.proofs.TransformProofs.
(* C16: a transform moves exactly the selected atoms (the others are untouched, none is added or lost) and the motion is a rigid one:
   translation (undone by the opposite vector), point mirror (involution, fixes the centre), plane mirror (involution, isometry, fixes the
   plane, and ANY non-zero multiple of (normal, offset) defines the same mirror), rotation by a unit quaternion about a centre (isometry, undone
   by the conjugate quaternion, fixes the centre). *)
Theorem transforms_rigid :
  (forall f sel pos, length (apply_sel f sel pos) = length pos /\
     forall i d, (i < length pos)%nat ->
       (In i sel -> nth i (apply_sel f sel pos) d = f (nth i pos d)) /\ (~ In i sel -> nth i (apply_sel f sel pos) d = nth i pos d)) /\
  (forall v p q, dist2 (translate v p) (translate v q) = dist2 p q /\ translate (pscale (-1) v) (translate v p) = p) /\
  (forall c p q, mirror_point c (mirror_point c p) = p /\ dist2 (mirror_point c p) (mirror_point c q) = dist2 p q /\ mirror_point c c = c) /\
  (forall n d p q k, pdot n n <> 0 -> k <> 0 ->
     mirror_plane n d (mirror_plane n d p) = p /\ dist2 (mirror_plane n d p) (mirror_plane n d q) = dist2 p q /\
     mirror_plane (pscale k n) (k * d) p = mirror_plane n d p /\ (pdot p n + d = 0 -> mirror_plane n d p = p)) /\
  (forall qt c p r, qnorm2 qt = 1 ->
     dist2 (rotate qt c p) (rotate qt c r) = dist2 p r /\ rotate (qconj qt) c (rotate qt c p) = p /\ rotate qt c c = c).
Proof. split; [exact frame_l|split; [exact translate_l|split; [exact mirror_point_l|split; [exact mirror_plane_l|exact rotate_l]]]]. Qed.
Redirect "props/C16/transforms_rigid.assum" Print Assumptions transforms_rigid.
