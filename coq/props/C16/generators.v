Require Import Sop.model.TransformR Sop.proofs.TransformProofs.
From Coq Require Import List Arith.
Require Import Sop.model.Combs Sop.proofs.CombsProofs.
(* C16: linear interpolation hits both end points; a uniform rattle stays within the amplitude; combinations enumerate every sub-selection of
   the requested size exactly once (each is a subsequence of the selection of that size, every such subsequence occurs, none twice, C(N,n) in all). *)
Theorem generators :
  (forall a b, lerp 0 a b = a /\ lerp 1 a b = b) /\
  (forall u amp, 0 <= u < 1 -> 0 <= amp -> - amp <= rattle_u u amp <= amp) /\
  (forall (l : list nat) n c, In c (combs n l) <-> (subseq c l /\ length c = n)) /\
  (forall (l : list nat) n, NoDup l -> NoDup (combs n l)) /\
  (forall (l : list nat) n, length (combs n l) = binom (length l) n).
Proof. split; [exact lerp_l|split; [exact rattle_bound_l|split; [intros; apply combs_spec|split; [intros; apply combs_NoDup; assumption|intros; apply combs_length]]]]. Qed.
Redirect "props/C16/generators.assum" Print Assumptions generators.
