Require Import Sop.model.NmrUtilsR Sop.proofs.SortProofs Sop.proofs.DescrProofs.
Local Open Scope R_scope.
(* C02: no descriptor depends on the eigenvalue ordering selected (any rearrangement of the spectrum);
   anisotropies/asymmetry under the hypothesis that the Haeberlen keys are tie-free (see findings/C02_eta1_sign_refuted). *)
Theorem order_independent : forall e e', Perm3 e e' ->
  span e' = span e /\ skew e' = skew e /\ iso e' = iso e /\
  (distinct3 (key 2 e) -> haeb e' = haeb e).
Proof. intros e e' P. destruct (span_skew_perm_l e e' P) as (A & B & C). repeat split; try assumption. apply haeb_perm_l. exact P. Qed.
Redirect "props/C02/order_independent.assum" Print Assumptions order_independent.
