Require Import Sop.model.NmrUtilsR Sop.proofs.SortProofs Sop.proofs.DescrProofs.
Local Open Scope R_scope.
(* C02: adding c*I shifts only the isotropy; scaling by k<>0 (negative included) scales isotropy and anisotropies by k,
   span by |k| (a span is non-negative), leaves the asymmetry unchanged and multiplies the skew by sign k. *)
Theorem shift_scale : forall e c k,
  (iso (shift3 e c) = iso e + c /\
   anisotropy_False (haeb (shift3 e c)) = anisotropy_False (haeb e) /\
   anisotropy_True (haeb (shift3 e c)) = anisotropy_True (haeb e) /\
   asymmetry (haeb (shift3 e c)) = asymmetry (haeb e) /\
   span (shift3 e c) = span e /\ skew (shift3 e c) = skew e) /\
  (k <> 0 ->
   iso (scale3 k e) = k * iso e /\
   anisotropy_False (haeb (scale3 k e)) = k * anisotropy_False (haeb e) /\
   anisotropy_True (haeb (scale3 k e)) = k * anisotropy_True (haeb e) /\
   asymmetry (haeb (scale3 k e)) = asymmetry (haeb e) /\
   span (scale3 k e) = Rabs k * span e /\
   (0 < k -> skew (scale3 k e) = skew e) /\ (k < 0 -> skew (scale3 k e) = - skew e)).
Proof. intros e c k. split; [apply shift_law_l|apply scale_law_l]. Qed.
Redirect "props/C02/shift_scale.assum" Print Assumptions shift_scale.
