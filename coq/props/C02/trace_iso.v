Require Import Sop.model.NmrUtilsR Sop.proofs.SortProofs Sop.proofs.DescrProofs.
Local Open Scope R_scope.
(* C02: the isotropy (trace/3 of the raw matrix) ignores the antisymmetric part and equals the mean eigenvalue
   of any orthonormal eigen-decomposition: it is frame independent. *)
Theorem trace_iso : (forall M, trace3 (symm M) = trace3 M) /\ (forall l F, Ortho F -> trace3 (recon l F) = 3 * avg3 l).
Proof. split; [exact trace_symm_l|exact trace_recon_l]. Qed.
Redirect "props/C02/trace_iso.assum" Print Assumptions trace_iso.
