Require Import Sop.model.NmrUtilsR Sop.proofs.SortProofs Sop.proofs.DescrProofs.
Local Open Scope R_scope.
(* C02: span = max - min >= 0; skew = 3(iso - mid)/span in [-1,1], 0 when the span vanishes. *)
Theorem span_skew : forall e : vec3,
  0 <= span e /\ (let '(x,y,z) := fst (evals_sort_i_True e) in span e = z - x) /\
  (let '(x,y,z) := fst (evals_sort_i_True e) in
     (span e <> 0 -> skew e = 3 * (iso e - y) / span e) /\ (span e = 0 -> skew e = 0)) /\
  -1 <= skew e <= 1.
Proof. intro e. repeat split; [apply span_nonneg_l|apply (span_minmax_l e)|apply (skew_def_l e)|apply skew_range_l|apply skew_range_l]. Qed.
Redirect "props/C02/span_skew.assum" Print Assumptions span_skew.
