Require Import Sop.model.NmrUtilsR Sop.proofs.SortProofs Sop.proofs.DescrProofs.
Local Open Scope R_scope.
(* C02: IUPAC/Mehring, Maryland/Herzfeld-Berger and Haeberlen tuples all determine the same three principal values. *)
Theorem notations : forall l : vec3,
  (let '(i,om,ka) := n_maryland l in dec_maryland i om ka = d_incr l) /\
  (let '(i,sg,dl,eta) := n_haeberlen l in dec_haeberlen i sg eta = d_haeb l /\ sg = 2/3 * dl) /\
  snd (n_iupac l) = d_incr l /\ Perm3 (d_incr l) (d_haeb l).
Proof. intro l. split; [apply (maryland_roundtrip_l l)|split; [apply (haeberlen_roundtrip_l l)|split; [reflexivity|apply haeb_incr_same_values_l]]]. Qed.
Redirect "props/C02/notations.assum" Print Assumptions notations.
