Require Import Sop.model.NmrUtilsR Sop.proofs.SortProofs Sop.proofs.DescrProofs.
Local Open Scope R_scope.
(* C02: reduced anisotropy = zz - iso = 2/3 anisotropy; asymmetry = (yy-xx)/reduced in [0,1], 0 when it vanishes. *)
Theorem redaniso_eta : forall e : vec3,
  (let '(x,y,z) := haeb e in
     anisotropy_True (haeb e) = z - iso e /\ anisotropy_True (haeb e) = 2/3 * anisotropy_False (haeb e)
     /\ anisotropy_False (haeb e) = z - (x + y) / 2) /\
  0 <= asymmetry (haeb e) <= 1 /\
  (let '(x,y,z) := haeb e in
     (anisotropy_True (haeb e) <> 0 -> asymmetry (haeb e) = (y - x) / anisotropy_True (haeb e)) /\
     (anisotropy_True (haeb e) = 0 -> asymmetry (haeb e) = 0)).
Proof. intro e. split; [apply (redaniso_def_l e)|split; [apply eta_range_l|apply (eta_def_l e)]]. Qed.
Redirect "props/C02/redaniso_eta.assum" Print Assumptions redaniso_eta.
