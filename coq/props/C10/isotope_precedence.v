From Coq Require Import ZArith Lia.
Require Import Sop.model.NmrPropsR Sop.proofs.NmrPropsProofs.
(* C10: the isotope used for a site follows the documented precedence for every combination of presence / absence: per-atom list entry,
   then per-element dictionary entry, then the quadrupolar default (when requested and tabulated), then the default isotope. *)
Theorem isotope_precedence : forall dflt qiso use_q dict lst,
  (forall l, lst = Some l -> iso_choice dflt qiso use_q dict lst = l) /\
  (forall d, lst = None -> dict = Some d -> iso_choice dflt qiso use_q dict lst = d) /\
  (forall q, lst = None -> dict = None -> use_q = true -> qiso = Some q -> iso_choice dflt qiso use_q dict lst = q) /\
  (lst = None -> dict = None -> (use_q = false \/ qiso = None) -> iso_choice dflt qiso use_q dict lst = dflt).
Proof. exact iso_precedence_l. Qed.
Redirect "props/C10/isotope_precedence.assum" Print Assumptions isotope_precedence.
