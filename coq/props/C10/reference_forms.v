From Coq Require Import ZArith Lia.
Require Import Sop.model.NmrPropsR Sop.proofs.NmrPropsProofs.
Local Open Scope R_scope.
(* C10: references and gradients given as a dictionary, as the per-site list obtained by expanding it, or as a float / the constant list
   address the same atoms; a list of the wrong length is refused; the unreferenced default is minus the shielding and the shift is
   affine in the shielding with slope grad / (1 + ref 1e-6). *)
Theorem reference_forms : forall syms d x dflt,
  (resolve syms (RDict d) dflt = resolve syms (RList (map (fun s => dlookup s d dflt) syms)) dflt /\
   resolve syms (RFloat x) dflt = resolve syms (RList (map (fun _ => x) syms)) dflt /\
   (forall l, length l <> length syms -> resolve syms (RList l) dflt = None) /\
   (forall r out, resolve syms r dflt = Some out -> length out = length syms)) /\
  (forall r g s s', 1 + r * (1 / 1000000) <> 0 ->
     shift 0 (-1) s = - s /\ shift r g s - shift r g s' = g * (s - s') / (1 + r * (1 / 1000000)) /\ shift r 0 s = r).
Proof. intros. split; [apply ref_forms_l|intros; apply shift_laws_l; assumption]. Qed.
Redirect "props/C10/reference_forms.assum" Print Assumptions reference_forms.
