From Coq Require Import ZArith Lia.
Require Import Sop.model.NmrPropsR Sop.proofs.NmrPropsProofs.
Local Open Scope R_scope.
(* C10: for every traceless spectrum the array route (last value of the GENERATED Haeberlen sort) and the object route (last value of the
   GENERATED NQR sort) give a Vzz of the same magnitude, and the same number whenever the three magnitudes are distinct; hence Cq, Pq and
   the NQR lines of the two routes coincide (they are the same functions of Vzz, eta, Q and I).  Also the enumerated m values of the
   NQR lines for spins 0 .. 9/2. *)
Theorem vzz_routes : forall e, avg3 e = 0 ->
  Rabs (vzz_array e) = Rabs (vzz_object e) /\
  ((let '(a, b, c) := e in Rabs a <> Rabs b /\ Rabs b <> Rabs c /\ Rabs a <> Rabs c) -> vzz_array e = vzz_object e).
Proof. exact vzz_routes_l. Qed.
Redirect "props/C10/vzz_routes.assum" Print Assumptions vzz_routes.
Theorem nqr_lines_enumerated : map nqr_ms2 [0; 1; 2; 3; 4; 5; 6; 7; 8; 9]%Z = [[]; []; [0]; [1]; [0; 2]; [1; 3]; [0; 2; 4]; [1; 3; 5]; [0; 2; 4; 6]; [1; 3; 5; 7]]%Z.
Proof. exact nqr_ms_small. Qed.
