From Coq Require Import ZArith List Bool Lia.
Import ListNotations.
Require Import Sop.model.Lattice Sop.proofs.LatticeProofs.
Local Open Scope Z_scope.
(* C03: the generated grid is exactly the symmetric integer box, and is confined to the periodic axes. *)
Theorem grid_enumerates :
  (forall b n, In n (grid b) <->
     (let '(bx,by_,bz) := b in let '(x,y,z) := n in -bx <= x <= bx /\ -by_ <= y <= by_ /\ -bz <= z <= bz)) /\
  (forall pbc b n, In n (grid (maskv pbc b)) -> admissible pbc n).
Proof. split; [exact grid_In|exact grid_mask]. Qed.
Redirect "props/C03/grid_enumerates.assum" Print Assumptions grid_enumerates.
