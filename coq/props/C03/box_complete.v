From Coq Require Import ZArith List Bool Lia.
Import ListNotations.
Require Import Sop.model.Lattice Sop.proofs.LatticeProofs.
Local Open Scope Z_scope.
(* C03: the supercell bounds computed for a radius (rho = r^2 = rn/rd) contain every lattice point inside that sphere,
   for a direct lattice with any pbc mask and for any positive-definite metric (e.g. the reciprocal one);
   the bound is exactly ceil(r*sqrt(Ginv_ii)). *)
Theorem box_complete :
  (forall L pbc n rn rd, det L <> 0 -> 0 <= rn -> 0 < rd -> admissible pbc n ->
     norm2 (comb n L) * rd <= rn -> In n (grid (bounds L pbc rn rd))) /\
  (forall G n rn rd i, PD G -> 0 <= rn -> 0 < rd -> (i < 3)%nat ->
     qform G n * rd <= rn -> Z.abs (nthv n i) <= bound_metric G rn rd i) /\
  (forall num den, 0 <= num -> 0 < den ->
     0 <= ceil_sqrt_frac num den /\ num <= ceil_sqrt_frac num den * ceil_sqrt_frac num den * den /\
     forall b', 0 <= b' -> num <= b'*b'*den -> ceil_sqrt_frac num den <= b').
Proof.
  split; [exact box_complete_l|split; [exact box_complete_metric_l|]].
  intros num den Hn Hd. pose proof (ceil_sqrt_frac_ge num den Hn Hd) as [A B].
  split; [exact A|split; [exact B|]]. intros b' Hb H. apply ceil_sqrt_frac_least; assumption.
Qed.
Redirect "props/C03/box_complete.assum" Print Assumptions box_complete.
Example nv : det (mkL 30 0 0 0 30 0 10 0 1) <> 0 /\ bounds (mkL 30 0 0 0 30 0 10 0 1) (true,true,true) 9 1 = (2,1,3).
Proof. vm_compute. split; [discriminate|reflexivity]. Qed.
