From Coq Require Import ZArith List Bool Lia.
Import ListNotations.
Require Import Sop.model.Lattice Sop.proofs.LatticeProofs.
Local Open Scope Z_scope.
(* C03: the all-images search returns exactly the periodic images no longer than the radius, each with its source
   index and cell (sound and complete, for vectors stored in any periodic image). *)
Theorem all_periodic_exact : forall L pbc rn rd vs w k c, det L <> 0 -> 0 <= rn -> 0 < rd ->
  In (w, k, c) (all_periodic_m L pbc rn rd vs) <->
  (0 <= k /\ exists v, nth_error vs (Z.to_nat k) = Some v /\ IsImage L pbc v w c /\ norm2 w * rd <= rn).
Proof. exact all_periodic_spec_l. Qed.
Redirect "props/C03/all_periodic_exact.assum" Print Assumptions all_periodic_exact.
Example nv : length (all_periodic_m (mkL 6 0 0 0 6 0 0 0 6) (true,true,true) 1 1 [(13,0,0)]) = 1%nat.
Proof. vm_compute. reflexivity. Qed.
