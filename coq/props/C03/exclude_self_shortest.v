From Coq Require Import ZArith List Bool Lia.
Import ListNotations.
Require Import Sop.model.Lattice Sop.proofs.LatticeProofs.
Local Open Scope Z_scope.
(* C03: with self-exclusion every vector gets its shortest NON-ZERO image; in particular a zero vector is replaced
   by a shortest non-zero lattice vector. *)
Theorem exclude_self_shortest : forall L pbc vs k v w c, det L <> 0 ->
  (exists i, (i < 3)%nat /\ nthm pbc i = true) ->
  nth_error vs k = Some v -> nth_error (minimum_periodic_m L pbc true vs) k = Some (w, c) ->
  IsMinNonzeroImage L pbc v w c.
Proof. exact minimum_periodic_excl_l. Qed.
Redirect "props/C03/exclude_self_shortest.assum" Print Assumptions exclude_self_shortest.
Example nv : minimum_periodic_m (mkL 300 0 0 0 300 0 100 0 10) (true,true,true) true [(0,0,0)] = [((0,0,-30),(1,0,-3))].
Proof. vm_compute. reflexivity. Qed.
