From Coq Require Import ZArith List Bool Lia.
Import ListNotations.
Require Import Sop.model.Lattice Sop.proofs.LatticeProofs.
Local Open Scope Z_scope.
(* C03: for any non-singular lattice, any pbc mask and ANY list of vectors (inside, outside, far outside the cell),
   the minimum-image reduction returns for each vector a periodic image of globally minimal length together with
   the integer cell offset that produces it. *)
Theorem minimum_periodic_exact : forall L pbc vs k v w c, det L <> 0 ->
  nth_error vs k = Some v -> nth_error (minimum_periodic_m L pbc false vs) k = Some (w, c) ->
  IsMinImage L pbc v w c.
Proof. exact minimum_periodic_exact_l. Qed.
Redirect "props/C03/minimum_periodic_exact.assum" Print Assumptions minimum_periodic_exact.
(* the sheared-cell witness of F-03a (scaled by 10): the far image (1,0,-3) of length^2 196 beats the input of length^2 256 *)
Example nv : minimum_periodic_m (mkL 300 0 0 0 300 0 100 0 10) (true,true,true) false [(0,0,16)] = [((0,0,-14),(1,0,-3))].
Proof. vm_compute. reflexivity. Qed.
