From Coq Require Import List Arith Bool Lia Permutation.
Import ListNotations.
Require Import Sop.model.Remap Sop.proofs.RemapProofs.
(* C17: for ANY chemical composition (species are arbitrary ids; the test is equality, so symbols that are prefixes of one another are
   different species), if every per-species assignment returned by the linear-sum-assignment oracle is a permutation of its group, the
   remapped index list is a permutation of all atom indices and pairs every reference atom with a structure atom of the same species. *)
Theorem remap_permutation : forall syms_s syms_r species cols,
  NoDup species -> (forall x, In x syms_r -> In x species) -> (forall x, In x syms_s -> In x species) -> length syms_s = length syms_r ->
  Forall2 (fun rs col => assignment_ok (fst rs) (snd rs) col)
          (combine (map (group Nat.eqb syms_r) species) (map (group Nat.eqb syms_s) species)) cols ->
  let r := remap Nat.eqb syms_s syms_r species cols in
  Permutation r (seq 0 (length syms_r)) /\
  forall i, i < length syms_r -> nth_error syms_s (nth i r 0) = nth_error syms_r i.
Proof. exact remap_species_l. Qed.
Redirect "props/C17/remap_permutation.assum" Print Assumptions remap_permutation.
(* non-vacuity: C/Cl/H structure (6, 17, 1), shuffled *)
Example nv : remap Nat.eqb [17; 6; 1; 6] [6; 6; 17; 1] [1; 6; 17] [[0]; [1; 0]; [0]] = [3; 1; 0; 2].
Proof. vm_compute. reflexivity. Qed.
(* with the substring test the code used before the repair ('C' in 'Cl'), the groups do not even partition the atoms *)
Example substring_groups_overlap :
  let mt x sp := Nat.eqb x sp || (Nat.eqb x 6 && Nat.eqb sp 17) in
  concat (map (group mt [6; 17]) [6; 17]) = [0; 0; 1].
Proof. vm_compute. reflexivity. Qed.
