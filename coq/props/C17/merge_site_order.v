From Coq Require Import List Arith Bool Lia Permutation.
Import ListNotations.
Require Import Sop.model.Remap Sop.proofs.RemapProofs.
(* C17: the result of a merge does not depend on the order in which the group's indices are listed; with keep_all off it leaves one
   site (at the lowest index of the group) carrying the strategies applied to the group, removes exactly the other members and leaves
   the sites before it untouched. *)
Theorem merge_site_order :
  (forall keep st ix ix', Permutation ix ix' -> merge keep st ix = merge keep st ix') /\
  (forall st indices i0 rest, NoDup indices -> Forall (fun i => i < length st) indices -> sort indices = i0 :: rest ->
     let grp := sel st (i0 :: rest) in let r := merge false st indices in
     nth i0 r dflt = mkSite (sum (map mult grp)) (tag (nth i0 st dflt)) (vsum (map vals grp)) /\
     length r + length rest = length st /\ firstn i0 r = firstn i0 st).
Proof. split; [exact merge_order_l|exact merge_site_l]. Qed.
Redirect "props/C17/merge_site_order.assum" Print Assumptions merge_site_order.
