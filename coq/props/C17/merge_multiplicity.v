From Coq Require Import List Arith Bool Lia Permutation.
Import ListNotations.
Require Import Sop.model.Remap Sop.proofs.RemapProofs.
(* C17: a merge of any group of distinct valid indices, listed in any order, with keep_all on or off, conserves the total
   multiplicity; so does any sequence of merges, and starting from unit multiplicities the total stays the number of original sites. *)
Theorem merge_multiplicity : forall keep st gs, valid_seq keep st gs ->
  total_mult (fold_left (merge keep) gs st) = total_mult st /\
  (Forall (fun s => mult s = 1) st -> total_mult (fold_left (merge keep) gs st) = length st).
Proof.
  intros keep st gs V. pose proof (merges_total_l keep st gs V) as T. split; [exact T|]. intros U. rewrite T. apply unit_total. exact U.
Qed.
Redirect "props/C17/merge_multiplicity.assum" Print Assumptions merge_multiplicity.
Example nv : let st := map (fun k => mkSite 1 k [k]) (seq 0 6) in
  map mult (fold_left (merge false) [[5; 1; 3]; [0; 2]] st) = [2; 3; 1] /\ valid_seq false st [[5; 1; 3]; [0; 2]].
Proof.
  split; [vm_compute; reflexivity|].
  apply vs_cons; [repeat constructor; cbn; intuition lia|repeat constructor; cbn; lia|].
  apply vs_cons; [repeat constructor; cbn; intuition lia|vm_compute; repeat constructor; lia|apply vs_nil].
Qed.
