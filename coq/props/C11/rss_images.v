From Coq Require Import ZArith List Bool Lia.
Import ListNotations.
Require Import Sop.model.Lattice Sop.proofs.LatticeProofs Sop.model.DipPairs Sop.proofs.DipProofs.
Local Open Scope Z_scope.
(* C11: for any non-singular cell, cutoff and positions stored in any periodic image, the set summed by DipolarRSS for atom i is exactly the
   periodic images of all atoms (its own copies included) at a distance 0 < r <= cutoff. *)
Theorem rss_images_exact : forall L rn rd pos pi w k c, det L <> 0 -> 0 <= rn -> 0 < rd ->
  In (w, k, c) (rss_images L rn rd pos pi) <->
  (0 <= k /\ exists p, nth_error pos (Z.to_nat k) = Some p /\ w = vadd (vsub p pi) (comb c L) /\ 0 < norm2 w /\ norm2 w * rd <= rn).
Proof. exact rss_spec_l. Qed.
Redirect "props/C11/rss_images.assum" Print Assumptions rss_images_exact.
