Require Import Sop.model.DipTensorR Sop.proofs.DipTensorProofs.
(* C11: for every coupling constant d and unit connecting vector r the full tensor is symmetric and traceless, has r as eigenvector with value 2d and
   every vector perpendicular to r as eigenvector with value -d (principal values (-d, -d, 2d), unique axis along r); fast rotation about a unit axis a
   gives the same form about a with d scaled by (3 cos^2(theta) - 1)/2, cos(theta) = r.a, and keeps the component along the axis. *)
Theorem dipolar_tensor :
  (forall d r, dot3 r r = 1 ->
     transp (dip_tensor d r) = dip_tensor d r /\ tr3 (dip_tensor d r) = 0 /\ mv (dip_tensor d r) r = sc3 (2 * d) r /\
     (forall u, dot3 u r = 0 -> mv (dip_tensor d r) u = sc3 (- d) u)) /\
  (forall d r a, dot3 a a = 1 ->
     dip_tensor_rot d r a = dip_tensor (d * (3 * (dot3 r a * dot3 r a) - 1) / 2) a /\
     dot3 a (mv (dip_tensor_rot d r a) a) = dot3 a (mv (dip_tensor d r) a)).
Proof. split; [exact dip_tensor_l|exact dip_rot_l]. Qed.
Redirect "props/C11/dipolar_tensor.assum" Print Assumptions dipolar_tensor.
