From Coq Require Import ZArith List Bool Lia.
Import ListNotations.
Require Import Sop.model.Lattice Sop.model.DipPairs Sop.proofs.DipProofs.
Local Open Scope Z_scope.
(* C11: the pair set is exactly what the two selections, the self-coupling and the isonuclear options define: (a, b) is a key iff a <= b, it
   joins an atom of one selection with an atom of the other, a <> b unless self-coupling, same element if isonuclear; no key is repeated;
   the set does not depend on which selection is given first; and processing the pairs in blocks of any size is processing them all. *)
Theorem pair_set :
  (forall elems si sj self_c iso a b, In (a, b) (pairs_m elems si sj self_c iso) <->
     (a <= b /\ ((In a si /\ In b sj) \/ (In b si /\ In a sj)) /\ (self_c = false -> a <> b) /\ (iso = true -> el_of elems a = el_of elems b))) /\
  (forall elems si sj self_c iso, NoDup (pairs_m elems si sj self_c iso)) /\
  (forall elems si sj self_c iso p, In p (pairs_m elems si sj self_c iso) <-> In p (pairs_m elems sj si self_c iso)) /\
  (forall (A B : Type) (f : A -> B) n l, (0 < n)%nat -> concat (map (map f) (chunks n l)) = map f l).
Proof.
  split; [exact pairs_spec_l|]. split; [intros; apply dedup_NoDup|]. split; [exact pairs_swap_l|]. intros A B f n l H. apply blocks_irrelevant_l. exact H.
Qed.
Redirect "props/C11/pair_set.assum" Print Assumptions pair_set.
Example nv : pairs_m [1; 1; 6] [0; 1; 2] [1; 2] false true = [(0, 1)] /\ pairs_m [1; 1; 6] [0; 2] [2; 0] true false = [(0, 0); (2, 2); (0, 2)].
Proof. vm_compute. split; reflexivity. Qed.
