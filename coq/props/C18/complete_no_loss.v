From Coq Require Import List Arith Bool Lia.
Import ListNotations.
Require Import Sop.model.Submitter Sop.proofs.SubmitterProofs Sop.proofs.SubmitterThms.
(* C18: whenever the loop is quiescent (at its head, stream exhausted, nothing waiting, nothing submitted) no temporary folder
   exists and every job produced so far that neither failed setup nor was discarded by a termination without continuation has been
   submitted exactly once and finalised exactly once; with continuation nothing is ever discarded, so a run that was stopped and
   resumed any number of times completes every job without loss or duplication. *)
Theorem complete_no_loss : forall max_jobs continuation stream lf s,
  reach max_jobs continuation (init stream lf) s -> quiescent s ->
  (folders s = [] /\
   forall n, n < nextname s -> cnt n (dropped s) = 0 -> nskip n s = 0 -> nsub n s = 1 /\ nfin n s = 1) /\
  (continuation = true -> forall n, n < nextname s -> nskip n s = 0 -> nsub n s = 1 /\ nfin n s = 1).
Proof.
  intros mj co stream lf s R Q. split; [exact (complete_l mj co stream lf s R Q)|].
  intros CO. exact (proj2 (resume_l mj co stream lf s CO R Q)).
Qed.
Redirect "props/C18/complete_no_loss.assum" Print Assumptions complete_no_loss.
(* non-vacuity: a run interrupted twice (continuation) and resumed reaches a quiescent state with all three passing jobs done *)
Example nv :
  let a := run 2 true 4000 9 (init [true; false; true; true] [1; 0; 2; 0]) in
  let b := run 2 true 4000 25 (restart true a) in
  let c := run 2 true 22 4999 (restart true b) in
  quiescent c /\ nextname c = 4 /\ map (fun n => nfin n c) [0; 1; 2; 3] = [1; 0; 1; 1].
Proof. vm_compute. repeat split; reflexivity. Qed.
