From Coq Require Import List Arith Bool Lia.
Import ListNotations.
Require Import Sop.model.Submitter Sop.proofs.SubmitterProgress.
(* C18, progress: from ANY state of the Submitter transition system (any program counter, any tables, flag set or cleared - in particular every state
   reachable under any interleaving of loop steps, termination requests and restarts), if no further signal arrives the loop reaches after finitely
   many steps either its exit, or - while the flag is still set - the top of the main loop with no job pending, waiting or outstanding.  Together with
   complete_no_loss / clean_shutdown (which say what holds AT those points) this closes the liveness half of "runs every job exactly once".
   Hypotheses: max_jobs >= 1; queue lifetimes are finite (every job stops being listed after its number of polls - part of the model's queue). *)
Theorem progress : forall max_jobs continuation, 1 <= max_jobs -> forall s, exists k, done (steps max_jobs continuation k s).
Proof. exact progress_l. Qed.
Redirect "props/C18/progress.assum" Print Assumptions progress.
(* the hypothesis on max_jobs is needed: with max_jobs = 0 a pending job is never drawn *)
Definition idle0 (s : st) : Prop :=
  pending s = [true] /\ running s = true /\ jobs s = [] /\ waiting s = [] /\ (at_ s = PLoop \/ at_ s = PFill \/ at_ s = PCheck [] [] \/ at_ s = PFin []).
Lemma idle0_step s : idle0 s -> idle0 (step 0 false s).
Proof.
  intros (P & R & J & Wt & A). destruct s as [p r nn pe w js q lf ni nf fo sv dr tr]. cbn in P, R, J, Wt, A. subst pe r js w.
  destruct A as [A|[A|[A|A]]]; subst p; cbn; unfold idle0; cbn; repeat split; auto.
Qed.
Example max_jobs_zero_livelock : forall k, ~ done (steps 0 false k (init [true] [1])).
Proof.
  assert (L: forall k s, idle0 s -> idle0 (steps 0 false k s)) by (induction k as [|k IH]; intros s H; cbn [steps]; [exact H|apply IH, idle0_step, H]).
  intros k D. assert (I0: idle0 (init [true] [1])) by (unfold idle0, init; cbn; repeat split; auto).
  destruct (L k _ I0) as (P & R & J & Wt & A). destruct D as [D|(D1 & D2 & D3 & D4 & D5)]; [destruct A as [A|[A|[A|A]]]; congruence|congruence].
Qed.
