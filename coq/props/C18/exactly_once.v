From Coq Require Import List Arith Bool Lia.
Import ListNotations.
Require Import Sop.model.Submitter Sop.proofs.SubmitterProofs Sop.proofs.SubmitterThms.
(* C18: in every reachable state (any schedule, any stop points, any number of restarts) every job has been submitted at most
   once, finalised at most once and only after having been submitted, and a job that failed setup is never submitted. *)
Theorem exactly_once : forall max_jobs continuation stream lf s n,
  reach max_jobs continuation (init stream lf) s ->
  nsub n s <= 1 /\ nfin n s <= 1 /\ nfin n s <= nsub n s /\ nskip n s + nsub n s <= 1.
Proof. exact once_l. Qed.
Redirect "props/C18/exactly_once.assum" Print Assumptions exactly_once.
