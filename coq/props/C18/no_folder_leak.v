From Coq Require Import List Arith Bool Lia.
Import ListNotations.
Require Import Sop.model.Submitter Sop.proofs.SubmitterProofs Sop.proofs.SubmitterThms.
(* C18: at every moment of every run a temporary folder exists exactly as many times as it is owned by a job that is waiting,
   being prepared / about to be removed, submitted and not finalised, or saved for the next run: failed setups, finalisations and
   terminations leak nothing. *)
Theorem no_folder_leak : forall max_jobs continuation stream lf s f,
  reach max_jobs continuation (init stream lf) s -> CF f s.
Proof. exact folders_l. Qed.
Redirect "props/C18/no_folder_leak.assum" Print Assumptions no_folder_leak.
