From Coq Require Import List Arith Bool Lia.
Import ListNotations.
Require Import Sop.model.Submitter Sop.proofs.SubmitterProofs Sop.proofs.SubmitterThms.
(* C18: wherever the termination request arrives, when the process has exited: without continuation the job table and the waiting
   list are empty, no temporary folder is left and every job that was submitted has been finalised; with continuation every job
   submitted and not finalised is in the saved job table. *)
Theorem clean_shutdown : forall max_jobs continuation stream lf s,
  reach max_jobs continuation (init stream lf) s -> at_ s = PExit ->
  (continuation = false -> jobs s = [] /\ waiting s = [] /\ folders s = [] /\ forall n, nsub n s = nfin n s) /\
  (continuation = true -> jobs s = [] /\ forall n, nsub n s = nfin n s + cnt n (names_of (saved_jobs s))).
Proof.
  intros mj co stream lf s R P. split; intros CO; [exact (clean_l mj co stream lf s CO R P)|exact (saved_l mj co stream lf s CO R P)].
Qed.
Redirect "props/C18/clean_shutdown.assum" Print Assumptions clean_shutdown.
Example nv : let s := run 2 false 4000 14 (init [true; true; true] [3; 3; 3]) in
  at_ s = PExit /\ map (fun n => nsub n s) [0; 1; 2] = [1; 1; 0] /\ length (trace s) = 24.
Proof. vm_compute. repeat split; reflexivity. Qed.
