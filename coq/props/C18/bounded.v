From Coq Require Import List Arith Bool Lia.
Import ListNotations.
Require Import Sop.model.Submitter Sop.proofs.SubmitterProofs Sop.proofs.SubmitterThms.
(* C18: under ANY interleaving of loop steps, termination requests and restarts, for any job stream, queue lifetimes and
   max_jobs, a Submitter never has more than max_jobs jobs submitted and not yet finalised. *)
Theorem bounded : forall max_jobs continuation stream lf s,
  reach max_jobs continuation (init stream lf) s -> length (jobs s) <= max_jobs.
Proof. exact bounded_l. Qed.
Redirect "props/C18/bounded.assum" Print Assumptions bounded.
(* non-vacuity: a reachable state with max_jobs = 2 jobs submitted at once *)
Example nv : let s := run 2 false 20 1000 (init [true; true; true] [3; 3; 3]) in
  reach 2 false (init [true; true; true] [3; 3; 3]) s /\ length (jobs s) = 2.
Proof. split; [apply run_reach; apply r_init|vm_compute; reflexivity]. Qed.
