Require Import Sop.model.NmrUtilsR Sop.proofs.EulerBase Sop.proofs.EulerThms Sop.proofs.EulerRanges.
Require Sop.proofs.EulerNormAY Sop.proofs.EulerNormAX Sop.proofs.EulerNormPY Sop.proofs.EulerNormPX.
(* C08: the folding into the NMR ranges (GENERATED from _normalise_euler_angles) only moves the angles inside their flip coset, so the tensor rebuilt from the
   normalised angles is the tensor rebuilt from the raw angles (any principal values, both conventions, both senses), and the result lies in the conventional
   ranges up to the tolerance eps the code uses at the folding boundaries. *)
Theorem normalise_reproduces :
  (forall a b c eps x y z, let e := normalise_euler_angles (a,b,c) false eps in
     mmul (mmul (rotY3 e) (diag x y z)) (mtr (rotY3 e)) = mmul (mmul (rotY a b c) (diag x y z)) (mtr (rotY a b c))) /\
  (forall a b c eps x y z, let e := normalise_euler_angles (a,b,c) false eps in
     mmul (mmul (rotX3 e) (diag x y z)) (mtr (rotX3 e)) = mmul (mmul (rotX a b c) (diag x y z)) (mtr (rotX a b c))) /\
  (forall a b c eps x y z, let e := normalise_euler_angles (a,b,c) true eps in
     mmul (mmul (mtr (rotY3 e)) (diag x y z)) (rotY3 e) = mmul (mmul (mtr (rotY a b c)) (diag x y z)) (rotY a b c)) /\
  (forall a b c eps x y z, let e := normalise_euler_angles (a,b,c) true eps in
     mmul (mmul (mtr (rotX3 e)) (diag x y z)) (rotX3 e) = mmul (mmul (mtr (rotX a b c)) (diag x y z)) (rotX a b c)).
Proof.
  repeat split.
  - intros a b c eps x y z. cbv zeta. destruct (EulerNormAY.normalise_coset a b c eps) as [f E]. eapply reproduce_right. exact E.
  - intros a b c eps x y z. cbv zeta. destruct (EulerNormAX.normalise_coset a b c eps) as [f E]. eapply reproduce_right. exact E.
  - intros a b c eps x y z. cbv zeta. destruct (EulerNormPY.normalise_coset a b c eps) as [f E]. eapply reproduce_left. exact E.
  - intros a b c eps x y z. cbv zeta. destruct (EulerNormPX.normalise_coset a b c eps) as [f E]. eapply reproduce_left. exact E.
Qed.
Redirect "props/C08/normalise_reproduces.assum" Print Assumptions normalise_reproduces.
Theorem normalise_ranges : forall a b c eps, 0 <= eps < PI / 2 ->
  (let '(a', b', c') := normalise_euler_angles (a, b, c) false eps in 0 <= a' < 2 * PI /\ 0 <= b' <= PI / 2 + eps /\ - eps <= c' < PI) /\
  (let '(a', b', c') := normalise_euler_angles (a, b, c) true eps in - eps <= a' < PI /\ 0 <= b' <= PI / 2 + eps /\ 0 <= c' < 2 * PI).
Proof. intros a b c eps H. split; [apply normalise_ranges_active; exact H|apply normalise_ranges_passive; exact H]. Qed.
