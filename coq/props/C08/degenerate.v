Require Import Sop.model.NmrUtilsR Sop.proofs.EulerBase Sop.proofs.EulerThms.
(* C08: axially symmetric tensors (first two principal values equal) are reproduced with the undetermined third angle set to zero, and isotropic tensors by any
   angles, in particular (0,0,0) - both conventions. *)
Theorem degenerate :
  (forall a b c x z, mmul (mmul (rotY a b c) (diag x x z)) (mtr (rotY a b c)) = mmul (mmul (rotY a b 0) (diag x x z)) (mtr (rotY a b 0))) /\
  (forall a b c x z, mmul (mmul (rotX a b c) (diag x x z)) (mtr (rotX a b c)) = mmul (mmul (rotX a b 0) (diag x x z)) (mtr (rotX a b 0))) /\
  (forall a b c x, mmul (mmul (rotY a b c) (diag x x x)) (mtr (rotY a b c)) = diag x x x /\ mmul (mmul (rotX a b c) (diag x x x)) (mtr (rotX a b c)) = diag x x x).
Proof. split; [exact axial_gamma_free|split; [exact axial_gamma_free_X|exact iso_any]]. Qed.
Redirect "props/C08/degenerate.assum" Print Assumptions degenerate.
