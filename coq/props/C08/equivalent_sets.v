Require Import Sop.model.NmrUtilsR Sop.proofs.EulerBase Sop.proofs.EulerThms.
Require Sop.proofs.EulerTabAY Sop.proofs.EulerTabAX Sop.proofs.EulerTabPY Sop.proofs.EulerTabPX.
(* C08: each of the four listed equivalent angle sets (GENERATED from _equivalent_euler) differs from the input by one of the four DISTINCT 180-degree flips of the
   principal axes, hence reproduces the same tensor - for both axis conventions, active (tensor = R D R^T) and passive (tensor = R^T D R). *)
Theorem equivalent_sets :
  (forall a b c x y z k, (k < 4)%nat -> let e := nth k (equivalent_euler_False (a,b,c)) (0,0,0) in
     mmul (mmul (rotY3 e) (diag x y z)) (mtr (rotY3 e)) = mmul (mmul (rotY a b c) (diag x y z)) (mtr (rotY a b c))) /\
  (forall a b c x y z k, (k < 4)%nat -> let e := nth k (equivalent_euler_False (a,b,c)) (0,0,0) in
     mmul (mmul (rotX3 e) (diag x y z)) (mtr (rotX3 e)) = mmul (mmul (rotX a b c) (diag x y z)) (mtr (rotX a b c))) /\
  (forall a b c x y z k, (k < 4)%nat -> let e := nth k (equivalent_euler_True (a,b,c)) (0,0,0) in
     mmul (mmul (mtr (rotY3 e)) (diag x y z)) (rotY3 e) = mmul (mmul (mtr (rotY a b c)) (diag x y z)) (rotY a b c)) /\
  (forall a b c x y z k, (k < 4)%nat -> let e := nth k (equivalent_euler_True (a,b,c)) (0,0,0) in
     mmul (mmul (mtr (rotX3 e)) (diag x y z)) (rotX3 e) = mmul (mmul (mtr (rotX a b c)) (diag x y z)) (rotX a b c)) /\
  NoDup EulerTabAY.eq_flips /\ NoDup EulerTabAX.eq_flips /\ NoDup EulerTabPY.eq_flips /\ NoDup EulerTabPX.eq_flips.
Proof.
  assert (ND: forall l : list flip, (forallb (fun p => match p with (x, y) => match x, y with FI, FI | Dx, Dx | Dy, Dy | Dz, Dz => false | _, _ => true end end) (list_prod l l) = false -> True)) by (intros; exact I).
  repeat split.
  - intros a b c x y z k Hk. destruct k as [|[|[|[|k]]]]; [| | | |exfalso; repeat (apply Lt.lt_S_n in Hk); inversion Hk]; cbv zeta;
      [eapply reproduce_right; apply EulerTabAY.eq_row0|eapply reproduce_right; apply EulerTabAY.eq_row1|eapply reproduce_right; apply EulerTabAY.eq_row2|eapply reproduce_right; apply EulerTabAY.eq_row3].
  - intros a b c x y z k Hk. destruct k as [|[|[|[|k]]]]; [| | | |exfalso; repeat (apply Lt.lt_S_n in Hk); inversion Hk]; cbv zeta;
      [eapply reproduce_right; apply EulerTabAX.eq_row0|eapply reproduce_right; apply EulerTabAX.eq_row1|eapply reproduce_right; apply EulerTabAX.eq_row2|eapply reproduce_right; apply EulerTabAX.eq_row3].
  - intros a b c x y z k Hk. destruct k as [|[|[|[|k]]]]; [| | | |exfalso; repeat (apply Lt.lt_S_n in Hk); inversion Hk]; cbv zeta;
      [eapply reproduce_left; apply EulerTabPY.eq_row0|eapply reproduce_left; apply EulerTabPY.eq_row1|eapply reproduce_left; apply EulerTabPY.eq_row2|eapply reproduce_left; apply EulerTabPY.eq_row3].
  - intros a b c x y z k Hk. destruct k as [|[|[|[|k]]]]; [| | | |exfalso; repeat (apply Lt.lt_S_n in Hk); inversion Hk]; cbv zeta;
      [eapply reproduce_left; apply EulerTabPX.eq_row0|eapply reproduce_left; apply EulerTabPX.eq_row1|eapply reproduce_left; apply EulerTabPX.eq_row2|eapply reproduce_left; apply EulerTabPX.eq_row3].
  - unfold EulerTabAY.eq_flips. repeat constructor; cbn; intuition discriminate.
  - unfold EulerTabAX.eq_flips. repeat constructor; cbn; intuition discriminate.
  - unfold EulerTabPY.eq_flips. repeat constructor; cbn; intuition discriminate.
  - unfold EulerTabPX.eq_flips. repeat constructor; cbn; intuition discriminate.
Qed.
Redirect "props/C08/equivalent_sets.assum" Print Assumptions equivalent_sets.
