From Coq Require Import ZArith List Reals Lra Lia.
Import ListNotations.
Require Import Sop.proofs.OctaProofs.
Local Open Scope R_scope.
(* C13, TriAvg orientation sets as point sets.  Mode 'sphere' is the set of integer points r of the octahedron surface |x| + |y| + |z| = N, each
   taken once (oct N), mode 'hemisphere' its part with z >= 0 (hemi N); they are used as directions r/|r| with weights |r|^-3.  For ANY weight
   function unchanged by the sign flips and the coordinate swaps (the code's weight depends on |r| only; the factor 1/|r|^2 that turns r.T.r into
   n.T.n can be folded into it) and ANY 3x3 matrix T:
   - over the sphere set the weighted sum of r.T.r is (trace T) x the weighted sum of x^2: the weighted average of every traceless rank-2
     function is EXACTLY zero, for every N;
   - over the hemisphere set it is (T11 + T22) Sxx + T33 Szz: all off-diagonal terms cancel exactly and a traceless T is left with
     T33 (Szz - Sxx), which is what the run measures to shrink like 1/N. *)
Theorem sphere_traceless : forall (w : pt -> R) (N : Z), wsym w -> (0 <= N)%Z ->
  (NoDup (oct N) /\ forall x y z, In (x, y, z) (oct N) <-> (Z.abs x + Z.abs y + Z.abs z = N)%Z) /\
  (NoDup (hemi N) /\ forall x y z, In (x, y, z) (hemi N) <-> (Z.abs x + Z.abs y + Z.abs z = N /\ 0 <= z)%Z) /\
  forall t11 t12 t13 t21 t22 t23 t31 t32 t33,
    rsum (fun r => w r * qform t11 t12 t13 t21 t22 t23 t31 t32 t33 r) (oct N) = (t11 + t22 + t33) * rsum (fun r => w r * (X r * X r)) (oct N) /\
    (t11 + t22 + t33 = 0 -> rsum (fun r => w r * qform t11 t12 t13 t21 t22 t23 t31 t32 t33 r) (oct N) = 0) /\
    rsum (fun r => w r * qform t11 t12 t13 t21 t22 t23 t31 t32 t33 r) (hemi N)
      = (t11 + t22) * rsum (fun r => w r * (X r * X r)) (hemi N) + t33 * rsum (fun r => w r * (Zc r * Zc r)) (hemi N).
Proof.
  intros w N W HN. destruct (oct_syms N HN) as (O1 & O2 & _ & O4 & O5). destruct (hemi_syms N HN) as (H1 & H2 & H3).
  split; [split; [apply oct_NoDup|intros x y z; apply oct_In; exact HN]|]. split; [split; [apply hemi_NoDup|intros x y z; apply hemi_In; exact HN]|].
  intros. assert (Q: rsum (fun r => w r * qform t11 t12 t13 t21 t22 t23 t31 t32 t33 r) (oct N) = (t11 + t22 + t33) * rsum (fun r => w r * (X r * X r)) (oct N)).
  { apply (quad_sum w (oct N) (oct_NoDup N) (wsym_wsym3 w W) O1 O2 O4 O5). intros r. apply W. }
  split; [exact Q|]. split; [intros T; rewrite Q, T; ring|].
  apply (quad_sum_axial w (hemi N) (hemi_NoDup N) (wsym_wsym3 w W) H1 H2 H3).
Qed.
Redirect "props/C13/sphere_traceless.assum" Print Assumptions sphere_traceless.
Example nv : length (oct 3) = 38%nat /\ length (hemi 3) = 25%nat /\ In (1, -2, 0)%Z (oct 3). Proof. split; [vm_compute; reflexivity|split; [vm_compute; reflexivity|apply oct_In; lia]]. Qed.
