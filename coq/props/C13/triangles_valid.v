From Coq Require Import ZArith List Bool Lia.
Import ListNotations.
Require Import Sop.model.TriAvg Sop.proofs.TriAvgProofs.
Local Open Scope Z_scope.
(* C13: for EVERY N the index triples produced by the two comprehensions of TriAvg.get_orient_points are exactly the unit cells of the
   lattice on the octahedron face - up (z,p),(z,p+1),(z+1,p) and down (z,p),(z+1,p-1),(z+1,p) - every vertex index is a valid point index,
   and different lattice points have different indices (so every triangle has three distinct, affinely independent vertices). *)
Theorem triangles_valid : forall N,
  up_tris N = map (up_of N) (up_cells N) /\ down_tris N = map (down_of N) (down_cells N) /\
  (forall a b c, In (a, b, c) (tris N) -> 0 <= a < npoints N /\ 0 <= b < npoints N /\ 0 <= c < npoints N) /\
  (forall z p z' p', 0 <= z <= N -> 0 <= p <= N - z -> 0 <= z' <= N -> 0 <= p' <= N - z' -> idx N z p = idx N z' p' -> z = z' /\ p = p').
Proof. intros N. split; [apply up_tris_cells|split; [apply down_tris_cells|split; [apply tris_valid_l|apply idx_inj]]]. Qed.
Redirect "props/C13/triangles_valid.assum" Print Assumptions triangles_valid.
Example nv : tris 2 = [(0,1,3); (1,2,4); (3,4,5); (1,3,4)] /\ npoints 2 = 6.
Proof. vm_compute. split; reflexivity. Qed.
