From Coq Require Import ZArith List Bool Lia.
Import ListNotations.
Require Import Sop.model.TriAvg Sop.proofs.TriAvgProofs.
Local Open Scope Z_scope.
(* C13: for every requested size the ZCW recurrence stops at a set of at least that many orientations (n = 0..N-1, uniform weights 1/N,
   which sum to one), and every orientation lies in the requested region: cos(theta) = ct/N in [-1,1) for the sphere, (0,1] for hemisphere
   and octant; phi/(2 pi) = ph/(c2 N) in [0, 1/c2) with c2 = 1, 1, 4. *)
Theorem zcw_sets : forall req,
  (req <= snd (zcw_gN req) /\ 21 <= snd (zcw_gN req)) /\
  (forall mode g N n, 0 < N -> 0 <= n < N ->
     0 <= zcw_phi_num g N n < N /\ (mode = 0 -> - N <= zcw_ct_num mode N n < N) /\ (mode <> 0 -> 0 < zcw_ct_num mode N n <= N)).
Proof. intros req. split; [apply zcw_count_l|intros; apply zcw_region_l; assumption]. Qed.
Redirect "props/C13/zcw_sets.assum" Print Assumptions zcw_sets.
Example nv : zcw_gN 100 = (89, 144) /\ zcw_gN 21 = (13, 21) /\ zcw_gN 5000 = (4181, 6765).
Proof. vm_compute. repeat split; reflexivity. Qed.
