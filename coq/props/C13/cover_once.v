From Coq Require Import ZArith List Bool Lia.
Import ListNotations.
Require Import Sop.model.TriAvg Sop.proofs.TriAvgProofs.
Local Open Scope Z_scope.
(* C13: exact cover.  For every N and every point (a, b, c)/M of the face a + b + c = N (any scaling M) that is not on a grid line, the point lies
   in EXACTLY ONE of the listed triangles (closed unit cells): one up cell and no down cell, or one down cell and no up cell.  With the sign
   vectors of the mode this is exactly-once cover of the octant / hemisphere / sphere up to the measure-zero edges. *)
Theorem cover_once : forall M N a b c, 0 < M -> 0 <= a -> 0 <= b -> 0 <= c -> a + b + c = N * M ->
  a mod M <> 0 -> b mod M <> 0 -> c mod M <> 0 ->
  (exists cell, In cell (up_cells N) /\ in_up M N cell (a, b, c) /\
                (forall cell', In cell' (up_cells N) -> in_up M N cell' (a, b, c) -> cell' = cell) /\
                (forall cell', In cell' (down_cells N) -> ~ in_down M N cell' (a, b, c))) \/
  (exists cell, In cell (down_cells N) /\ in_down M N cell (a, b, c) /\
                (forall cell', In cell' (down_cells N) -> in_down M N cell' (a, b, c) -> cell' = cell) /\
                (forall cell', In cell' (up_cells N) -> ~ in_up M N cell' (a, b, c))).
Proof. exact cover_once_l. Qed.
Redirect "props/C13/cover_once.assum" Print Assumptions cover_once.
