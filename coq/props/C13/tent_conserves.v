Require Import Sop.model.TentR Sop.proofs.TentProofs.
(* C13 (and C12): the binned triangle average deposits, for every triangle with sorted vertex frequencies f0 <= f1 <= f2, exactly its whole
   weight in any contiguous bins e0 <= e1 <= ... that cover its frequencies: [f0, f2] inside [e0, eK] when the triangle is not flat (two equal
   vertices allowed), and e0 <= f < eK for a flat triangle f0 = f1 = f2 = f (a delta function, counted in the half-open bin holding it). *)
Theorem tent_conserves : forall f0 f1 f2 e0 edges, f0 <= f1 -> f1 <= f2 -> sorted_from e0 edges ->
  (f0 < f2 -> e0 <= f0 -> f2 <= last_of e0 edges -> total f0 f1 f2 e0 edges = 1) /\
  (f0 = f2 -> e0 <= f0 -> f0 < last_of e0 edges -> total f0 f1 f2 e0 edges = 1).
Proof.
  intros f0 f1 f2 e0 edges H01 H12 S. split.
  - intros H02 L U. apply tent_conserves_l; assumption.
  - intros E L U. assert (f1 = f0) by lra. subst f1 f2. apply flat_conserves_l; assumption.
Qed.
Redirect "props/C13/tent_conserves.assum" Print Assumptions tent_conserves.
