From Coq Require Import ZArith List Bool Lia Sorted.
Import ListNotations.
Require Import Sop.model.Sel Sop.proofs.SelProofs.
Local Open Scope Z_scope.
Require Import Sop.model.Lattice Sop.proofs.LatticeProofs.
(* C07: the element and array-comparison selectors select exactly the atoms satisfying their criterion; the periodic sphere
   selector (absolute coordinates) selects exactly the atoms and images within the radius (C03 all_periodic theorem applied to
   the vectors position - centre). *)
Theorem selectors :
  (forall syms e i, In i (from_element syms e) <-> (0 <= i /\ nth_error syms (Z.to_nat i) = Some e)) /\
  (forall vals c v i, In i (from_array vals c v) <->
     (0 <= i /\ exists x, nth_error vals (Z.to_nat i) = Some x /\ cmpf c x v = true)) /\
  (forall L pbc rn rd centre pos w k c, det L <> 0 -> 0 <= rn -> 0 < rd ->
     In (w, k, c) (all_periodic_m L pbc rn rd (map (fun p => vsub p centre) pos)) <->
     (0 <= k /\ exists p, nth_error pos (Z.to_nat k) = Some p /\ IsImage L pbc (vsub p centre) w c /\ norm2 w * rd <= rn)).
Proof.
  split; [exact from_element_spec_l|split; [exact from_array_spec_l|]].
  intros L pbc rn rd centre pos w k c HD Hn Hd. rewrite (all_periodic_spec_l L pbc rn rd _ w k c HD Hn Hd). split.
  - intros (K & v & N & R). split; [exact K|]. rewrite nth_error_map in N. destruct (nth_error pos (Z.to_nat k)) as [p|]; [|discriminate].
    cbn in N. inversion N; subst. exists p. tauto.
  - intros (K & p & N & R). split; [exact K|]. exists (vsub p centre). rewrite nth_error_map, N. tauto.
Qed.
Redirect "props/C07/selectors.assum" Print Assumptions selectors.
