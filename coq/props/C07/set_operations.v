From Coq Require Import ZArith List Bool Lia Sorted.
Import ListNotations.
Require Import Sop.model.Sel Sop.proofs.SelProofs.
Local Open Scope Z_scope.
(* C07: sum, difference and product of selections on the same system are exactly the union, difference and intersection
   of their atom indices, without duplicates (and in ascending order); different compositions are refused. *)
Theorem set_operations : forall a b r,
  (wf a -> wf b -> natoms a = natoms b -> sadd a b = Ok r ->
     NoDup (idx r) /\ StronglySorted Z.lt (idx r) /\ forall i, In i (idx r) <-> (In i (idx a) \/ In i (idx b))) /\
  (wf a -> ssub a b = Ok r ->
     NoDup (idx r) /\ StronglySorted Z.lt (idx r) /\ forall i, In i (idx r) <-> (In i (idx a) /\ ~ In i (idx b))) /\
  (wf a -> smul a b = Ok r ->
     NoDup (idx r) /\ StronglySorted Z.lt (idx r) /\ forall i, In i (idx r) <-> (In i (idx a) /\ In i (idx b))) /\
  (compatible a b = false -> sadd a b = Refused /\ ssub a b = Refused /\ smul a b = Refused).
Proof.
  intros a b r. split; [apply sadd_idx|split; [apply ssub_idx|split; [apply smul_idx|apply different_composition_refused_l]]].
Qed.
Redirect "props/C07/set_operations.assum" Print Assumptions set_operations.
Example nv : enc_out (sadd (mks 4 7 [2;0] [(0,[20;0])]) (mks 4 7 [1;2] [(0,[10;20])])) = [0; 3; 0;1;2; 1; 0;3; 0;10;20].
Proof. vm_compute. reflexivity. Qed.
