From Coq Require Import ZArith List Bool Lia Sorted.
Import ListNotations.
Require Import Sop.model.Sel Sop.proofs.SelProofs.
Local Open Scope Z_scope.
(* C07: selection strings (after tokenisation).  Whatever the item list - elements, indexed sites, ranges, CIF labels, bare site
   numbers continuing an indexed item - an accepted string selects a duplicate-free index list; a bare element selects exactly the
   atoms of that element in atom order; 'El.i' selects the i-th atom of that element. *)
Theorem selection_strings :
  (forall syms labels items prev g l, from_items syms labels items prev g = Ok l -> NoDup l) /\
  (forall syms labels e, memz e syms = true -> from_items syms labels [IEl e] None [] = Ok (from_element syms e)) /\
  (forall syms labels e i x, memz e syms = true -> 1 <= i -> nth_error (from_element syms e) (Z.to_nat (i - 1)) = Some x ->
     from_items syms labels [IIdx e [SOne i]] None [] = Ok [x]).
Proof. split; [exact from_items_NoDup|split; [exact from_items_element|exact from_items_site]]. Qed.
Redirect "props/C07/selection_strings.assum" Print Assumptions selection_strings.
(* 'Si.1-3,5' on Si5: the documented example *)
Example nv : from_items [14;14;14;14;14] [1;1;1;1;1] [IIdx 14 [SRange 1 3]; IBare [SOne 5]] None [] = Ok [0;1;2;4].
Proof. vm_compute. reflexivity. Qed.
