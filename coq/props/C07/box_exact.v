From Coq Require Import ZArith List Bool Lia.
Import ListNotations.
Require Import Sop.model.Lattice Sop.proofs.LatticeProofs Sop.proofs.BoxProofs.
Local Open Scope Z_scope.
(* C07: the periodic box selector (absolute coordinates) selects exactly the atoms and images lying strictly inside the box, each
   with its atom index and cell, wherever the stored copy of the atom is (w is reported in doubled coordinates about the box centre). *)
Theorem box_exact : forall L pbc lo hi pos w k c, det L <> 0 ->
  In (w, k, c) (box_m L pbc lo hi pos) <->
  (0 <= k /\ exists p, nth_error pos (Z.to_nat k) = Some p /\ admissible pbc c /\
     w = vsub (smul 2 (vadd p (comb c L))) (vadd lo hi) /\ inside lo hi (vadd p (comb c L))).
Proof. exact box_spec_l. Qed.
Redirect "props/C07/box_exact.assum" Print Assumptions box_exact.
Example nv : map (fun x => snd x) (box_m (mkL 6 0 0 0 6 0 0 0 6) (true,true,true) (10,-1,-1) (20,1,1) [(1,0,0)]) = [(2,0,0); (3,0,0)].
Proof. vm_compute. reflexivity. Qed.
