From Coq Require Import ZArith List Bool Lia Sorted.
Import ListNotations.
Require Import Sop.model.Sel Sop.proofs.SelProofs.
Local Open Scope Z_scope.
(* C07: every array carried by a result holds, for each selected atom, the value that atom had in the operand it came from
   (sum: common arrays, self's value on common atoms; difference: self's arrays; product: arrays of either operand, a conflicting
   array is dropped); slicing applies one list of positions to the indices and to every array. *)
Theorem arrays_aligned : forall a b r k vr,
  (sadd a b = Ok r -> In (k, vr) (sarrays r) ->
     exists va vb, In (k, va) (sarrays a) /\ In (k, vb) (sarrays b) /\
       Forall2 (fun i v => match val_last (idx a) va i with Some x => Some x | None => val_last (idx b) vb i end = Some v) (idx r) vr) /\
  (ssub a b = Ok r -> In (k, vr) (sarrays r) ->
     exists va, In (k, va) (sarrays a) /\ Forall2 (fun i v => val_first (idx a) va i = Some v) (idx r) vr) /\
  (smul a b = Ok r -> In (k, vr) (sarrays r) ->
     (exists va, lookup k (sarrays a) = Some va /\ Forall2 (fun i v => val_first (idx a) va i = Some v) (idx r) vr) \/
     (exists vb, lookup k (sarrays b) = Some vb /\ Forall2 (fun i v => val_first (idx b) vb i = Some v) (idx r) vr)).
Proof. intros a b r k vr. split; [apply sadd_aligned|split; [apply ssub_aligned|apply smul_aligned]]. Qed.
Redirect "props/C07/arrays_aligned.assum" Print Assumptions arrays_aligned.
Theorem slicing_aligned : forall s ps r, sget s ps = Ok r ->
  Forall2 (fun p i => nthZ (idx s) p = Some i) ps (idx r) /\
  forall k vr, In (k, vr) (sarrays r) -> exists v, In (k, v) (sarrays s) /\ Forall2 (fun p x => nthZ v p = Some x) ps vr.
Proof. exact sget_aligned. Qed.
