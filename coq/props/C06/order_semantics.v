From Coq Require Import ZArith List Bool Lia Permutation Sorted.
Import ListNotations.
Require Import Sop.model.Coll Sop.proofs.CollProofs.
Local Open Scope Z_scope.
(* C06: structures appear in the order the operation defines: selection by positions, concatenation with padding on the side
   where an array is missing, filter/classify in original order. *)
Theorem order_semantics :
  (forall c idx c', select c idx = Ok c' -> take (structs c) idx = Some (structs c')) /\
  (forall c p c', filter_c c p = Ok c' -> structs c' = filter p (structs c)) /\
  (forall c cls k c', classify_c c cls k = Ok c' -> structs c' = filter (fun s => cls s =? k) (structs c)) /\
  (forall c o, structs (add c o) = structs c ++ structs o /\
     (forall n r1, lookup n (arrays c) = Some r1 ->
        exists rows, In (n, rows) (arrays (add c o)) /\
          rows = r1 ++ match lookup n (arrays o) with Some r2 => r2 | None => pads (length (structs o)) end) /\
     (forall n r2, In (n, r2) (arrays o) -> has c n = false -> In (n, pads (length (structs c)) ++ r2) (arrays (add c o)))).
Proof. repeat split; try apply add_spec_l; [exact select_structs|exact filter_spec_l|exact classify_spec_l]. Qed.
Redirect "props/C06/order_semantics.assum" Print Assumptions order_semantics.
