From Coq Require Import ZArith List Bool Lia Permutation Sorted.
Import ListNotations.
Require Import Sop.model.Coll Sop.proofs.CollProofs.
Local Open Scope Z_scope.
(* C06: starting from any collection whose arrays are attached to their structures, ANY sequence of indexing, concatenation,
   sorting, filtering, classification, chunking, deep copy, save/load and array assignment yields a collection in which row k of
   every array belongs to structure k (or is padding created by +) and array and structure counts agree. *)
Theorem history_inv : forall keyf ops c c', Inv c -> Forall wf_op ops -> run keyf c ops = Ok c' ->
  Inv c' /\ forall n rows, In (n, rows) (arrays c') -> length rows = length (structs c').
Proof. intros keyf ops c c' H W R. pose proof (history_inv_l keyf ops c c' H W R) as I. split; [exact I|apply inv_lengths, I]. Qed.
Redirect "props/C06/history_inv.assum" Print Assumptions history_inv.
Theorem step_preserves_inv : forall keyf c o c', Inv c -> wf_op o -> step keyf c o = Ok c' -> Inv c'.
Proof. exact step_preserves_inv_l. Qed.
Example nv : Inv (mkcoll [3;1;2] [(0,[3;1;2]); (1,[3;-1;2])]).
Proof.
  intros n rows [H|[H|[]]]; inversion H; subst; cbn; repeat (constructor; [unfold row_ok; auto|]); constructor.
Qed.
