From Coq Require Import ZArith List Bool Lia Permutation Sorted.
Import ListNotations.
Require Import Sop.model.Coll Sop.proofs.CollProofs.
Local Open Scope Z_scope.
(* C06: chunks concatenate back to the original collection and every chunk but the last has the requested size
   (for chunk_size and for chunk_n). *)
Theorem chunk_concat : forall c size n l, chunkify c size n = Ok l ->
  concat (map structs l) = structs c /\
  (forall k, chunk_size_of c size n = Some k -> forall i x, nth_error l i = Some x ->
     (S i < length l)%nat -> length (structs x) = Z.to_nat k).
Proof. exact chunk_concat_l. Qed.
Redirect "props/C06/chunk_concat.assum" Print Assumptions chunk_concat.
Example nv : exists l, chunkify (mkcoll [1;2;3;4;5] [(0,[1;2;3;4;5])]) (Some 2) None = Ok l /\ length l = 3%nat.
Proof. eexists. split; [vm_compute; reflexivity|reflexivity]. Qed.
