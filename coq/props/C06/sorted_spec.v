From Coq Require Import ZArith List Bool Lia Permutation Sorted.
Import ListNotations.
Require Import Sop.model.Coll Sop.proofs.CollProofs.
Local Open Scope Z_scope.
(* C06: sorting by an array applies ONE permutation of the positions to the structures and to every array, and the key
   column is non-decreasing (non-increasing with reverse) along it. *)
Theorem sorted_spec : forall rev keys,
  Permutation (argsort rev keys) (map Z.of_nat (seq 0 (length keys))) /\
  exists pairs, argsort rev keys = map snd pairs /\ Sorted (le_pair rev) pairs /\
                forall k i, In (k, i) pairs -> nthZ keys i = Some k.
Proof. exact argsort_spec_l. Qed.
Redirect "props/C06/sorted_spec.assum" Print Assumptions sorted_spec.
Example stable_ties : argsort false [2;1;2;1] = [1;3;0;2] /\ argsort true [2;1;2;1] = [0;2;1;3].
Proof. vm_compute. auto. Qed.
