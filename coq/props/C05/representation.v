From Coq Require Import ZArith List Bool Lia.
Import ListNotations.
Require Import Sop.model.Lattice Sop.proofs.LatticeProofs Sop.proofs.ReprProofs.
Local Open Scope Z_scope.
(* C05, at the level of the specifications every distance-derived theorem of C03 / C04 / C07 / C11 is stated against:
   (1) moving an atom by a lattice vector only re-labels the periodic images of its pair vectors, and the minimum-image length is unchanged;
   (2) a unimodular re-description of the cell, L' = U L with integer inverse, has the same periodic images of every vector;
   (3) rotating structure and cell by an orthogonal integer matrix leaves the length of every image unchanged, and a rigid translation cancels in
       every pair difference. *)
Theorem representation :
  (forall L pbc v m w n, admissible pbc m -> (IsImage L pbc (vadd v (comb m L)) w n <-> IsImage L pbc v w (vadd n m))) /\
  (forall L pbc v m w c w' c', det L <> 0 -> admissible pbc m ->
     IsMinImage L pbc v w c -> IsMinImage L pbc (vadd v (comb m L)) w' c' -> norm2 w' = norm2 w) /\
  (forall U V L v w, mmul V U = ident -> ((exists n, w = vadd v (comb n (mmul U L))) <-> (exists n, w = vadd v (comb n L)))) /\
  (forall Q L v n, orthonormal Q -> norm2 (vadd (comb v Q) (comb n (mmul L Q))) = norm2 (vadd v (comb n L))) /\
  (forall t a b, vsub (vadd b t) (vadd a t) = vsub b a).
Proof.
  split; [exact image_shift|]. split; [exact min_length_shift|]. split; [exact unimodular_same_images|]. split; [exact rotation_invariant|exact translation_invariant].
Qed.
Redirect "props/C05/representation.assum" Print Assumptions representation.
(* the model of the code inherits it: the minimum image of (0,0,16) and of its copy shifted by (2,-1,3) cells have the same length *)
Example nv : map (fun r => norm2 (fst r)) (minimum_periodic_m (mkL 300 0 0 0 300 0 100 0 10) (true,true,true) false
                    [(0,0,16); vadd (0,0,16) (comb (2,-1,3) (mkL 300 0 0 0 300 0 100 0 10))]) = [196; 196].
Proof. vm_compute. reflexivity. Qed.
