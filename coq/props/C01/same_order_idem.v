Require Import Sop.model.NmrUtilsR Sop.proofs.SortProofs Sop.proofs.FrameProofs.
Local Open Scope R_scope.
(* C01: assigning the order a tensor already has only re-applies the cross product, which leaves a
   right-handed orthonormal frame unchanged. *)
Theorem same_order_idem : forall F, Ortho F -> det3 F = 1 -> order_frame (0,1,2)%nat F = F.
Proof. exact same_order_idem_l. Qed.
Redirect "props/C01/same_order_idem.assum" Print Assumptions same_order_idem.
