Require Import Sop.model.NmrUtilsR Sop.proofs.SortProofs Sop.proofs.FrameProofs.
Local Open Scope R_scope.
(* C01: ordering an orthonormal eigen-frame by any convention gives a right-handed orthonormal frame that
   reconstructs the same symmetric matrix, with the eigenvalues arranged as the convention defines. *)
Theorem construct_spec : forall c l F, Ortho F ->
  let '(s,G) := construct c (l,F) in
  Ortho G /\ det3 G = 1 /\ recon s G = recon l F /\ s = sortc c l.
Proof. exact construct_spec_l. Qed.
Redirect "props/C01/construct_spec.assum" Print Assumptions construct_spec.
Example nv : Ortho ((0,1,0),(1,0,0),(0,0,1)) /\ det3 ((0,1,0),(1,0,0),(0,0,1)) = -1.
Proof. unfold Ortho, det3, dot, cross, of_Z. repeat split; lra. Qed.
