Require Import Sop.model.NmrUtilsR Sop.proofs.SortProofs Sop.proofs.FrameProofs.
Local Open Scope R_scope.
(* C01: the defining chains of the four conventions, all tie patterns included. *)
Theorem sort_chains : forall e : vec3,
  (let '(x,y,z) := fst (evals_sort_i_True e) in x <= y <= z) /\
  (let '(x,y,z) := fst (evals_sort_d_True e) in z <= y <= x) /\
  (let '(x,y,z) := fst (evals_sort_h_True e) in let m := avg3 e in Rabs (y-m) <= Rabs (x-m) <= Rabs (z-m)) /\
  (let '(x,y,z) := fst (evals_sort_n_True e) in Rabs x <= Rabs y <= Rabs z) /\
  haeb_sort_True e = evals_sort_h_True e.
Proof. intro e. repeat split; [apply (sort_incr_l e)|apply (sort_decr_l e)|apply (sort_haeb_l e)|apply (sort_nqr_l e)]. Qed.
Redirect "props/C01/sort_chains.assum" Print Assumptions sort_chains.
