Require Import Sop.model.NmrUtilsR Sop.proofs.SortProofs Sop.proofs.FrameProofs.
Local Open Scope R_scope.
(* C01: construction from an (eigenvalues, eigenvectors) pair is equivalent to construction from the
   matrix it defines (eigen-solver contract and spectrum uniqueness as oracle hypotheses). *)
Theorem from_pair_equiv : forall (eigh : mat3 -> vec3 * frame),
  (forall S, transpose S = S -> let '(l,F) := eigh S in Ortho F /\ recon l F = S) ->
  (forall l F, Ortho F -> Perm3 l (fst (eigh (recon l F)))) ->
  forall c l F, Ortho F -> distinct3 (key c l) ->
    let '(s1,G1) := construct c (l,F) in
    let '(s2,G2) := construct c (eigh (recon l F)) in
    s1 = s2 /\ recon s1 G1 = recon s2 G2 /\ Ortho G2 /\ det3 G2 = 1.
Proof. exact from_pair_equiv_l. Qed.
Redirect "props/C01/from_pair_equiv.assum" Print Assumptions from_pair_equiv.
