Require Import Sop.model.NmrUtilsR Sop.proofs.SortProofs Sop.proofs.FrameProofs.
Local Open Scope R_scope.
(* C01: construction from any real 3x3 matrix through an eigen-solver meeting its contract (oracle hypothesis):
   reconstructs exactly the symmetric part, right-handed orthonormal frame, convention order. *)
Theorem from_matrix_spec : forall (eigh : mat3 -> vec3 * frame),
  (forall S, transpose S = S -> let '(l,F) := eigh S in Ortho F /\ recon l F = S) ->
  forall c M, let '(s,G) := construct c (eigh (symm M)) in
    Ortho G /\ det3 G = 1 /\ recon s G = symm M /\ s = sortc c (fst (eigh (symm M))).
Proof. exact from_matrix_spec_l. Qed.
Redirect "props/C01/from_matrix_spec.assum" Print Assumptions from_matrix_spec.
