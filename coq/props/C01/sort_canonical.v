Require Import Sop.model.NmrUtilsR Sop.proofs.SortProofs Sop.proofs.FrameProofs.
Local Open Scope R_scope.
(* C01: the ordered spectrum depends only on the multiset of eigenvalues whenever the keys of the
   convention are tie-free (always for increasing/decreasing): hence re-ordering an existing tensor
   equals constructing it with that order. *)
Theorem sort_canonical :
  (forall c l l', Perm3 l l' -> distinct3 (key c l) -> sortc c l' = sortc c l) /\
  (forall c l l', (c < 2)%nat -> Perm3 l l' -> sortc c l' = sortc c l) /\
  (forall c1 c2 e, distinct3 (key c2 e) -> sortc c2 (sortc c1 e) = sortc c2 e).
Proof. repeat split; [exact sort_canonical_l|exact sort_canonical_id_l|exact reorder_tiefree]. Qed.
Redirect "props/C01/sort_canonical.assum" Print Assumptions sort_canonical.
Example nv : distinct3 (key 2 (1, -2, 7)).
Proof. unfold distinct3, key, abs3, sub3s, avg3, absn, of_Z.
  replace (1 - (1 + -2 + 7) / 3) with (-1) by lra. replace (-2 - (1 + -2 + 7) / 3) with (-4) by lra.
  replace (7 - (1 + -2 + 7) / 3) with 5 by lra.
  unfold Rabs; repeat destruct Rcase_abs; repeat split; lra. Qed.
