Require Import Sop.model.NmrUtilsR Sop.proofs.SortProofs Sop.proofs.FrameProofs.
Local Open Scope R_scope.
(* C01: only the symmetric part matters: adding any antisymmetric matrix changes nothing;
   a reconstruction is symmetric and equals its own symmetric part. *)
Theorem symm_part : (forall M K, antisym K -> symm (madd M K) = symm M) /\
  (forall l F, transpose (recon l F) = recon l F) /\ (forall M, transpose M = M -> symm M = M).
Proof. repeat split; [exact symm_antisym_l|exact recon_symmetric_l|exact symm_of_symmetric_l]. Qed.
Redirect "props/C01/symm_part.assum" Print Assumptions symm_part.
