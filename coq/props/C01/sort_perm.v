Require Import Sop.model.NmrUtilsR Sop.proofs.SortProofs Sop.proofs.FrameProofs.
Local Open Scope R_scope.
(* C01: for every real triple and each of the four conventions the reported eigenvalues are the input
   spectrum rearranged by the reported permutation (GENERATED _evals_sort). *)
Theorem sort_perm : forall e : vec3,
  (let '(s,p) := evals_sort_i_True e in s = gather3 e p /\ is_perm3 p) /\
  (let '(s,p) := evals_sort_d_True e in s = gather3 e p /\ is_perm3 p) /\
  (let '(s,p) := evals_sort_h_True e in s = gather3 e p /\ is_perm3 p) /\
  (let '(s,p) := evals_sort_n_True e in s = gather3 e p /\ is_perm3 p).
Proof. intro e. repeat split; [apply (sort_perm_i e)|apply (sort_perm_d e)|apply (sort_perm_h e)|apply (sort_perm_n e)]. Qed.
Redirect "props/C01/sort_perm.assum" Print Assumptions sort_perm.
