From Coq Require Import ZArith Bool Lia.
Require Import Sop.gen.NmrFlags.
Local Open Scope Z_scope.
(* C12, over the definitions GENERATED from soprano/calculate/nmr/nmr.py on every run: the composite flags are the documented unions of the six basic
   effects, which are distinct single bits; for a spin below 1 the masking prelude of spectrum_1d switches off every gate that reads a quadrupolar
   flag, for ANY effects value, leaves the chemical-shift gates untouched, makes the spectrum orientation dependent iff CS_ORIENT was asked for, and
   can never be refused; the presets STATIC and MAS are accepted, their union is refused. *)
Lemma mask_land e k : Z.land (mask_low_spin e) k = Z.land e (Z.land (Z.land (Z.lnot Q_STATIC) (Z.lnot Q_MAS)) k).
Proof. unfold mask_low_spin. rewrite <- !Z.land_assoc. reflexivity. Qed.
Ltac closed0 := match goal with |- Z.land _ ?c = 0 => replace c with 0 by reflexivity; apply Z.land_0_r end.
Theorem flags :
  (CS = Z.lor CS_ISO CS_ORIENT /\ Q_2_STATIC = Z.lor Q_2_SHIFT Q_2_ORIENT_STATIC /\ Q_2_MAS = Z.lor Q_2_SHIFT Q_2_ORIENT_MAS /\
   Q_STATIC = Z.lor Q_1_ORIENT Q_2_STATIC /\ Q_MAS = Q_2_MAS /\ STATIC = Z.lor CS Q_STATIC /\ MAS = Z.lor CS_ISO Q_MAS) /\
  (CS_ISO = 2 ^ 0 /\ CS_ORIENT = 2 ^ 1 /\ Q_1_ORIENT = 2 ^ 2 /\ Q_2_SHIFT = 2 ^ 3 /\ Q_2_ORIENT_STATIC = 2 ^ 4 /\ Q_2_ORIENT_MAS = 2 ^ 5) /\
  (forall e, gate_1 (mask_low_spin e) = 0 /\ gate_3 (mask_low_spin e) = 0 /\ gate_5 (mask_low_spin e) = 0 /\ gate_6 (mask_low_spin e) = 0 /\
             gate_7 (mask_low_spin e) = 0 /\
             gate_0 (mask_low_spin e) = gate_0 e /\ gate_2 (mask_low_spin e) = gate_2 e /\ gate_4 (mask_low_spin e) = gate_4 e /\
             has_orient (mask_low_spin e) = Z.land e CS_ORIENT /\ refused (mask_low_spin e) = false) /\
  refused STATIC = false /\ refused MAS = false /\ refused (Z.lor STATIC MAS) = true /\ n_gates = 8%nat.
Proof.
  split; [repeat split; reflexivity|]. split; [repeat split; reflexivity|]. split; [|repeat split; reflexivity].
  intros e. unfold gate_0, gate_1, gate_2, gate_3, gate_4, gate_5, gate_6, gate_7, has_orient, refused. rewrite !mask_land.
  repeat split; try closed0; try (match goal with |- Z.land _ ?c = _ => let v := eval vm_compute in c in replace c with v by reflexivity end; reflexivity).
  assert (A: Z.land e (Z.land (Z.land (Z.lnot Q_STATIC) (Z.lnot Q_MAS)) Q_2_ORIENT_STATIC) = 0) by closed0. rewrite A. reflexivity.
Qed.
Redirect "props/C12/flags.assum" Print Assumptions flags.
