Require Import Sop.model.SpecR Sop.proofs.TentProofs Sop.proofs.SpecProofs.
(* C12: intensity sits where the tensors put it.
   (a) a single crystal along the unit vector n gives the chemical-shift line at n.sigma.n for ANY 3x3 sigma and isotropic value iso (the code adds
       iso and the quadratic form of sigma - iso 1);
   (b) in the principal frame (direction cosines c of the field), n.sigma.n lies between the smallest and the largest principal value;
   (c) hence (tri_in lo hi) with lo, hi the extreme principal shieldings holds for every triangle of a shielding-only powder pattern, and every bin
       entirely below lo or above hi is empty: the intensity of each site is confined to [sigma_min, sigma_max] up to the bin holding an end. *)
Theorem support : 
  (forall s iso x y z, x * x + y * y + z * z = 1 -> cs_line s iso (x, y, z) = quad s (x, y, z)) /\
  (forall l1 l2 l3 c1 c2 c3 lo hi, c1 * c1 + c2 * c2 + c3 * c3 = 1 -> lo <= l1 <= hi -> lo <= l2 <= hi -> lo <= l3 <= hi ->
     lo <= quad (l1, 0, 0, (0, l2, 0), (0, 0, l3)) (c1, c2, c3) <= hi) /\
  (forall tris lo hi a b, Forall (tri_in lo hi) tris -> a <= b -> b < lo \/ hi < a -> bin_val tris a b = 0).
Proof. split; [exact cs_line_l|]. split; [exact rayleigh_l|exact bin_val_support]. Qed.
Redirect "props/C12/support.assum" Print Assumptions support.
