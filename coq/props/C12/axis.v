Require Import Sop.model.SpecR Sop.proofs.SpecProofs.
(* C12: the frequency axis.  Internally the axis is linspace(min, max, bins) * u with u = 1 (ppm) or 1e6 / larmor (MHz), and it is returned as
   f / u, or (ref - f) / u when referenced.  For any u <> 0: without a reference the caller gets back exactly linspace(min, max, bins) in the units
   given; a reference r (expressed in those units, r u in ppm) maps every axis point f to r - f; and a window given in MHz produces internally the
   same ppm axis as the window (min u, max u) given in ppm - the two differ only by the factor u fixed by the Larmor frequency. *)
Theorem axis : forall a b u bins k r, u <> 0 ->
  axis_out None u (axis_in a b u bins k) = linspace a b bins k /\
  axis_out (Some (r * u)) u (axis_in a b u bins k) = r - linspace a b bins k /\
  axis_in a b u bins k = axis_in (a * u) (b * u) 1 bins k.
Proof. exact axis_l. Qed.
Redirect "props/C12/axis.assum" Print Assumptions axis.
