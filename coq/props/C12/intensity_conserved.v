Require Import Sop.model.SpecR Sop.proofs.TentProofs Sop.proofs.SpecProofs.
(* C12: a powder spectrum conserves intensity and is non-negative.  tris lists, for every nucleus and transition, every triangle of the orientation mesh
   with its mean weight (>= 0) and its three vertex frequencies in any order; e0 :: edges are contiguous bin edges; n is the number of nuclei.
   - every bin of the un-normalised line is non-negative;
   - if all vertex frequencies lie in [lo, hi] and the bins cover it, the line holds exactly the total weight of the triangles (nothing lost or
     counted twice, whatever the orientation scheme and the bin width; flat triangles included);
   - whenever the line is not identically zero, the returned spectrum sums to n x (number of bins) and is non-negative. *)
Theorem intensity_conserved : forall n tris e0 edges, 0 <= n -> Forall tri_ok tris -> sorted_from e0 edges ->
  Forall (fun v => 0 <= v) (line tris e0 edges) /\
  (forall lo hi, Forall (tri_in lo hi) tris -> e0 <= lo -> hi < last_of e0 edges -> lsum (line tris e0 edges) = tsum fst tris) /\
  (lsum (line tris e0 edges) <> 0 ->
     lsum (powder_spectrum n tris e0 edges) = n * INR (length edges) /\ Forall (fun v => 0 <= v) (powder_spectrum n tris e0 edges)).
Proof.
  intros n tris e0 edges Hn F S. pose proof (line_nonneg tris edges e0 F S) as NN. split; [exact NN|]. split.
  - intros lo hi FI L U. apply (line_conserves tris lo hi e0 edges FI S L U).
  - intros NZ. unfold powder_spectrum. destruct (normalise_l n (line tris e0 edges) NZ) as (A & B & C). split; [|apply C; assumption].
    rewrite A. f_equal. f_equal. clear. revert e0. induction edges as [|e1 r IH]; intros e0; cbn [line length]; [reflexivity|]. f_equal. apply IH.
Qed.
Redirect "props/C12/intensity_conserved.assum" Print Assumptions intensity_conserved.
