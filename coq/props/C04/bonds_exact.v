From Coq Require Import ZArith List Bool Lia.
Import ListNotations.
Require Import Sop.model.Lattice Sop.proofs.LatticeProofs Sop.model.Bonds Sop.proofs.BondsProofs.
Local Open Scope Z_scope.
(* C04: for any non-singular cell, pbc mask, atoms stored in ANY periodic image and any non-negative radii, the bond list contains exactly the
   pairs i < j and cells c with 2 |x_j + c L - x_i| <= R_i + R_j, each with that cell and squared length; the bond matrix is its symmetric
   projection onto atom pairs. *)
Theorem bonds_exact :
  (forall L pbc pos radii i j c d2, det L <> 0 -> Forall (fun r => 0 <= r) radii ->
     In (i, j, c, d2) (bonds_m L pbc pos radii) <->
     (0 <= i < j /\ j < Z.of_nat (length pos) /\ admissible pbc c /\
      d2 = norm2 (vadd (vsub (nthZ pos j (0,0,0)) (nthZ pos i (0,0,0))) (comb c L)) /\
      4 * d2 <= (nthZ radii i 0 + nthZ radii j 0) * (nthZ radii i 0 + nthZ radii j 0))) /\
  (forall N b i j, bond_matrix N b i j = bond_matrix N b j i /\
     (bond_matrix N b i j = true <-> exists c d, In (i, j, c, d) b \/ In (j, i, c, d) b)).
Proof. split; [exact bonds_exact_l|exact bond_matrix_l]. Qed.
Redirect "props/C04/bonds_exact.assum" Print Assumptions bonds_exact.
(* C-H 2 units apart in a 12-unit cube (doubled units), H stored two cells away: still bonded, through cell (-2,0,0) *)
Example nv : bonds_m (mkL 12 0 0 0 12 0 0 0 12) (true,true,true) [(0,0,0); (26,0,0)] [3; 2] = [(0, 1, (-2,0,0), 4)].
Proof. vm_compute. reflexivity. Qed.
