From Coq Require Import ZArith List Bool Lia.
Import ListNotations.
Require Import Sop.model.Lattice Sop.model.Bonds Sop.proofs.BondsProofs.
Local Open Scope Z_scope.
(* C04, re-assembly of molecules across cell boundaries: every record (atom, cell offset, neighbours) of a molecule is reached from the molecule's first
   atom (offset 0) by a chain of bonds whose image cells - taken with the sign of the direction in which each bond is walked (get_linked) - add up to the
   recorded offset (connc).  So shifting each atom by its offset puts every atom next to the neighbour through which the traversal reached it: a finite
   molecule comes out in one piece, for any bond list. *)
Theorem molecules_offsets : forall N b m, In m (molecules_m N b) -> exists s, forall a c nbs, In (a, c, nbs) m -> connc b s (0, 0, 0) a c.
Proof. exact molecules_offsets_l. Qed.
Redirect "props/C04/molecules_offsets.assum" Print Assumptions molecules_offsets.
Example nv : map (fun m => map (fun r => (fst (fst r), snd (fst r))) m) (molecules_m 3 [(0, 2, (1,0,0)); (1, 2, (0,0,-1))]) = [[(0, (0,0,0)); (2, (1,0,0)); (1, (1,0,1))]].
Proof. vm_compute. reflexivity. Qed.
