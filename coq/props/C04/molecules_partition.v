From Coq Require Import ZArith List Bool Lia Permutation.
Import ListNotations.
Require Import Sop.model.Lattice Sop.model.Bonds Sop.proofs.BondsProofs.
Local Open Scope Z_scope.
(* C04: for ANY bond list the queue-based traversal terminates within its fuel and every atom 0 .. N-1 belongs to exactly one molecule: the
   atom lists of the molecules, concatenated, are a rearrangement of 0 .. N-1. *)
Theorem molecules_partition : forall N b, 0 <= N -> Permutation (concat (map atoms_of (molecules_m N b))) (zseq 0 N).
Proof. exact molecules_partition_l. Qed.
Redirect "props/C04/molecules_partition.assum" Print Assumptions molecules_partition.
Example nv : map atoms_of (molecules_m 5 [(0, 3, (0,0,0)); (1, 4, (1,0,0)); (3, 4, (0,0,-1))]) = [[0; 3; 4; 1]; [2]].
Proof. vm_compute. reflexivity. Qed.
