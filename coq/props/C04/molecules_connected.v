From Coq Require Import ZArith List Bool Lia.
Import ListNotations.
Require Import Sop.model.Lattice Sop.model.Bonds Sop.proofs.BondsProofs.
Local Open Scope Z_scope.
(* C04 (converse of molecules_closed): a molecule never lumps unconnected atoms together.  For any bond list, every atom of a molecule produced by the
   traversal is joined to the molecule's first atom by a chain of bonds (conn: reflexive-transitive closure of "is a neighbour in the bond list").
   With molecules_partition and molecules_closed: the molecules are exactly the connected components of the bond graph. *)
Theorem molecules_connected : forall N b m, In m (molecules_m N b) -> exists s, forall x, In x (atoms_of m) -> conn b s x.
Proof. exact molecules_connected_l. Qed.
Redirect "props/C04/molecules_connected.assum" Print Assumptions molecules_connected.
