From Coq Require Import ZArith List Bool Lia.
Import ListNotations.
Require Import Sop.model.Lattice Sop.model.Bonds Sop.proofs.BondsProofs.
Local Open Scope Z_scope.
(* C04: bonded atoms share a molecule.  For any bond list over atoms 0 .. N-1 (any cells: finite molecules, chains, networks), every molecule produced
   by the traversal is closed under bonding: a bond has either both ends or neither end in it. *)
Theorem molecules_closed : forall N b, 0 <= N -> (forall x y c, In (x, y, c) b -> 0 <= x < N /\ 0 <= y < N) ->
  forall m, In m (molecules_m N b) -> forall x y c, In (x, y, c) b -> (In x (atoms_of m) <-> In y (atoms_of m)).
Proof. exact molecules_closed_l. Qed.
Redirect "props/C04/molecules_closed.assum" Print Assumptions molecules_closed.
