From Coq Require Import ZArith List Bool Lia.
Import ListNotations.
Require Import Sop.model.Lattice Sop.model.Bonds Sop.model.Clusters Sop.proofs.ClustersProofs.
Local Open Scope Z_scope.
(* C19: every clustering method returns its index groups as [where(labels == i) for i in 1 .. max(labels)].  For ANY label list with labels >= 1:
   there are max(labels) groups; structure x is in group k (from 0) iff its label is k + 1; every structure is in some group (hence, by the iff,
   exactly one); no group lists a structure twice.  So the groups are a partition of the collection that agrees with the label list. *)
Theorem groups_agree : forall labels, (forall v, In v labels -> 1 <= v) ->
  length (groups labels) = Z.to_nat (label_max labels) /\
  (forall k x, (k < length (groups labels))%nat -> (In x (nth k (groups labels) []) <-> 0 <= x < Z.of_nat (length labels) /\ nthZ labels x 0 = Z.of_nat k + 1)) /\
  (forall x, 0 <= x < Z.of_nat (length labels) -> exists k, (k < length (groups labels))%nat /\ In x (nth k (groups labels) [])) /\
  (forall g, In g (groups labels) -> NoDup g).
Proof. exact groups_agree_l. Qed.
Redirect "props/C19/groups_agree.assum" Print Assumptions groups_agree.
Example nv : groups [2; 1; 2; 3; 1] = [[1; 4]; [0; 2]; [3]]. Proof. vm_compute. reflexivity. Qed.
