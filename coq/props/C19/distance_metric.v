Require Import Sop.model.PhyloR Sop.proofs.MetricProofs Sop.proofs.PhyloProofs.
(* C19: the structure-to-structure distance of _recalc, distance a b m = sqrt (sum_k (a_k - b_k)^2 + sum_k m_k^2) with a, b the normalised genome
   vectors of two structures and m the pair-gene entries of that pair, is symmetric, zero on the diagonal (pair entries zero there), non-negative and
   satisfies the triangle inequality, for genome vectors of any length, whenever every pair-gene component is itself non-negative and satisfies
   the triangle inequality (tri_ok).  With no pair genes (m = []) the hypothesis is empty and the distance is a pseudo-metric outright. *)
Theorem distance_metric : forall a b c mab mbc mac, length a = length b -> length b = length c -> length mac = length mab -> length mab = length mbc ->
  tri_ok mac mab mbc ->
  distance a b mab = distance b a mab /\ distance a a (map (fun _ => 0) mab) = 0 /\ 0 <= distance a b mab /\
  distance a c mac <= distance a b mab + distance b c mbc.
Proof. exact distance_metric_l. Qed.
Redirect "props/C19/distance_metric.assum" Print Assumptions distance_metric.
Example nv : tri_ok [] [] [] /\ tri_ok [1] [1] [1]. Proof. split; unfold tri_ok; cbn; repeat constructor; lra. Qed.
