Require Import Sop.model.PhyloR Sop.proofs.PhyloProofs.
(* C19: each normalised gene lies in the requested range scaled by its weight.  x :: l is one gene column over the collection (any length >= 1),
   w >= 0 the column scale weight / sqrt(gene length).  With both bounds every entry is in [lo w, hi w], a non-constant column attains both ends
   before scaling and a constant column is sent to lo; with one bound the column is shifted rigidly so that its maximum is hi / its minimum is lo. *)
Theorem range_normalised : forall lo hi w x l, lo <= hi -> 0 <= w ->
  (forall v, In v (scale w (norm_both lo hi x l)) -> lo * w <= v <= hi * w) /\
  length (norm_both lo hi x l) = length (x :: l) /\
  (lmin x l <> lmax x l -> In lo (norm_both lo hi x l) /\ In hi (norm_both lo hi x l)) /\
  (lmin x l = lmax x l -> forall v, In v (norm_both lo hi x l) -> v = lo) /\
  ((forall v, In v (norm_max hi x l) -> v <= hi) /\ In hi (norm_max hi x l)) /\
  ((forall v, In v (norm_min lo x l) -> lo <= v) /\ In lo (norm_min lo x l)).
Proof.
  intros lo hi w x l H Hw. destruct (norm_both_range lo hi x l H) as (R1 & R2 & R3 & R4).
  split; [apply scale_range; assumption|]. split; [exact R2|]. split; [exact R3|]. split; [exact R4|].
  split; [destruct (norm_max_spec hi x l) as (A & B & _); split; assumption|destruct (norm_min_spec lo x l) as (A & B & _); split; assumption].
Qed.
Redirect "props/C19/range_normalised.assum" Print Assumptions range_normalised.
