From Coq Require Import ZArith List Bool Lia Permutation.
Import ListNotations.
Require Import Sop.model.Lattice Sop.model.Bonds Sop.model.Clusters Sop.proofs.ClustersProofs.
Local Open Scope Z_scope.
(* C19: the reference the harness compares scipy's single-linkage fcluster with.  For ANY distance table D, size N and threshold t, the components
   computed by the model are exactly the connected components of the graph joining structures at distance <= t: they partition 0 .. N-1; two
   structures at distance <= t are in the same component; everything in a component is reached from one of its members by a chain of such
   steps; and a chain never leaves a component. *)
Theorem single_linkage_components : forall N D t, 0 <= N ->
  Permutation (concat (components N D t)) (zseq 0 N) /\
  (forall C x l, In C (components N D t) -> near N D t x l -> (In x C <-> In l C)) /\
  (forall C, In C (components N D t) -> exists s, forall x, In x C -> chain N D t s x) /\
  (forall C s x, In C (components N D t) -> In s C -> chain N D t s x -> In x C).
Proof. exact components_l. Qed.
Redirect "props/C19/single_linkage_components.assum" Print Assumptions single_linkage_components.
Example nv : components 5 [[0; 3; 9; 9; 9]; [3; 0; 9; 2; 9]; [9; 9; 0; 9; 4]; [9; 2; 9; 0; 9]; [9; 9; 4; 9; 0]] 3 = [[0; 1; 3]; [2]; [4]].
Proof. vm_compute. reflexivity. Qed.
