Require Import Sop.model.PhyloR Sop.proofs.PhyloProofs.
From Coq Require Import ZArith Lia.
(* C19, k-means: the labels returned by get_kmeans_clusters are vq's nearest-centroid assignment plus one.  For ANY non-empty list of centroids and any
   observations (genome vectors of any length): every label is in 1 .. number of centroids and names a centroid at least as close (in the Euclidean
   distance, compared squared) as every other one.  With groups_agree (any label list >= 1) the index groups are therefore a partition of the collection
   that agrees with the labels; centroids that attract no structure simply give empty groups at the end or in between. *)
Theorem kmeans_assignment : forall cents obs, cents <> [] ->
  Forall2 (fun x lab => (1 <= lab <= Z.of_nat (length cents))%Z /\
                        forall k, (k < length cents)%nat -> d2 x (nth (Z.to_nat (lab - 1)) cents []) <= d2 x (nth k cents [])) obs (vq_labels cents obs).
Proof.
  intros cents obs NE. unfold vq_labels. induction obs as [|x r IH]; cbn [map]; constructor; [|exact IH].
  destruct (nearest_l cents x NE) as [R1 R2]. split; [lia|]. intros k Hk. replace (nearest cents x + 1 - 1)%Z with (nearest cents x) by lia. apply R2. exact Hk.
Qed.
Redirect "props/C19/kmeans_assignment.assum" Print Assumptions kmeans_assignment.
