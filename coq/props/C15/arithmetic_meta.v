Require Import Sop.model.TensorAlgR Sop.proofs.TensorAlgProofs.
From Coq Require Import ZArith.
(* C15: negation, scaling, addition and subtraction return the class and ALL initialisation parameters of the operand that handled the call, their
   data is the matrix operation on the data; operands of the same class with any differing parameter are refused; with equal parameters never. *)
Theorem arithmetic_meta : forall t u r k,
  (cls (tneg t) = cls t /\ meta (tneg t) = meta t /\ data (tneg t) = mneg (data t)) /\
  (cls (tscale k t) = cls t /\ meta (tscale k t) = meta t /\ data (tscale k t) = mscale k (data t)) /\
  (tadd t u = RT r -> cls r = cls t /\ meta r = meta t /\ data r = madd (data t) (data u)) /\
  (tsub t u = RT r -> cls r = cls t /\ meta r = meta t /\ data r = msub (data t) (data u)) /\
  (cls t = cls u -> meta t <> meta u -> tadd t u = RRefused /\ tsub t u = RRefused) /\
  (cls t = cls u -> meta t = meta u -> tadd t u = RT (like t (madd (data t) (data u))) /\ tsub t u = RT (like t (msub (data t) (data u)))).
Proof. exact ops_meta_l. Qed.
Redirect "props/C15/arithmetic_meta.assum" Print Assumptions arithmetic_meta.
