Require Import Sop.model.TensorAlgR Sop.proofs.TensorAlgProofs.
From Coq Require Import ZArith.
Local Open Scope R_scope.
(* C15: a mean that is returned has the class and metadata of the first tensor, data = weighted mean matrix of ALL the listed tensors, was given one
   weight per tensor and only tensors of equal metadata; and each entry sum w_i x_i / sum w_i depends only on the ratios of the weights, ignores
   entries of zero weight, returns a single value unchanged and is linear in the data. *)
Theorem mean_laws :
  (forall ts ws r, tmean ts ws = RT r ->
     exists t rest, ts = t :: rest /\ cls r = cls t /\ meta r = meta t /\ data r = mean_data (map data ts) ws /\
                    length ws = length ts /\ forall u, In u rest -> meta u = meta t) /\
  (forall (x : R) xs (w : R) ws (c : R), c <> 0 -> wsum ws <> 0 ->
     wmean xs (map (fun v => c * v) ws) = wmean xs ws /\ wmean (x :: xs) (0 :: ws) = wmean xs ws /\
     (w <> 0 -> wmean [x] [w] = x) /\ wmean (map (fun v => c * v) xs) ws = c * wmean xs ws).
Proof. split; [exact tmean_meta_l|exact wmean_laws]. Qed.
Redirect "props/C15/mean_laws.assum" Print Assumptions mean_laws.
