From Coq Require Import ZArith List Bool Lia.
Import ListNotations.
Require Import Sop.gen.XrdRules Sop.gen.SgOps Sop.model.XrdSpec Sop.proofs.XrdProofs.
Local Open Scope Z_scope.
(* C14: for each of these space-group settings the selection rule GENERATED from soprano/data/xrd_sel_rules.json allows exactly the reflections
   of [-6,6]^3 that are not systematically absent under the setting's symmetry operations (spglib database, frozen copy). *)
Definition halls : list Z := [1; 11; 23; 34; 57; 67; 81; 92; 116; 137; 176; 215; 234; 275; 310; 337; 353; 361; 372; 398; 433; 441; 451; 465; 473; 489; 497; 505; 513].
Definition ok (H : Z) : bool :=
  match rule_of_hall H with Some r => match mismatches 6 r (ops_of_hall H) with [] => true | _ => false end | None => false end.
Lemma all_ok : forallb ok halls = true.
Proof. vm_compute. reflexivity. Qed.
Theorem rules_box_0 : forall H, In H halls -> exists r, rule_of_hall H = Some r /\
  forall h k l, -6 <= h <= 6 -> -6 <= k <= 6 -> -6 <= l <= 6 -> r h k l = allowed (ops_of_hall H) h k l.
Proof.
  intros H I. pose proof (proj1 (forallb_forall ok halls) all_ok H I) as E. unfold ok in E.
  destruct (rule_of_hall H) as [r|]; [|discriminate]. exists r. split; [reflexivity|].
  destruct (mismatches 6 r (ops_of_hall H)) eqn:M; [|discriminate]. exact (mismatches_nil_spec 6 r (ops_of_hall H) M).
Qed.
Redirect "props/C14/rules_box_0.assum" Print Assumptions rules_box_0.
