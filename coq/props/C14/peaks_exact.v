From Coq Require Import ZArith List Bool Lia Sorted.
Import ListNotations.
Require Import Sop.model.Lattice Sop.proofs.LatticeProofs Sop.model.Peaks Sop.proofs.PeaksProofs.
Local Open Scope Z_scope.
(* C14: for ANY positive-definite reciprocal metric, limit (2/lambda)^2 = rn/rd and selection rule, the peak list holds, for every hkl of
   Z^3 (not only of a box): hkl is listed under spacing q iff it passes the rule, 0 < 1/d^2 < (2/lambda)^2 and its 1/d^2 is q; every such hkl is
   listed; there is exactly one group per spacing, groups are in ascending order of spacing (= of 2theta) and none is empty. *)
Theorem peaks_exact : forall G rn rd rule, PD G -> 0 <= rn -> 0 < rd ->
  (forall q g n, In (q, g) (peaks G rn rd rule) ->
     (In n g <-> ((let '(h,k,l) := n in rule h k l = true) /\ 0 < qform G n /\ qform G n * rd < rn /\ qform G n = q))) /\
  (forall n, (let '(h,k,l) := n in rule h k l = true) -> 0 < qform G n -> qform G n * rd < rn ->
     exists g, In (qform G n, g) (peaks G rn rd rule) /\ In n g) /\
  StronglySorted Z.lt (map fst (peaks G rn rd rule)) /\
  (forall q g, In (q, g) (peaks G rn rd rule) -> g <> []).
Proof. exact peaks_spec_l. Qed.
Redirect "props/C14/peaks_exact.assum" Print Assumptions peaks_exact.
(* cubic a = 2 (G = I/4 -> integer metric I, gd = 4), (2/lambda)^2 = 4/ (1.5)^2: body-centred rule *)
Example nv : map (fun g => (fst g, length (snd g))) (peaks (mkG 1 0 0 1 0 1) 64 9 (fun h k l => Z.even (h + k + l))) = [(2, 12%nat); (4, 6%nat); (6, 24%nat)].
Proof. vm_compute. reflexivity. Qed.
