From Coq Require Import ZArith List Bool.
Import ListNotations.
Require Import Sop.gen.XrdRules Sop.gen.SgOps.
Local Open Scope Z_scope.
(* C14: the Hall-number table GENERATED from soprano/data/hall_2_no.json maps every tabulated Hall number to the international number
   the space-group database gives for it, and every tabulated setting has a rule. *)
Theorem hall_map : hall_to_international = sg_international /\
  forallb (fun H => match rule_of_hall H with Some _ => true | None => false end) hall_numbers = true /\ length hall_numbers = 306%nat.
Proof. vm_compute. repeat split; reflexivity. Qed.
Redirect "props/C14/hall_map.assum" Print Assumptions hall_map.
