From Coq Require Import ZArith List Bool Lia.
Import ListNotations.
Require Import Sop.gen.XrdRules Sop.gen.SgOps Sop.model.XrdSpec Sop.proofs.XrdProofs.
Local Open Scope Z_scope.
(* C14: for each of these space-group settings the selection rule GENERATED from soprano/data/xrd_sel_rules.json allows exactly the reflections
   of [-6,6]^3 that are not systematically absent under the setting's symmetry operations (spglib database, frozen copy). *)
Definition halls : list Z := [4; 14; 26; 40; 61; 73; 84; 98; 123; 155; 191; 227; 251; 284; 322; 343; 356; 364; 376; 409; 436; 444; 458; 468; 476; 492; 500; 508; 522].
Definition ok (H : Z) : bool :=
  match rule_of_hall H with Some r => match mismatches 6 r (ops_of_hall H) with [] => true | _ => false end | None => false end.
Lemma all_ok : forallb ok halls = true.
Proof. vm_compute. reflexivity. Qed.
Theorem rules_box_3 : forall H, In H halls -> exists r, rule_of_hall H = Some r /\
  forall h k l, -6 <= h <= 6 -> -6 <= k <= 6 -> -6 <= l <= 6 -> r h k l = allowed (ops_of_hall H) h k l.
Proof.
  intros H I. pose proof (proj1 (forallb_forall ok halls) all_ok H I) as E. unfold ok in E.
  destruct (rule_of_hall H) as [r|]; [|discriminate]. exists r. split; [reflexivity|].
  destruct (mismatches 6 r (ops_of_hall H)) eqn:M; [|discriminate]. exact (mismatches_nil_spec 6 r (ops_of_hall H) M).
Qed.
Redirect "props/C14/rules_box_3.assum" Print Assumptions rules_box_3.
