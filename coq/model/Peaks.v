(* C14: hand model of XRDCalculator.powder_peaks (soprano/calculate/xrd/xrd.py) over an integer reciprocal metric G (1/d^2 = qform G hkl / gd,
   gd > 0 a common denominator) and a rational limit (2/lambda)^2 = rn/rd: hkl box from minimum_supcell in the reciprocal metric,
   selection rule first, window 0 < 1/d < 2/lambda, grouping by equal spacing in ascending order. *)
From Coq Require Import ZArith List Bool Lia.
Import ListNotations.
Require Import Sop.model.Lattice.
Local Open Scope Z_scope.

Definition hkl_grid (G : metric) (rn rd : Z) : list vec :=
  grid (bound_metric G rn rd 0, bound_metric G rn rd 1, bound_metric G rn rd 2).
Definition in_window (G : metric) (rn rd : Z) (n : vec) : bool := (0 <? qform G n) && (qform G n * rd <? rn).
Definition selected (G : metric) (rn rd : Z) (rule : Z -> Z -> Z -> bool) : list vec :=
  filter (in_window G rn rd) (filter (fun n => let '(h,k,l) := n in rule h k l) (hkl_grid G rn rd)).
(* sorted list of the distinct values *)
Fixpoint insert_u (x : Z) (l : list Z) : list Z :=
  match l with [] => [x] | y :: t => if x <? y then x :: l else if x =? y then l else y :: insert_u x t end.
Definition usort (l : list Z) : list Z := fold_right insert_u [] l.
Definition peaks (G : metric) (rn rd : Z) (rule : Z -> Z -> Z -> bool) : list (Z * list vec) :=
  let sel := selected G rn rd rule in
  map (fun q => (q, filter (fun n => qform G n =? q) sel)) (usort (map (qform G) sel)).

(* canonical order of the members of a group (for the correspondence check only) *)
Definition vkey (n : vec) : Z := let '(h,k,l) := n in ((h + 1000) * 10000 + (k + 1000)) * 10000 + (l + 1000).
Fixpoint insert_v (x : vec) (l : list vec) : list vec :=
  match l with [] => [x] | y :: t => if vkey x <=? vkey y then x :: l else y :: insert_v x t end.
Definition sortv (l : list vec) : list vec := fold_right insert_v [] l.
Definition enc_peaks (p : list (Z * list vec)) : list Z :=
  flat_map (fun g => [fst g; Z.of_nat (length (snd g))] ++ flat_map encv (snd g)) p.
Definition mkG (a b c d e f : Z) : metric := (a, b, c, d, e, f).
