(* C16: itertools.combinations(l, n) in its lexicographic-by-position order, as used by substitutionGen. *)
From Coq Require Import List Arith Lia.
Import ListNotations.
Fixpoint combs {A} (n : nat) (l : list A) : list (list A) :=
  match n, l with
  | O, _ => [[]]
  | S _, [] => []
  | S m, x :: t => map (cons x) (combs m t) ++ combs n t
  end.
Fixpoint binom (n k : nat) : nat :=
  match k, n with
  | O, _ => 1
  | S _, O => 0
  | S k', S n' => binom n' k' + binom n' k
  end.
Inductive subseq {A} : list A -> list A -> Prop :=
| ss_nil l : subseq [] l
| ss_take x s l : subseq s l -> subseq (x :: s) (x :: l)
| ss_skip x s l : subseq s l -> subseq s (x :: l).
