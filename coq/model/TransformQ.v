Require Export Sop.base.NumQ.
Load "model/TransformBody".
Definition encp (p : p3) : list Z := let (ab, c) := p in let (a, b) := ab in encq a ++ encq b ++ encq c.
