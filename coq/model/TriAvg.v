(* C13: hand model of TriAvg.get_orient_points (one octant, before normalisation) and of ZCW._calc_engine, over Z.
   Face points are the lattice points (p, N-z-p, z), z = 0..N, p = 0..N-z, stored by rows; row z starts at index z_i(z). *)
From Coq Require Import ZArith List Bool Lia.
Import ListNotations.
Local Open Scope Z_scope.

Definition zrange (lo n : Z) : list Z := map (fun k => lo + Z.of_nat k) (seq 0 (Z.to_nat n)).     (* lo, lo+1, ..., lo+n-1 *)
(* int(z*N + 1.5*z - z**2/2.0) *)
Definition z_i (N z : Z) : Z := (z * (2*N + 3 - z)) / 2.
Definition face_points (N : Z) : list (Z * Z * Z) :=
  flat_map (fun z => map (fun p => (p, N - z - p, z)) (zrange 0 (N - z + 1))) (zrange 0 (N + 1)).
Definition up_tris (N : Z) : list (Z * Z * Z) :=
  flat_map (fun z => map (fun x => (x, x + 1, x + (N - z + 1))) (zrange (z_i N z) (z_i N (z + 1) - 1 - z_i N z))) (zrange 0 N).
Definition down_tris (N : Z) : list (Z * Z * Z) :=
  flat_map (fun z => map (fun x => (x, x + (N - z), x + (N - z + 1))) (zrange (z_i N z + 1) (z_i N (z + 1) - 1 - (z_i N z + 1)))) (zrange 0 N).
Definition tris (N : Z) : list (Z * Z * Z) := up_tris N ++ down_tris N.
Definition npoints (N : Z) : Z := (N + 1) * (N + 2) / 2.
(* index of the lattice point (row z, position p) *)
Definition idx (N z p : Z) : Z := z_i N z + p.

(* the same triangles in lattice coordinates (row, position) *)
Definition up_cells (N : Z) : list (Z * Z) := flat_map (fun z => map (fun p => (z, p)) (zrange 0 (N - z))) (zrange 0 N).
Definition down_cells (N : Z) : list (Z * Z) := flat_map (fun z => map (fun p => (z, p)) (zrange 1 (N - z - 1))) (zrange 0 N).
Definition up_of (N : Z) (c : Z * Z) : Z * Z * Z := let '(z, p) := c in (idx N z p, idx N z (p + 1), idx N (z + 1) p).
Definition down_of (N : Z) (c : Z * Z) : Z * Z * Z := let '(z, p) := c in (idx N z p, idx N (z + 1) (p - 1), idx N (z + 1) p).

(* a point of the face in coordinates scaled by M: (a, b, c) with a + b + c = N*M; closed small triangles *)
Definition in_up (M N : Z) (cell : Z * Z) (pt : Z * Z * Z) : Prop :=
  let '(z, p) := cell in let '(a, b, c) := pt in p * M <= a /\ z * M <= c /\ (N - z - p - 1) * M <= b.
Definition in_down (M N : Z) (cell : Z * Z) (pt : Z * Z * Z) : Prop :=
  let '(z, p) := cell in let '(a, b, c) := pt in a <= p * M /\ c <= (z + 1) * M /\ b <= (N - z - p) * M.

(* ---- ZCW ---- *)
(* the Fibonacci-like recurrence: g = [8, 13], N = 21; while N < req: g.append(N); N = g[-1] + g[-2] *)
Fixpoint zcw_loop (fuel : nat) (g2 g1 n req : Z) : Z * Z :=      (* returns (g[-1], N) *)
  match fuel with
  | O => (g1, n)
  | S f => if n <? req then zcw_loop f g1 n (n + g1) req else (g1, n)
  end.
Definition zcw_gN (req : Z) : Z * Z := zcw_loop (Z.to_nat req) 8 13 21 req.
(* mode constants (c0, c1, c2): sphere, hemisphere, octant *)
Definition zcw_c (mode : Z) : Z * Z * Z := if mode =? 0 then (1, 2, 1) else if mode =? 1 then (-1, 1, 1) else (-1, 1, 4).
(* numerators over N:  cos(theta) = ctn / N,  phi / (2 pi) = phn / (c2 * N) *)
Definition zcw_ct_num (mode N n : Z) : Z := let '(c0, c1, _) := zcw_c mode in c0 * (c1 * (n mod N) - N).
Definition zcw_phi_num (g N n : Z) : Z := (n * g) mod N.

(* ---- encodings ---- *)
Definition enc3 (l : list (Z * Z * Z)) : list Z := flat_map (fun t => let '(a, b, c) := t in [a; b; c]) l.
