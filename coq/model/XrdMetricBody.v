(* C14: hand model of hkl2d2_matgen and abc2cart (soprano/utils.py) as rational functions of the lengths, the cosines and (abc2cart) sin(gamma)
   and the square root it takes.  sin^2 is written 1 - cos^2.  Loaded under the Q header (executed) and the R header (proved). *)
Definition mat6 := (num * num * num * num * num * num)%type.    (* symmetric 3x3: m11 m12 m13 m22 m23 m33 *)
Definition direct_metric (a b c ca cb cg : num) : mat6 := (a*a, a*b*cg, a*c*cb, b*b, b*c*ca, c*c).
Definition hkl2d2 (a b c ca cb cg : num) : mat6 :=
  let a2b2 := (a*b)*(a*b) in let a2c2 := (a*c)*(a*c) in let b2c2 := (b*c)*(b*c) in let p := a*b*c in
  let den := p*p * (of_Z 1 - (ca*ca + cb*cb + cg*cg) + of_Z 2 * (ca*cb*cg)) in
  (b2c2 * (of_Z 1 - ca*ca) / den, p * c * (ca*cb - cg) / den, p * b * (ca*cg - cb) / den,
   a2c2 * (of_Z 1 - cb*cb) / den, p * a * (cb*cg - ca) / den, a2b2 * (of_Z 1 - cg*cg) / den).
(* symmetric matrix product entries (row i of M times column j of N) *)
Definition mul6 (M N : mat6) : (num*num*num) * (num*num*num) * (num*num*num) :=
  let '(m11,m12,m13,m22,m23,m33) := M in let '(n11,n12,n13,n22,n23,n33) := N in
  ((m11*n11 + m12*n12 + m13*n13, m11*n12 + m12*n22 + m13*n23, m11*n13 + m12*n23 + m13*n33),
   (m12*n11 + m22*n12 + m23*n13, m12*n12 + m22*n22 + m23*n23, m12*n13 + m22*n23 + m23*n33),
   (m13*n11 + m23*n12 + m33*n13, m13*n12 + m23*n22 + m33*n23, m13*n13 + m23*n23 + m33*n33)).
(* abc2cart: rows of the Cartesian cell; sg = sin(gamma), z = the square root taken for the third row *)
Definition abc2cart_rows (a b c ca cb cg sg z : num) : (num*num*num) * (num*num*num) * (num*num*num) :=
  ((a*sg, a*cg, of_Z 0), (of_Z 0, b, of_Z 0), (c*((cb - ca*cg)/sg), c*ca, c*z)).
Definition gram_rows (r : (num*num*num) * (num*num*num) * (num*num*num)) : mat6 :=
  let '((x1,y1,z1),(x2,y2,z2),(x3,y3,z3)) := r in
  (x1*x1+y1*y1+z1*z1, x1*x2+y1*y2+z1*z2, x1*x3+y1*y3+z1*z3, x2*x2+y2*y2+z2*z2, x2*x3+y2*y3+z2*z3, x3*x3+y3*y3+z3*z3).
