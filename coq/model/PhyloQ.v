Require Export Sop.base.NumQ.
Load "model/PhyloBody".
