Require Export Sop.base.VecR.
Load "gen/NmrUtilsBody".
Load "model/TensorFrameBody".
Load "model/DescriptorsBody".
