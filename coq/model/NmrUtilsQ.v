Require Export Sop.base.VecQ.
Load "gen/NmrUtilsBody".
Load "model/TensorFrameBody".
Load "model/DescriptorsBody".
Definition encf (F : frame) : list Z := let '(a,b,c) := F in enc3 a ++ enc3 b ++ enc3 c.
