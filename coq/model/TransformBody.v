(* C16: hand model of Translate / Rotate / Mirror (soprano/properties/transform/transform.py), of the interpolation of linspaceGen and of the
   displacement of rattleGen.  Positions are a list of vectors, a selection is a list of indices.  Loaded under Q and R. *)
Definition p3 := (num * num * num)%type.
Definition padd (a b : p3) : p3 := let '(a1,a2,a3) := a in let '(b1,b2,b3) := b in (a1+b1, a2+b2, a3+b3).
Definition psub (a b : p3) : p3 := let '(a1,a2,a3) := a in let '(b1,b2,b3) := b in (a1-b1, a2-b2, a3-b3).
Definition pscale (k : num) (a : p3) : p3 := let '(a1,a2,a3) := a in (k*a1, k*a2, k*a3).
Definition pdot (a b : p3) : num := let '(a1,a2,a3) := a in let '(b1,b2,b3) := b in a1*b1 + a2*b2 + a3*b3.
Definition dist2 (a b : p3) : num := pdot (psub a b) (psub a b).
(* copy-then-modify on the selected indices *)
Fixpoint apply_from (k : nat) (f : p3 -> p3) (sel : list nat) (pos : list p3) : list p3 :=
  match pos with [] => [] | p :: t => (if existsb (Nat.eqb k) sel then f p else p) :: apply_from (S k) f sel t end.
Definition apply_sel (f : p3 -> p3) (sel : list nat) (pos : list p3) : list p3 := apply_from 0 f sel pos.
Definition translate (v : p3) (p : p3) : p3 := padd p v.
Definition mirror_point (c : p3) (p : p3) : p3 := padd (pscale (of_Z (-1)) (psub p c)) c.
(* plane n.x + d = 0: p - 2 ((p.n + d)/|n|) (n/|n|), i.e. without square roots p - 2 (p.n + d)/(n.n) n *)
Definition mirror_plane (n : p3) (d : num) (p : p3) : p3 := psub p (pscale (of_Z 2 * (pdot p n + d) / pdot n n) n).
(* ase.Quaternion(w,x,y,z).rotate = multiplication by this matrix (rows) *)
Definition qmat (q : num * num * num * num) : p3 * p3 * p3 :=
  let '(w,x,y,z) := q in
  ((w*w + x*x - y*y - z*z, of_Z 2 * (x*y - w*z), of_Z 2 * (x*z + w*y)),
   (of_Z 2 * (x*y + w*z), w*w - x*x + y*y - z*z, of_Z 2 * (y*z - w*x)),
   (of_Z 2 * (x*z - w*y), of_Z 2 * (y*z + w*x), w*w - x*x - y*y + z*z)).
Definition mapply (M : p3 * p3 * p3) (p : p3) : p3 := let '(r1,r2,r3) := M in (pdot r1 p, pdot r2 p, pdot r3 p).
Definition rotate (q : num * num * num * num) (c : p3) (p : p3) : p3 := padd (mapply (qmat q) (psub p c)) c.
Definition qconj (q : num * num * num * num) := let '(w,x,y,z) := q in (w, -x, -y, -z).
Definition qnorm2 (q : num * num * num * num) : num := let '(w,x,y,z) := q in w*w + x*x + y*y + z*z.
(* linspaceGen: pos0 (1 - t) + pos1 t *)
Definition lerp (t : num) (a b : p3) : p3 := padd (pscale (of_Z 1 - t) a) (pscale t b).
(* rattleGen, uniform: (u - 0.5) * 2 * amplitude for u in [0, 1) *)
Definition rattle_u (u amp : num) : num := (u - of_Z 1 / of_Z 2) * of_Z 2 * amp.
