Require Export Sop.model.TentR.
Load "model/SpecBody".
