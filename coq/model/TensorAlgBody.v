(* C15: hand model of the arithmetic and averaging of NMRTensor objects (soprano/nmr/tensor.py:611-875).  A tensor is a class tag, a 3x3 matrix
   (9 numbers, row-major) and its initialisation parameters (metadata, as integers).  Loaded under Q and R. *)
Definition mat := list num.
Record tensor := mkT { cls : Z; data : mat; meta : list Z }.
Definition mmap2 (f : num -> num -> num) (a b : mat) : mat := map (fun xy => f (fst xy) (snd xy)) (combine a b).
Definition madd := mmap2 (fun x y => x + y).
Definition msub := mmap2 (fun x y => x - y).
Definition mscale (k : num) (a : mat) : mat := map (fun x => k * x) a.
Definition mneg (a : mat) : mat := map (fun x => - x) a.
Definition like (t : tensor) (d : mat) : tensor := mkT (cls t) d (meta t).          (* _create_like *)
Fixpoint zl_eqb (a b : list Z) : bool :=
  match a, b with [], [] => true | x :: a', y :: b' => Z.eqb x y && zl_eqb a' b' | _, _ => false end.
(* _check_compatible: same class (isinstance) => every initialisation parameter must agree *)
Definition compatible (t u : tensor) : bool := negb (Z.eqb (cls t) (cls u)) || zl_eqb (meta t) (meta u).
Inductive res := RT (t : tensor) | RRefused.
Definition tneg (t : tensor) : tensor := like t (mneg (data t)).
Definition tadd (t u : tensor) : res := if compatible t u then RT (like t (madd (data t) (data u))) else RRefused.
Definition tsub (t u : tensor) : res := if compatible t u then RT (like t (msub (data t) (data u))) else RRefused.
Definition tscale (k : num) (t : tensor) : tensor := like t (mscale k (data t)).
(* mean of a flat list with weights: sum w_i d_i / sum w_i (np.average); metadata of the first *)
Definition msum (l : list mat) : mat := fold_right madd (map (fun _ => of_Z 0) (seq 0 9)) l.
Definition wsum (ws : list num) : num := fold_right (fun x y => x + y) (of_Z 0) ws.
Definition mean_data (ds : list mat) (ws : list num) : mat :=
  mscale (of_Z 1 / wsum ws) (msum (map (fun dw => mscale (snd dw) (fst dw)) (combine ds ws))).
Definition all_compatible (ts : list tensor) : bool :=
  match ts with [] => false | t :: r => forallb (fun u => zl_eqb (meta t) (meta u)) r end.
Definition tmean (ts : list tensor) (ws : list num) : res :=
  match ts with
  | [] => RRefused
  | t :: _ => if all_compatible ts && Nat.eqb (length ws) (length ts) then RT (like t (mean_data (map data ts) ws)) else RRefused
  end.
Definition ones (n : nat) : list num := map (fun _ => of_Z 1) (seq 0 n).
(* nested lists (rows of tensors): axis None = everything, axis 1 = one mean per row, axis 0 = one mean per column *)
Definition tdflt : tensor := mkT 0 [] [].
Definition column (k : nat) (rows : list (list tensor)) : list tensor := map (fun r => nth k r tdflt) rows.
Definition mean_none (rows : list (list tensor)) (ws : list num) : res := tmean (concat rows) ws.
Definition mean_axis1 (rows : list (list tensor)) (ws : list num) : list res := map (fun r => tmean r ws) rows.
Definition mean_axis0 (rows : list (list tensor)) (ws : list num) : list res :=
  match rows with [] => [] | r0 :: _ => map (fun k => tmean (column k rows) ws) (seq 0 (length r0)) end.
