(* C14: the specification of a selection rule.  A reflection hkl is systematically absent under a set of symmetry operations
   x -> R x + t iff some operation has h R = h (row vector) and h . t not an integer.  Translations are in twelfths. *)
From Coq Require Import ZArith List Bool.
Import ListNotations.
Local Open Scope Z_scope.

Definition hR (h k l : Z) (R : list Z) : option (Z * Z * Z) :=
  match R with
  | [a; b; c; d; e; f; g; i; j] => Some (h*a + k*d + l*g, h*b + k*e + l*i, h*c + k*f + l*j)
  | _ => None
  end.
Definition kills (h k l : Z) (op : list Z * list Z) : bool :=
  match hR h k l (fst op), snd op with
  | Some (h', k', l'), [t1; t2; t3] => (h' =? h) && (k' =? k) && (l' =? l) && negb ((h*t1 + k*t2 + l*t3) mod 12 =? 0)
  | _, _ => false
  end.
Definition allowed (ops : list (list Z * list Z)) (h k l : Z) : bool := negb (existsb (kills h k l) ops).

Definition zr (b : Z) : list Z := map (fun n => Z.of_nat n - b) (seq 0 (Z.to_nat (2*b + 1))).
Definition box (b : Z) : list (Z * Z * Z) :=
  flat_map (fun h => flat_map (fun k => map (fun l => (h, k, l)) (zr b)) (zr b)) (zr b).
(* the hkl of the box on which a rule differs from the specification, encoded as ((h+b)(2b+1) + (k+b))(2b+1) + (l+b) *)
Definition mismatches (b : Z) (rule : Z -> Z -> Z -> bool) (ops : list (list Z * list Z)) : list Z :=
  flat_map (fun x => match x with (h, k, l) =>
     if Bool.eqb (rule h k l) (allowed ops h k l) then [] else [((h + b) * (2*b + 1) + (k + b)) * (2*b + 1) + (l + b)] end) (box b).
