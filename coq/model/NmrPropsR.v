Require Export Sop.model.NmrUtilsR.
Load "model/NmrPropsBody".
