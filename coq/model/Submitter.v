(* C18: hand model of soprano/hpc/submitter/submit.py (Submitter._main_loop / _catch_signal / _terminate / _save / _load), host = None,
   max_time = infinity.  A labelled transition system over the EFFECT POINTS of the loop: every call that changes or reads the job
   tables, the queue, the temporary folders or the _running flag is one step and appends one event to the trace (ghost history,
   newest first).  [stop] is the signal handler (it only clears the flag, after the repair of F-18a); [restart] is a fresh process
   loading the continuation pickle.  Job names are the positions in the job stream (unique by construction); ids and folders are
   issued by counters (the queue and mkdtemp are assumed to return fresh values: environment contract, checked by the harness). *)
From Coq Require Import List Arith Bool Lia.
Import ListNotations.

Definition job := (nat * nat)%type.              (* name, folder *)
Definition jname (j : job) := fst j.
Definition jfolder (j : job) := snd j.

Inductive ev :=
| ERun (b : bool)                  (* read of self._running (loop test or gate before submit) *)
| ENext (o : option nat)           (* next_job() returned a job / None *)
| EMk (f : nat)                    (* tempfile.mkdtemp *)
| ESetup (n : nat) (ok : bool)     (* setup_job *)
| ERm (f : nat)                    (* shutil.rmtree *)
| ESub (i n : nat)                 (* queue.submit -> id i *)
| EChk (i : nat) (d : bool)        (* check_job(i) -> finished? *)
| EFin (n : nat)                   (* finish_job *)
| EKill (i : nat)                  (* queue.kill *)
| ESave.                           (* pickle of the job tables *)

Inductive pc :=
| PLoop | PTest | PFill | PNext
| PMk (n : nat) (ok : bool)
| PSetup (j : job) (ok : bool)
| PRm (f : nat)
| PGate (j : job)
| PSubmit (j : job)
| PCheck (todo : list (nat * job)) (acc : list nat)
| PFin (cs : list nat)
| PFinRm (f : nat) (cs : list nat)
| PTerm | PDrop | PKill | PKillFin | PKillRm (f : nat)
| PExit.

Record st := mk {
  at_ : pc;
  running : bool;
  nextname : nat;                         (* names handed out so far *)
  pending : list bool;                    (* setup outcome of the jobs not yet produced by next_job *)
  waiting : list job;                     (* _waiting_jobs *)
  jobs : list (nat * job);                (* _jobs, insertion order *)
  queue : list (nat * nat);               (* id -> remaining polls before the queue stops listing it *)
  lifes : list nat;                       (* lifetime of each name (static) *)
  nextid : nat;
  nextfolder : nat;
  folders : list nat;                     (* temporary folders that exist *)
  saved : option (list (nat * job) * list job);   (* the continuation pickle *)
  dropped : list nat;                     (* ghost: names set up but discarded by a termination without continuation *)
  trace : list ev                         (* ghost: newest first *)
}.

Definition set_at p s := mk p (running s) (nextname s) (pending s) (waiting s) (jobs s) (queue s) (lifes s) (nextid s) (nextfolder s) (folders s) (saved s) (dropped s) (trace s).
Definition emit e s := mk (at_ s) (running s) (nextname s) (pending s) (waiting s) (jobs s) (queue s) (lifes s) (nextid s) (nextfolder s) (folders s) (saved s) (dropped s) (e :: trace s).
Definition set_running b s := mk (at_ s) b (nextname s) (pending s) (waiting s) (jobs s) (queue s) (lifes s) (nextid s) (nextfolder s) (folders s) (saved s) (dropped s) (trace s).
Definition set_waiting w s := mk (at_ s) (running s) (nextname s) (pending s) w (jobs s) (queue s) (lifes s) (nextid s) (nextfolder s) (folders s) (saved s) (dropped s) (trace s).
Definition set_jobs js s := mk (at_ s) (running s) (nextname s) (pending s) (waiting s) js (queue s) (lifes s) (nextid s) (nextfolder s) (folders s) (saved s) (dropped s) (trace s).
Definition set_folders fs s := mk (at_ s) (running s) (nextname s) (pending s) (waiting s) (jobs s) (queue s) (lifes s) (nextid s) (nextfolder s) fs (saved s) (dropped s) (trace s).

Fixpoint remove1 (x : nat) (l : list nat) : list nat :=
  match l with [] => [] | y :: t => if Nat.eqb x y then t else y :: remove1 x t end.
Fixpoint find_id (i : nat) (l : list (nat * job)) : option job :=
  match l with [] => None | (k, j) :: t => if Nat.eqb i k then Some j else find_id i t end.
Fixpoint remove_id (i : nat) (l : list (nat * job)) : list (nat * job) :=
  match l with [] => [] | (k, j) :: t => if Nat.eqb i k then t else (k, j) :: remove_id i t end.
Fixpoint remaining (i : nat) (q : list (nat * nat)) : nat :=
  match q with [] => 0 | (k, r) :: t => if Nat.eqb i k then r else remaining i t end.
Fixpoint tick (i : nat) (q : list (nat * nat)) : list (nat * nat) :=
  match q with [] => [] | (k, r) :: t => if Nat.eqb i k then (k, pred r) :: t else (k, r) :: tick i t end.

Section Step.
Variable max_jobs : nat.
Variable continuation : bool.

Definition step (s : st) : st :=
  match at_ s with
  | PLoop => set_at (if running s then PFill else PTest) (emit (ERun (running s)) s)
  | PTest => set_at (if running s then PExit else PTerm) (emit (ERun (running s)) s)   (* `if not self._running:` after the loop *)
  | PFill =>
      if length (jobs s) <? max_jobs then
        match waiting s with
        | [] => set_at PNext s
        | j :: w => set_at (PGate j) (set_waiting w s)
        end
      else set_at (PCheck (jobs s) []) s
  | PNext =>
      match pending s with
      | [] => set_at (PCheck (jobs s) []) (emit (ENext None) s)
      | ok :: rest =>
          mk (PMk (nextname s) ok) (running s) (S (nextname s)) rest (waiting s) (jobs s) (queue s) (lifes s) (nextid s) (nextfolder s)
             (folders s) (saved s) (dropped s) (ENext (Some (nextname s)) :: trace s)
      end
  | PMk n ok =>
      mk (PSetup (n, nextfolder s) ok) (running s) (nextname s) (pending s) (waiting s) (jobs s) (queue s) (lifes s) (nextid s)
         (S (nextfolder s)) (folders s ++ [nextfolder s]) (saved s) (dropped s) (EMk (nextfolder s) :: trace s)
  | PSetup j ok => set_at (if ok then PGate j else PRm (jfolder j)) (emit (ESetup (jname j) ok) s)
  | PRm f => set_at PFill (set_folders (remove1 f (folders s)) (emit (ERm f) s))
  | PGate j =>
      if running s then set_at (PSubmit j) (emit (ERun true) s)
      else set_at (PCheck (jobs s) []) (set_waiting (j :: waiting s) (emit (ERun false) s))
  | PSubmit j =>
      mk PFill (running s) (nextname s) (pending s) (waiting s) (jobs s ++ [(nextid s, j)])
         (queue s ++ [(nextid s, nth (jname j) (lifes s) 0)]) (lifes s) (S (nextid s)) (nextfolder s)
         (folders s) (saved s) (dropped s) (ESub (nextid s) (jname j) :: trace s)
  | PCheck [] acc => set_at (PFin acc) s
  | PCheck ((i, _) :: todo) acc =>
      let d := Nat.eqb (remaining i (queue s)) 0 in
      mk (PCheck todo (if d then acc ++ [i] else acc)) (running s) (nextname s) (pending s) (waiting s) (jobs s)
         (tick i (queue s)) (lifes s) (nextid s) (nextfolder s) (folders s) (saved s) (dropped s) (EChk i d :: trace s)
  | PFin [] => set_at PLoop s
  | PFin (c :: cs) =>
      match find_id c (jobs s) with
      | Some j => set_at (PFinRm (jfolder j) cs) (set_jobs (remove_id c (jobs s)) (emit (EFin (jname j)) s))
      | None => set_at (PFin cs) s
      end
  | PFinRm f cs => set_at (PFin cs) (set_folders (remove1 f (folders s)) (emit (ERm f) s))
  | PTerm =>
      if continuation then
        mk PExit (running s) (nextname s) (pending s) [] [] (queue s) (lifes s) (nextid s) (nextfolder s)
           (folders s) (Some (jobs s, waiting s)) (dropped s) (ESave :: trace s)
      else set_at PDrop s
  | PDrop =>
      match waiting s with
      | [] => set_at PKill s
      | j :: w =>
          mk PDrop (running s) (nextname s) (pending s) w (jobs s) (queue s) (lifes s) (nextid s) (nextfolder s)
             (remove1 (jfolder j) (folders s)) (saved s) (jname j :: dropped s) (ERm (jfolder j) :: trace s)
      end
  | PKill =>
      match jobs s with
      | [] => set_at PExit s
      | (i, _) :: _ => set_at PKillFin (emit (EKill i) s)
      end
  | PKillFin =>
      match jobs s with
      | [] => set_at PExit s
      | (_, j) :: js => set_at (PKillRm (jfolder j)) (set_jobs js (emit (EFin (jname j)) s))
      end
  | PKillRm f => set_at PKill (set_folders (remove1 f (folders s)) (emit (ERm f) s))
  | PExit => s
  end.

(* the signal handler: only clears the flag *)
Definition stop (s : st) : st := set_running false s.

(* a new process with the same arguments (continuation only): start() loads the pickle if there is one *)
Definition restart (s : st) : st :=
  match at_ s with
  | PExit =>
      if continuation then
        match saved s with
        | Some (js, ws) => set_at PLoop (set_running true (set_jobs js (set_waiting ws s)))
        | None => set_at PLoop (set_running true s)
        end
      else s
  | _ => s
  end.

Definition init (stream : list bool) (lf : list nat) : st :=
  mk PLoop true 0 stream [] [] [] lf 0 0 [] None [] [].

Inductive reach (s0 : st) : st -> Prop :=
| r_init : reach s0 s0
| r_step s : reach s0 s -> reach s0 (step s)
| r_stop s : reach s0 s -> reach s0 (stop s)
| r_restart s : reach s0 s -> reach s0 (restart s).

(* deterministic driver for the correspondence: the handler fires when [stop_after] events have been logged;
   the run ends at PExit (or when the fuel runs out) *)
Fixpoint run (fuel : nat) (stop_after : nat) (s : st) : st :=
  match fuel with
  | O => s
  | S fuel' =>
      match at_ s with
      | PExit => s
      | _ => let s1 := if Nat.eqb (length (trace s)) stop_after then stop s else s in run fuel' stop_after (step s1)
      end
  end.
End Step.

(* ---- ghost counters over the trace ---- *)
Fixpoint count (p : ev -> bool) (t : list ev) : nat :=
  match t with [] => 0 | e :: r => (if p e then 1 else 0) + count p r end.
Definition nsub (n : nat) (s : st) := count (fun e => match e with ESub _ m => Nat.eqb m n | _ => false end) (trace s).
Definition nfin (n : nat) (s : st) := count (fun e => match e with EFin m => Nat.eqb m n | _ => false end) (trace s).
Definition nskip (n : nat) (s : st) := count (fun e => match e with ESetup m false => Nat.eqb m n | _ => false end) (trace s).
Definition nsetup (n : nat) (s : st) := count (fun e => match e with ESetup m _ => Nat.eqb m n | _ => false end) (trace s).
Fixpoint cnt (n : nat) (l : list nat) : nat := match l with [] => 0 | x :: t => (if Nat.eqb x n then 1 else 0) + cnt n t end.

(* names / folders held by the program counter (a job between next_job and submit) *)
Definition pc_names (p : pc) : list nat :=
  match p with PMk n _ => [n] | PSetup j _ => [jname j] | PGate j => [jname j] | PSubmit j => [jname j] | _ => [] end.
Definition pc_folders (p : pc) : list nat :=
  match p with PSetup j _ => [jfolder j] | PGate j => [jfolder j] | PSubmit j => [jfolder j] | PRm f => [f] | PFinRm f _ => [f]
             | PKillRm f => [f] | _ => [] end.
Definition saved_jobs (s : st) : list (nat * job) :=
  match at_ s, saved s with PExit, Some (js, _) => js | _, _ => [] end.
Definition saved_waiting (s : st) : list job :=
  match at_ s, saved s with PExit, Some (_, ws) => ws | _, _ => [] end.
Definition names_of (l : list (nat * job)) := map (fun x => jname (snd x)) l.
Definition folders_of (l : list (nat * job)) := map (fun x => jfolder (snd x)) l.

(* ---- encodings for the correspondence check ---- *)
From Coq Require Import ZArith.
Definition zb (b : bool) : Z := if b then 1%Z else 0%Z.
Definition enc_ev (e : ev) : list Z :=
  match e with
  | ERun b => [0; zb b] | ENext None => [1; -1] | ENext (Some n) => [1; Z.of_nat n] | EMk f => [2; Z.of_nat f]
  | ESetup n ok => [3; Z.of_nat n; zb ok] | ERm f => [4; Z.of_nat f] | ESub i n => [5; Z.of_nat i; Z.of_nat n]
  | EChk i d => [6; Z.of_nat i; zb d] | EFin n => [7; Z.of_nat n] | EKill i => [8; Z.of_nat i] | ESave => [9]
  end%Z.
Definition enc_trace (s : st) : list Z :=
  flat_map enc_ev (rev (trace s)) ++ [(-7)%Z; Z.of_nat (length (folders s)); Z.of_nat (length (jobs s));
                                       (match at_ s with PExit => 1 | _ => 0 end)%Z].
Definition nats (l : list Z) : list nat := map Z.to_nat l.
Definition bools (l : list Z) : list bool := map (fun z => Z.eqb z 1) l.
(* one process per entry of [stops] (events logged, in total, when the handler fires); every process after the first is a restart *)
Definition scenario (mj : Z) (cont : Z) (stream lf : list Z) (stops : list Z) : list Z :=
  let c := Z.eqb cont 1 in let m := Z.to_nat mj in
  match stops with
  | [] => []
  | s1 :: rest =>
      enc_trace (fold_left (fun a sk => run m c 4000 (Z.to_nat sk) (restart c a)) rest
                           (run m c 4000 (Z.to_nat s1) (init (bools stream) (nats lf))))
  end.
