(* C17: hand model of RemapIndices.extract (soprano/properties/map/map.py) and merge_sites (soprano/utils.py).
   Remap: species as nat ids; the per-species linear-sum assignment is an ORACLE (col : for each reference atom of the group, the
   position in the structure's group assigned to it) whose contract - a permutation of the group positions - is a hypothesis of the
   theorems; what soprano owns is the grouping, the flattening and the argsort back to reference order.
   Merge: a structure is a list of sites (multiplicity and one generic value list per site). *)
From Coq Require Import List Arith Bool Lia.
Import ListNotations.

(* ---------------- remap ---------------- *)
Fixpoint positions (p : nat -> bool) (k : nat) (l : list nat) : list nat :=
  match l with [] => [] | x :: t => (if p x then [k] else []) ++ positions p (S k) t end.
(* atoms whose symbol matches species sp; [mt] is the test used by the code (== after the repair; substring before) *)
Definition group (mt : nat -> nat -> bool) (syms : list nat) (sp : nat) : list nat := positions (fun x => mt x sp) 0 syms.

Fixpoint lookup (i : nat) (ps : list (nat * nat)) (d : nat) : nat :=
  match ps with [] => d | (k, v) :: t => if Nat.eqb i k then v else lookup i t d end.
(* one species group: reference atoms rg, structure atoms sg, assignment col -> pairs (reference atom, structure atom) *)
Definition group_pairs (rg sg col : list nat) : list (nat * nat) := combine rg (map (fun c => nth c sg 0) col).
Fixpoint all_pairs (rgs sgs cols : list (list nat)) : list (nat * nat) :=
  match rgs, sgs, cols with
  | rg :: rgs', sg :: sgs', col :: cols' => group_pairs rg sg col ++ all_pairs rgs' sgs' cols'
  | _, _, _ => []
  end.
(* new_indices re-ordered by argsort of the flattened reference groups: entry i is the structure atom paired with reference atom i *)
Definition remap (mt : nat -> nat -> bool) (syms_s syms_r species : list nat) (cols : list (list nat)) : list nat :=
  let rgs := map (group mt syms_r) species in
  let sgs := map (group mt syms_s) species in
  let ps := all_pairs rgs sgs cols in
  map (fun i => lookup i ps 0) (seq 0 (length syms_r)).

(* ---------------- merge ---------------- *)
Record site := mkSite { mult : nat; tag : nat; vals : list nat }.     (* tag: a value merged with merge_first; vals: merged with sum *)
Fixpoint insert (x : nat) (l : list nat) : list nat :=
  match l with [] => [x] | y :: t => if x <=? y then x :: l else y :: insert x t end.
Definition sort (l : list nat) : list nat := fold_right insert [] l.
Definition sum (l : list nat) : nat := fold_right Nat.add 0 l.
Fixpoint vsum (ls : list (list nat)) : list nat :=
  match ls with [] => [] | [v] => v | v :: t => map (fun ab => fst ab + snd ab) (combine v (vsum t)) end.
Definition sel (st : list site) (ix : list nat) : list site := map (fun i => nth i st (mkSite 0 0 [])) ix.
Fixpoint set_nth {A} (i : nat) (x : A) (l : list A) : list A :=
  match l, i with [] , _ => [] | _ :: t, O => x :: t | y :: t, S j => y :: set_nth j x t end.
Fixpoint del_nth {A} (i : nat) (l : list A) : list A :=
  match l, i with [], _ => [] | _ :: t, O => t | y :: t, S j => y :: del_nth j t end.
(* merge_sites(atoms, indices, keep_all): indices are sorted first (after the repair) *)
Definition merge (keep_all : bool) (st : list site) (indices : list nat) : list site :=
  let ix := sort indices in
  match ix with
  | [] => st
  | i0 :: rest =>
      let grp := sel st ix in
      let m := sum (map mult grp) in
      let merged (old : site) := mkSite (if keep_all then mult old else m) (tag (hd old grp)) (vsum (map vals grp)) in
      if keep_all then fold_left (fun s i => set_nth i (merged (nth i s (mkSite 0 0 []))) s) ix st
      else let s1 := fold_left (fun s i => del_nth i s) (rev rest) st in
           set_nth i0 (merged (nth i0 st (mkSite 0 0 []))) s1
  end.
Definition total_mult (st : list site) : nat := sum (map mult st).
