(* C13/C12: hand model of the per-(triangle, bin) formula of TriAvg.average (soprano/calculate/powder/triavg.py:176-237):
   f0 <= f1 <= f2 are the sorted vertex frequencies of a triangle, [a, b] is a bin of the frequency axis.  Loaded under Q and R. *)
Definition maxn (x y : num) : num := if leb x y then y else x.
Definition minn (x y : num) : num := if leb x y then x else y.
Definition clipn (x a b : num) : num := minn (maxn x a) b.          (* np.clip(x, a, b) *)
(* 2.0 / d with inf replaced by 0 *)
Definition slope (d : num) : num := if eqb d (of_Z 0) then of_Z 0 else of_Z 2 / d.
Definition sqn (x : num) : num := x * x.
Definition contrib (f0 f1 f2 a b : num) : num :=
  let sl1 := slope ((f2 - f0) * (f1 - f0)) in
  let sl2 := slope ((f2 - f0) * (f2 - f1)) in
  let c0 := clipn f0 a b in let c1 := clipn f1 a b in let c2 := clipn f2 a b in
  if eqb f0 f2 then (if leb a f0 && ltb f0 b then of_Z 1 else of_Z 0)        (* flat triangle: a delta function *)
  else if ltb b f0 || ltb f2 a then of_Z 0
  else (sqn (c1 - f0) - sqn (c0 - f0)) * (of_Z 1 / of_Z 2) * sl1 + (sqn (f2 - c1) - sqn (f2 - c2)) * (of_Z 1 / of_Z 2) * sl2.
(* bins [e0,e1], [e1,e2], ... from a list of edges *)
Fixpoint total (f0 f1 f2 : num) (e0 : num) (edges : list num) : num :=
  match edges with [] => of_Z 0 | e1 :: rest => contrib f0 f1 f2 e0 e1 + total f0 f1 f2 e1 rest end.
