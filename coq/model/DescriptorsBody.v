(* C02 hand model of the descriptor properties and notation tuples of soprano/nmr/tensor.py (188-220, 1063-1101),
   written over the GENERATED helpers.  l = the tensor's eigenvalues in whatever order the user selected. *)
Definition d_haeb (l:vec3) : vec3 := fst (haeb_sort_True l).
Definition d_incr (l:vec3) : vec3 := fst (evals_sort_i_True l).          (* sorted(self.eigenvalues) *)
Definition d_iso (l:vec3) : num := avg3 l.                                 (* trace/3 *)
Definition d_aniso (l:vec3) : num := anisotropy_False (d_haeb l).
Definition d_redaniso (l:vec3) : num := anisotropy_True (d_haeb l).
Definition d_asym (l:vec3) : num := asymmetry (d_haeb l).
Definition d_span (l:vec3) : num := span l.
Definition d_skew (l:vec3) : num := skew l.
Definition n_haeberlen (l:vec3) := (d_iso l, d_redaniso l, d_aniso l, d_asym l).
Definition n_iupac (l:vec3) := (d_iso l, d_incr l).                        (* Mehring is the same tuple *)
Definition n_maryland (l:vec3) := (d_iso l, d_span l, d_skew l).          (* Herzfeld-Berger is the same tuple *)
(* decoders (written for the theorem: every notation determines the same three principal values) *)
Definition dec_maryland (i om ka:num) : vec3 :=
  let mid := i - ka*om/of_Z 3 in let mx := (of_Z 3*i - mid + om)/of_Z 2 in (mx - om, mid, mx).
Definition dec_haeberlen (i sg eta:num) : vec3 :=
  let z := i + sg in ((of_Z 3*i - z - eta*sg)/of_Z 2, (of_Z 3*i - z + eta*sg)/of_Z 2, z).
