(* C06: hand model of AtomsCollection (soprano/collection/collection.py:122-596).
   A structure is an abstract id; every array cell carries the id of the structure it was attached to when the row
   was created (a ghost tag), or is a padding cell created by `+`. *)
From Coq Require Import ZArith List Bool Lia.
Import ListNotations.
Local Open Scope Z_scope.

Inductive cell := Own (s : Z) | Pad.
Record coll := mkColl { structs : list Z; arrays : list (Z * list cell) }.   (* arrays: name -> rows, insertion order *)

Inductive outcome (A : Type) := Ok (a : A) | Refused | Crashed.
Arguments Ok {A}. Arguments Refused {A}. Arguments Crashed {A}.

Definition len (c : coll) : Z := Z.of_nat (length (structs c)).
Fixpoint lookup (n : Z) (l : list (Z * list cell)) : option (list cell) :=
  match l with [] => None | (m, r) :: t => if m =? n then Some r else lookup n t end.
Definition has (c : coll) (n : Z) : bool := match lookup n (arrays c) with Some _ => true | None => false end.
(* dict assignment: replace in place if present, else append *)
Fixpoint assign (n : Z) (r : list cell) (l : list (Z * list cell)) : list (Z * list cell) :=
  match l with [] => [(n, r)] | (m, r0) :: t => if m =? n then (m, r) :: t else (m, r0) :: assign n r t end.

(* ---- index objects ---- *)
Definition nthZ {A} (l : list A) (i : Z) : option A := if i <? 0 then None else nth_error l (Z.to_nat i).
Fixpoint take {A} (l : list A) (idx : list Z) : option (list A) :=
  match idx with
  | [] => Some []
  | i :: t => match nthZ l i, take l t with Some x, Some r => Some (x :: r) | _, _ => None end
  end.
(* python-style normalisation of a list of ints: negative counts from the end, out of range raises *)
Fixpoint norm_idx (n : Z) (idx : list Z) : option (list Z) :=
  match idx with
  | [] => Some []
  | i :: t => let j := if i <? 0 then i + n else i in
              if (0 <=? j) && (j <? n) then option_map (cons j) (norm_idx n t) else None
  end.
Fixpoint mask_idx (k : Z) (m : list bool) : list Z :=
  match m with [] => [] | b :: t => (if b then [k] else []) ++ mask_idx (k + 1) t end.

(* python slice.indices(n) *)
Definition clamp (lo hi x : Z) : Z := if x <? lo then lo else if hi <? x then hi else x.
Definition slice_idx (n : Z) (a b : option Z) (s : Z) : option (list Z) :=
  if s =? 0 then None
  else if 0 <? s then
    let st := match a with None => 0 | Some x => clamp 0 n (if x <? 0 then x + n else x) end in
    let en := match b with None => n | Some x => clamp 0 n (if x <? 0 then x + n else x) end in
    let cnt := if st <? en then (en - st + s - 1) / s else 0 in
    Some (map (fun k => st + s * Z.of_nat k) (seq 0 (Z.to_nat cnt)))
  else
    let st := match a with None => n - 1 | Some x => clamp (-1) (n - 1) (if x <? 0 then x + n else x) end in
    let en := match b with None => -1 | Some x => clamp (-1) (n - 1) (if x <? 0 then x + n else x) end in
    let cnt := if en <? st then (st - en + (- s) - 1) / (- s) else 0 in
    Some (map (fun k => st + s * Z.of_nat k) (seq 0 (Z.to_nat cnt))).

(* apply one list of (already normalised) positions to the structures and to EVERY array *)
Fixpoint take_arrays (arrs : list (Z * list cell)) (idx : list Z) : option (list (Z * list cell)) :=
  match arrs with
  | [] => Some []
  | (n, r) :: t => match take r idx, take_arrays t idx with Some r', Some t' => Some ((n, r') :: t') | _, _ => None end
  end.
Definition select (c : coll) (idx : list Z) : outcome coll :=
  match take (structs c) idx, take_arrays (arrays c) idx with
  | Some s, Some a => Ok (mkColl s a)
  | _, _ => Crashed
  end.

Inductive index := IInt (k : Z) | ISlice (a b : option Z) (s : Z) | IList (l : list Z) | IMask (m : list bool).

Definition getitem (c : coll) (i : index) : outcome coll :=
  match i with
  | IInt k => if len c =? 0 then Crashed (* k % 0 *) else select c [k mod len c]
  | ISlice a b s => match slice_idx (len c) a b s with Some idx => select c idx | None => Crashed end
  | IList l => match norm_idx (len c) l with Some idx => select c idx | None => Crashed end
  | IMask m => match norm_idx (len c) (mask_idx 0 m) with Some idx => select c idx | None => Crashed end
  end.

(* ---- concatenation with padding ---- *)
Definition pads (n : nat) : list cell := repeat Pad n.
Definition add (c o : coll) : coll :=
  let n1 := length (structs c) in let n2 := length (structs o) in
  let mine := map (fun nr => (fst nr, snd nr ++ match lookup (fst nr) (arrays o) with Some r => r | None => pads n2 end)) (arrays c) in
  let theirs := flat_map (fun nr => if has c (fst nr) then [] else [(fst nr, pads n1 ++ snd nr)]) (arrays o) in
  mkColl (structs c ++ structs o) (mine ++ theirs).

(* ---- sorting by an array: stable argsort of the key column, applied to structures and every array ---- *)
Fixpoint insert_by (rev : bool) (kx x : Z) (l : list (Z * Z)) : list (Z * Z) :=
  match l with
  | [] => [(kx, x)]
  | (ky, y) :: t => if (if rev then kx <? ky else ky <? kx) then (ky, y) :: insert_by rev kx x t else (kx, x) :: l
  end.
(* stable (also with reverse, as python's sorted): elements are inserted from the right, each BEFORE the
   already placed (later) elements with an equal key *)
Definition argsort (rev : bool) (keys : list Z) : list Z :=
  map snd (fold_right (fun kx acc => insert_by rev (fst kx) (snd kx) acc) []
             (combine keys (map Z.of_nat (seq 0 (length keys))))).

Section Ops.
Variable keyf : Z -> Z -> Z.            (* value of array [name] on structure [sid] *)
Definition cell_key (n : Z) (x : cell) : Z := match x with Own s => keyf n s | Pad => 0 end.

Definition sorted_by (c : coll) (n : Z) (rev : bool) : outcome coll :=
  match lookup n (arrays c) with
  | None => Refused                                  (* ValueError: array does not exist *)
  | Some r => select c (argsort rev (map (cell_key n) r))       (* an empty collection sorts to an empty copy (after the repair of F-06c1) *)
  end.

(* ---- filter / classify: index lists built from the structures ---- *)
Fixpoint positions (p : Z -> bool) (k : Z) (l : list Z) : list Z :=
  match l with [] => [] | x :: t => (if p x then [k] else []) ++ positions p (k + 1) t end.
Definition filter_c (c : coll) (p : Z -> bool) : outcome coll := select c (positions p 0 (structs c)).
Definition classify_c (c : coll) (cls : Z -> Z) (k : Z) : outcome coll :=
  select c (positions (fun s => cls s =? k) 0 (structs c)).

(* ---- chunkify ---- *)
Definition chunk_size_of (c : coll) (size n : option Z) : option Z :=
  match size, n with
  | Some k, None => Some k
  | None, Some m => if m =? 0 then None else Some ((len c + m - 1) / m)      (* int(ceil(len/n)) *)
  | _, _ => None
  end.
Definition chunk_idx (kn i n : nat) : list Z := map Z.of_nat (seq (i * kn) (Nat.min kn (n - i * kn))).
Definition collect (parts : list (outcome coll)) : outcome (list coll) :=
  fold_right (fun p acc => match p, acc with Ok x, Ok l => Ok (x :: l) | _, _ => Crashed end) (Ok []) parts.
Definition chunkify (c : coll) (size n : option Z) : outcome (list coll) :=
  match chunk_size_of c size n with
  | None => Refused
  | Some k =>
    if k <=? 0 then Crashed       (* range() with a non-positive step *)
    else
      let kn := Z.to_nat k in let N := length (structs c) in
      let cnt := Z.to_nat ((len c + k - 1) / k) in
      collect (map (fun i => select c (chunk_idx kn i N)) (seq 0 cnt))
  end.

(* ---- set_array ---- *)
Definition set_array (c : coll) (n : Z) (rows : list cell) : outcome coll :=
  if Nat.eqb (length rows) (length (structs c)) then Ok (mkColl (structs c) (assign n rows (arrays c))) else Refused.
Definition set_array_fn (c : coll) (n : Z) : coll := mkColl (structs c) (assign n (map Own (structs c)) (arrays c)).

(* ---- histories ---- *)
Inductive op :=
  | OGet (i : index) | OAdd (other : coll) | OAddTo (other : coll)       (* self + other, other + self *)
  | OSort (n : Z) (rev : bool) | OFilter (m : Z) (r : Z) | OClassify (m : Z) (k : Z)
  | OChunk (size n : option Z) (which : Z)
  | OCopy | OSaveLoad | OSetFn (n : Z) | OSetLen (n : Z) (l : nat).

Definition step (c : coll) (o : op) : outcome coll :=
  match o with
  | OGet i => getitem c i
  | OAdd other => Ok (add c other)
  | OAddTo other => Ok (add other c)
  | OSort n rev => sorted_by c n rev
  | OFilter m r => filter_c c (fun s => s mod m =? r)
  | OClassify m k => classify_c c (fun s => s mod m) k
  | OChunk size n which =>
      match chunkify c size n with
      | Ok l => match nthZ l which with Some x => Ok x | None => Crashed end
      | Refused => Refused | Crashed => Crashed
      end
  | OCopy => Ok c
  | OSaveLoad => Ok c
  | OSetFn n => Ok (set_array_fn c n)
  | OSetLen n l => set_array c n (repeat Pad l)
  end.

Definition run (c : coll) (ops : list op) : outcome coll :=
  fold_left (fun acc o => match acc with Ok c' => step c' o | e => e end) ops (Ok c).
End Ops.

(* ---- the invariant ---- *)
Definition row_ok (s : Z) (x : cell) : Prop := x = Own s \/ x = Pad.
Definition Inv (c : coll) : Prop :=
  forall n rows, In (n, rows) (arrays c) -> Forall2 row_ok (structs c) rows.

(* ---- encodings for the correspondence ---- *)
Definition enc_cell (x : cell) : Z := match x with Own s => s | Pad => -1 end.
Definition enc_coll (c : coll) : list Z :=
  [Z.of_nat (length (structs c))] ++ structs c ++ [Z.of_nat (length (arrays c))] ++
  flat_map (fun nr => [fst nr; Z.of_nat (length (snd nr))] ++ map enc_cell (snd nr)) (arrays c).
Definition enc_out (o : outcome coll) : list Z :=
  match o with Ok c => 0 :: enc_coll c | Refused => [1] | Crashed => [2] end.
Definition enc_outl (o : outcome (list coll)) : list Z :=
  match o with Ok l => 0 :: Z.of_nat (length l) :: flat_map enc_coll l | Refused => [1] | Crashed => [2] end.
Definition key5 (n s : Z) : Z := (s * (7 + 3 * n) + n) mod 5.
Definition mkcoll (ss : list Z) (arrs : list (Z * list Z)) : coll :=
  mkColl ss (map (fun nr => (fst nr, map (fun z => if z <? 0 then Pad else Own z) (snd nr))) arrs).
Definition oz (z : Z) : option Z := if z =? 99999 then None else Some z.
