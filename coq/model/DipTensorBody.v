(* C11: hand model of _dip_tensor (soprano/nmr/utils.py): r is the unit connecting vector, a the unit rotation axis.  Loaded under Q and R. *)
Definition v3 := (num * num * num)%type.
Definition dot3 (u v : v3) : num := let '(u1,u2,u3) := u in let '(w1,w2,w3) := v in u1*w1 + u2*w2 + u3*w3.
Definition m3 := (v3 * v3 * v3)%type.
Definition axial (c : num) (r : v3) : m3 :=            (* c (3 r r^T - I) *)
  let '(x,y,z) := r in
  ((c*(of_Z 3*x*x - of_Z 1), c*(of_Z 3*x*y), c*(of_Z 3*x*z)), (c*(of_Z 3*y*x), c*(of_Z 3*y*y - of_Z 1), c*(of_Z 3*y*z)), (c*(of_Z 3*z*x), c*(of_Z 3*z*y), c*(of_Z 3*z*z - of_Z 1))).
Definition dip_tensor (d : num) (r : v3) : m3 := axial d r.
Definition dip_tensor_rot (d : num) (r a : v3) : m3 := axial (of_Z 1 / of_Z 2 * d * (of_Z 3 * (dot3 r a * dot3 r a) - of_Z 1)) a.
Definition mv (M : m3) (u : v3) : v3 := let '(r1,r2,r3) := M in (dot3 r1 u, dot3 r2 u, dot3 r3 u).
Definition tr3 (M : m3) : num := let '((a,_,_),(_,b,_),(_,_,c)) := M in a + b + c.
Definition transp (M : m3) : m3 := let '((a,b,c),(d,e,f),(g,h,i)) := M in ((a,d,g),(b,e,h),(c,f,i)).
Definition sc3 (k : num) (u : v3) : v3 := let '(x,y,z) := u in (k*x, k*y, k*z).
