(* C19: hand model of the column-wise range normalisation and of the squared distance of PhylogenCluster._recalc
   (soprano/analyse/phylogen/phylogenclust.py:195-232).  Loaded under Q (executable) and R (proofs).
   A column is the list of one gene component over the structures of the collection; w is the column scale weight/sqrt(gene length)
   (irrational in general, so it is a parameter of the model; the harness passes the float the code used as an exact rational). *)
Definition maxn (x y : num) : num := if leb x y then y else x.
Definition minn (x y : num) : num := if leb x y then x else y.
Definition lmax (x : num) (l : list num) : num := fold_left maxn l x.       (* np.amax over the column x :: l *)
Definition lmin (x : num) (l : list num) : num := fold_left minn l x.
(* norm_range = (lo, hi): (v - vmin) / vspan * (hi - lo) + lo with vspan replaced by inf where it is zero (so the column becomes lo) *)
Definition norm_both (lo hi : num) (x : num) (l : list num) : list num :=
  let mn := lmin x l in let mx := lmax x l in
  if eqb (mx - mn) (of_Z 0) then map (fun _ => lo) (x :: l)
  else map (fun v => (v - mn) / (mx - mn) * (hi - lo) + lo) (x :: l).
(* norm_range = (None, hi): shift so that the maximum is hi;  (lo, None): shift so that the minimum is lo *)
Definition norm_max (hi : num) (x : num) (l : list num) : list num := map (fun v => v + (hi - lmax x l)) (x :: l).
Definition norm_min (lo : num) (x : num) (l : list num) : list num := map (fun v => v + (lo - lmin x l)) (x :: l).
Definition scale (w : num) (l : list num) : list num := map (fun v => v * w) l.
(* squared distance between two structures: sum over vector components plus sum over pair-gene entries *)
Fixpoint d2 (a b : list num) : num := match a, b with x :: a', y :: b' => (x - y) * (x - y) + d2 a' b' | _, _ => of_Z 0 end.
Fixpoint sumsq (m : list num) : num := match m with [] => of_Z 0 | x :: r => x * x + sumsq r end.
Definition dist2 (a b : list num) (m : list num) : num := d2 a b + sumsq m.
(* scipy.cluster.vq.vq as used by get_kmeans_clusters: each observation goes to the nearest centroid (the first one among equals) *)
Fixpoint argmin_from (best : Z) (bd : num) (k : Z) (ds : list num) : Z :=
  match ds with [] => best | d :: r => if ltb d bd then argmin_from k d (k + 1)%Z r else argmin_from best bd (k + 1)%Z r end.
Definition nearest (cents : list (list num)) (x : list num) : Z :=
  match map (d2 x) cents with [] => 0%Z | d :: r => argmin_from 0%Z d 1%Z r end.
Definition vq_labels (cents : list (list num)) (obs : list (list num)) : list Z := map (fun x => (nearest cents x + 1)%Z) obs.    (* clusts += 1 *)
