Require Export Sop.base.NumR.
Load "model/PhyloBody".
