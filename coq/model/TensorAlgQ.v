Require Export Sop.base.NumQ.
Load "model/TensorAlgBody".
Definition enc_res (r : res) : list Z := match r with RT t => [1; cls t] ++ flat_map encq (data t) ++ [Z.of_nat (length (meta t))] ++ meta t | RRefused => [0] end%Z.
