(* C10: hand model of the bookkeeping around the NMR array properties (soprano/properties/nmr/ms.py, efg.py, soprano/data/nmr.py,
   soprano/nmr/tensor.py): isotope precedence, reference / gradient resolution (float, dictionary, list), the shift formula,
   Vzz / Cq / Pq / NQR lines.  Loaded after gen/NmrUtilsBody under the Q header (executed) and the R header (proved). *)
(* _get_isotope_list, one element: default isotope, quadrupolar default (may be absent), use_q_isotopes, dictionary entry, list entry *)
Definition iso_choice (dflt : Z) (qiso : option Z) (use_q : bool) (dict : option Z) (lst : option Z) : Z :=
  let iso := dflt in
  let iso := if use_q then match qiso with Some q => q | None => iso end else iso in
  let iso := match dict with Some d => d | None => iso end in
  match lst with Some l => l | None => iso end.

(* references / gradients: a float for every site, a dictionary by element (sites of other elements keep the default), one value per site *)
Inductive refspec := RFloat (x : num) | RDict (d : list (Z * num)) | RList (l : list num).
Fixpoint dlookup (s : Z) (d : list (Z * num)) (dflt : num) : num :=
  match d with [] => dflt | (k, v) :: t => if Z.eqb k s then v else dlookup s t dflt end.
Definition resolve (syms : list Z) (r : refspec) (dflt : num) : option (list num) :=
  match r with
  | RFloat x => Some (map (fun _ => x) syms)
  | RDict d => Some (map (fun s => dlookup s d dflt) syms)
  | RList l => if Nat.eqb (length l) (length syms) then Some l else None
  end.
(* delta = ref + grad * sigma / (1 + ref * 1e-6) *)
Definition shift (r g sigma : num) : num := r + g * sigma / (of_Z 1 + r * (of_Z 1 / of_Z 1000000)).
(* array route: last Haeberlen-sorted value; object route: last NQR-sorted value *)
Definition vzz_array (e : vec3) : num := nth3 (fst (haeb_sort_True e)) 2%nat.
Definition vzz_object (e : vec3) : num := nth3 (fst (evals_sort_n_True e)) 2%nat.
Definition eta_of (e : vec3) : num := asymmetry (fst (haeb_sort_True e)).
(* Cq = k Q Vzz ;  Pq = Cq s with s^2 = 1 + eta^2/3 ; NQR line m -> m+1 : 3 A (2m+1) s, A = Cq / (4 I (2I-1)) *)
Definition cq (k q vzz : num) : num := k * q * vzz.
Definition pq (k q vzz s : num) : num := cq k q vzz * s.
Definition nqr_line (k q vzz spin m s : num) : num := of_Z 3 * (k * vzz * q / (of_Z 4 * spin * (of_Z 2 * spin - of_Z 1))) * (of_Z 2 * m + of_Z 1) * s.
(* ms = [m for m in _frange(-I, I + 1, 1) if m >= 0][:-1], with I = twoI / 2: the doubled values 2m *)
Fixpoint frange2 (fuel : nat) (a b : Z) : list Z :=
  match fuel with O => [] | S f => if Z.ltb a b then a :: frange2 f (a + 2) b else [] end.
Definition nqr_ms2 (twoI : Z) : list Z :=
  let l := filter (fun m => Z.leb 0 m) (frange2 (Z.to_nat (twoI + 2)) (- twoI) (twoI + 2)) in removelast l.
