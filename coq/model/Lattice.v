(* C03 (and C04, C05, C11, C14, C16): periodic geometry over Z.
   Lattice rows, vectors and squared radii are integers (the harness scales decimal inputs by a common
   factor; integer cell indices are invariant under that scaling).  Squared lengths are compared instead
   of lengths.  Hand model of soprano/utils.py: minimum_supcell, supcell_gridgen, minimum_periodic,
   all_periodic (after the wrap-first repair). *)
From Coq Require Import ZArith List Bool Lia.
Import ListNotations.
Local Open Scope Z_scope.

Definition vec := (Z * Z * Z)%type.
Definition latt := (vec * vec * vec)%type.
Definition mask := (bool * bool * bool)%type.

Definition vadd (a b : vec) : vec := let '(a1,a2,a3) := a in let '(b1,b2,b3) := b in (a1+b1, a2+b2, a3+b3).
Definition vsub (a b : vec) : vec := let '(a1,a2,a3) := a in let '(b1,b2,b3) := b in (a1-b1, a2-b2, a3-b3).
Definition smul (k : Z) (a : vec) : vec := let '(a1,a2,a3) := a in (k*a1, k*a2, k*a3).
Definition dotv (a b : vec) : Z := let '(a1,a2,a3) := a in let '(b1,b2,b3) := b in a1*b1 + a2*b2 + a3*b3.
Definition crossv (a b : vec) : vec := let '(a1,a2,a3) := a in let '(b1,b2,b3) := b in
  (a2*b3 - a3*b2, a3*b1 - a1*b3, a1*b2 - a2*b1).
Definition norm2 (a : vec) : Z := dotv a a.
Definition comb (n : vec) (L : latt) : vec :=
  let '(n1,n2,n3) := n in let '(r1,r2,r3) := L in vadd (smul n1 r1) (vadd (smul n2 r2) (smul n3 r3)).
Definition det (L : latt) : Z := let '(r1,r2,r3) := L in dotv r1 (crossv r2 r3).
(* reciprocal rows times det: c_i . r_j = det * delta_ij *)
Definition recip (L : latt) : latt := let '(r1,r2,r3) := L in (crossv r2 r3, crossv r3 r1, crossv r1 r2).
(* numerators of the fractional coordinates: v = (F/det) L *)
Definition fracnum (L : latt) (v : vec) : vec := let '(c1,c2,c3) := recip L in (dotv v c1, dotv v c2, dotv v c3).

Definition nthv (v : vec) (i : nat) : Z := let '(a,b,c) := v in match i with 0%nat => a | 1%nat => b | _ => c end.
Definition nthm (m : mask) (i : nat) : bool := let '(a,b,c) := m in match i with 0%nat => a | 1%nat => b | _ => c end.
Definition maskv (m : mask) (v : vec) : vec :=
  let '(p1,p2,p3) := m in let '(a,b,c) := v in ((if p1 then a else 0), (if p2 then b else 0), (if p3 then c else 0)).
Definition admissible (pbc : mask) (n : vec) : Prop :=
  let '(p1,p2,p3) := pbc in let '(n1,n2,n3) := n in (p1 = false -> n1 = 0) /\ (p2 = false -> n2 = 0) /\ (p3 = false -> n3 = 0).

(* least b >= 0 with b*b*den >= num   (den > 0, num >= 0):  ceil(sqrt(num/den)) *)
Definition ceil_sqrt_frac (num den : Z) : Z :=
  let b0 := Z.sqrt (num / den) in if num <=? b0*b0*den then b0 else b0 + 1.

(* minimum_supcell: r_bounds[i] = ceil(r * sqrt(Ginv_ii)), Ginv_ii = |c_i|^2/det^2, rho = r^2 = rn/rd *)
Definition bound_axis (L : latt) (rn rd : Z) (i : nat) : Z :=
  let '(c1,c2,c3) := recip L in
  let c := match i with 0%nat => c1 | 1%nat => c2 | _ => c3 end in
  ceil_sqrt_frac (rn * norm2 c) (det L * det L * rd).
Definition bounds (L : latt) (pbc : mask) (rn rd : Z) : vec :=
  maskv pbc (bound_axis L rn rd 0, bound_axis L rn rd 1, bound_axis L rn rd 2).

(* the same for an arbitrary positive-definite metric (a b c / b d e / c e f), e.g. the reciprocal one *)
Definition metric := (Z * Z * Z * Z * Z * Z)%type.   (* a b c d e f *)
Definition qform (G : metric) (n : vec) : Z :=
  let '(a,b,c,d,e,f) := G in let '(n1,n2,n3) := n in
  a*n1*n1 + d*n2*n2 + f*n3*n3 + 2*b*n1*n2 + 2*c*n1*n3 + 2*e*n2*n3.
Definition mdet (G : metric) : Z := let '(a,b,c,d,e,f) := G in a*(d*f - e*e) - b*(b*f - e*c) + c*(b*e - d*c).
Definition mcof (G : metric) (i : nat) : Z := let '(a,b,c,d,e,f) := G in
  match i with 0%nat => d*f - e*e | 1%nat => a*f - c*c | _ => a*d - b*b end.
Definition bound_metric (G : metric) (rn rd : Z) (i : nat) : Z := ceil_sqrt_frac (rn * mcof G i) (mdet G * rd).
Definition gram (L : latt) : metric := let '(r1,r2,r3) := L in
  (dotv r1 r1, dotv r1 r2, dotv r1 r3, dotv r2 r2, dotv r2 r3, dotv r3 r3).

(* supcell_gridgen: symmetric box, z slowest, x fastest *)
Definition zrange (lo hi : Z) : list Z := map (fun k => lo + Z.of_nat k) (seq 0 (Z.to_nat (hi - lo + 1))).
Definition grid (b : vec) : list vec := let '(bx,by_,bz) := b in
  flat_map (fun z => flat_map (fun y => map (fun x => (x,y,z)) (zrange (-bx) bx)) (zrange (-by_) by_)) (zrange (-bz) bz).

(* np.argmin over keys, None = +inf; all +inf -> index 0 *)
Fixpoint amin_go {A} (key : A -> option Z) (l : list A) (best : option (A * Z)) : option (A * Z) :=
  match l with
  | [] => best
  | x :: r =>
    amin_go key r
      (match key x with
       | None => best
       | Some k => match best with None => Some (x,k) | Some (_,kb) => if k <? kb then Some (x,k) else best end
       end)
  end.
Definition amin {A} (key : A -> option Z) (l : list A) (dflt : A) : A :=
  match amin_go key l None with Some (x,_) => x | None => hd dflt l end.

(* _reduce_to_cell: rounded fractional coordinates on the periodic axes (np.round = half to even) *)
Definition round_div (a d : Z) : Z :=       (* d <> 0 *)
  let a' := if d <? 0 then - a else a in let d' := Z.abs d in
  let q := a' / d' in let r := a' mod d' in
  if 2*r <? d' then q else if d' <? 2*r then q + 1 else (if Z.even q then q else q + 1).
Definition shift_of (L : latt) (pbc : mask) (v : vec) : vec :=
  let '(f1,f2,f3) := fracnum L v in let D := det L in
  maskv pbc (round_div f1 D, round_div f2 D, round_div f3 D).

Definition key_of (L : latt) (excl : bool) (v n : vec) : option Z :=
  let w := norm2 (vadd v (comb n L)) in if excl && (w =? 0) then None else Some w.
(* one already-reduced vector against a grid *)
Definition min_image1 (L : latt) (excl : bool) (b : vec) (v : vec) : vec * vec :=
  let n := amin (key_of L excl v) (grid b) (0,0,0) in (vadd v (comb n L), n).

Definition zmax (a b : Z) := if a <? b then b else a.
Definition zmin (a b : Z) := if a <? b then a else b.
Definition maxnorm2 (vs : list vec) : Z := fold_left (fun m v => zmax m (norm2 v)) vs 0.
(* shortest periodic row (squared), for exclude_self *)
Definition min_row2 (L : latt) (pbc : mask) : option Z :=
  let '(r1,r2,r3) := L in let '(p1,p2,p3) := pbc in
  let c := (if p1 then [norm2 r1] else []) ++ (if p2 then [norm2 r2] else []) ++ (if p3 then [norm2 r3] else []) in
  match c with [] => None | x :: r => Some (fold_left zmin r x) end.

Definition reduce (L : latt) (pbc : mask) (v : vec) : vec * vec :=
  let s := shift_of L pbc v in (vsub v (comb s L), s).

Definition rho_min (L : latt) (pbc : mask) (excl : bool) (red : list (vec * vec)) : Z :=
  let m := maxnorm2 (map fst red) in
  if excl then match min_row2 L pbc with Some x => zmax m x | None => m end else m.

Definition minimum_periodic_m (L : latt) (pbc : mask) (excl : bool) (vs : list vec) : list (vec * vec) :=
  let red := map (reduce L pbc) vs in
  let b := bounds L pbc (rho_min L pbc excl red) 1 in
  map (fun vs' => let '(v', s) := vs' in let '(w, n) := min_image1 L excl b v' in (w, vsub n s)) red.

Fixpoint enumerate_from {A} (k : Z) (l : list A) : list (Z * A) :=
  match l with [] => [] | x :: r => (k, x) :: enumerate_from (k+1) r end.

Definition all_periodic_m (L : latt) (pbc : mask) (rn rd : Z) (vs : list vec) : list (vec * Z * vec) :=
  let b := bounds L pbc rn rd in
  flat_map (fun kv => let '(k, v) := kv in
              let '(v', s) := reduce L pbc v in
              flat_map (fun n => let w := vadd v' (comb n L) in
                                 if norm2 w * rd <=? rn then [(w, k, vsub n s)] else []) (grid b))
           (enumerate_from 0 vs).

(* the same search with an arbitrary acceptance test (from_box: the open box; from_sphere is all_periodic_m) *)
Definition images_where_m (L : latt) (pbc : mask) (rn rd : Z) (P : vec -> bool) (vs : list vec) : list (vec * Z * vec) :=
  let b := bounds L pbc rn rd in
  flat_map (fun kv => let '(k, v) := kv in
              let '(v', s) := reduce L pbc v in
              flat_map (fun n => let w := vadd v' (comb n L) in
                                 if P w then [(w, k, vsub n s)] else []) (grid b))
           (enumerate_from 0 vs).
(* AtomSelection.from_box(periodic=True), absolute coordinates, in DOUBLED coordinates (the middle of the box is a half-integer
   point): lattice 2L, vectors 2p-(lo+hi), radius^2 4|hi-lo|^2, accepted when strictly inside the box *)
Definition dblL (L : latt) : latt := let '(r1,r2,r3) := L in (smul 2 r1, smul 2 r2, smul 2 r3).
Definition inbox2 (d : vec) (w : vec) : bool :=
  let '(d1,d2,d3) := d in let '(w1,w2,w3) := w in
  (- d1 <? w1) && (w1 <? d1) && (- d2 <? w2) && (w2 <? d2) && (- d3 <? w3) && (w3 <? d3).
Definition box_m (L : latt) (pbc : mask) (lo hi : vec) (pos : list vec) : list (vec * Z * vec) :=
  images_where_m (dblL L) pbc (4 * norm2 (vsub hi lo)) 1 (inbox2 (vsub hi lo))
                 (map (fun p => vsub (smul 2 p) (vadd lo hi)) pos).
Definition inside (lo hi w : vec) : Prop :=
  let '(l1,l2,l3) := lo in let '(h1,h2,h3) := hi in let '(w1,w2,w3) := w in
  l1 < w1 < h1 /\ l2 < w2 < h2 /\ l3 < w3 < h3.

(* ---- spec-level predicates ---- *)
Definition IsImage (L : latt) (pbc : mask) (v w n : vec) : Prop := w = vadd v (comb n L) /\ admissible pbc n.
Definition IsMinImage (L : latt) (pbc : mask) (v w n : vec) : Prop :=
  IsImage L pbc v w n /\ forall n', admissible pbc n' -> norm2 w <= norm2 (vadd v (comb n' L)).
Definition IsShortestNonzero (L : latt) (pbc : mask) (w n : vec) : Prop :=
  IsImage L pbc (0,0,0) w n /\ 0 < norm2 w /\
  forall n', admissible pbc n' -> 0 < norm2 (comb n' L) -> norm2 w <= norm2 (comb n' L).

(* ---- encodings for the correspondence check ---- *)
Definition encv (v : vec) : list Z := let '(a,b,c) := v in [a;b;c].
Definition enc_min (r : list (vec * vec)) : list Z := flat_map (fun wn => encv (fst wn) ++ encv (snd wn)) r.
Definition enc_all (r : list (vec * Z * vec)) : list Z :=
  flat_map (fun x => let '(w,k,n) := x in encv w ++ [k] ++ encv n) r.
Definition mkL (a1 a2 a3 b1 b2 b3 c1 c2 c3 : Z) : latt := ((a1,a2,a3),(b1,b2,b3),(c1,c2,c3)).
Definition mkm (a b c : Z) : mask := (a =? 1, b =? 1, c =? 1).
Fixpoint mkvs (l : list Z) : list vec := match l with a :: b :: c :: r => (a,b,c) :: mkvs r | _ => [] end.
