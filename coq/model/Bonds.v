(* C04: hand model of _compute_bonds / Bonds.extract / Molecules.extract (soprano/properties/linkage/linkage.py) over Z.
   Coordinates, lattice rows and radii are integers in a common unit (the harness scales by 2 so that half-sums are integers):
   a pair is bonded when 4 d^2 <= (R_i + R_j)^2. *)
From Coq Require Import ZArith List Bool Lia.
Import ListNotations.
Require Import Sop.model.Lattice.
Local Open Scope Z_scope.

Definition zseq (lo n : Z) : list Z := map (fun k => lo + Z.of_nat k) (seq 0 (Z.to_nat n)).
(* np.triu_indices(N, k=1): (0,1), (0,2), ..., (1,2), ... *)
Definition triu (N : Z) : list (Z * Z) := flat_map (fun i => map (fun j => (i, j)) (zseq (i + 1) (N - i - 1))) (zseq 0 N).
Definition nthZ {A} (l : list A) (i : Z) (d : A) : A := nth (Z.to_nat i) l d.
Definition zmaxl (l : list Z) : Z := fold_left Z.max l 0.
Definition vneg (v : vec) : vec := let '(a,b,c) := v in (-a, -b, -c).

(* bond tuples (i, j, cell, d^2): atom j's copy in [cell] is at squared distance d^2 from atom i *)
Definition bonds_m (L : latt) (pbc : mask) (pos : list vec) (radii : list Z) : list (Z * Z * vec * Z) :=
  let N := Z.of_nat (length pos) in
  let prs := triu N in
  let vs := map (fun p => vsub (nthZ pos (fst p) (0,0,0)) (nthZ pos (snd p) (0,0,0))) prs in
  let rmax := zmaxl radii in
  flat_map (fun x => match x with (w, k, n) =>
      let '(i, j) := nthZ prs k (0, 0) in
      let s := nthZ radii i 0 + nthZ radii j 0 in
      if 4 * norm2 w <=? s * s then [(i, j, vneg n, norm2 w)] else [] end)
    (all_periodic_m L pbc (rmax * rmax) 1 vs).
Definition bond_matrix (N : Z) (b : list (Z * Z * vec * Z)) (i j : Z) : bool :=
  existsb (fun x => match x with (a, c, _, _) => ((a =? i) && (c =? j)) || ((a =? j) && (c =? i)) end) b.

(* ---- molecules: the queue-based traversal as written ---- *)
Definition link := (Z * vec)%type.
Definition get_linked (b : list (Z * Z * vec)) (i : Z) : list link :=
  flat_map (fun x => match x with (a, c, cell) => if a =? i then [(c, cell)] else if c =? i then [(a, vneg cell)] else [] end) b.
Definition memz (x : Z) (l : list Z) : bool := existsb (Z.eqb x) l.
Fixpoint remove1z (x : Z) (l : list Z) : list Z := match l with [] => [] | y :: t => if x =? y then t else y :: remove1z x t end.
Definition visit (c1 : vec) (st : list (Z * vec) * list Z) (l : link) : list (Z * vec) * list Z :=
  let '(q, u) := st in let '(a, cl) := l in
  if memz a u then (q ++ [(a, vadd c1 cl)], remove1z a u) else (q, u).
Definition molrec := (Z * vec * list Z)%type.       (* atom, cell offset, neighbours in bond-list order *)
Fixpoint bfs (fuel : nat) (b : list (Z * Z * vec)) (queue : list (Z * vec)) (unsorted : list Z) (acc : list molrec) : list molrec * list Z :=
  match fuel with
  | O => (acc, unsorted)
  | S f =>
      match queue with
      | [] => (acc, unsorted)
      | (a1, c1) :: q =>
          let links := get_linked b a1 in
          let '(q', u') := fold_left (visit c1) links (q, unsorted) in
          bfs f b q' u' (acc ++ [(a1, c1, map fst links)])
      end
  end.
Fixpoint mols (fuel : nat) (n : nat) (b : list (Z * Z * vec)) (unsorted : list Z) : list (list molrec) :=
  match fuel with
  | O => []
  | S f =>
      match unsorted with
      | [] => []
      | a :: u => let '(m, u') := bfs n b [(a, (0,0,0))] u [] in m :: mols f n b u'
      end
  end.
Definition molecules_m (N : Z) (b : list (Z * Z * vec)) : list (list molrec) :=
  mols (S (Z.to_nat N)) (S (Z.to_nat N)) b (zseq 0 N).
Definition atoms_of (m : list molrec) : list Z := map (fun r => fst (fst r)) m.

Definition enc_bonds (b : list (Z * Z * vec * Z)) : list Z := flat_map (fun x => match x with (i, j, c, d) => [i; j] ++ encv c ++ [d] end) b.
Definition enc_mols (ms : list (list molrec)) : list Z :=
  flat_map (fun m => [-1; Z.of_nat (length m)] ++ flat_map (fun r => match r with (a, c, nb) => [a] ++ encv c ++ [Z.of_nat (length nb)] ++ nb end) m) ms.
Fixpoint mkb (l : list Z) : list (Z * Z * vec) := match l with i :: j :: a :: b :: c :: r => (i, j, (a, b, c)) :: mkb r | _ => [] end.
