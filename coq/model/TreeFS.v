(* C20: hand model of the target folder and the documented permission table. *)
From Coq Require Import ZArith List Bool.
Import ListNotations.
Require Import Sop.gen.TreeGen.
Local Open Scope Z_scope.

(* states of the target path that check_tree distinguishes *)
Inductive target :=
  | Absent          (* path does not exist *)
  | ValidTree       (* .collection + exactly the listed sub-folders *)
  | MetaExtraFile   (* .collection + listed sub-folders + a foreign file *)
  | MetaExtraDir    (* .collection + listed sub-folders + a foreign folder *)
  | MetaMissingDir  (* .collection but a listed sub-folder is missing *)
  | PlainFiles      (* a folder with files, no .collection *)
  | EmptyDir        (* an empty folder *)
  | BadMeta.        (* .collection exists but is not a readable pickle: check_tree raises *)

(* check_tree: None = raises (before anything is touched) *)
Definition check_tree (t : target) : option Z :=
  match t with
  | Absent => Some (-1)
  | ValidTree => Some 0
  | MetaExtraFile | MetaExtraDir | MetaMissingDir => Some 1
  | PlainFiles | EmptyDir => Some 2
  | BadMeta => None
  end.

(* The docstring of save_tree, as a table: may an EXISTING target be deleted and rewritten?
   3: ask if it passes check_tree, raise otherwise;  2: overwrite if it passes, raise otherwise;
   1: overwrite if it passes, ask otherwise;         0: always overwrite. *)
Definition permitted (safety check : Z) (answer : bool) : bool :=
  if safety =? 3 then (check =? 0) && answer
  else if safety =? 2 then (check =? 0)
  else if safety =? 1 then (check =? 0) || answer
  else if safety =? 0 then true
  else false.

Definition is_ev (e f : event) : bool :=
  match e, f with
  | EAsk, EAsk | ERaise, ERaise | EPrint, EPrint | ERmtree, ERmtree | EMkdir, EMkdir | EWrite, EWrite => true
  | _, _ => false
  end.
Definition has (e : event) (l : list event) : bool := existsb (is_ev e) l.

(* what happens to the target: the whole call on a target state *)
Inductive fate := Intact | Replaced | Created | CheckRaises.
Definition save_fate (t : target) (safety : Z) (answer : bool) : fate * list event :=
  match check_tree t with
  | None => (CheckRaises, [])
  | Some c =>
    let evs := save_decide c safety answer in
    ((if has ERmtree evs then Replaced
      else if has EMkdir evs then Created else Intact), evs)
  end.

Definition ev_code (e : event) : Z :=
  match e with EAsk => 1 | ERaise => 2 | EPrint => 3 | ERmtree => 4 | EMkdir => 5 | EWrite => 6 end.
Definition target_of_code (z : Z) : target :=
  match z with 0 => Absent | 1 => ValidTree | 2 => MetaExtraFile | 3 => MetaExtraDir | 4 => MetaMissingDir
             | 5 => PlainFiles | 6 => EmptyDir | _ => BadMeta end.
Definition fate_code (f : fate) : Z := match f with Intact => 0 | Replaced => 1 | Created => 2 | CheckRaises => 3 end.
Definition enc_save (t safety ans : Z) : list Z :=
  let '(f, evs) := save_fate (target_of_code t) safety (ans =? 1) in fate_code f :: map ev_code evs.

(* load_tree: documented behaviour per safety level *)
Definition dir_code (d : option dirsrc) : Z :=
  match d with None => 0 | Some DNone => 1 | Some DListed => 2 | Some DAll => 3 end.
Definition enc_load (t safety : Z) : list Z :=
  match check_tree (target_of_code t) with
  | None => [9]
  | Some c => [dir_code (load_dirs c safety);
               (if load_arrays c safety then 1 else 0); (if load_meta_info c safety then 1 else 0)]
  end.
Definition end_code (e : load_end) : Z := match e with EndRaise => 0 | EndPartial => 1 | EndFull => 2 end.
