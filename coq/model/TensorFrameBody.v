(* C01 hand model of NMRTensor._process_data/_order_tensor (soprano/nmr/tensor.py:108-149), written over the
   GENERATED sort.  A tensor state is (eigenvalues, frame of three column vectors). *)
Definition order_frame (p:perm3) (F:frame) : frame := let '(a,b,_) := gatherc F p in (a, b, cross a b).
Definition conv_sort (c:nat) (l:vec3) : vec3 * perm3 :=
  match c with
  | 0%nat => evals_sort_i_True l | 1%nat => evals_sort_d_True l
  | 2%nat => evals_sort_h_True l | _ => evals_sort_n_True l end.
(* order setter on a freshly processed (evals, evecs) pair, and again on an ordered tensor *)
Definition construct (c:nat) (t:vec3 * frame) : vec3 * frame :=
  let '(l,F) := t in let '(s,p) := conv_sort c l in (s, order_frame p F).
(* re-ordering with the SAME order only re-applies the cross product *)
Definition reorder (cold cnew:nat) (t:vec3 * frame) : vec3 * frame :=
  if Nat.eqb cold cnew then (let '(l,F) := t in (l, order_frame (0,1,2)%nat F)) else construct cnew t.
Definition Ortho (F:frame) : Prop := let '(a,b,c) := F in
  dot a a = of_Z 1 /\ dot b b = of_Z 1 /\ dot c c = of_Z 1 /\ dot a b = of_Z 0 /\ dot a c = of_Z 0 /\ dot b c = of_Z 0.
