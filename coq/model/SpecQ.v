Require Export Sop.model.TentQ.
Load "model/SpecBody".
