Require Export Sop.model.NmrUtilsQ.
Load "model/NmrPropsBody".
