(* C07: hand model of AtomSelection (soprano/selection.py). A selection is a list of atom indices of a system of
   [natoms] atoms, an optional composition hash, and per-position arrays. *)
From Coq Require Import ZArith List Bool Lia.
Import ListNotations.
Local Open Scope Z_scope.

Record sel := mkSel { natoms : Z; auth : option Z; idx : list Z; sarrays : list (Z * list Z) }.

Inductive outcome (A : Type) := Ok (a : A) | Refused | Crashed.
Arguments Ok {A}. Arguments Refused {A}. Arguments Crashed {A}.

Definition memz (i : Z) (l : list Z) : bool := existsb (Z.eqb i) l.
Definition zseq (n : Z) : list Z := map Z.of_nat (seq 0 (Z.to_nat n)).
(* python set of small non-negative ints iterates in ascending order *)
Definition asc_set (n : Z) (p : Z -> bool) : list Z := filter p (zseq n).

(* constructor validation *)
Definition valid_idx (n : Z) (l : list Z) : bool := forallb (fun i => (0 <=? i) && (i <? n)) l.
Definition make (n : Z) (a : option Z) (l : list Z) : outcome sel :=
  if valid_idx n l then Ok (mkSel n a l []) else Refused.

Fixpoint lookup (k : Z) (l : list (Z * list Z)) : option (list Z) :=
  match l with [] => None | (m, r) :: t => if m =? k then Some r else lookup k t end.
(* position of the first occurrence *)
Fixpoint first_pos (i : Z) (l : list Z) (p : nat) : option nat :=
  match l with [] => None | x :: t => if x =? i then Some p else first_pos i t (S p) end.
(* position of the last occurrence (dict(zip(...)) keeps the last) *)
Fixpoint last_pos (i : Z) (l : list Z) (p : nat) : option nat :=
  match l with [] => None | x :: t => match last_pos i t (S p) with Some q => Some q | None => if x =? i then Some p else None end end.
Definition val_first (ix : list Z) (vals : list Z) (i : Z) : option Z :=
  match first_pos i ix 0 with Some p => nth_error vals p | None => None end.
Definition val_last (ix : list Z) (vals : list Z) (i : Z) : option Z :=
  match last_pos i ix 0 with Some p => nth_error vals p | None => None end.
Fixpoint sequence {A} (l : list (option A)) : option (list A) :=
  match l with [] => Some [] | Some x :: t => option_map (cons x) (sequence t) | None :: _ => None end.

Definition compatible (a b : sel) : bool :=
  match auth a, auth b with Some x, Some y => x =? y | _, _ => true end.

Definition names (s : sel) : list Z := map fst (sarrays s).
Definition dedup_names (l : list Z) : list Z := nodup Z.eq_dec l.

(* ---- sum: union; arrays present in BOTH, re-indexed (self's value wins on common atoms) ---- *)
Definition sadd (a b : sel) : outcome sel :=
  if negb (compatible a b) then Refused else
  let ix := asc_set (natoms a) (fun i => memz i (idx a) || memz i (idx b)) in
  let common := filter (fun k => memz k (names b)) (dedup_names (names a)) in
  let arrs := map (fun k =>
      match lookup k (sarrays a), lookup k (sarrays b) with
      | Some va, Some vb =>
          (k, sequence (map (fun i => match val_last (idx a) va i with Some v => Some v | None => val_last (idx b) vb i end) ix))
      | _, _ => (k, None)
      end) common in
  match sequence (map (fun kv => option_map (pair (fst kv)) (snd kv)) arrs) with
  | Some l => Ok (mkSel (natoms a) (auth a) ix l)
  | None => Crashed
  end.

(* ---- difference: self's arrays re-indexed by first occurrence ---- *)
Definition ssub (a b : sel) : outcome sel :=
  if negb (compatible a b) then Refused else
  let ix := asc_set (natoms a) (fun i => memz i (idx a) && negb (memz i (idx b))) in
  let arrs := map (fun kv => option_map (pair (fst kv)) (sequence (map (val_first (idx a) (snd kv)) ix))) (sarrays a) in
  match sequence arrs with
  | Some l => Ok (mkSel (natoms a) (auth a) ix l)
  | None => Crashed
  end.

(* ---- product: intersection; arrays of either operand; conflicting ones dropped ---- *)
Fixpoint zlist_eqb (a b : list Z) : bool :=
  match a, b with [], [] => true | x :: a', y :: b' => (x =? y) && zlist_eqb a' b' | _, _ => false end.
Definition smul (a b : sel) : outcome sel :=
  if negb (compatible a b) then Refused else
  let ix := asc_set (natoms a) (fun i => memz i (idx a) && memz i (idx b)) in
  let allk := dedup_names (names a ++ names b) in
  let pick := fun k =>
      let r1 := match lookup k (sarrays a) with Some va => Some (sequence (map (val_first (idx a) va) ix)) | None => None end in
      let r2 := match lookup k (sarrays b) with Some vb => Some (sequence (map (val_first (idx b) vb) ix)) | None => None end in
      match r1, r2 with
      | Some None, _ | _, Some None => Some None                     (* indexing failed: crash *)
      | Some (Some x), Some (Some y) => if zlist_eqb x y then Some (Some (k, x)) else None   (* conflict: dropped *)
      | Some (Some x), None => Some (Some (k, x))
      | None, Some (Some y) => Some (Some (k, y))
      | None, None => None
      end in
  let res := flat_map (fun k => match pick k with Some r => [r] | None => [] end) allk in
  match sequence res with
  | Some l => Ok (mkSel (natoms a) (auth a) ix l)
  | None => Crashed
  end.

(* ---- slicing / iteration ---- *)
Definition nthZ {A} (l : list A) (i : Z) : option A := if i <? 0 then None else nth_error l (Z.to_nat i).
Definition take_pos {A} (l : list A) (ps : list Z) : option (list A) := sequence (map (nthZ l) ps).
Definition sget (s : sel) (ps : list Z) : outcome sel :=
  match take_pos (idx s) ps, sequence (map (fun kv => option_map (pair (fst kv)) (take_pos (snd kv) ps)) (sarrays s)) with
  | Some ix, Some arrs => Ok (mkSel (natoms s) (auth s) ix arrs)
  | _, _ => Crashed
  end.
Definition set_array (s : sel) (k : Z) (v : list Z) : outcome sel :=
  if Nat.eqb (length v) (length (idx s)) then
    Ok (mkSel (natoms s) (auth s) (idx s) ((k, v) :: filter (fun kv => negb (fst kv =? k)) (sarrays s)))
  else Refused.

(* ---- selectors on a system given as lists of element ids / values ---- *)
Fixpoint positions {A} (p : A -> bool) (k : Z) (l : list A) : list Z :=
  match l with [] => [] | x :: t => (if p x then [k] else []) ++ positions p (k + 1) t end.
Definition from_element (syms : list Z) (e : Z) : list Z := positions (Z.eqb e) 0 syms.
Inductive cmp := Clt | Cle | Ceq | Cge | Cgt.
Definition cmpf (c : cmp) (x v : Z) : bool :=
  match c with Clt => x <? v | Cle => x <=? v | Ceq => x =? v | Cge => v <=? x | Cgt => v <? x end.
Definition from_array (vals : list Z) (c : cmp) (v : Z) : list Z := positions (fun x => cmpf c x v) 0 vals.

(* selection strings, after tokenisation: El | El.i | El.i-j | El.i.j... | label *)
Inductive site := SOne (i : Z) | SRange (i j : Z).
(* IBare: a comma item made only of site numbers ('Si.1-3,5'); it continues the indexed item just before it *)
Inductive item := IEl (e : Z) | IIdx (e : Z) (s : list site) | ILabel (e : Z) (lab : Z) | IBare (s : list site).
Definition expand_site (s : site) : list Z :=
  match s with SOne i => [i] | SRange i j => map (fun k => i + Z.of_nat k) (seq 0 (Z.to_nat (j - i + 1))) end.
Fixpoint group_set (e : Z) (v : list Z) (g : list (Z * list Z)) : list (Z * list Z) :=
  match g with [] => [(e, v)] | (f, w) :: t => if f =? e then (f, v) :: t else (f, w) :: group_set e v t end.
Fixpoint group_ext (e : Z) (v : list Z) (g : list (Z * list Z)) : list (Z * list Z) :=
  match g with [] => [(e, v)] | (f, w) :: t => if f =? e then (f, w ++ v) :: t else (f, w) :: group_ext e v t end.
Fixpoint first_occ (l : list Z) (seen : list Z) : list Z :=
  match l with [] => [] | x :: t => if memz x seen then first_occ t seen else x :: first_occ t (x :: seen) end.

(* 1-based site numbers of one element -> atom indices (numpy negative indexing after the -1); None = out of range *)
Definition pick_sites (eidx : list Z) (want : list Z) : option (list Z) :=
  sequence (map (fun i => let j := i - 1 in
                          let j' := if j <? 0 then j + Z.of_nat (length eidx) else j in
                          nthZ eidx j') want).

(* prev: element of the indexed item immediately before (None otherwise).  Refused = the string is rejected with an exception
   (ValueError, or IndexError for a site number beyond the element count / a bare item with nothing to continue). *)
Fixpoint from_items (syms labels : list Z) (items : list item) (prev : option Z) (g : list (Z * list Z)) : outcome (list Z) :=
  match items with
  | [] => Ok (first_occ (flat_map snd g) [])
  | it :: rest =>
    let it' := match it, prev with IBare ss, Some e => Some (IIdx e ss) | IBare _, None => None | x, _ => Some x end in
    match it' with
    | None => Refused
    | Some it =>
      let e := match it with IEl e | IIdx e _ | ILabel e _ => e | IBare _ => 0 end in
      let eidx := from_element syms e in
      if negb (memz e syms) then Refused
      else match it with
      | IEl _ => from_items syms labels rest None (group_set e eidx g)
      | IIdx _ ss =>
          let want := flat_map expand_site ss in
          if memz 0 want then Refused
          else match pick_sites eidx want with
               | Some v => from_items syms labels rest (Some e) (group_ext e v g)
               | None => Refused
               end
      | ILabel _ lab =>
          let li := positions (Z.eqb lab) 0 labels in
          match li with [] => Refused | _ => from_items syms labels rest None (group_ext e li g) end
      | IBare _ => Refused
      end
    end
  end.

(* ---- encodings ---- *)
Definition enc_sel (s : sel) : list Z :=
  [Z.of_nat (length (idx s))] ++ idx s ++ [Z.of_nat (length (sarrays s))] ++
  flat_map (fun kv => [fst kv; Z.of_nat (length (snd kv))] ++ snd kv) (sarrays s).
Definition enc_out (o : outcome sel) : list Z := match o with Ok s => 0 :: enc_sel s | Refused => [1] | Crashed => [2] end.
Definition enc_outl (o : outcome (list Z)) : list Z := match o with Ok l => 0 :: l | Refused => [1] | Crashed => [2] end.
Definition oa (z : Z) : option Z := if z <? 0 then None else Some z.
Definition mks (n a : Z) (ix : list Z) (arrs : list (Z * list Z)) : sel := mkSel n (oa a) ix arrs.
Definition bind2 (x y : outcome sel) (f : sel -> sel -> outcome sel) : outcome sel :=
  match x, y with Ok a, Ok b => f a b | Crashed, _ | _, Crashed => Crashed | _, _ => Refused end.
