(* C11: hand model of the pair enumeration of DipolarCoupling.extract (soprano/properties/nmr/dipolar.py) and of the image set of DipolarRSS. *)
From Coq Require Import ZArith List Bool Lia.
Import ListNotations.
Require Import Sop.model.Lattice.
Local Open Scope Z_scope.

Definition norm_pair (p : Z * Z) : Z * Z := let '(i, j) := p in if i <=? j then (i, j) else (j, i).
Definition pair_eqb (p q : Z * Z) : bool := (fst p =? fst q) && (snd p =? snd q).
Fixpoint dedup (l : list (Z * Z)) : list (Z * Z) :=
  match l with [] => [] | p :: t => if existsb (pair_eqb p) t then dedup t else p :: dedup t end.
Definition el_of (elems : list Z) (i : Z) : Z := nth (Z.to_nat i) elems (-1).
(* [(i, j) for i in sel_i for j in sel_j], minus self pairs unless self_coupling, minus hetero pairs if isonuclear, as a SET of (min, max) *)
Definition pairs_m (elems : list Z) (sel_i sel_j : list Z) (self_c iso : bool) : list (Z * Z) :=
  let all := flat_map (fun i => map (fun j => (i, j)) sel_j) sel_i in
  let l1 := if self_c then all else filter (fun p => negb (fst p =? snd p)) all in
  let l2 := if iso then filter (fun p => el_of elems (fst p) =? el_of elems (snd p)) l1 else l1 in
  dedup (map norm_pair l2).
(* blocks *)
Fixpoint chunks_fuel {A} (fuel : nat) (n : nat) (l : list A) : list (list A) :=
  match fuel with O => [] | S f => match l with [] => [] | _ => firstn n l :: chunks_fuel f n (skipn n l) end end.
Definition chunks {A} (n : nat) (l : list A) : list (list A) := chunks_fuel (length l) n l.

(* DipolarRSS: images of atom j seen from atom i within the cutoff, zero distance excluded (positions reduced first, after the repair) *)
Definition rss_images (L : latt) (rn rd : Z) (pos : list vec) (pi : vec) : list (vec * Z * vec) :=
  images_where_m L (true, true, true) rn rd (fun w => (0 <? norm2 w) && (norm2 w * rd <=? rn)) (map (fun p => vsub p pi) pos).

Definition enc_pairs (l : list (Z * Z)) : list Z := flat_map (fun p => [fst p; snd p]) l.
