Require Export Sop.base.NumQ.
Load "model/XrdMetricBody".
Definition enc6 (m : mat6) : list Z := let '(a,b,c,d,e,f) := m in encq a ++ encq b ++ encq c ++ encq d ++ encq e ++ encq f.
