(* C12: hand model of the assembly of NMRCalculator.spectrum_1d (soprano/calculate/nmr/nmr.py:687-732) on top of the per-(triangle, bin) formula of
   model/TentBody.v: per-transition powder lines summed over nuclei and transitions, the final normalisation, the reference flip and the unit
   conversion of the axis, and the single-crystal chemical-shift line.  Loaded under Q (executable) and R (proofs). *)
Definition sort3 (t : num * num * num) : num * num * num :=
  let '(a, b, c) := t in
  let '(a, b) := if leb a b then (a, b) else (b, a) in
  let '(b, c) := if leb b c then (b, c) else (c, b) in
  let '(a, b) := if leb a b then (a, b) else (b, a) in (a, b, c).
(* a triangle of the orientation mesh for one transition of one nucleus: mean vertex weight and the three vertex frequencies (any order) *)
Definition tri := (num * (num * num * num))%type.
Definition tri_bin (t : tri) (a b : num) : num := let '(w, v) := t in let '(f0, f1, f2) := sort3 v in nrm (w * contrib f0 f1 f2 a b).
Definition bin_val (tris : list tri) (a b : num) : num := fold_right (fun t acc => nrm (tri_bin t a b + acc)) (of_Z 0) tris.
(* contiguous bins e0|e1|e2|...: the code's bins are [x_k - dx/2, x_k + dx/2] around the points of a uniform axis *)
Fixpoint line (tris : list tri) (e0 : num) (edges : list num) : list num :=
  match edges with [] => [] | e1 :: rest => bin_val tris e0 e1 :: line tris e1 rest end.
Definition lsum (l : list num) : num := fold_right (fun x acc => nrm (x + acc)) (of_Z 0) l.
(* spec *= n_nuclei * len(spec) / sum(spec) unless the sum is zero *)
Definition normalise (n : num) (spec : list num) : list num :=
  let s := lsum spec in
  if eqb s (of_Z 0) then spec else map (fun v => v * (n * of_Z (Z.of_nat (length spec)) / s)) spec.
(* all transitions of all nuclei share one triangle list in this model: tris is their concatenation *)
Definition powder_spectrum (n : num) (tris : list tri) (e0 : num) (edges : list num) : list num := normalise n (line tris e0 edges).
(* the axis: np.linspace(min, max, bins) * u internally (u = 1 for ppm, 1e6 / larmor for MHz); returned as (ref - f) / u or f / u *)
Definition linspace (a b : num) (bins : Z) (k : Z) : num := a + of_Z k * ((b - a) / of_Z (bins - 1)).
Definition axis_in (a b u : num) (bins k : Z) : num := linspace a b bins k * u.
Definition axis_out (ref : option num) (u f : num) : num := match ref with Some r => (r - f) / u | None => f / u end.
(* single crystal, chemical shift: iso + n . (sigma - iso 1) . n *)
Definition mat3 := (num * num * num * (num * num * num) * (num * num * num))%type.
Definition quad (s : mat3) (n : num * num * num) : num :=
  let '(a11, a12, a13, (a21, a22, a23), (a31, a32, a33)) := s in let '(x, y, z) := n in
  x * (a11 * x + a12 * y + a13 * z) + y * (a21 * x + a22 * y + a23 * z) + z * (a31 * x + a32 * y + a33 * z).
Definition traceless_part (s : mat3) (iso : num) : mat3 :=
  let '(a11, a12, a13, (a21, a22, a23), (a31, a32, a33)) := s in (a11 - iso, a12, a13, (a21, a22 - iso, a23), (a31, a32, a33 - iso)).
Definition cs_line (s : mat3) (iso : num) (n : num * num * num) : num := iso + quad (traceless_part s iso) n.
