(* C19: (a) the index groups built from a label list, [np.where(clusts == i)[0] for i in range(1, clust_n + 1)] (phylogenclust.py:393-395, 459-462);
   (b) a reference for single-linkage clusters at threshold t: the components found by the queue traversal of model/Bonds.v on the graph
   joining i, j whenever D[i][j] <= t.  scipy's linkage / fcluster are not modelled: the harness compares their output with (b). *)
From Coq Require Import ZArith List Bool Lia.
Import ListNotations.
Require Import Sop.model.Lattice Sop.model.Bonds.
Local Open Scope Z_scope.

Definition where_eq (labels : list Z) (k : Z) : list Z :=
  map fst (filter (fun p => snd p =? k) (combine (zseq 0 (Z.of_nat (length labels))) labels)).
Definition label_max (labels : list Z) : Z := fold_left Z.max labels 0.
Definition groups (labels : list Z) : list (list Z) := map (where_eq labels) (zseq 1 (label_max labels)).

Definition Dget (D : list (list Z)) (i j : Z) : Z := nthZ (nthZ D i []) j 0.
Definition thr_edges (N : Z) (D : list (list Z)) (t : Z) : list (Z * Z * vec) :=
  map (fun p => (fst p, snd p, (0, 0, 0))) (filter (fun p => Dget D (fst p) (snd p) <=? t) (triu N)).
Definition components (N : Z) (D : list (list Z)) (t : Z) : list (list Z) := map atoms_of (molecules_m N (thr_edges N D t)).
