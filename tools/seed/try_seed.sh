#!/bin/bash
# try_seed.sh <worktree> <k> <prop> [name]: confirm a seeded change in the scratch worktree (demo clean ok / demo patched fails /
# test suite unchanged), then apply it to /repo, run ./check <prop>, undo, and store it under /verif/seeded/<prop>_<name>/
wt=$1; k=$2; prop=$3; name=${4:-$k}
sd=$wt/_seed/$k
out=/verif/seeded/${prop}_$name
cd $wt && git checkout -q -- . 
PYTHONPATH=$wt /venv/bin/python _seed/$k/demo.py > /tmp/demo_clean.log 2>&1; c=$?
git apply $sd/patch.diff || { echo "patch does not apply"; exit 2; }
PYTHONPATH=$wt /venv/bin/python _seed/$k/demo.py > /tmp/demo_patched.log 2>&1; p=$?
t=$(PYTHONPATH=$wt /venv/bin/python -m pytest -q -p no:cacheprovider --timeout=900 --continue-on-collection-errors 2>&1 | tail -1)
git checkout -q -- .
echo "demo clean rc=$c  demo patched rc=$p  pytest: $t"
if [ $c -ne 0 ] || [ $p -eq 0 ] || ! echo "$t" | grep -Eq "10 failed, 116 passed|2 failed, 124 passed"; then echo "NOT CONFIRMED"; exit 3; fi
cd /verif
if [ -n "$(git -C /repo status --porcelain)" ]; then echo "/repo dirty"; exit 2; fi
git -C /repo apply $sd/patch.diff
res=$(./check $prop --tier quick 2>&1 | grep -E "^\[$prop\] tier|VIOLATION" | cut -c1-300)
git -C /repo checkout -- .
git -C /verif checkout -- evidence/$prop.json 2>/dev/null   # the evidence written on the mutated tree must never be committed
echo "$res"
mkdir -p $out && cp $sd/patch.diff $sd/demo.py $out/
/venv/bin/python - "$sd/meta.json" "$out/meta.json" "$c" "$p" "$t" "$res" <<'PY'
import json,sys
m=json.load(open(sys.argv[1]))
m['confirmed']=dict(demo_clean_rc=int(sys.argv[3]),demo_patched_rc=int(sys.argv[4]),pytest=sys.argv[5])
m['check_result']=sys.argv[6]
m['detected']='VIOLATION' in sys.argv[6]
m['ran']='tools/seed/try_seed.sh: demo on clean and patched scratch worktree, pinned pytest suite on patched worktree, then git -C /repo apply; ./check %s --tier quick; git -C /repo checkout -- .'%m.get('property','')
json.dump(m,open(sys.argv[2],'w'),indent=1)
print("detected" if m['detected'] else "MISSED")
PY
