"""prints the prompt for a mutant-seeding sub-agent: python mkprompt.py C07 /tmp/wt_C07 [n]"""
import json, sys
pid, wt = sys.argv[1], sys.argv[2]
n = int(sys.argv[3]) if len(sys.argv) > 3 else 2
p = [json.loads(l) for l in open('/verif/properties.jsonl') if json.loads(l)['id'] == pid][0]
print(f"""You are helping to evaluate a verification effort by producing realistic *breaking changes* (seeded defects) for a Python library.

The library is CCP-NC/soprano (computational crystallography / solid-state NMR). You have your own scratch git worktree of it at {wt} (a checkout of the current HEAD). Work ONLY inside {wt}; never touch /repo or /verif (do not read /verif either).

Property that the library is supposed to satisfy ("{p['title']}"):

  {p['statement']}

  Quantified over: {p['quantifier']['text']}

  Relevant files: {', '.join(p['anchors']['files'])}

Task: produce {n} DIFFERENT, independent source changes to soprano (each a small, plausible edit such as a refactor slip, an off-by-one, a swapped branch, a wrong sign, a dropped guard, two cooperating sites that each look fine alone, ...) such that EACH change:
  1. breaks the property above (some clause of it) on some input / sequence / configuration,
  2. still imports and still passes the existing pinned test suite exactly as before: run
       cd {wt} && PYTHONPATH={wt} /venv/bin/python -m pytest -q -p no:cacheprovider --timeout=900 --continue-on-collection-errors
     Baseline on the unchanged tree: 124 passed, 2 failed (the 2 failures are pre-existing: collection_tests::test_calculator, submit_tests::test_queueint). With your change the same 124 must pass and the same 2 fail.
  3. needs something specific to manifest (an unusual input, a particular tie/degeneracy, a multi-step sequence of operations, a particular option combination, a specific state) rather than breaking every ordinary use at once. Prefer subtle changes over blatant ones. The changes should touch different mechanisms / clauses of the property.

For each change k = 1..{n} deliver, under {wt}/_seed/k/:
  - patch.diff : `git diff` of the change against HEAD (only library source under soprano/, no test edits); the worktree must be reset (git checkout -- .) between changes so each patch applies alone to a clean HEAD.
  - demo.py : a small self-contained program that is run as  `cd <tree> && PYTHONPATH=<tree> /venv/bin/python _seed/k/demo.py`  (it must not hard-code the tree path; use the soprano importable from PYTHONPATH). It must exit 0 on the UNCHANGED tree and exit non-zero (with a short message saying what went wrong) on the tree with the change applied. It must test the property as stated above (not an implementation detail).
  - meta.json : {{"property": "{pid}", "title": short title, "clause": which clause of the property is broken, "needs": what is needed for it to manifest, "files": [changed files]}}

Do NOT use `git stash` (the stash is shared by all worktrees of the repository and other agents work in parallel); use `git apply`, `git apply -R` and `git checkout -- .` instead.

Verify everything yourself before finishing: for each k, from a clean worktree: demo passes (exit 0); apply the patch; demo fails (non-zero); the test suite gives 124 passed / the same 2 failed; then `git checkout -- .` to restore. Leave the worktree clean (only the untracked _seed/ directory added). Python: use /venv/bin/python (numpy, scipy, ase are available; there is no network).

Final answer: for each change, one paragraph: what it changes, what it needs to manifest, and the verification results you observed (demo clean / demo patched / pytest counts).""")
