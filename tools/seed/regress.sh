#!/bin/bash
# regress.sh [Cxx ...]: re-apply every stored seeded change to /repo, run the quick check, undo; report which are (still) detected
cd /verif
if [ -n "$(git -C /repo status --porcelain)" ]; then echo "/repo is dirty"; exit 2; fi
miss=0
for d in seeded/*/; do
  n=$(basename $d); prop=${n%%_*}
  if [ -n "$1" ] && [[ ! " $* " =~ " $prop " ]]; then continue; fi
  [ -f $d/patch.diff ] || continue
  if ! git -C /repo apply --check $(pwd)/$d/patch.diff 2>/dev/null; then echo "$n: patch no longer applies (the code it touched was repaired or changed)"; continue; fi
  git -C /repo apply $(pwd)/$d/patch.diff
  res=$(./check $prop --tier quick 2>&1 | grep -E "VIOLATION" | head -1 | cut -c1-120)
  git -C /repo checkout -- .
  git -C /verif checkout -- evidence/$prop.json 2>/dev/null
  if [ -n "$res" ]; then echo "$n: detected"; else echo "$n: MISSED"; miss=$((miss+1)); fi
done
echo "missed: $miss"
exit $miss
