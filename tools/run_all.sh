#!/bin/bash
# run every claimed check on the CLEAN tree (quick tier) and report; used before committing evidence
cd /verif
if [ -n "$(git -C /repo status --porcelain)" ]; then echo "/repo is dirty"; git -C /repo status --short; exit 2; fi
rc=0
for id in $(/venv/bin/python -c "import json;print(' '.join(c['property_id'] for c in json.load(open('MANIFEST.json'))['checks']))"); do
  if [ -n "$1" ] && [[ ! " $* " =~ " $id " ]]; then continue; fi
  out=$(./check $id --tier quick 2>&1); r=$?
  echo "$out" | grep -E "^\[$id\] tier|VIOLATION|KNOWN-FINDING" | cut -c1-200
  if [ $r -ne 0 ]; then rc=1; fi
done
python3-vt - <<'PY'
import json, jsonschema, glob
sch=json.load(open('/root/.vp/EVIDENCE.schema.json'))
jsonschema.validate(json.load(open('/verif/MANIFEST.json')), json.load(open('/root/.vp/MANIFEST.schema.json')))
for f in sorted(glob.glob('/verif/evidence/*.json')):
    e=json.load(open(f)); jsonschema.validate(e, sch)
    c=e['coverage']
    if c['obligations']!=c['discharged'] or e.get('violations'): print("EVIDENCE PROBLEM", f, c['obligations'], c['discharged'], e.get('violations'))
print("schemas ok")
PY
exit $rc
