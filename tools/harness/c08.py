"""C08 - Euler angles reproduce the tensor orientation in every supported convention.

(A) the generated _normalise_euler_angles / _equivalent_euler (gen/NmrUtilsBody.v, regenerated from soprano/nmr/utils.py by the C01 translator on every run)
    are what the theorems of coq/props/C08 are about; they are compared with the Python functions on rational multiples of pi.
(B) the pipeline NMRTensor.euler_angles is judged by a reconstruction oracle on the real classes.
"""
import math
import warnings
from fractions import Fraction as Fr

import numpy as np

import fw

warnings.filterwarnings("ignore")
IMPORTS = ("From Coq Require Import ZArith List Bool.\nImport ListNotations.\nRequire Import Sop.model.NmrUtilsQ.\nLocal Open Scope Z_scope.\n"
           "Definition enc3 (v : vec3) : list Z := let '(a, b, c) := v in encq a ++ encq b ++ encq c.\n")
EPS = 1e-6


def classify(kind, case, detail):
    if kind == "pipeline" and case.get("passive") and case.get("degenerate") == 2:
        return "C08-F08a"
    return None


def q(fr):
    return "(mkq %s %d)" % (fw.zlit(fr.numerator), fr.denominator)


def rebuild(angles, evals, conv, passive):
    from scipy.spatial.transform import Rotation
    R = Rotation.from_euler(conv.upper(), angles)
    if passive:
        R = R.inv()
    M = R.as_matrix()
    return M @ np.diag(evals) @ M.T


def rand_rotation(rng, gimbal=None):
    from scipy.spatial.transform import Rotation
    if gimbal is not None:
        return Rotation.from_euler("ZYZ", [rng.uniform(0, 2 * math.pi), gimbal, rng.uniform(0, 2 * math.pi)]).as_matrix()
    qv = np.array([rng.gauss(0, 1) for _ in range(4)])
    return Rotation.from_quat(qv / np.linalg.norm(qv)).as_matrix()


def run(ctx):
    from soprano.nmr.tensor import NMRTensor
    from soprano.nmr.utils import _equivalent_euler, _normalise_euler_angles
    sys_mod = __import__("harness.c01", fromlist=["regen"])
    rng = ctx.rng
    quick = ctx.tier == "quick"
    ctx.rule = ("generated normalise / equivalent tables vs the Python functions on angle triples k*pi/12 in [-4,4]^3 (random in quick, boundary values included) x "
                "passive; pipeline: symmetric tensors {generic, axial with the unique value first / last, isotropic, near-degenerate 1e-5..1e-8, gimbal orientations "
                "beta in {0, pi/2, pi}} x 4 orders x {zyz, zxz} x {active, passive}: reconstruction, ranges, four equivalents, degrees vs radians")
    ctx.trusted += ["py2v nmr_utils translator (shared with C01/C02) and the textual Load mechanism; angles in units of pi under the Q header, radians under the R header",
                    "scipy Rotation.from_matrix/as_euler/from_euler are oracles (mutually inverse; sampled by the reconstruction oracle); the closed-form branch for a "
                    "unique axis along x (_handle_euler_edge_cases) is not modelled"]
    if hasattr(sys_mod, "regen"):
        sys_mod.regen(ctx)
    ctx.build_props(timeout=2400)
    ctx.build_models(["model/NmrUtilsQ.vo"])
    # ---- (A) generated functions vs python
    exprs, got, meta = [], [], []
    NA = 150 if quick else 3000
    epsq = Fr(EPS / math.pi).limit_denominator(10 ** 12)
    for t in range(NA):
        ks = [rng.choice([rng.randint(-48, 48), rng.choice([0, 6, 12, 18, 24, -6, -12])]) for _ in range(3)]
        ang = [k * math.pi / 12 for k in ks]
        passive = rng.random() < 0.5
        n = _normalise_euler_angles(np.array(ang), passive=passive, eps=EPS)
        exprs.append("enc3 (normalise_euler_angles (%s, %s, %s) %s %s)" % (q(Fr(ks[0], 12)), q(Fr(ks[1], 12)), q(Fr(ks[2], 12)), "true" if passive else "false", q(epsq)))
        got.append([float(x) / math.pi for x in n])
        meta.append(("normalise", dict(k=ks, passive=passive)))
        e = _equivalent_euler(np.array(ang), passive=passive)
        exprs.append("flat_map enc3 (equivalent_euler_%s (%s, %s, %s))" % ("True" if passive else "False", q(Fr(ks[0], 12)), q(Fr(ks[1], 12)), q(Fr(ks[2], 12))))
        got.append([float(x) / math.pi for row in e for x in row])
        meta.append(("equivalent", dict(k=ks, passive=passive)))
    vals = fw.coq_eval("c08", IMPORTS, exprs)
    nbad, first = 0, ""
    for mv, g_, m_ in zip(vals, got, meta):
        want = [mv[i] / mv[i + 1] for i in range(0, len(mv), 2)]
        # angles are compared modulo 2 (units of pi) only where the code itself wraps; exact values otherwise
        if len(want) != len(g_) or any(min(abs(a - b), abs(abs(a - b) - 2)) > 1e-6 for a, b in zip(want, g_)):
            nbad += 1
            first = first or "%s: model %s impl %s" % (m_, [round(x, 6) for x in want], [round(x, 6) for x in g_])
    ctx.evaluations += len(exprs)
    ctx.oblige("generated _normalise_euler_angles / _equivalent_euler == Python functions on k*pi/12 triples [%d cases]" % len(exprs), "correspondence", nbad == 0,
               "%d disagree; first: %s" % (nbad, first))
    # ---- (B) pipeline oracle
    NP = 120 if quick else 3000
    for t in range(NP):
        kind = ["generic", "axial-first", "axial-last", "isotropic", "near-degenerate", "gimbal"][t % 6]
        if kind == "generic":
            ev = sorted(rng.uniform(-10, 10) for _ in range(3))
        elif kind == "axial-first":
            a_ = rng.uniform(-10, 10)
            ev = [a_ - rng.uniform(1, 5), a_, a_]
        elif kind == "axial-last":
            a_ = rng.uniform(-10, 10)
            ev = [a_, a_, a_ + rng.uniform(1, 5)]
        elif kind == "isotropic":
            ev = [rng.uniform(-5, 5)] * 3
        elif kind == "near-degenerate":
            a_ = rng.uniform(-10, 10)
            ev = [a_, a_ + 10 ** -rng.choice([5, 6, 7, 8]), a_ + rng.uniform(1, 5)]
        else:
            ev = sorted(rng.uniform(-10, 10) for _ in range(3))
        R = rand_rotation(rng, rng.choice([0.0, math.pi / 2, math.pi]) if kind == "gimbal" else None)
        if kind != "gimbal" and t % 4 == 3:
            # the principal frame turned about ONE lab axis only (unique axes lying in the xz, yz or xy plane)
            from scipy.spatial.transform import Rotation as _Rot
            R = _Rot.from_euler(rng.choice(["x", "y", "z"]), rng.uniform(0, 2 * math.pi)).as_matrix()
        T = R @ np.diag(ev) @ R.T
        T = (T + T.T) / 2
        for order in ("i", "d", "h", "n"):
            for conv in ("zyz", "zxz"):
                for passive in (False, True):
                    tens = NMRTensor(T.copy(), order=order)
                    evs = np.array(tens.eigenvalues)
                    spread = sorted(abs(evs[i] - evs[j]) for i in range(3) for j in range(i + 1, 3))
                    degen = 3 if spread[2] < 1e-6 else (2 if spread[0] < 1e-6 else 1)
                    case = dict(kind=kind, evals=[float(x) for x in ev], R=R.tolist(), order=order, convention=conv, passive=passive, degenerate=degen)
                    ctx.evaluations += 1
                    try:
                        ang = np.array(tens.euler_angles(convention=conv, passive=passive))
                        deg = np.array(NMRTensor(T.copy(), order=order).euler_angles(convention=conv, passive=passive, degrees=True))
                        eq = NMRTensor(T.copy(), order=order).equivalent_euler_angles(convention=conv, passive=passive)
                    except Exception as e:
                        ctx.fail_input("pipeline", case, "euler_angles raised %s: %s" % (type(e).__name__, str(e)[:120]), classify)
                        continue
                    ctx.seen(("pipeline", kind, order, conv, passive, degen))
                    p = None
                    tol = 1e-6 * max(1.0, np.abs(evs).max())
                    if not np.allclose(rebuild(ang, evs, conv, passive), T, atol=tol):
                        p = "rotating the ordered principal values by the returned angles %s does not reproduce the tensor" % np.round(ang, 6).tolist()
                    elif not np.allclose(np.degrees(ang), deg, atol=1e-6):
                        p = "degree output %s is not the radian output in degrees" % deg.tolist()
                    elif degen == 1:
                        a_, b_, c_ = ang
                        lo = -EPS * 4
                        if not passive and not (lo <= a_ < 2 * math.pi + EPS and lo <= b_ <= math.pi / 2 + EPS * 4 and lo <= c_ < math.pi + EPS):
                            p = "active angles %s outside the conventional ranges" % np.round(ang, 6).tolist()
                        if passive and not (lo <= c_ < 2 * math.pi + EPS and lo <= b_ <= math.pi / 2 + EPS * 4 and lo <= a_ < math.pi + EPS):
                            p = "passive angles %s outside the conventional ranges" % np.round(ang, 6).tolist()
                        if p is None:
                            for k_, e_ in enumerate(eq):
                                if not np.allclose(rebuild(np.array(e_), evs, conv, passive), T, atol=tol):
                                    p = "equivalent angle set %d %s does not reproduce the tensor" % (k_, np.round(e_, 6).tolist())
                                    break
                    if p is None and abs(np.linalg.det(np.array(tens.eigenvectors)) - 1) > 1e-6:
                        p = "after euler_angles the stored eigenvector frame is not right-handed (det %.3f)" % np.linalg.det(np.array(tens.eigenvectors))
                    if p:
                        ctx.fail_input("pipeline", case, p, classify)
    # ---- histories on ONE tensor object: angles asked for, the order changed, angles asked for again (must be those of a fresh tensor of that order)
    for t in range(40 if quick else 600):
        ev = sorted(rng.uniform(-10, 10) for _ in range(3))
        if min(ev[1] - ev[0], ev[2] - ev[1]) < 0.5:
            continue
        R = rand_rotation(rng)
        T = R @ np.diag(ev) @ R.T
        T = (T + T.T) / 2
        o1, o2 = rng.sample(["i", "d", "h", "n"], 2)
        conv, passive = rng.choice(["zyz", "zxz"]), rng.random() < 0.5
        case = dict(kind="reorder-history", evals=[float(x) for x in ev], R=R.tolist(), order=o1, order2=o2, convention=conv, passive=passive, degenerate=1)
        ctx.evaluations += 1
        try:
            tt = NMRTensor(T.copy(), order=o1)
            tt.euler_angles(convention=conv, passive=passive)
            tt.equivalent_euler_angles(convention=conv, passive=passive)
            tt.order = o2
            a2 = np.array(tt.euler_angles(convention=conv, passive=passive))
            fresh = NMRTensor(T.copy(), order=o2)
            evs2 = np.array(fresh.eigenvalues)
            ok_ = np.allclose(rebuild(a2, evs2, conv, passive), T, atol=1e-6 * max(1.0, np.abs(evs2).max()))
            ctx.seen(("reorder-history", o1, o2, conv, passive, ok_))
            if not ok_:
                ctx.fail_input("pipeline", case, "after euler_angles(), order = %r, euler_angles(): the angles %s do not reproduce the tensor from the re-ordered principal values" % (o2, np.round(a2, 6).tolist()), classify)
        except Exception as e:
            ctx.fail_input("pipeline", case, "euler_angles / re-order history raised %s: %s" % (type(e).__name__, str(e)[:120]), classify)
    if ctx.tier == "thorough":
        ctx.coqchk()


def replay(obj):
    c = obj.get("case")
    if obj.get("kind") == "pipeline" and c:
        from soprano.nmr.tensor import NMRTensor
        R = np.array(c["R"])
        T = R @ np.diag(c["evals"]) @ R.T
        T = (T + T.T) / 2
        tens = NMRTensor(T, order=c["order"])
        try:
            ang = np.array(tens.euler_angles(convention=c["convention"], passive=c["passive"]))
            ok = np.allclose(rebuild(ang, np.array(tens.eigenvalues), c["convention"], c["passive"]), T, atol=1e-6 * max(1.0, np.abs(T).max()))
            print("replay pipeline %s -> angles %s: %s" % ({k: v for k, v in c.items() if k != "R"}, ang.tolist(), "property holds" if ok else "PROPERTY FAILS (tensor not reproduced)"))
            return 0 if ok else 1
        except Exception as e:
            print("replay pipeline -> raised %s: %s: PROPERTY FAILS" % (type(e).__name__, e))
            return 1
    print("replay: nothing executable in this file: %s" % (obj.get("broken_obligations") or obj.get("detail")))
    return 1
