"""C09 - relative Euler angles express one tensor in the principal frame of the other.

(A) the generated _equivalent_relative_euler tables (gen/NmrUtilsBody.v, regenerated on every run) are what coq/props/C09 is about; compared with the Python
    function on rational multiples of pi.  (B) euler_to / equivalent_euler_to on the real classes are judged by the double-coset oracle.
"""
import itertools
import math
import warnings
from fractions import Fraction as Fr

import numpy as np

import fw

warnings.filterwarnings("ignore")
IMPORTS = ("From Coq Require Import ZArith List Bool.\nImport ListNotations.\nRequire Import Sop.model.NmrUtilsQ.\nLocal Open Scope Z_scope.\n"
           "Definition enc3 (v : vec3) : list Z := let '(a, b, c) := v in encq a ++ encq b ++ encq c.\n")
D2 = [np.diag([1, 1, 1]), np.diag([1, -1, -1]), np.diag([-1, 1, -1]), np.diag([-1, -1, 1])]


def classify(kind, case, detail):
    return None


def q(fr):
    return "(mkq %s %d)" % (fw.zlit(fr.numerator), fr.denominator)


def M_of(angles, conv, passive):
    from scipy.spatial.transform import Rotation
    R = Rotation.from_euler(conv.upper(), angles)
    if passive:
        R = R.inv()
    return R.as_matrix()


def proper(E):
    E = np.array(E, float)
    if np.linalg.det(E) < 0:
        E = E.copy()
        E[:, 2] *= -1
    return E


def unique_axis(evals):
    """index of the unique principal value of an axially symmetric tensor"""
    e = list(evals)
    for k in range(3):
        others = [e[i] for i in range(3) if i != k]
        if abs(others[0] - others[1]) < 1e-6:
            return k
    return None


def pair_oracle(A, B, conv, passive):
    """returns None or a description.  A, B: NMRTensor objects"""
    ang = np.array(A.euler_to(B, convention=conv, passive=passive))
    RA, RB = proper(A.eigenvectors), proper(B.eigenvectors)
    DA, DB = np.diag(A.eigenvalues), np.diag(B.eigenvalues)
    TA, TB = np.array(A._symm), np.array(B._symm)
    tol = 1e-5 * max(1.0, np.abs(TA).max(), np.abs(TB).max())
    same = np.allclose(TA, TB, atol=1e-9)
    aligned = np.allclose(np.abs(RA.T @ RB), np.eye(3), atol=1e-9)
    if not aligned and A.degeneracy == 2 and B.degeneracy == 2:
        # both axially symmetric with the unique value sorted last: aligned when the symmetry axes coincide
        ka_, kb_ = unique_axis(A.eigenvalues), unique_axis(B.eigenvalues)
        if ka_ == 2 and kb_ == 2 and abs(abs(float(RA[:, 2] @ RB[:, 2])) - 1) < 1e-9:
            aligned = True
    if same or aligned:
        # identical or perfectly aligned: zero angles (or at least angles that act as a flip)
        M = M_of(ang, conv, passive)
        if not any(np.allclose(M, S, atol=1e-6) for S in D2):
            return "identical / aligned tensors give angles %s which are not a flip of the principal axes" % np.round(ang, 6).tolist()
        return None
    sets = [ang] + [np.array(e) for e in A.equivalent_euler_to(B, convention=conv, passive=passive)]
    dA, dB = A.degeneracy, B.degeneracy
    if dA == 1 and dB == 1:
        target = RB.T @ RA
        for k, a_ in enumerate(sets):
            M = M_of(a_, conv, passive)
            res = min(np.abs(M - Sb @ target @ Sa).max() for Sb in D2 for Sa in D2)
            if res > 1e-6:
                return "angle set %d %s: the rotation is not S_b (R_B^T R_A) S_a for any flips (residual %.2e): B is not reproduced in A's frame" % (k, np.round(a_, 6).tolist(), res)
        return None
    # an axially symmetric partner: only the component along the symmetry axis is claimed
    M = M_of(ang, conv, passive)
    Minv = np.linalg.inv(M)
    if dA == 2 and dB != 3 and dA != 3:
        k = unique_axis(A.eigenvalues)
        u = RA[:, k]
        lhs = (Minv @ DB @ Minv.T)[k, k]
        rhs = float(u @ TB @ u)
        if abs(lhs - rhs) > tol:
            return "A axially symmetric: the component of B along A's symmetry axis is %.6f, the angles give %.6f" % (rhs, lhs)
    if dB == 2 and dA != 3 and dB != 3:
        k = unique_axis(B.eigenvalues)
        u = RB[:, k]
        lhs = (M @ DA @ M.T)[k, k]
        rhs = float(u @ TA @ u)
        if abs(lhs - rhs) > tol:
            return "B axially symmetric: the component of A along B's symmetry axis is %.6f, the angles give %.6f" % (rhs, lhs)
    return None


def rand_rot(rng):
    from scipy.spatial.transform import Rotation
    qv = np.array([rng.gauss(0, 1) for _ in range(4)])
    return Rotation.from_quat(qv / np.linalg.norm(qv)).as_matrix()


def mk_tensor(rng, kind, order, R=None):
    from soprano.nmr.tensor import NMRTensor
    if kind == "generic":
        ev = sorted(rng.uniform(-10, 10) for _ in range(3))
        while min(abs(ev[i] - ev[j]) for i in range(3) for j in range(i + 1, 3)) < 0.5:
            ev = sorted(rng.uniform(-10, 10) for _ in range(3))
    else:
        a_ = rng.uniform(-8, 8)
        ev = [a_, a_, a_ + rng.choice([-1, 1]) * rng.uniform(1, 5)]
    R = rand_rot(rng) if R is None else R
    T = R @ np.diag(ev) @ R.T
    return NMRTensor((T + T.T) / 2, order=order), ev, R


def run(ctx):
    from soprano.nmr.tensor import NMRTensor
    from soprano.nmr.utils import _equivalent_relative_euler
    c01 = __import__("harness.c01", fromlist=["regen"])
    rng = ctx.rng
    quick = ctx.tier == "quick"
    ctx.rule = ("generated 16-row tables vs the Python function on angle triples k*pi/12 x passive; ordered pairs from {generic, axial}^2 plus identical, aligned, axial pairs sharing their symmetry axis / with perpendicular or specially tilted symmetry axes, mirrored (B = S A S^T, S a Cartesian mirror / two-fold axis) and rotated-copy pairs x "
                "4 orders x {zyz, zxz} x {active, passive}: double-coset relation for generic pairs (all 17 angle sets), zero / flip for identical and aligned, the "
                "component along the symmetry axis when a partner is axially symmetric")
    ctx.trusted += ["py2v nmr_utils translator (shared with C01/C02/C08); scipy Rotation is an oracle", "_tryallanglestest / _compute_rotation (the search over equivalent "
                    "passive sets) and the closed-form axial/axial branch are not modelled: their outputs are only judged by the oracle"]
    c01.regen(ctx)
    ctx.build_props(timeout=2400)
    ctx.build_models(["model/NmrUtilsQ.vo"])
    exprs, got, meta = [], [], []
    for t in range(100 if quick else 2000):
        ks = [rng.choice([rng.randint(-48, 48), rng.choice([0, 6, 12, 18, 24, -6, -12])]) for _ in range(3)]
        passive = rng.random() < 0.5
        e = _equivalent_relative_euler(np.array([k * math.pi / 12 for k in ks]), passive=passive)
        exprs.append("flat_map enc3 (equivalent_relative_euler_%s (%s, %s, %s))" % ("True" if passive else "False", q(Fr(ks[0], 12)), q(Fr(ks[1], 12)), q(Fr(ks[2], 12))))
        got.append([float(x) / math.pi for row in e for x in row])
        meta.append(dict(k=ks, passive=passive))
    vals = fw.coq_eval("c09", IMPORTS, exprs)
    nbad, first = 0, ""
    for mv, g_, m_ in zip(vals, got, meta):
        want = [mv[i] / mv[i + 1] for i in range(0, len(mv), 2)]
        if len(want) != len(g_) or any(min(abs(a - b), abs(abs(a - b) - 2)) > 1e-6 for a, b in zip(want, g_)):
            nbad += 1
            first = first or "%s: model %s impl %s" % (m_, [round(x, 6) for x in want][:9], [round(x, 6) for x in g_][:9])
    ctx.evaluations += len(exprs)
    ctx.oblige("generated _equivalent_relative_euler == Python function on k*pi/12 triples [%d cases]" % len(exprs), "correspondence", nbad == 0, "%d disagree; first: %s" % (nbad, first))
    NP = 40 if quick else 1000
    for t in range(NP):
        ka, kb = [("generic", "generic"), ("axial", "generic"), ("generic", "axial"), ("axial", "axial"), ("identical", ""), ("aligned", ""),
                  ("mirror", ""), ("copy", ""), ("axial-aligned", ""), ("axial-perp", "")][t % 10]
        for order in ("i", "d", "h", "n"):
            if ka == "identical":
                A, evA, RA_ = mk_tensor(rng, "generic", order)
                B = NMRTensor(np.array(A._symm).copy(), order=order)
            elif ka in ("mirror", "copy"):
                # symmetry-equivalent sites: the same principal values in a mirrored / rotated frame
                A, evA, RA_ = mk_tensor(rng, rng.choice(["generic", "generic", "axial"]), order)
                S = np.diag(rng.choice([(1, 1, -1), (1, -1, 1), (-1, 1, 1), (-1, -1, 1), (1, -1, -1), (-1, 1, -1)])) if ka == "mirror" else rand_rot(rng)
                TB_ = S @ np.array(A._symm) @ S.T
                B = NMRTensor((TB_ + TB_.T) / 2, order=order)
            elif ka == "axial-perp":
                # two axially symmetric tensors whose symmetry axes are exactly perpendicular, or tilted with A's axis at a special azimuth in B's frame
                A, evA, RA_ = mk_tensor(rng, "axial", order)
                a2 = rng.uniform(-8, 8)
                evB_ = [a2, a2, a2 + (1 if evA[2] > evA[0] else -1) * rng.uniform(1, 5)]
                from scipy.spatial.transform import Rotation as _Rot
                tilt = rng.choice([math.pi / 2, math.pi / 2, math.pi / 3, math.pi / 4])
                az = rng.choice([0.0, math.pi / 4, 3 * math.pi / 4, 5 * math.pi / 4, 7 * math.pi / 4, rng.uniform(0, 2 * math.pi)])
                Rt = _Rot.from_euler("ZY", [az, tilt]).as_matrix()
                RB_ = RA_ @ Rt
                # built from an (eigenvalues, eigenvectors) pair so that B's in-plane axes are the ones chosen here
                B = NMRTensor((np.array(evB_), RB_), order=order)
            elif ka == "axial-aligned":
                # two axially symmetric tensors sharing the symmetry axis (different principal values, one turned about the common axis)
                A, evA, RA_ = mk_tensor(rng, "axial", order)
                a2 = rng.uniform(-8, 8)
                evB_ = [a2, a2, a2 + (1 if evA[2] > evA[0] else -1) * rng.uniform(1, 5)]
                from scipy.spatial.transform import Rotation as _Rot
                Rk = _Rot.from_rotvec(rng.uniform(0, 3) * np.array([0.0, 0.0, 1.0])).as_matrix()
                TB_ = RA_ @ Rk @ np.diag(evB_) @ Rk.T @ RA_.T
                B = NMRTensor((TB_ + TB_.T) / 2, order=order)
            elif ka == "aligned":
                A, evA, RA_ = mk_tensor(rng, "generic", order)
                B, _e, _r = mk_tensor(rng, "generic", order, R=RA_)
            else:
                A, evA, RA_ = mk_tensor(rng, ka, order)
                B, evB, RB_ = mk_tensor(rng, kb, order)
            for conv in ("zyz", "zxz"):
                for passive in (False, True):
                    case = dict(kindA=ka, kindB=kb, order=order, convention=conv, passive=passive, A=np.array(A._symm).tolist(), B=np.array(B._symm).tolist())
                    ctx.evaluations += 1
                    try:
                        p = pair_oracle(NMRTensor(np.array(A._symm), order=order), NMRTensor(np.array(B._symm), order=order), conv, passive)
                    except Exception as e:
                        p = "euler_to raised %s: %s" % (type(e).__name__, str(e)[:150])
                    ctx.seen(("pair", ka, kb, order, conv, passive, p is None))
                    if p:
                        ctx.fail_input("pair", case, p, classify)
    if ctx.tier == "thorough":
        ctx.coqchk()


def replay(obj):
    c = obj.get("case")
    if obj.get("kind") == "pair" and c:
        from soprano.nmr.tensor import NMRTensor
        try:
            p = pair_oracle(NMRTensor(np.array(c["A"]), order=c["order"]), NMRTensor(np.array(c["B"]), order=c["order"]), c["convention"], c["passive"])
        except Exception as e:
            p = "raised %s: %s" % (type(e).__name__, e)
        print("replay pair %s -> %s" % ({k: v for k, v in c.items() if k not in ("A", "B")}, "property holds" if p is None else "PROPERTY FAILS: " + p))
        return 0 if p is None else 1
    print("replay: nothing executable in this file: %s" % (obj.get("broken_obligations") or obj.get("detail")))
    return 1
