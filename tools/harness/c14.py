"""C14 - XRD powder peaks are exactly the Bragg reflections allowed by the space group.

(A) gen/XrdRules.v is regenerated from soprano/data/xrd_sel_rules.json + hall_2_no.json by tools/py2v/xrd_rules.py on every run;
    gen/SgOps.v from the frozen copy of spglib's operations (tools/data/spglib_ops.json), which is compared with the live library.
    The theorems of coq/props/C14/rules_*.v are about these generated definitions.
(B) coq/model/Peaks.v (powder_peaks) and coq/model/XrdMetricBody.v (hkl2d2_matgen, abc2cart) are hand models tied by correspondence.
"""
import hashlib
import itertools
import json
import math
import os
import sys
import warnings
from fractions import Fraction as Fr

import numpy as np

import fw

warnings.filterwarnings("ignore")
sys.path.insert(0, os.path.join(fw.VERIF, "tools", "py2v"))
IMPORTS = ("From Coq Require Import ZArith List Bool.\nImport ListNotations.\nRequire Import Sop.model.Lattice Sop.model.Peaks Sop.gen.XrdRules Sop.model.XrdSpec Sop.model.XrdMetricQ.\n"
           "Local Open Scope Z_scope.\n"
           "Definition rl (H : Z) : Z -> Z -> Z -> bool := match rule_of_hall H with Some r => r | None => fun _ _ _ => false end.\n"
           "Definition ibox := combine (map Z.of_nat (seq 0 2197)) (Sop.model.XrdSpec.box 6).\n")
B = 6
FROZEN = os.path.join(fw.VERIF, "tools", "data", "spglib_ops.json")


def regen(ctx):
    import xrd_rules as X
    try:
        txt, halls, k = X.gen_rules(fw.REPO)
        fw.write_if_changed(os.path.join(fw.COQ, "gen", "XrdRules.v"), txt)
        ctx.oblige("py2v xrd_rules: all %d rule strings and the Hall map inside the translated grammar" % k, "translator", True)
    except Exception as e:
        ctx.oblige("py2v xrd_rules: rule strings and the Hall map inside the translated grammar", "translator", False, repr(e))
        return None
    frozen = json.load(open(FROZEN))
    try:
        fw.write_if_changed(os.path.join(fw.COQ, "gen", "SgOps.v"), X.gen_ops(frozen, halls))
    except Exception as e:
        ctx.oblige("frozen operations cover every tabulated Hall number", "translator", False, repr(e))
        return None
    return halls


def absent(ops, hkl):
    h = np.array(hkl)
    return any((h @ R == h).all() and (h @ t) % 12 != 0 for R, t in ops)


def absent_box(ops, boxarr):
    """vectorised over the whole box: boolean array, True where some operation makes the reflection systematically absent"""
    out = np.zeros(len(boxarr), bool)
    for R, t in ops:
        out |= ((boxarr @ R) == boxarr).all(axis=1) & ((boxarr @ t) % 12 != 0)
    return out


def code(h, k, l):
    return ((h + B) * 13 + (k + B)) * 13 + (l + B)


def classify(kind, case, detail):
    if kind == "rule":
        return "C14-hall%d" % case["hall"]      # only suppressed if that entry exists and the exact mismatch set matched (see run)
    return None


def gram_cases(rng, quick):
    """direct lattices as integer Gram matrices G/s (Angstrom^2): cubic, tetragonal, orthorhombic, hexagonal, monoclinic with rational
    cos(beta), triclinic from integer cells"""
    out = []
    for a in (3, 4, 5):
        out.append(("cubic", [[a * a, 0, 0], [0, a * a, 0], [0, 0, a * a]], 1))
    out.append(("tetragonal", [[9, 0, 0], [0, 9, 0], [0, 0, 25]], 1))
    out.append(("orthorhombic", [[9, 0, 0], [0, 16, 0], [0, 0, 30]], 1))
    out.append(("hexagonal", [[18, -9, 0], [-9, 18, 0], [0, 0, 50]], 2))          # a = 3, c = 5, gamma = 120
    out.append(("monoclinic", [[16, 0, -5], [0, 25, 0], [-5, 0, 25]], 1))          # cos(beta) = -1/4
    out.append(("rhombohedral", [[16, 4, 4], [4, 16, 4], [4, 4, 16]], 1))
    # reflections lying EXACTLY on the limiting sphere 1/d = 2/lambda (cell edge = integer multiple of lambda/2): strict window
    out.append(("boundary", [[4, 0, 0], [0, 4, 0], [0, 0, 4]], 1, 1.0))
    out.append(("boundary", [[9, 0, 0], [0, 25, 0], [0, 0, 100]], 1, 2.0))
    out.append(("boundary", [[4, 0, 0], [0, 9, 0], [0, 0, 16]], 1, 1.0))
    for _ in range(3 if quick else 40):
        L = np.array([[rng.randint(-4, 6) for _ in range(3)] for _ in range(3)])
        if abs(round(np.linalg.det(L))) < 8:
            continue
        G = (L @ L.T)
        if min(G[0, 0], G[1, 1], G[2, 2]) < 6:
            continue
        out.append(("triclinic", G.tolist(), 1))
    return out


def adj_det(G):
    G = [[int(x) for x in r] for r in G]
    (a, b, c), (_, d, e), (_, _, f) = G
    cof = [[d * f - e * e, -(b * f - e * c), b * e - d * c],
           [-(b * f - c * e), a * f - c * c, -(a * e - b * c)],
           [b * e - c * d, -(a * e - c * b), a * d - b * b]]
    det = a * cof[0][0] + b * cof[0][1] + c * cof[0][2]
    return cof, det


def run_peaks(G, s, lam, hall):
    from soprano.calculate.xrd import XRDCalculator
    Gr = np.array(G, float) / s
    a, b, c = (math.sqrt(Gr[i, i]) for i in range(3))
    al = math.acos(Gr[1, 2] / (b * c))
    be = math.acos(Gr[0, 2] / (a * c))
    ga = math.acos(Gr[0, 1] / (a * b))
    xr = XRDCalculator(lambdax=lam)
    tab = json.load(open(os.path.join(fw.REPO, "soprano", "data", "hall_2_no.json")))
    n, o = tab[str(hall)]["n"], tab[str(hall)]["o"]
    pk = xr.powder_peaks(latt_abc=[[a, b, c], [al, be, ga]], n=int(n), o=int(o) if o != "all" else "all")
    return pk, (a, b, c, al, be, ga)


def run(ctx):
    rng = ctx.rng
    quick = ctx.tier == "quick"
    ctx.rule = ("rule table: all 306 tabulated settings x all hkl in [-6,6]^3 (exhaustive; the box IS the stated quantifier), evaluated by vm_compute on "
                "the rules regenerated from the JSON and independently in python on the live get_sel_rule_from_hall; peaks: cubic, tetragonal, "
                "orthorhombic, hexagonal, monoclinic, rhombohedral and triclinic lattices with rational metric x wavelengths x settings; "
                "lattice conversions: abc with rational cosines; distinct = (kind, outcome) keys")
    ctx.trusted += ["py2v xrd_rules translator (tools/py2v/xrd_rules.py) and Python's ast; the eval() of the rule string by soprano is tied to the "
                    "generated definition by evaluating both on the whole box",
                    "spglib's space-group database is the specification of 'that setting's symmetry operations' (frozen copy tools/data/spglib_ops.json, "
                    "compared with the live library on every run)",
                    "hand models coq/model/Peaks.v, XrdMetricBody.v; numpy float arithmetic of powder_peaks is compared with exact rational arithmetic "
                    "(window edges and 2theta groups closer than 2e-6 deg excluded from the generator); arcsin/rounding not modelled"]
    halls = regen(ctx)
    import xrd_rules as X
    # frozen copy == live library
    frozen = json.load(open(FROZEN))
    try:
        live = X.live_ops(sorted(int(h) for h in frozen))
        same = all(live[h] == frozen[h] for h in frozen)
    except Exception as e:
        same, live = False, None
        ctx.notes.append("live spglib comparison failed: %r" % e)
    ctx.oblige("frozen copy of the space-group operations == live spglib database (306 Hall numbers)", "oracle-contract", same)
    ctx.build_props(timeout=2400)
    ctx.build_models(["model/Peaks.vo", "model/XrdMetricQ.vo", "gen/XrdRules.vo"])
    # ---- rule table on the real code: live rule function vs operations, whole box, every setting
    from soprano.calculate.xrd import sel_rules as SR
    known = {k["signature"]["hall"]: k for k in ctx.known if k["id"].startswith("C14-hall") and k.get("status") == "known"}
    box = list(itertools.product(range(-B, B + 1), repeat=3))
    boxarr = np.array(box)
    model_cases, model_meta = [], []
    nbadset = 0
    for H in (halls or []):
        ops = [(np.array(R).reshape(3, 3), np.array(t)) for R, t in frozen[str(H)]["ops"]]
        try:
            f = SR.get_sel_rule_from_hall(H)
            vals = [bool(f(hkl)) for hkl in box]
        except Exception as e:
            ctx.fail_input("rule", dict(hall=H, hkl=[0, 0, 0]), "get_sel_rule_from_hall(%d) raised %s: %s" % (H, type(e).__name__, e), None)
            continue
        ab = absent_box(ops, boxarr)
        mm = [hkl for hkl, v, a_ in zip(box, vals, ab) if v != (not a_)]
        ctx.evaluations += len(box)
        ctx.seen(("rule", H, len(mm)))
        # the generated Coq rule must compute what soprano's eval() computes: compare a fingerprint of the truth table over the box
        fp = sum((1 if v else 0) * ((i * 7919 + 13) % 1000003) for i, v in enumerate(vals)) % 1000003
        model_cases.append(("[fold_left (fun acc x => match x with (i, (h, k, l)) => if rl %d h k l then (acc + ((i * 7919 + 13) mod 1000003)) mod 1000003 else acc end) "
                            "ibox 0]" % H, [fp]))
        model_meta.append(("rule-table", H))
        if mm:
            codes = sorted(code(*x) for x in mm)
            sha = hashlib.sha1(json.dumps(codes).encode()).hexdigest()
            k = known.get(H)
            if k is not None and k["signature"]["sha1"] == sha:
                ctx.fail_input("rule", dict(hall=H, hkl=list(mm[0])), "rule and operations disagree on %d reflections (the recorded set)" % len(mm), classify)
            else:
                nbadset += 1
                ctx.fail_input("rule", dict(hall=H, hkl=list(mm[0])),
                               "selection rule of Hall %d disagrees with the symmetry operations on %d reflections of the box, e.g. %s (not the recorded set)" % (H, len(mm), mm[:3]), None)
    # ---- peaks
    lams = [1.5406, 0.71, 2.29]
    npk = 0
    for gc in gram_cases(rng, quick):
        kind, G, s = gc[0], gc[1], gc[2]
        cof, det = adj_det(G)
        if det <= 0:
            continue
        hs = rng.sample(halls, 3 if quick else 12) + [1]
        for H in hs:
            lam = gc[3] if len(gc) > 3 else rng.choice(lams)
            lam2 = Fr(lam) ** 2
            # 1/d^2 = s * h cof h / det ;  window 1/d^2 < 4 / lam^2   <=>   (h cof h) * (s * lam2.num) < 4 * det * lam2.den
            rn, rd = 4 * det * lam2.denominator, s * lam2.numerator
            try:
                pk, abc = run_peaks(G, s, lam, H)
            except Exception as e:
                ctx.fail_input("peaks", dict(kind=kind, G=G, s=s, lam=lam, hall=H), "powder_peaks raised %s: %s" % (type(e).__name__, e), None)
                continue
            got = []
            edge = False
            for th2, hkls, hu, invd in zip(pk.theta2, pk.hkl, pk.hkl_unique, pk.invd):
                qs = set()
                for hkl in hkls:
                    q = sum(hkl[i] * cof[i][j] * hkl[j] for i in range(3) for j in range(3))
                    qs.add(q)
                q0 = sum(int(hu[i]) * cof[i][j] * int(hu[j]) for i in range(3) for j in range(3))
                got.append((min(qs), sorted(tuple(int(x) for x in hkl) for hkl in hkls), len(qs), q0, float(invd), float(th2)))
                if abs(float(invd) ** 2 - float(Fr(q0 * s, det))) > 1e-9 * max(1.0, float(invd) ** 2):
                    ctx.fail_input("peaks", dict(kind=kind, G=G, s=s, lam=lam, hall=H), "1/d of peak %s is %r, reciprocal-lattice length^2 is %s" % (hu, invd, Fr(q0 * s, det)), None)
                want2t = 2 * math.degrees(math.asin(math.sqrt(float(Fr(q0 * s, det))) * lam / 2))
                if abs(want2t - float(th2)) > 2e-6:
                    ctx.fail_input("peaks", dict(kind=kind, G=G, s=s, lam=lam, hall=H), "2theta of peak %s is %r, 2 asin(lambda/2d) is %r" % (hu, th2, want2t), None)
            # the property stated directly (exact rationals): listed <=> rule and 0 < 1/d^2 < (2/lambda)^2, for every hkl
            lim = Fr(4) / lam2
            listed = set(t3 for g in got for t3 in g[1])
            Gr_ = [[Fr(int(x), s) for x in r] for r in G]
            hb = [int(math.sqrt(float(lim) * float(Gr_[i][i]))) + 2 for i in range(3)]
            try:
                from soprano.calculate.xrd import sel_rules as SR2
                rule_f = SR2.get_sel_rule_from_hall(H)
                want_set = set()
                for hkl in itertools.product(*[range(-b_, b_ + 1) for b_ in hb]):
                    qq = Fr(sum(hkl[i] * cof[i][j] * hkl[j] for i in range(3) for j in range(3)) * s, det)
                    if 0 < qq < lim and rule_f(hkl):
                        want_set.add(tuple(hkl))
                if listed != want_set:
                    ctx.fail_input("peaks", dict(kind=kind, G=G, s=s, lam=lam, hall=H),
                                   "peak list != {hkl : rule and 0 < 1/d < 2/lambda}: spurious %s missing %s" % (sorted(listed - want_set)[:3], sorted(want_set - listed)[:3]), None)
            except Exception as e:
                ctx.notes.append("peak oracle failed: %r" % e)
            # distinct spacings whose 2theta differ by less than 2e-6 deg may legitimately be merged by the rounding: skip those lattices
            ths = sorted(g[5] for g in got)
            if any(b2 - a2 < 4e-6 for a2, b2 in zip(ths, ths[1:])):
                edge = True
            if any(g[2] != 1 for g in got) and not edge:
                ctx.fail_input("peaks", dict(kind=kind, G=G, s=s, lam=lam, hall=H), "a peak lists Miller indices of different spacings", None)
            npk += 1
            ctx.evaluations += 1
            ctx.seen(("peaks", kind, H, len(got)))
            if edge or sum(len(g[1]) for g in got) > 1500:
                continue          # large lists are judged by the python statement only (the model's insertion sort is quadratic)
            got.sort()
            enc = []
            for q, hk, _n, _q0, _i, _t in got:
                enc += [q, len(hk)] + [x for t3 in sorted(hk) for x in t3]
            (a11, a12, a13), (_, a22, a23), (_, _, a33) = cof
            expr = ("enc_peaks (map (fun g => (fst g, Sop.model.Peaks.sortv (snd g))) (peaks (mkG %s %s %s %s %s %s) %d %d (rl %d)))"
                    % (fw.zlit(a11), fw.zlit(a12), fw.zlit(a13), fw.zlit(a22), fw.zlit(a23), fw.zlit(a33), rn, rd, H))
            model_cases.append((expr, enc))
            model_meta.append(("peaks", dict(kind=kind, G=G, s=s, lam=lam, hall=H, npeaks=len(got))))
    # ---- lattice conversions: hkl2d2_matgen / abc2cart / cart2abc
    from soprano import utils as U
    nconv = 0
    for t in range(40 if quick else 800):
        a, b, c = (rng.randint(4, 40) / 2.0 for _ in range(3))
        while True:
            cs = [Fr(rng.randint(-8, 8), 16) for _ in range(3)]
            vol = 1 - sum(x * x for x in cs) + 2 * cs[0] * cs[1] * cs[2]
            if vol > Fr(1, 20):
                break
        ang = [math.acos(float(x)) for x in cs]
        M = U.hkl2d2_matgen([[a, b, c], ang])
        cart = U.abc2cart([[a, b, c], ang])
        abc2 = U.cart2abc(cart)
        Gd = cart @ cart.T
        ok = np.allclose(M @ Gd, np.eye(3), atol=1e-9) and np.allclose(abc2, [[a, b, c], ang], atol=1e-9)
        nconv += 1
        ctx.evaluations += 1
        if not ok:
            ctx.fail_input("metric", dict(abc=[a, b, c], cos=[str(x) for x in cs]), "hkl2d2_matgen . (abc2cart abc2cart^T) != I or cart2abc(abc2cart(x)) != x", None)
        # model (exact rationals) vs code (floats)
        Fa, Fb, Fc = Fr(a), Fr(b), Fr(c)
        den = (Fa * Fb * Fc) ** 2 * vol
        want = [(Fb * Fc) ** 2 * (1 - cs[0] ** 2) / den, Fa * Fb * Fc * Fc * (cs[0] * cs[1] - cs[2]) / den, Fa * Fb * Fc * Fb * (cs[0] * cs[2] - cs[1]) / den,
                (Fa * Fc) ** 2 * (1 - cs[1] ** 2) / den, Fa * Fb * Fc * Fa * (cs[1] * cs[2] - cs[0]) / den, (Fa * Fb) ** 2 * (1 - cs[2] ** 2) / den]
        gotm = [M[0, 0], M[0, 1], M[0, 2], M[1, 1], M[1, 2], M[2, 2]]
        if not all(abs(float(w) - g) <= 1e-9 * max(1.0, abs(g)) for w, g in zip(want, gotm)):
            ctx.fail_input("metric", dict(abc=[a, b, c], cos=[str(x) for x in cs]), "hkl2d2_matgen differs from the reciprocal metric formula", None)
        if t < (10 if quick else 100):
            q = lambda x: "(mkq %s %d)" % (fw.zlit(x.numerator), x.denominator)
            model_cases.append(("enc6 (hkl2d2 %s %s %s %s %s %s)" % (q(Fa), q(Fb), q(Fc), q(cs[0]), q(cs[1]), q(cs[2])),
                                [z for w in want for z in (w.numerator, w.denominator)]))
            model_meta.append(("hkl2d2", dict(abc=[a, b, c], cos=[str(x) for x in cs])))
    # atoms= entry point (spglib dataset -> hall number -> rule)
    try:
        from ase.build import bulk
        from soprano.calculate.xrd import XRDCalculator
        xr = XRDCalculator()
        for name, kw, H in (("Cu", dict(crystalstructure="fcc", a=3.6, cubic=True), 523), ("Fe", dict(crystalstructure="bcc", a=2.87, cubic=True), 529)):
            at = bulk(name, **kw)
            pk = xr.powder_peaks(atoms=at)
            tab = json.load(open(os.path.join(fw.REPO, "soprano", "data", "hall_2_no.json")))
            pk2 = xr.powder_peaks(latt_abc=U.cart2abc(at.get_cell()), n=int(tab[str(H)]["n"]), o=int(tab[str(H)]["o"]))
            ctx.evaluations += 1
            if not np.allclose(pk.theta2, pk2.theta2):
                ctx.fail_input("peaks", dict(atoms=name), "powder_peaks(atoms=) differs from powder_peaks(latt_abc=, n, o) of its own setting", None)
    except Exception as e:
        ctx.fail_input("peaks", dict(atoms="bulk"), "powder_peaks(atoms=) raised %s: %s" % (type(e).__name__, e), None)
    ctx.stats.update(rule_settings=len(halls or []), peak_lists=npk, conversions=nconv)
    ctx.exhaustive = True
    ctx.correspondence("generated rules == soprano's eval over the whole box (306 settings); powder_peaks and hkl2d2_matgen == Coq models", "c14", IMPORTS,
                       model_cases, model_meta, shard=40)
    if model_cases:
        ctx.sample(dict(case=model_meta[-1], impl=model_cases[-1][1][:40]))
    if ctx.tier == "thorough":
        ctx.coqchk()


def replay(obj):
    k, c = obj.get("kind"), obj.get("case")
    if k == "rule":
        from soprano.calculate.xrd import sel_rules as SR
        frozen = json.load(open(FROZEN))
        H = c["hall"]
        ops = [(np.array(R).reshape(3, 3), np.array(t)) for R, t in frozen[str(H)]["ops"]]
        f = SR.get_sel_rule_from_hall(H)
        v = bool(f(tuple(c["hkl"])))
        a = not absent(ops, tuple(c["hkl"]))
        print("replay rule hall=%d hkl=%s: rule says %s, symmetry operations say %s -> %s" % (H, c["hkl"], v, a, "property holds" if v == a else "PROPERTY FAILS"))
        return 0 if v == a else 1
    print("replay: nothing executable in this file: %s" % (obj.get("broken_obligations") or obj.get("detail")))
    return 1
