"""C03 - minimum-image and periodic-image searches are exact."""
import math
import warnings

import numpy as np

import fw
from harness import lattice_common as lc

warnings.filterwarnings("ignore")


# ------------------------------------------------------------------ property oracle on the implementation

def oracle_min(L, pbc, vs, excl):
    """minimum_periodic on the real code, judged exactly; returns (ok, detail, w, cells)"""
    from soprano.utils import minimum_periodic
    La = np.array(L, float)
    w, cells = minimum_periodic(np.array(vs, float), La, exclude_self=excl, pbc=list(pbc))
    w = np.asarray(w)
    cells = np.asarray(cells)
    for k, v in enumerate(vs):
        c = tuple(int(x) for x in cells[k])
        wk = tuple(w[k].tolist())
        if any(abs(x - round(x)) > 1e-9 for x in wk):
            return False, "vector %d: returned image %s is not v + n.L for integer data" % (k, wk), w, cells
        wk = tuple(int(round(x)) for x in wk)
        if wk != lc.vadd(v, lc.comb(c, L)):
            return False, "vector %d=%s: returned image %s != v + cell.L with cell %s" % (k, v, wk, c), w, cells
        if any(c[i] != 0 and not pbc[i] for i in range(3)):
            return False, "vector %d: cell %s moves along a non-periodic axis" % (k, c), w, cells
        best = lc.brute_min(L, pbc, v, excl)
        if best is None:
            continue          # no admissible non-zero image exists at all
        if lc.norm2(wk) != best:
            return False, "vector %d=%s: returned image %s (cell %s) has length^2 %d, a periodic image of length^2 %d exists" % (
                k, v, wk, c, lc.norm2(wk), best), w, cells
    return True, "", w, cells


def oracle_all(L, pbc, vs, rho):
    """all_periodic with radius sqrt(rho); returns (ok, detail, list of (w,k,c))"""
    from soprano.utils import all_periodic
    w, idx, cells = all_periodic(np.array(vs, float), np.array(L, float), math.sqrt(rho), pbc=list(pbc))
    got = []
    for a, k, c in zip(np.asarray(w), np.asarray(idx), np.asarray(cells)):
        got.append((tuple(int(round(x)) for x in a), int(k), tuple(int(x) for x in c)))
    want = set()
    for k, v in enumerate(vs):
        for n, wv in lc.brute_images(L, pbc, v, rho, 1):
            want.add((wv, k, n))
    gs = set(got)
    if len(gs) != len(got):
        return False, "duplicate images returned", got
    if gs != want:
        miss = sorted(want - gs)[:3]
        extra = sorted(gs - want)[:3]
        return False, "radius^2=%d: missing images %s, spurious images %s" % (rho, miss, extra), got
    return True, "", got


def oracle_supcell(L, pbc, rho, metric=False):
    from soprano.utils import minimum_supcell
    r = math.sqrt(rho)
    if metric:
        G = np.array(L, float) @ np.array(L, float).T
        shape = minimum_supcell(r, r_matrix=G, pbc=list(pbc))
    else:
        shape = minimum_supcell(r, latt_cart=np.array(L, float), pbc=list(pbc))
    b = [(int(s) - 1) // 2 for s in shape]
    be, edge = lc.bounds_exact(L, pbc, rho, 1)
    for i in range(3):
        if int(shape[i]) % 2 != 1 or b[i] < be[i] or b[i] > be[i] + (1 if edge else 0):
            return False, "supercell half-widths %s, exact ceil(r*sqrt(Ginv_ii)) = %s (radius^2 %d)" % (b, be, rho), b
    return True, "", b


def classify(kind, case, detail):
    return None


def run_case(kind, case):
    L, pbc, vs = case["L"], tuple(case["pbc"]), [tuple(v) for v in case.get("vs", [])]
    if kind == "min":
        return oracle_min(L, pbc, vs, case["excl"])[:2]
    if kind == "all":
        return oracle_all(L, pbc, vs, case["rho"])[:2]
    if kind == "supcell":
        return oracle_supcell(L, pbc, case["rho"], case.get("metric", False))[:2]
    if kind == "eucl":
        return oracle_eucl(L, vs)
    raise ValueError(kind)


def oracle_eucl(L, vs):
    from ase import Atoms
    from soprano.measure import euclideanDistance
    a = Atoms("H%d" % len(vs), positions=np.array(vs, float), cell=np.array(L, float), pbc=True)
    for i in range(len(vs)):
        for j in range(len(vs)):
            d = euclideanDistance(a, i, j)
            v = tuple(vs[j][k] - vs[i][k] for k in range(3))
            best = 0 if i == j else lc.brute_min(L, (True, True, True), v, False)
            if abs(d * d - best) > 1e-6 * max(1, best):
                return False, "euclideanDistance(%d,%d)^2 = %g, minimum image length^2 = %d" % (i, j, d * d, best)
    return True, ""


# ----------------------------------------------------------------------- run

def run(ctx):
    rng = ctx.rng
    quick = ctx.tier == "quick"
    ctx.rule = ("integer lattices from 6 streams (orthogonal, sheared up to 12, thin slabs, left-handed, general, near-singular) x all 8 pbc "
                "masks x vector lists mixing zeros / exact lattice vectors / inside / far outside x exclude_self (incl. non-reduced cells with zero + tiny vectors) x radii from below the shortest "
                "lattice vector to several cells; implementation judged exactly (integer arithmetic) and compared with the Z model evaluated by vm_compute; "
                "distinct = (stream, mask, kind, outcome signature)")
    ctx.trusted += ["hand model coq/model/Lattice.v of minimum_supcell/supcell_gridgen/minimum_periodic/all_periodic, tied by exact correspondence on integer inputs",
                    "harness-side exact brute force (tools/harness/lattice_common.py) used as the search oracle",
                    "modelled, not verified: IEEE rounding and LAPACK eigh inside minimum_supcell (float ceil may be one larger exactly at integer boundaries; such cases are compared by length only)"]
    ctx.build_props()
    ctx.build_models(["model/Lattice.vo"])

    ncase = 160 if quick else 2500
    min_cases, all_cases, sup_cases = [], [], []
    for k in range(ncase):
        kind = lc.LKINDS[k % len(lc.LKINDS)]
        L = lc.gen_lattice(rng, kind)
        pbc = lc.MASKS[(k // len(lc.LKINDS)) % 8] if k % 3 else (True, True, True)
        vs = lc.gen_vectors(rng, L, rng.randint(1, 4))
        excl = (k % 4 == 1)
        # keep grids affordable
        red = [lc.reduce_vec(L, pbc, v)[0] for v in vs]
        rho = max(lc.norm2(v) for v in red)
        if excl and any(pbc):
            rho = max(rho, min(lc.norm2(L[i]) for i in range(3) if pbc[i]))
        b, edge = lc.bounds_exact(L, pbc, rho, 1)
        rho_raw = max(lc.norm2(v) for v in vs)
        braw, _ = lc.bounds_exact(L, pbc, rho_raw, 1)
        if lc.grid_size(b) <= 30000 and lc.grid_size(braw) <= 150000:
            half = any(lc.reduce_vec(L, pbc, v)[2] for v in vs)
            min_cases.append(dict(L=L, pbc=list(pbc), vs=[list(v) for v in vs], excl=excl, stream=kind, boundary=bool(edge or half)))
        # all_periodic: radius^2 from below the shortest row to several cells
        rows = sorted(lc.norm2(r) for r in L)
        rho2 = rng.choice([max(1, rows[0] // 4), rows[0], rows[0] + 1, rows[1], 2 * rows[1], rng.randint(1, 4 * rows[2])])
        b2, edge2 = lc.bounds_exact(L, pbc, rho2, 1)
        if lc.grid_size(b2) <= 30000:
            half = any(lc.reduce_vec(L, pbc, v)[2] for v in vs)
            all_cases.append(dict(L=L, pbc=list(pbc), vs=[list(v) for v in vs], rho=rho2, stream=kind, boundary=bool(edge2 or half)))
            sup_cases.append(dict(L=L, pbc=list(pbc), rho=rho2, stream=kind, metric=(k % 2 == 0)))
    # non-reduced cells whose shortest lattice vector (b - m a) lies outside the +-1 neighbour cells, asked for the self-image of a zero vector listed
    # together with very short vectors (the search radius is then tiny but not zero)
    for k in range(16 if quick else 200):
        a_ = rng.randint(8, 16)
        m_ = rng.choice([2, 3, -2])
        L = [[a_, 0, 0], [m_ * a_ + rng.choice([-2, -1, 1, 2]), rng.choice([1, 2, 3]), 0], [rng.randint(-2, 2), rng.randint(-2, 2), rng.randint(6, 12)]]
        if rng.random() < 0.3:
            L[0], L[1] = L[1], L[0]
        pbc = rng.choice([(True, True, True), (True, True, False), (True, True, True), (True, True, False)])
        if pbc == (True, True, False) and rng.random() < 0.6:
            L[2] = [0, 0, 1]          # a non-periodic cell vector shorter than every periodic lattice vector: it must not set the search radius
        tiny = [t_ for t_ in (tuple(rng.choice([-1, 0, 1]) for _ in range(3)) for _ in range(3)) if any(t_)][:rng.randint(1, 2)] or [(1, 0, 0)]
        vs = [(0, 0, 0)] + tiny               # a zero vector next to very short ones: the search radius is tiny but not zero
        if k % 3 == 0:
            vs = [(0, 0, 0)] * rng.randint(1, 2)          # nothing but self-images asked for
        elif rng.random() < 0.3:
            vs.append(lc.comb([rng.randint(-2, 2) for _ in range(3)], L))
        rng.shuffle(vs)
        red = [lc.reduce_vec(L, pbc, v)[0] for v in vs]
        rho = max(max(lc.norm2(v) for v in red), min(lc.norm2(L[i]) for i in range(3) if pbc[i]))
        b, edge = lc.bounds_exact(L, pbc, rho, 1)
        if lc.grid_size(b) <= 30000:
            half = any(lc.reduce_vec(L, pbc, v)[2] for v in vs)
            min_cases.append(dict(L=L, pbc=list(pbc), vs=[list(v) for v in vs], excl=True, stream="nonreduced-self", boundary=bool(edge or half)))
    # the same family, crafted so that it does not depend on the draw: |a*| x |tiny| <= 1, so a radius taken from the tiny vector reaches only the
    # 27 neighbour cells while the shortest lattice vector b - m a lies outside them
    for a_, m_, d_ in ((10, 2, 1), (12, 2, -1), (10, 3, 1), (14, -2, 1)):
        for tiny in ((0, 0, 1), (0, 0, -1)):
            for pbc in ((True, True, True), (True, True, False)):
                L = [[a_, 0, 0], [m_ * a_ + d_, 3, 0], [0, 0, 9]]
                min_cases.append(dict(L=L, pbc=list(pbc), vs=[[0, 0, 0], list(tiny)], excl=True, stream="nonreduced-crafted", boundary=False))
        # a slab whose NON-periodic cell vector is the shortest of the three: it must not set the radius of the self-image search
        min_cases.append(dict(L=[[a_, 0, 0], [m_ * a_ + d_, 3, 0], [0, 0, 1]], pbc=[True, True, False], vs=[[0, 0, 0]], excl=True, stream="nonreduced-crafted", boundary=False))
    # corpus: witnesses of the defects found while reading (scaled to integers)
    min_cases.insert(0, dict(L=[[300, 0, 0], [0, 300, 0], [100, 0, 10]], pbc=[True] * 3, vs=[[0, 0, 16]], excl=False, stream="corpus-F03a", boundary=False))
    min_cases.insert(1, dict(L=[[300, 0, 0], [0, 300, 0], [100, 0, 10]], pbc=[True] * 3, vs=[[0, 0, 0]], excl=True, stream="corpus-F03b", boundary=False))
    min_cases.insert(2, dict(L=[[6, 0, 0], [0, 6, 0], [0, 0, 6]], pbc=[True] * 3, vs=[[0, 0, 0], [0, 0, 0]], excl=True, stream="corpus-F03b", boundary=False))
    all_cases.insert(0, dict(L=[[6, 0, 0], [0, 6, 0], [0, 0, 6]], pbc=[True] * 3, vs=[[13, 0, 0]], rho=1, stream="corpus-F03c", boundary=False))

    # ---- minimum_periodic: oracle + model
    exprs, impl_out = [], []
    for c in min_cases:
        L, pbc, vs = c["L"], tuple(c["pbc"]), [tuple(v) for v in c["vs"]]
        try:
            ok, d, w, cells = oracle_min(L, pbc, vs, c["excl"])
        except Exception as e:
            ok, d, w, cells = False, "raised %s: %s" % (type(e).__name__, e), None, None
        ctx.evaluations += 1
        ctx.seen(("min", c["stream"], tuple(pbc), c["excl"], ok, len(vs)))
        if not ok:
            ctx.fail_input("min", c, d, classify)
        exprs.append("enc_min (minimum_periodic_m %s %s %s %s)" % (lc.coq_L(L), lc.coq_mask(pbc), "true" if c["excl"] else "false", lc.coq_vs(vs)))
        impl_out.append(None if w is None else [int(round(x)) for k in range(len(vs)) for x in list(w[k]) + list(cells[k])])
    mv = fw.coq_eval("c03m", lc.IMPORTS, exprs)
    nbad, first, nexact = 0, "", 0
    for c, m, io in zip(min_cases, mv, impl_out):
        if io is None:
            nbad += 1
            first = first or "%s: implementation raised" % c
            continue
        if not c["boundary"] and not (c["excl"] and not any(c["pbc"])):
            nexact += 1
            agree = (m == io)
        else:   # rounding-ambiguous input: the choice among equal minima is unspecified; compare lengths only
            agree = [lc.norm2(m[6 * k:6 * k + 3]) for k in range(len(c["vs"]))] == [lc.norm2(io[6 * k:6 * k + 3]) for k in range(len(c["vs"]))]
        if not agree:
            nbad += 1
            first = first or "%s: model=%s impl=%s" % (c, m, io)
    ctx.evaluations += len(exprs)
    ctx.oblige("minimum_periodic == Z model minimum_periodic_m (images and cells; %d exact, %d by length) [%d cases]" % (nexact, len(exprs) - nexact, len(exprs)),
               "correspondence", nbad == 0, "%d disagree; first: %s" % (nbad, first))
    ctx.sample(dict(minimum_periodic=min_cases[0], impl=impl_out[0], model=mv[0]))

    # ---- all_periodic
    exprs, impl_out = [], []
    for c in all_cases:
        L, pbc, vs = c["L"], tuple(c["pbc"]), [tuple(v) for v in c["vs"]]
        try:
            ok, d, got = oracle_all(L, pbc, vs, c["rho"])
        except Exception as e:
            ok, d, got = False, "raised %s: %s" % (type(e).__name__, e), None
        ctx.evaluations += 1
        ctx.seen(("all", c["stream"], tuple(pbc), ok, len(got or [])))
        if not ok:
            ctx.fail_input("all", c, d, classify)
        exprs.append("enc_all (all_periodic_m %s %s %d 1 %s)" % (lc.coq_L(L), lc.coq_mask(pbc), c["rho"], lc.coq_vs(vs)))
        impl_out.append(None if got is None else [x for (w, k, n) in got for x in list(w) + [k] + list(n)])
    mv = fw.coq_eval("c03a", lc.IMPORTS, exprs)
    nbad, first = 0, ""
    for c, m, io in zip(all_cases, mv, impl_out):
        if io is None:
            agree = False
        elif not c["boundary"]:
            agree = (m == io)                      # same images in the same order
        else:
            agree = sorted(tuple(m[7 * k:7 * k + 7]) for k in range(len(m) // 7)) == sorted(tuple(io[7 * k:7 * k + 7]) for k in range(len(io) // 7))
        if not agree:
            nbad += 1
            first = first or "%s: model=%s impl=%s" % (c, m[:28], (io or [])[:28])
    ctx.evaluations += len(exprs)
    ctx.oblige("all_periodic == Z model all_periodic_m (images, source index, cell, order) [%d cases]" % len(exprs),
               "correspondence", nbad == 0, "%d disagree; first: %s" % (nbad, first))
    ctx.sample(dict(all_periodic=all_cases[1] if len(all_cases) > 1 else all_cases[0], impl=impl_out[1][:21] if len(impl_out) > 1 else None))

    # ---- minimum_supcell (direct lattice and r_matrix= entry)
    exprs, got = [], []
    for c in sup_cases:
        L, pbc = c["L"], tuple(c["pbc"])
        try:
            ok, d, b = oracle_supcell(L, pbc, c["rho"], c["metric"])
        except Exception as e:
            ok, d, b = False, "raised %s: %s" % (type(e).__name__, e), None
        ctx.evaluations += 1
        ctx.seen(("sup", c["stream"], tuple(pbc), c["metric"], ok))
        if not ok:
            ctx.fail_input("supcell", c, d, classify)
        if c["metric"]:
            exprs.append("encv (maskv %s (bound_metric (gram %s) %d 1 0, bound_metric (gram %s) %d 1 1, bound_metric (gram %s) %d 1 2))" % (
                lc.coq_mask(pbc), lc.coq_L(L), c["rho"], lc.coq_L(L), c["rho"], lc.coq_L(L), c["rho"]))
        else:
            exprs.append("encv (bounds %s %s %d 1)" % (lc.coq_L(L), lc.coq_mask(pbc), c["rho"]))
        got.append(b)
    mv = fw.coq_eval("c03s", lc.IMPORTS, exprs)
    nbad, first = 0, ""
    for c, m, b in zip(sup_cases, mv, got):
        _, edge = lc.bounds_exact(c["L"], tuple(c["pbc"]), c["rho"], 1)
        agree = b is not None and all(m[i] <= b[i] <= m[i] + (1 if edge else 0) for i in range(3))
        if not agree:
            nbad += 1
            first = first or "%s: model=%s impl=%s" % (c, m, b)
    ctx.evaluations += len(exprs)
    ctx.oblige("minimum_supcell (latt_cart= and r_matrix=) == Z model bounds / bound_metric [%d cases]" % len(exprs),
               "correspondence", nbad == 0, "%d disagree; first: %s" % (nbad, first))

    # ---- euclideanDistance goes through the same routine
    for k in range(10 if quick else 100):
        L = lc.gen_lattice(rng, lc.LKINDS[k % 5])
        vs = lc.gen_vectors(rng, L, 3)
        c = dict(L=L, pbc=[True] * 3, vs=[list(v) for v in vs])
        try:
            ok, d = oracle_eucl(L, vs)
        except Exception as e:
            ok, d = False, "raised %s: %s" % (type(e).__name__, e)
        ctx.evaluations += 1
        ctx.seen(("eucl", k % 5, ok))
        if not ok:
            ctx.fail_input("eucl", c, d, classify)
    if ctx.tier == "thorough":
        ctx.coqchk()


def replay(obj):
    k, c = obj["kind"], obj["case"]
    if k not in ("min", "all", "supcell", "eucl"):
        print("replay: nothing executable in this file: %s" % obj.get("broken_obligations"))
        return 1
    ok, d = run_case(k, c)
    print("replay %s %s -> %s %s" % (k, c, "property holds" if ok else "PROPERTY FAILS", d))
    return 0 if ok else 1
