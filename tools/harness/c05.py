"""C05 - results depend on the crystal, not on how it is represented (metamorphic check on the real API)."""
import itertools
import math
import warnings

import numpy as np

import fw
from harness import lattice_common as lc

warnings.filterwarnings("ignore")
IMPORTS = ("From Coq Require Import ZArith List Bool.\nImport ListNotations.\nRequire Import Sop.model.Lattice.\nLocal Open Scope Z_scope.\n")
ELS = ["H", "C", "O", "N"]
RADII = {"H": 1.51, "C": 2.47, "O": 2.03, "N": 1.93}      # half-sums never equal the distance between integer sites: no threshold ties


IMPM = ("From Coq Require Import ZArith List Bool.\nImport ListNotations.\nRequire Import Sop.model.Lattice Sop.model.Bonds.\nLocal Open Scope Z_scope.\n"
        "Definition strip (b : list (Z * Z * vec * Z)) : list (Z * Z * vec) := map (fun x => match x with (i, j, c, _) => (i, j, c) end) b.\n"
        "Definition obs (L : latt) (pbc : mask) (pos : list vec) (radii : list Z) (pairs : list vec) : list Z :=\n"
        "  let b := bonds_m L pbc pos radii in\n"
        "  map (fun x => match x with (_, _, _, d) => d end) b ++ [-1] ++ map (fun r => norm2 (fst r)) (minimum_periodic_m L pbc false pairs) ++ [-1] ++\n"
        "  map (fun m => Z.of_nat (length m)) (molecules_m (Z.of_nat (length pos)) (strip b)).\n")


def model_obs_expr(L, pos, radii2):
    """Coq expression: bond lengths^2, minimum-image lengths^2 of all pairs, molecule sizes (doubled integer geometry)"""
    L2 = [[2 * x for x in r] for r in L]
    P2 = [tuple(2 * x for x in p_) for p_ in pos]
    pairs = [tuple(P2[j][k] - P2[i][k] for k in range(3)) for i in range(len(P2)) for j in range(i + 1, len(P2))]
    return "obs %s %s %s %s %s" % (lc.coq_L(L2), lc.coq_mask((True, True, True)), lc.coq_vs(P2), fw.zlist(radii2), lc.coq_vs(pairs))


def impl_obs(syms, pos, L, radii):
    """the same three multisets from the real API (canonical: each block sorted)"""
    from soprano.properties.linkage import Bonds, Molecules
    from soprano.utils import minimum_periodic
    a = mk(syms, pos, L)
    bonds = Bonds.get(a, vdw_custom=radii)
    b2 = sorted(int(round(4 * float(d) ** 2 * 1)) for (_i, _j, _c, d) in bonds)
    P = np.array(pos, float)
    pairs = [P[j] - P[i] for i in range(len(P)) for j in range(i + 1, len(P))]
    mv, _c = minimum_periodic(np.array(pairs), np.array(L, float))
    m2 = sorted(int(round(4 * float(np.dot(v, v)))) for v in mv)
    mols = Molecules.get(a, vdw_custom=radii)
    ms = sorted(len(m.indices) for m in mols)
    return b2, m2, ms


def split_obs(v):
    out, cur = [], []
    for x in v:
        if x == -1:
            out.append(sorted(cur))
            cur = []
        else:
            cur.append(x)
    out.append(sorted(cur))
    return out


def classify(kind, case, detail):
    if kind == "metamorphic" and case.get("transform") == "supercell" and "hydrogen-bond counts" in str(detail):
        # an atom is never paired with its own periodic image: in a cell with a lattice vector shorter than the A..B cut-off (3.5 A) a supercell shows
        # hydrogen bonds between what were images of one atom
        if lc.brute_min([tuple(r) for r in case["L"]], (True, True, True), (0, 0, 0), True) <= 12.25 + 1e-9:
            return "C05-F05a"
    return None


def mk(syms, pos, L):
    from ase import Atoms
    return Atoms(syms, positions=np.array(pos, float), cell=np.array(L, float), pbc=True)


def observables(a):
    """distance-derived quantities, canonicalised so that they can be compared across representations"""
    from soprano.properties.linkage import Bonds, HydrogenBondsNumber, LinkageList, MoleculeMass, MoleculeNumber, Molecules
    from soprano.properties.nmr import DipolarCoupling, DipolarRSS
    from soprano.selection import AtomSelection
    out = {}
    n = len(a)
    out["linkage"] = [round(float(x), 6) for x in LinkageList.get(a, size=0)]
    bonds = Bonds.get(a, vdw_custom=RADII)
    out["bond_lengths"] = sorted(round(float(b[3]), 6) for b in bonds)
    out["bond_pairs"] = sorted((min(a[int(b[0])].symbol, a[int(b[1])].symbol), max(a[int(b[0])].symbol, a[int(b[1])].symbol), round(float(b[3]), 6)) for b in bonds)
    mols = Molecules.get(a, vdw_custom=RADII)
    out["n_molecules"] = int(MoleculeNumber.get(a))
    from harness.c04 import finite_potential
    bl = [(int(b[0]), int(b[1]), tuple(int(x) for x in b[2]), float(b[3])) for b in bonds]
    out["all_finite"] = all(finite_potential([int(i) for i in m.indices], bl) is not None for m in mols)
    out["molecule_masses"] = sorted(round(float(m), 6) for m in MoleculeMass.get(a))
    try:
        hb = HydrogenBondsNumber.get(a)
        out["hbonds"] = {k: int(v) for k, v in hb.items()} if isinstance(hb, dict) else hb
        # integer geometries can sit exactly on the angle / length thresholds (45 degrees, 3.5 A): such ties are decided by rounding under a generic rotation
        from soprano.properties.linkage import HydrogenBonds
        def _cnt(**kw):
            fresh_ = a.copy()
            fresh_.info.clear()
            return {k: len(v) for k, v in HydrogenBonds.get(fresh_, **kw).items()}
        out["_hb_tie"] = not (_cnt(max_angle=45.0 - 1e-6, max_length=3.5 - 1e-6) == _cnt(max_angle=45.0 + 1e-6, max_length=3.5 + 1e-6))
        # ... and a hydrogen can be exactly equidistant from two candidate atoms (which of them is "closest" / "second closest" is then arbitrary)
        from soprano.utils import minimum_periodic as _mp
        P_ = a.get_positions()
        hs_ = [i for i, e in enumerate(a.get_chemical_symbols()) if e == "H"]
        cs_ = [i for i, e in enumerate(a.get_chemical_symbols()) if e in ("O", "N")]
        for hi_ in hs_:
            if len(cs_) >= 2:
                dv_, _c = _mp(P_[hi_] - P_[cs_], a.get_cell())
                dd_ = np.sort(np.linalg.norm(dv_, axis=1))[:3]
                if np.any(np.diff(dd_) < 1e-6):
                    out["_hb_tie"] = True
    except Exception as e:
        out["hbonds"] = "raised %s" % type(e).__name__
    if n > 1:
        dc = DipolarCoupling.get(a)
        out["dipolar"] = sorted((min(a[int(i)].symbol, a[int(j)].symbol), max(a[int(i)].symbol, a[int(j)].symbol), round(float(d) / 1e0, 3)) for (i, j), (d, v) in dc.items())
    # couplings of every nucleus with its own nearest periodic copy (self_coupling=True): a per-site value
    dcs = DipolarCoupling.get(a, self_coupling=True)
    out["dipolar_self"] = sorted((a[int(i)].symbol, round(float(d), 3)) for (i, j), (d, v) in dcs.items() if int(i) == int(j))
    rss = DipolarRSS.get(a, cutoff=5.03)
    out["rss"] = sorted((a[i].symbol, round(float(r), 2)) for i, r in enumerate(rss))
    rssi = DipolarRSS.get(a, cutoff=9.03, isonuclear=True)        # cutoff longer than the shortest lattice vectors: own periodic copies count
    out["rss_iso"] = sorted((a[i].symbol, round(float(r), 2)) for i, r in enumerate(rssi))
    # element-pair distances WITH the pairs they belong to, keyed by the atoms' own positions so that they survive a relabelling
    from soprano.properties.linkage import ElementPairs
    syms_ = a.get_chemical_symbols()
    els_ = sorted(set(syms_))
    if len(els_) >= 2:
        e1, e2 = els_[0], els_[1]
        d_, prs_ = ElementPairs.get(a, element1=e1, element2=e2, return_pairs=True)
        out["element_pairs"] = sorted(round(float(x), 6) for x in d_)
        out["_pair_table"] = {(int(i), int(j)): round(float(x), 6) for x, (i, j) in zip(d_, prs_)}
    # periodic sphere around atom 0: number of copies of each element inside
    s = AtomSelection.from_sphere(a, a.get_positions()[0], 4.03, periodic=True)
    out["sphere"] = sorted(a[int(i)].symbol for i in s.indices)
    # periodic box (absolute coordinates) centred on atom 0: copies of each element inside; only meaningful for transformations that keep the axes
    c0 = a.get_positions()[0]
    sb = AtomSelection.from_box(a, c0 - 2.02, c0 + 2.02, periodic=True)
    out["box"] = sorted(a[int(i)].symbol for i in sb.indices)
    return out


def diff(o1, o2, keys=None, rel=1e-5):
    for k in (keys or o1.keys()):
        a, b = o1.get(k), o2.get(k)
        if a is None or b is None:
            continue
        if isinstance(a, list) and a and isinstance(a[0], (float, int)) and not isinstance(a[0], bool):
            if len(a) != len(b) or any(abs(x - y) > rel * max(1.0, abs(x)) for x, y in zip(a, b)):
                return k
        elif isinstance(a, list) and a and isinstance(a[0], tuple):
            if len(a) != len(b):
                return k
            for x, y in zip(a, b):
                if x[:-1] != y[:-1] or abs(x[-1] - y[-1]) > rel * max(1.0, abs(x[-1])):
                    return k
        elif a != b:
            return k
    return None


UNIMOD = [((1, 1, 0), (0, 1, 0), (0, 0, 1)), ((1, 0, 0), (1, 1, 0), (0, 0, 1)), ((1, 0, 0), (0, 1, 0), (1, -1, 1)), ((0, 1, 0), (0, 0, 1), (1, 0, 0)),
          ((2, 1, 0), (1, 1, 0), (0, 0, 1)), ((1, 0, 0), (0, 1, 1), (0, 0, 1)), ((1, 0, 1), (0, 1, 0), (0, 0, 1)), ((-1, 0, 0), (0, 1, 0), (0, 1, 1)),
          ((1, 2, 0), (0, 1, 0), (0, 0, 1)), ((1, 0, 0), (0, 1, 0), (2, 1, 1)), ((0, -1, 0), (1, 0, 0), (0, 0, 1)), ((1, 1, 1), (0, 1, 1), (0, 0, 1))]
SIGNPERM = []
for perm in itertools.permutations(range(3)):
    for sg in itertools.product((1, -1), repeat=3):
        M = np.zeros((3, 3), int)
        for i in range(3):
            M[i, perm[i]] = sg[i]
        SIGNPERM.append(M)


def build_variant(case, name, info):
    """the transformed structure of a recorded case"""
    syms, pos, L = case["syms"], case["pos"], case["L"]
    Lm, P = np.array(L, float), np.array(pos, float)
    if name == "translate":
        return mk(syms, P + np.array(info["t"]), L)
    if name == "rotate-exact":
        Q = np.array(info["Q"])
        return mk(syms, P @ Q, Lm @ Q)
    if name == "rotate-generic":
        R = np.array(info["R"])
        return mk(syms, P @ R.T, Lm @ R.T)
    if name == "lattice-shifts":
        return mk(syms, P + np.array(info["shifts"]) @ Lm, L)
    if name == "permute":
        return mk([syms[i] for i in info["perm"]], [pos[i] for i in info["perm"]], L)
    if name in ("unimodular", "unimodular-nonreduced"):
        return mk(syms, pos, np.array(info["U"]) @ Lm)
    if name == "supercell":
        return mk(syms, pos, L).repeat(tuple(info["rep"]))          # fresh copy: no cached results in .info
    raise ValueError(name)


def judge(ob, ov, name, info, mult):
    """list of problems of the transformed observables ov against the base observables ob"""
    probs = []
    if name == "unimodular-nonreduced":
        k = diff(ob, ov, [k_ for k_ in ("dipolar", "dipolar_self", "rss", "rss_iso") if k_ in ob])
        return ["unimodular re-description changes %s: %s -> %s" % (k, str(ob[k])[:150], str(ov[k])[:150])] if k else []
    if mult is None:
        # the sphere selection is centred on atom 0: skip it for permutations (a different atom)
        keys = [k for k in ob if not (name == "permute" and k in ("sphere", "box")) and not (name.startswith("rotate") and k == "box")
                and not (name == "rotate-generic" and k == "hbonds" and ob.get("_hb_tie"))
                and k != "all_finite" and not k.startswith("_")]
        if "_pair_table" in ob and "_pair_table" in ov and name in ("permute", "translate", "rotate-exact", "lattice-shifts"):
            relab = (lambda i: info["perm"].index(i)) if name == "permute" else (lambda i: i)
            for (i_, j_), dv in ob["_pair_table"].items():
                dn = ov["_pair_table"].get((relab(i_), relab(j_)))
                if dn is None or abs(dn - dv) > 1e-5:
                    probs.append("%s: ElementPairs reports %.6f for the pair of atoms (%d,%d), %s after the transformation and relabelling" % (name, dv, i_, j_, dn))
                    break
        k = diff(ob, ov, keys)
        if k:
            probs.append("%s changes %s: %s -> %s" % (name, k, str(ob[k])[:150], str(ov[k])[:150]))
        return probs
    p = None
    if ob["all_finite"] and ov["n_molecules"] != mult * ob["n_molecules"]:          # infinite chains / networks do not multiply
        p = "molecule count %d -> %d (x%d expected)" % (ob["n_molecules"], ov["n_molecules"], mult)
    elif len(ov["bond_lengths"]) != mult * len(ob["bond_lengths"]) or sorted(set(ov["bond_lengths"])) != sorted(set(ob["bond_lengths"])):
        p = "bond count %d -> %d (x%d expected) or different bond lengths" % (len(ob["bond_lengths"]), len(ov["bond_lengths"]), mult)
    elif sorted(set(ov["rss"])) != sorted(set(ob["rss"])) or sorted(set(ov["rss_iso"])) != sorted(set(ob["rss_iso"])):
        p = "per-site dipolar RSS values change"
    elif ob["all_finite"] and sorted(set(ov["molecule_masses"])) != sorted(set(ob["molecule_masses"])):      # a chain / network is one "molecule" per cell
        p = "molecule masses change"
    elif isinstance(ob["hbonds"], dict) and isinstance(ov["hbonds"], dict) and any(ov["hbonds"].get(k_, 0) != mult * v_ for k_, v_ in ob["hbonds"].items()):
        p = "hydrogen-bond counts %s -> %s (x%d expected)" % (ob["hbonds"], ov["hbonds"], mult)
    return ["supercell %s: %s" % (info["rep"], p)] if p else []


def run(ctx):
    rng = ctx.rng
    quick = ctx.tier == "quick"
    ctx.rule = ("fully periodic structures of 2-6 atoms with integer coordinates on ortho / sheared / general cells x {rigid translation by dyadics, the 48 signed-"
                "permutation rotations and generic rotations of structure + cell, per-atom lattice shifts in [-3,3]^3, atom permutations, 12 unimodular integer cell "
                "transformations, supercells up to 2x2x2} x {LinkageList, Bonds (lengths, element pairs), molecule count and masses, hydrogen-bond counts, dipolar "
                "couplings (incl. each nucleus with its own nearest copy), dipolar RSS, periodic sphere selection}")
    ctx.trusted += ["the invariance theorems are about the specifications (images, minimum image) the exactness theorems of C03/C04/C07/C11 are stated against; the "
                    "code's observables are tied to them by this metamorphic run on the real API (exact transformations, results compared after relabelling)",
                    "extensive counts under supercells (bonds, molecules, hydrogen bonds x n) and the distinct-distance set are differential tests only"]
    ctx.build_props()
    for k_ in ctx.known:            # corpus: witnesses of recorded findings
        w_ = k_.get("witness") or {}
        if w_.get("kind") == "metamorphic" and w_["case"].get("transform") == "supercell":
            c_ = w_["case"]
            ctx.evaluations += 1
            try:
                ob_ = observables(mk(c_["syms"], c_["pos"], c_["L"]))
                ov_ = observables(mk(c_["syms"], c_["pos"], c_["L"]).repeat(tuple(c_["rep"])))
                mult_ = int(np.prod(c_["rep"]))
                if isinstance(ob_["hbonds"], dict) and isinstance(ov_["hbonds"], dict) and any(ov_["hbonds"].get(kk, 0) != mult_ * vv for kk, vv in ob_["hbonds"].items()):
                    ctx.fail_input("metamorphic", c_, "supercell %s: hydrogen-bond counts %s -> %s (x%d expected) [%s]" % (c_["rep"], ob_["hbonds"], ov_["hbonds"], mult_, k_["id"]), classify)
            except Exception as e:
                ctx.fail_input("metamorphic", c_, "witness of %s raised %s: %s" % (k_["id"], type(e).__name__, str(e)[:160]), classify)
    N = 90 if quick else 1200
    for t in range(N):
        kind = ["ortho", "sheared", "general"][t % 3]
        L = lc.gen_lattice(rng, kind)
        Lm = np.array(L, float)
        if abs(np.linalg.det(Lm)) < 60 or min(np.linalg.norm(Lm, axis=1)) < 4.0:
            continue
        # an atom closer than the vdW contact to its OWN periodic copy is not an "atom pair" (the bond list has i < j only): keep the shortest lattice
        # vector longer than the largest contact distance so that extensive counts are well defined
        if lc.brute_min(L, (True, True, True), (0, 0, 0), True) <= 7:
            continue
        n = rng.randint(2, 6)
        pos = lc.gen_vectors(rng, L, n, far=False)
        if len(set(pos)) < n or any(lc.brute_min(L, (True, True, True), tuple(pos[j][k] - pos[i][k] for k in range(3)), False) == 0
                                    for i in range(n) for j in range(i + 1, n)):
            continue          # two atoms on the same site (modulo the lattice): degenerate
        syms = [rng.choice(ELS) for _ in range(n)]
        base = mk(syms, pos, L)
        try:
            ob = observables(base)
        except Exception as e:
            ctx.fail_input("observe", dict(L=[list(r) for r in L], pos=[list(p) for p in pos], syms=syms), "observables raised %s: %s" % (type(e).__name__, str(e)[:200]), classify)
            continue
        case0 = dict(L=[list(r) for r in L], pos=[list(p) for p in pos], syms=syms)
        variants = []
        tr = np.array([rng.randint(-40, 40) / 8.0 for _ in range(3)]) * rng.choice([1, 1, 4, 9])       # also several lattice lengths away
        variants.append(("translate", dict(t=tr.tolist()), None))
        Q = SIGNPERM[rng.randrange(len(SIGNPERM))]
        variants.append(("rotate-exact", dict(Q=Q.tolist()), None))
        th, ax = rng.uniform(0, math.pi), np.array([rng.uniform(-1, 1) for _ in range(3)])
        ax /= np.linalg.norm(ax)
        K = np.array([[0, -ax[2], ax[1]], [ax[2], 0, -ax[0]], [-ax[1], ax[0], 0]])
        R = np.eye(3) + math.sin(th) * K + (1 - math.cos(th)) * K @ K
        variants.append(("rotate-generic", dict(theta=th, R=R.tolist()), None))
        sh = np.array([[rng.randint(-3, 3) for _ in range(3)] for _ in range(n)])
        variants.append(("lattice-shifts", dict(shifts=sh.tolist()), None))
        pm = rng.sample(range(n), n)
        variants.append(("permute", dict(perm=pm), None))
        U = np.array(UNIMOD[rng.randrange(len(UNIMOD))])
        variants.append(("unimodular", dict(U=U.tolist()), None))
        rep = rng.choice([(2, 1, 1), (1, 2, 1), (1, 1, 2), (2, 2, 1), (2, 2, 2)])
        variants.append(("supercell", dict(rep=list(rep)), int(np.prod(rep))))
        for name, info, mult in variants:
            ctx.evaluations += 1
            try:
                ov = observables(build_variant(case0, name, info))
            except Exception as e:
                ctx.fail_input("metamorphic", dict(case0, transform=name, **info), "after %s the observables raised %s: %s" % (name, type(e).__name__, str(e)[:200]), classify)
                continue
            probs = judge(ob, ov, name, info, mult)
            ctx.seen((name, kind, tuple(info.get("rep", ())), not probs))
            for p_ in probs[:1]:
                ctx.fail_input("metamorphic", dict(case0, transform=name, **info), p_, classify)
    # ---- crafted permutation cases: two elements that both occur at least twice, atom order reversed / rotated (does not depend on the draw)
    for syms_, L_ in ((["C", "C", "H", "H", "O"], [[8, 0, 0], [0, 9, 0], [0, 0, 10]]), (["H", "N", "H", "N", "N", "H"], [[9, 0, 0], [2, 8, 0], [1, 1, 10]]),
                      (["O", "C", "O", "C"], [[7, 0, 0], [0, 8, 0], [3, 0, 9]])):
        n_ = len(syms_)
        pos_ = [(1 + 2 * i, (3 * i) % 5, (2 * i * i) % 7) for i in range(n_)]
        case_ = dict(L=L_, pos=[list(p) for p in pos_], syms=syms_)
        try:
            ob_ = observables(mk(syms_, pos_, L_))
            for pm_ in (list(range(n_))[::-1], list(range(1, n_)) + [0], [1, 0] + list(range(2, n_))):
                ctx.evaluations += 1
                ov_ = observables(build_variant(case_, "permute", dict(perm=pm_)))
                for p_ in judge(ob_, ov_, "permute", dict(perm=pm_), None)[:1]:
                    ctx.fail_input("metamorphic", dict(case_, transform="permute", perm=pm_), p_, classify)
        except Exception as e:
            ctx.fail_input("metamorphic", dict(case_, transform="permute"), "observables raised %s: %s" % (type(e).__name__, str(e)[:160]), classify)
    # ---- tight clusters in roomy cells, re-described by unimodular matrices after which the shortest lattice vector is no +-1 combination of the rows:
    #      the couplings of each nucleus with its own nearest copy, the pair couplings and the RSS must not notice
    NONRED = [((1, 1, 0), (1, 2, 0), (0, 0, 1)), ((2, 1, 0), (3, 2, 0), (0, 0, 1)), ((1, 0, 1), (0, 1, 0), (1, 0, 2)), ((1, 2, 0), (1, 3, 0), (0, 0, 1)),
              ((1, 0, 0), (0, 2, 1), (0, 3, 2)), ((3, 1, 0), (2, 1, 0), (0, 0, 1)), ((1, 0, 0), (0, 1, 0), (5, 0, 1)), ((1, 0, 0), (3, 1, 0), (0, 0, 1)),
              ((1, 0, 0), (0, 1, 0), (3, 4, 1)), ((1, 4, 0), (0, 1, 0), (0, 0, 1))]
    BASES = [[[5, 0, 0], [0, 6, 0], [0, 0, 7]], [[3, 0, 0], [0, 3, 0], [0, 0, 20]], [[4, 0, 0], [0, 4, 0], [0, 0, 16]], [[6, 0, 0], [2, 6, 0], [1, 1, 8]],
             [[3, 0, 0], [0, 5, 0], [0, 0, 17]], [[8, 0, 0], [0, 9, 0], [0, 0, 10]], [[4, 0, 0], [1, 5, 0], [0, 2, 14]]]
    DIPKEYS = ["dipolar", "dipolar_self", "rss", "rss_iso"]          # small cells are fine for these (no bond / hydrogen-bond thresholds involved)
    nn_ = 0
    for L in BASES:
        Lm = np.array(L, float)
        for U_ in (NONRED if not quick else [NONRED[(nn_ + j_) % len(NONRED)] for j_ in range(4)]):
            nn_ += 1
            n = rng.randint(2, 3)
            if nn_ % 2:
                p0 = [rng.randint(-3, 3) for _ in range(3)]            # a tight cluster
                pos = [tuple(p0)] + [tuple(p0[k] + d_[k] for k in range(3)) for d_ in rng.sample([(1, 0, 0), (0, 1, 0), (0, 0, 1), (1, 1, 0), (0, 1, 1), (-1, 0, 1)], n - 1)]
            else:
                pos = lc.gen_vectors(rng, L, n, far=False)               # atoms spread over the cell
                if len(set(pos)) < n or any(lc.brute_min(L, (True, True, True), tuple(pos[j][k] - pos[i][k] for k in range(3)), False) == 0
                                            for i in range(n) for j in range(i + 1, n)):
                    continue
            syms = [rng.choice(["H", "H", "C", "N"]) for _ in range(n)]
            U = np.array(U_)
            case_ = dict(L=[list(r) for r in L], pos=[list(p) for p in pos], syms=syms, transform="unimodular-nonreduced", U=U.tolist())
            ctx.evaluations += 1
            try:
                ob_, ov_ = observables(mk(syms, pos, L)), observables(mk(syms, pos, U @ Lm))
            except Exception as e:
                ctx.fail_input("metamorphic", case_, "observables raised %s: %s" % (type(e).__name__, str(e)[:160]), classify)
                continue
            k_ = diff(ob_, ov_, [k for k in DIPKEYS if k in ob_])
            ctx.seen(("unimodular-nonreduced", tuple(map(tuple, U_)), k_ is None))
            if k_:
                ctx.fail_input("metamorphic", case_, "unimodular re-description %s changes %s: %s -> %s" % (U.tolist(), k_, str(ob_[k_])[:150], str(ov_[k_])[:150]), classify)
    # ---- the Coq models of C03/C04 on two representations of the same crystal, against the real API on both
    okm = ctx.build_models(["model/Bonds.vo"])
    exprs, wants, metas = [], [], []
    UNI = [((1, 0, 0), (0, 1, 0), (0, 0, 1)), ((1, 1, 0), (0, 1, 0), (0, 0, 1)), ((1, 0, 0), (-1, 1, 0), (0, 2, 1)), ((0, 1, 0), (0, 0, 1), (1, 0, 0)),
           ((1, 0, 1), (0, 1, 0), (0, 0, 1)), ((2, 1, 0), (1, 1, 0), (0, 0, -1)), ((1, -1, 0), (0, 1, 1), (0, 0, 1))]
    t = 0
    while okm and len(exprs) < (2 * (20 if quick else 300)) and t < 4000:
        t += 1
        L = lc.gen_lattice(rng, ["ortho", "sheared", "general"][t % 3])
        Lm = np.array(L, float)
        if abs(np.linalg.det(Lm)) < 60 or min(np.linalg.norm(Lm, axis=1)) < 4.0 or lc.brute_min(L, (True, True, True), (0, 0, 0), True) <= 9:
            continue
        n = rng.randint(2, 5)
        pos = lc.gen_vectors(rng, L, n, far=False)
        if len(set(pos)) < n:
            continue
        syms = [rng.choice(ELS) for _ in range(n)]
        radii = {e: rng.choice([1.0, 1.5, 2.0, 2.5, 3.0]) for e in ELS}
        U = rng.choice(UNI)
        L_b = [[sum(U[i][k] * L[k][c_] for k in range(3)) for c_ in range(3)] for i in range(3)]
        perm = list(range(n))
        rng.shuffle(perm)
        pos_b, syms_b = [], []
        for i in perm:
            m_ = [rng.randint(-2, 2) for _ in range(3)]
            pos_b.append(tuple(pos[i][c_] + sum(m_[k] * L[k][c_] for k in range(3)) for c_ in range(3)))
            syms_b.append(syms[i])
        both = []
        try:
            for (L_, pos_, syms_) in ((L, pos, syms), (L_b, pos_b, syms_b)):
                both.append((model_obs_expr(L_, pos_, [int(round(2 * radii[e])) for e in syms_]), impl_obs(syms_, pos_, L_, radii)))
        except Exception as e:
            ctx.fail_input("observe", dict(L=[list(r) for r in L], pos=[list(p) for p in pos], syms=syms), "raised %s: %s" % (type(e).__name__, str(e)[:160]), classify)
            continue
        for k_, (e_, w_) in enumerate(both):
            exprs.append(e_)
            wants.append(w_)
            metas.append(dict(L=[list(r) for r in (L if k_ == 0 else L_b)], pos=[list(p) for p in (pos if k_ == 0 else pos_b)], syms=(syms if k_ == 0 else syms_b), rep="AB"[k_], U=U))
    if okm and exprs:
        vals = fw.coq_eval("c05", IMPM, exprs, shard=40)
        nbad, first = 0, ""
        for k_ in range(0, len(vals), 2):
            ma, mb = split_obs(vals[k_]), split_obs(vals[k_ + 1])
            ia, ib = [list(x) for x in wants[k_]], [list(x) for x in wants[k_ + 1]]
            if not (ma == ia and mb == ib and ma == mb):
                nbad += 1
                first = first or "%s: model A %s impl A %s | model B %s impl B %s" % (metas[k_], ma, ia, mb, ib)
        ctx.evaluations += len(exprs)
        ctx.oblige("Coq models of C03/C04 (bond lengths, minimum images of all pairs, molecule sizes) on two representations (unimodular cell, per-atom lattice "
                   "shifts, permutation) == real API on both, and equal to each other [%d pairs]" % (len(exprs) // 2), "correspondence", nbad == 0,
                   "%d disagree; first: %s" % (nbad, first))
    if ctx.tier == "thorough":
        ctx.coqchk()


def replay(obj):
    c = obj.get("case")
    if obj.get("kind") == "metamorphic" and c and c.get("transform"):
        name = c["transform"]
        info = {k: v for k, v in c.items() if k not in ("L", "pos", "syms", "transform")}
        mult = int(np.prod(c["rep"])) if name == "supercell" else None
        try:
            ob, ov = observables(mk(c["syms"], c["pos"], c["L"])), observables(build_variant(c, name, info))
            probs = judge(ob, ov, name, info, mult)
        except Exception as e:
            probs = ["raised %s: %s" % (type(e).__name__, e)]
        print("replay metamorphic %s on %d atoms -> %s" % (name, len(c["syms"]), "property holds" if not probs else "PROPERTY FAILS: " + probs[0]))
        return 0 if not probs else 1
    print("replay: nothing executable in this file: %s %s" % (obj.get("kind"), obj.get("broken_obligations") or obj.get("detail")))
    return 1
