"""C11 - dipolar couplings follow the point-dipole formula on the nearest periodic image."""
import itertools
import math
import warnings

import numpy as np

import fw
from harness import lattice_common as lc

warnings.filterwarnings("ignore")
IMPORTS = ("From Coq Require Import ZArith List Bool.\nImport ListNotations.\nRequire Import Sop.model.Lattice Sop.model.DipPairs.\nLocal Open Scope Z_scope.\n")
ELS = ["H", "C", "N", "F", "P"]
ZN = {"H": 1, "C": 6, "N": 7, "F": 9, "P": 15}


def classify(kind, case, detail):
    return None


def mk(case):
    from ase import Atoms
    return Atoms(case["syms"], positions=np.array(case["pos"], float), cell=np.array(case["L"], float), pbc=True)


def gammas(syms):
    from soprano.data.nmr import _get_isotope_data
    return _get_isotope_data(syms, "gamma", {}, None)


def dconst(r_ang, gi, gj):
    import scipy.constants as cnst
    return -(cnst.mu_0 * cnst.hbar * gi * gj / (8 * math.pi ** 2 * (r_ang * 1e-10) ** 3))


ACUTE = [((4, 4, 0), (4, 0, 4), (0, 4, 4)), ((3, 1, 1), (1, 3, 1), (1, 1, 3)), ((5, 2, 2), (2, 5, 2), (2, 2, 5)), ((4, 3, 3), (3, 4, 3), (3, 3, 4))]


def gen_case(rng, t):
    if t % 6 == 5:
        # strongly acute (rhombohedral) cells with an atom near the body centre: the reduced interatomic vector is longer than a cell edge
        kind = "acute"
        L = ACUTE[(t // 6) % len(ACUTE)]
        n = rng.randint(2, 3)
        ctr = tuple(sum(r[k] for r in L) // 2 for k in range(3))
        pos = [(0, 0, 0), tuple(ctr[k] + rng.randint(-1, 1) for k in range(3))] + [tuple(rng.randint(0, 6) for _ in range(3))] * (n - 2)
    else:
        kind = lc.LKINDS[t % 5]
        L = lc.gen_lattice(rng, kind)
        n = rng.randint(1, 5) if t % 4 else rng.randint(8, 12)       # larger systems for sparse sub-selections
        pos = lc.gen_vectors(rng, L, n, far=(t % 3 == 0))
    # distinct atoms at distinct sites (modulo the lattice), so that no pair has zero distance
    syms = [rng.choice(ELS) for _ in range(n)]
    return dict(L=[list(r) for r in L], pos=[list(p) for p in pos], syms=syms, kind=kind)


def coupling_oracle(case, sel_i, sel_j, self_c, iso, res):
    """the property stated directly on one result dictionary"""
    L, pos, syms = case["L"], [tuple(p) for p in case["pos"]], case["syms"]
    g = gammas(syms)
    n = len(syms)
    si = list(range(n)) if sel_i is None else list(sel_i)
    sj = si if sel_j is None else list(sel_j)
    want = set()
    for i in si:
        for j in sj:
            if i == j and not self_c:
                continue
            if iso and syms[i] != syms[j]:
                continue
            want.add((min(i, j), max(i, j)))
    keys = set((int(a), int(b)) for a, b in res.keys())
    if keys != want:
        return "pair set %s, the selections and options define %s" % (sorted(keys)[:6], sorted(want)[:6])
    for (a, b), (d, v) in res.items():
        a, b = int(a), int(b)
        r = tuple(pos[b][k] - pos[a][k] for k in range(3))
        m2 = lc.brute_min(L, (True, True, True), r, True)       # nearest non-zero periodic image (self pairs: nearest copy)
        if m2 is None:
            continue
        dw = dconst(math.sqrt(m2), g[a], g[b])
        if not (abs(d - dw) <= 1e-9 * abs(dw)):
            return "pair (%d,%d): constant %r, -mu0 hbar gi gj/(8 pi^2 r^3) on the nearest image (r^2=%d) is %r" % (a, b, float(d), m2, dw)
        if abs(np.linalg.norm(v) - 1) > 1e-9:
            return "pair (%d,%d): the reported vector is not a unit vector" % (a, b)
        # v must be an image of r_b - r_a (lower -> higher index) of that minimal length
        w = np.array(v) * math.sqrt(m2) - np.array(r, float)
        f = np.linalg.solve(np.array(L, float).T, w)
        if np.abs(f - np.round(f)).max() > 1e-6:
            return "pair (%d,%d): the unit vector %s does not point from atom %d to a periodic image of atom %d at the minimum distance" % (a, b, list(np.round(v, 4)), a, b)
    return None


def run_case(kind, c):
    from soprano.properties.nmr import DipolarCoupling
    if kind == "coupling":
        res = DipolarCoupling.get(mk(c), sel_i=c.get("sel_i"), sel_j=c.get("sel_j"), self_coupling=c["self"], isonuclear=c["iso"], block_size=c.get("block", 1000))
        p = coupling_oracle(c, c.get("sel_i"), c.get("sel_j"), c["self"], c["iso"], res)
        return p is None, p or ""
    if kind == "rss":
        p = rss_oracle(c)
        return p is None, p or ""
    raise ValueError(kind)


def rss_oracle(c):
    from soprano.properties.nmr import DipolarRSS
    L, pos, syms = c["L"], [tuple(p) for p in c["pos"]], c["syms"]
    g = gammas(syms)
    got = DipolarRSS.get(mk(c), cutoff=math.sqrt(c["rho"]), isonuclear=c["iso"])
    for i in range(len(syms)):
        tot = 0.0
        for j in range(len(syms)):
            if c["iso"] and syms[j] != syms[i]:
                continue
            v = tuple(pos[j][k] - pos[i][k] for k in range(3))
            for n_, w in lc.brute_images(L, (True, True, True), v, c["rho"], 1, nonzero_only=True):
                tot += dconst(math.sqrt(lc.norm2(w)), g[i], g[j]) ** 2
        want = math.sqrt(tot)
        if not (abs(got[i] - want) <= 1e-9 * max(abs(want), 1e-30)):
            return "RSS of atom %d is %r, root-sum-square over all images with 0 < r <= cutoff is %r" % (i, float(got[i]), want)
    return None


def run(ctx):
    from soprano.nmr.tensor import NMRTensor
    from soprano.nmr.utils import _dip_tensor
    from soprano.properties.nmr import DipolarCoupling, DipolarDiagonal, DipolarRSS, DipolarTensor
    from soprano.selection import AtomSelection
    rng = ctx.rng
    quick = ctx.tier == "quick"
    ctx.rule = ("integer-coordinate periodic structures of 1-5 atoms on the C03 lattice streams (atoms inside and far outside the cell) x pairs of index selections "
                "(overlapping, disjoint, empty, None, lists and AtomSelections) x self_coupling x isonuclear x block_size in {1,2,7,1000} x rotation axes x RSS "
                "cutoffs from sub-bond to multi-cell; distinct = (kind, option pattern, outcome size)")
    ctx.trusted += ["hand models coq/model/DipPairs.v (pair set, blocks, RSS image set on the C03 lattice model) and DipTensorBody.v; the numeric value of the "
                    "constant (scipy.constants, gamma table) is compared with 1e-9 relative tolerance against the formula evaluated on the exact minimum-image distance",
                    "python set iteration order of the pair keys is not modelled (pair sets are compared as sets)"]
    ctx.build_props()
    ctx.build_models(["model/DipPairs.vo"])
    for k in ctx.known:
        w = k.get("witness") or {}
        if w.get("kind") in ("coupling", "rss"):
            try:
                ok, d = run_case(w["kind"], w["case"])
            except Exception as e:
                ok, d = False, "raised %s: %s" % (type(e).__name__, e)
            ctx.evaluations += 1
            if not ok:
                ctx.fail_input(w["kind"], w["case"], "%s [%s: %s]" % (d, k["id"], k["what"]), classify)
    cases, meta = [], []
    N = 60 if quick else 1500
    for t in range(N):
        c = gen_case(rng, t)
        n = len(c["syms"])
        atoms = mk(c)
        sel_kind = rng.choice(["none", "lists", "overlap", "disjoint", "empty", "sel"])
        if t % 5 == 3 and n >= 2:
            si, sj = rng.sample(range(n), rng.randint(1, n - 1)), None          # sel_j left at its default: the same atoms as sel_i
        elif sel_kind == "none":
            si, sj = None, None
        elif sel_kind == "empty":
            si, sj = rng.sample(range(n), rng.randint(0, n)), []
        elif sel_kind == "disjoint":
            perm = rng.sample(range(n), n)
            cut = rng.randint(0, n)
            si, sj = perm[:cut], perm[cut:]
        elif n >= 8:
            si, sj = sorted(rng.sample(range(n), rng.randint(1, 3))), sorted(rng.sample(range(n), rng.randint(1, 4)))      # sparse, non-contiguous
        else:
            si, sj = rng.sample(range(n), rng.randint(0, n)), rng.sample(range(n), rng.randint(0, n))
        self_c, iso = rng.random() < 0.5, rng.random() < 0.4
        results = {}
        for block in (1000, 1, 2, 7):
            try:
                a_si = AtomSelection(atoms, si) if (sel_kind == "sel" and si is not None) else si
                a_sj = AtomSelection(atoms, sj) if (sel_kind == "sel" and sj is not None) else sj
                res = DipolarCoupling.get(atoms, sel_i=a_si, sel_j=a_sj, self_coupling=self_c, isonuclear=iso, block_size=block)
            except Exception as e:
                ctx.fail_input("coupling", dict(c, sel_i=si, sel_j=sj, self=self_c, iso=iso, block=block), "raised %s: %s" % (type(e).__name__, e), classify)
                res = None
            results[block] = res
            ctx.evaluations += 1
        res = results[1000]
        case = dict(c, sel_i=si, sel_j=sj, self=self_c, iso=iso, block=1000)
        if res is None:
            continue
        ctx.seen(("coupling", sel_kind, self_c, iso, len(res)))
        p = coupling_oracle(c, si, sj, self_c, iso, res)
        if p:
            ctx.fail_input("coupling", case, p, classify)
        for block in (1, 2, 7):
            rb = results[block]
            if rb is None:
                continue
            same = set(map(tuple, rb.keys())) == set(map(tuple, res.keys())) and all(
                abs(rb[k_][0] - res[k_][0]) <= 1e-9 * abs(res[k_][0]) and np.allclose(np.abs(np.dot(rb[k_][1], res[k_][1])), 1.0, atol=1e-9) for k_ in res)
            if not same:
                ctx.fail_input("coupling", dict(case, block=block), "block_size=%d gives different couplings than block_size=1000" % block, classify)
        # swapping the selections
        if si is not None and sj is not None:
            rs = DipolarCoupling.get(atoms, sel_i=sj, sel_j=si, self_coupling=self_c, isonuclear=iso)
            ctx.evaluations += 1
            if set(map(tuple, rs.keys())) != set(map(tuple, res.keys())) or any(abs(rs[k_][0] - res[k_][0]) > 1e-9 * abs(res[k_][0]) for k_ in res):
                ctx.fail_input("coupling", dict(case, swapped=True), "exchanging the two selections changes the result", classify)
        # pair set against the Coq model
        msi = list(range(n)) if si is None else si
        msj = msi if sj is None else sj
        cases.append(("enc_pairs (pairs_m %s %s %s %s %s)" % (fw.zlist([ZN[s] for s in c["syms"]]), fw.zlist(msi), fw.zlist(msj), "true" if self_c else "false", "true" if iso else "false"),
                      [int(x) for k_ in sorted(tuple(int(y) for y in kk) for kk in res.keys()) for x in k_]))
        meta.append(("pairs", dict(syms=c["syms"], si=msi, sj=msj, self=self_c, iso=iso)))
        # tensors: symmetric, traceless, eigenvalues (-d,-d,2d), axis along the vector; rotation axis
        try:
            td = DipolarTensor.get(atoms, sel_i=si, sel_j=sj, self_coupling=self_c, isonuclear=iso)
            ax = [rng.randint(-3, 3) for _ in range(3)]
            if not any(ax):
                ax = [0, 0, 1]
            tr = DipolarTensor.get(atoms, sel_i=si, sel_j=sj, self_coupling=self_c, isonuclear=iso, rotation_axis=ax)
            for k_, (d, v) in res.items():
                k_ = tuple(k_)
                D = np.array(td[k_].data)
                ctx.evaluations += 1
                ev = np.sort(np.linalg.eigvalsh(D))
                wantev = np.sort([-d, -d, 2 * d])
                if not (np.allclose(D, D.T, atol=1e-9 * abs(d)) and abs(np.trace(D)) < 1e-9 * abs(d) and np.allclose(ev, wantev, atol=1e-9 * abs(d))
                        and np.allclose(D @ v, 2 * d * np.array(v), atol=1e-9 * abs(d))):
                    ctx.fail_input("tensor", dict(case, pair=list(k_)), "dipolar tensor is not symmetric / traceless / (-d,-d,2d) with unique axis along the connecting vector", classify)
                a_ = np.array(ax, float) / np.linalg.norm(ax)
                ct = float(np.dot(v, a_))
                Dr = np.array(tr[k_].data)
                want = 0.5 * d * (3 * ct * ct - 1) * (3 * np.outer(a_, a_) - np.eye(3))
                if not np.allclose(Dr, want, atol=1e-9 * abs(d)):
                    ctx.fail_input("tensor", dict(case, pair=list(k_), axis=ax), "rotationally averaged tensor is not d(3cos^2-1)/2 (3 a a^T - 1)", classify)
        except Exception as e:
            ctx.fail_input("tensor", case, "DipolarTensor raised %s: %s" % (type(e).__name__, e), classify)
        # RSS
        rows = sorted(lc.norm2(r) for r in c["L"])
        rhos = [rng.choice([max(1, rows[0] // 4), rows[0], rows[0] + 3, rows[1], 2 * rows[1]])]
        if c["kind"] == "acute":
            rhos = sorted(set(rng.randint(rows[0] // 3, 3 * rows[0]) for _ in range(6)))
        for rho in rhos:
          b_, _e = lc.bounds_exact(c["L"], (True, True, True), rho, 1)
          if n <= 5 and lc.grid_size(b_) <= 6000:
              rc = dict(c, rho=rho, iso=iso)
              try:
                  p = rss_oracle(rc)
              except Exception as e:
                  p = "raised %s: %s" % (type(e).__name__, e)
              ctx.evaluations += 1
              ctx.seen(("rss", iso, rho > rows[0]))
              if p:
                  ctx.fail_input("rss", rc, p, classify)
              # image count per atom against the Coq model
              if not iso:
                  i0 = rng.randrange(n)
                  cnt = 0
                  for j in range(n):
                      v = tuple(c["pos"][j][k] - c["pos"][i0][k] for k in range(3))
                      cnt += len(lc.brute_images(c["L"], (True, True, True), v, rho, 1, nonzero_only=True))
                  cases.append(("[Z.of_nat (length (rss_images %s %d 1 %s %s))]" % (lc.coq_L(c["L"]), rho, lc.coq_vs([tuple(p_) for p_ in c["pos"]]),
                                                                                   "(%s,%s,%s)" % tuple(fw.zlit(x) for x in c["pos"][i0])), [cnt]))
                  meta.append(("rss-count", dict(L=c["L"], rho=rho, i=i0)))
    # pair sets are sets: evaluate the model, compare sorted
    exprs = [e for e, _ in cases]
    vals = fw.coq_eval("c11", IMPORTS, exprs)
    nbad, first = 0, ""
    for (e, exp), mv, m in zip(cases, vals, meta):
        if m[0] == "pairs":
            a = sorted(tuple(mv[i:i + 2]) for i in range(0, len(mv), 2))
            ok = [x for pr in a for x in pr] == list(exp)
        else:
            ok = list(mv) == list(exp)
        if not ok:
            nbad += 1
            first = first or "%s: model=%s impl=%s" % (m, mv[:30], exp[:30])
    ctx.evaluations += len(cases)
    ctx.oblige("pair sets (as sets) and RSS image counts == Coq model [%d cases]" % len(cases), "correspondence", nbad == 0, "%d disagree; first: %s" % (nbad, first))
    # make_dipolar / NMRTensor corner: z-axis aligned
    try:
        T = NMRTensor.make_dipolar("1H", "13C", [0, 0, 0], [0, 0, 1.5])
        ev = np.sort(np.linalg.eigvalsh(np.array(T.data)))
        dd = ev[-1] / 2 if abs(ev[-1]) > abs(ev[0]) else ev[0] / 2
        ctx.evaluations += 1
        if abs(np.trace(np.array(T.data))) > 1e-9 * abs(dd):
            ctx.fail_input("tensor", dict(make_dipolar="z-axis"), "make_dipolar tensor is not traceless", classify)
    except Exception as e:
        ctx.notes.append("make_dipolar probe skipped: %r" % e)
    # ---- sparse, non-contiguous sub-selections on larger systems (index spread far beyond the selection sizes), every run
    for t in range(10 if quick else 150):
        c = gen_case(rng, 4 * t)          # t % 4 == 0: 8-12 atoms
        n = len(c["syms"])
        if n < 6 or len(set(map(tuple, c["pos"]))) < n:
            continue
        crafted = [([0, 1], [2, 5, 7]), ([0, 2], [1, 5]), ([1, 2, 3], [0, 4, 7]), ([0, 1], [3, 5]), ([2, 3], [0, 1, 4, 6]),
                   (sorted(rng.sample(range(n), rng.randint(1, 3))), sorted(rng.sample(range(n), rng.randint(2, 4))))]
        for si, sj in crafted:
            if max(si + sj) >= n:
                continue
            self_c, iso = rng.random() < 0.3, False
            ctx.evaluations += 1
            try:
                res = DipolarCoupling.get(mk(c), sel_i=si, sel_j=sj, self_coupling=self_c, isonuclear=iso)
                p = coupling_oracle(c, si, sj, self_c, iso, res)
            except Exception as e:
                p = "raised %s: %s" % (type(e).__name__, str(e)[:160])
            ctx.seen(("coupling-sparse", len(si), len(sj), p is None))
            if p:
                ctx.fail_input("coupling", dict(c, sel_i=si, sel_j=sj, self=self_c, iso=iso, block=1000), p, classify)
    # ---- get_pair_dipolar_couplings (the 2D-plot helper): the same constants, for pairs in any order, zero on the diagonal, in every unit
    from soprano.calculate.nmr.utils import get_pair_dipolar_couplings
    from soprano.properties.nmr import DipolarCoupling as _DC
    for t in range(12 if quick else 200):
        c = gen_case(rng, 4 * t)
        n = len(c["syms"])
        if n < 2 or len(set(map(tuple, c["pos"]))) < n:
            continue
        a = mk(c)
        pairs = [(rng.randrange(n), rng.randrange(n)) for _ in range(6)] + [(1, 0), (0, 0)]
        unit = rng.choice(["Hz", "kHz", "MHz"])
        ctx.evaluations += 1
        try:
            got = get_pair_dipolar_couplings(a, pairs, unit=unit)
            allp = _DC.get(mk(c))
            fac = {"Hz": 1.0, "kHz": 1e-3, "MHz": 1e-6}[unit]
            bad = None
            for (i, j), g in zip(pairs, got):
                want = 0.0 if i == j else allp[(min(i, j), max(i, j))][0] * fac
                if abs(g - want) > 1e-9 * max(1e-12, abs(want)):
                    bad = "pair (%d, %d) in %s: %r, the coupling of that pair is %r" % (i, j, unit, g, want)
                    break
            ctx.seen(("pairhelper", unit, n, bad is None))
            if bad:
                ctx.fail_input("pairhelper", dict(c, pairs=[list(p_) for p_ in pairs], unit=unit), "get_pair_dipolar_couplings: " + bad, classify)
        except Exception as e:
            ctx.fail_input("pairhelper", dict(c, pairs=[list(p_) for p_ in pairs], unit=unit), "get_pair_dipolar_couplings raised %s: %s" % (type(e).__name__, str(e)[:160]), classify)
    if ctx.tier == "thorough":
        ctx.coqchk()


def replay(obj):
    k, c = obj.get("kind"), obj.get("case")
    if k in ("coupling", "rss") and c:
        ok, d = run_case(k, c)
        print("replay %s -> %s %s" % (k, "property holds" if ok else "PROPERTY FAILS", d))
        return 0 if ok else 1
    print("replay: nothing executable in this file: %s" % (obj.get("broken_obligations") or obj.get("detail")))
    return 1
