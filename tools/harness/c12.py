"""C12 - simulated 1D spectra conserve intensity and sit where the tensors put them.

(A) gen/NmrFlags.v is regenerated from nmr.py on every run (flag table, low-spin masking, refusal, gates) and compared with NMRFlags; the assembly model
    coq/model/SpecBody.v (binning of all triangles of all nuclei, normalisation) is evaluated by vm_compute on the exact rationals of the floats the code
    used and compared with spectrum_1d.  (B) oracles on the real NMRCalculator.
"""
import contextlib
import io
import itertools
import math
import os
import sys
import warnings
from fractions import Fraction as Fr

import numpy as np

import fw

warnings.filterwarnings("ignore")
sys.path.insert(0, os.path.join(fw.VERIF, "tools", "py2v"))
IMPQ = ("From Coq Require Import ZArith List Bool.\nImport ListNotations.\nRequire Import Sop.model.SpecQ.\nLocal Open Scope Z_scope.\n")
MODES = ["octant", "hemisphere", "sphere"]
# element, isotope to set (None: default), spin
NUCLEI = [("H", None, 0.5), ("H", 2, 1.0), ("N", None, 1.0), ("Na", None, 1.5), ("Li", 7, 1.5), ("O", 17, 2.5), ("Al", None, 2.5), ("Si", None, 0.5), ("C", 13, 0.5)]


def classify(kind, case, detail):
    if kind == "spectrum" and case.get("orient", {}).get("mode") == "octant" and "centre of gravity" in detail and not case.get("axis_aligned"):
        return "C12-F12c"
    return None


def q(x):
    fr = Fr(x)
    return "(mkq %s %d)" % (fw.zlit(fr.numerator), fr.denominator)


def quiet(f, *a, **k):
    with contextlib.redirect_stdout(io.StringIO()):
        return f(*a, **k)


def rand_rot(rng):
    A = np.array([[rng.gauss(0, 1) for _ in range(3)] for _ in range(3)])
    Q, R = np.linalg.qr(A)
    return Q * np.sign(np.diag(R))


def rand_case(rng, force=None):
    el, iso, I = rng.choice(NUCLEI) if force is None else force
    n = rng.randint(1, 6)
    aligned = rng.random() < 0.3
    ms, efg = [], []
    for i in range(n):
        kind = rng.choice(["generic", "generic", "axial", "isotropic"])
        c0 = rng.uniform(-60, 60)
        ev = {"generic": [c0 + rng.uniform(-40, 40) for _ in range(3)], "axial": [c0, c0, c0 + rng.uniform(5, 50)], "isotropic": [c0] * 3}[kind]
        R = np.eye(3) if (aligned or kind == "isotropic") else rand_rot(rng)     # exactly isotropic: spreads of 1e-14 from a rotation are float noise
        T = R @ np.diag(ev) @ R.T
        if rng.random() < 0.3 and not aligned:
            T = T + rng.uniform(-3, 3) * np.array([[0, 1, 0], [-1, 0, 0], [0, 0, 0]])     # an antisymmetric part: must be ignored
        ms.append(T.tolist())
        a_, b_ = rng.uniform(-1, 1), rng.uniform(-1, 1)
        Re = np.eye(3) if aligned else rand_rot(rng)
        E = Re @ np.diag([a_, b_, -a_ - b_]) @ Re.T * rng.choice([1.0, 0.05, 0.3])
        efg.append(((E + E.T) / 2).tolist())
    others = rng.choice([[], ["C"], ["H", "O"], ["Na", "Cl"]])
    others = [o for o in others if o != el]
    if rng.random() < 0.5:
        orient = dict(kind="powder", N=rng.choice([2, 3, 4, 5, 8, 12, 16, 32]), mode=rng.choice(MODES))
    else:
        orient = dict(kind="crystal", theta=rng.choice([0.0, math.pi / 2, rng.uniform(0, math.pi), rng.uniform(-math.pi, 0), rng.uniform(math.pi, 2 * math.pi)]),
                      phi=rng.choice([0.0, rng.uniform(0, 2 * math.pi), rng.uniform(-2 * math.pi, 0)]))
    flags = rng.choice(["CS_ISO", "CS_ORIENT", "CS", "CS", "STATIC", "MAS", "Q_STATIC", "Q_MAS", "CS|Q_1_ORIENT", "CS|Q_2_SHIFT", "CS_ISO|Q_2_STATIC", "CS|Q_2_ORIENT_MAS"])
    OTHER = {"H": [1, 2], "Li": [6, 7], "N": [14, 15], "B": [10, 11], "Cl": [35, 37]}
    other_ref = None
    if el in OTHER and rng.random() < 0.5:
        cur = iso if iso is not None else {"H": 1, "Li": 7, "N": 14}.get(el)
        cand = [x for x in OTHER[el] if x != cur]
        if cand:
            other_ref = dict(iso=rng.choice(cand), value=round(rng.uniform(-150, 150), 2), before=rng.random() < 0.5)
    return dict(el=el, iso=iso, I=I, n=n, ms=ms, efg=efg, others=others, orient=orient, flags=flags, other_ref=other_ref, bins=rng.choice([31, 64, 100, 151, 200]),
                broad_rel=rng.choice([None, None, 0.01, 0.03]), ref=rng.choice([None, None, 0.0, round(rng.uniform(-200, 200), 2)]), use_reference=rng.choice([None, None, True, False]),
                units=rng.choice(["ppm", "ppm", "MHz"]), field=rng.choice([(400.0, "MHz"), (9.4, "T"), (rng.uniform(100, 900), "MHz"), (rng.uniform(2, 23), "T")]),
                use_central=rng.random() < 0.3, window=rng.choice(["all", "all", "some"]), axis_aligned=aligned)


def flagval(s):
    from soprano.calculate.nmr.nmr import NMRFlags
    v = 0
    for p in s.split("|"):
        v |= getattr(NMRFlags, p)
    return v


def make(case):
    from ase import Atoms
    from soprano.calculate.nmr.nmr import NMRCalculator
    syms = [case["el"]] * case["n"] + list(case["others"])
    m = len(syms)
    a = Atoms(syms, positions=[[1.3 * i, 0.2 * i, 0.1 * i] for i in range(m)], cell=[20, 20, 20], pbc=True)
    ms = np.zeros((m, 3, 3))
    efg = np.zeros((m, 3, 3))
    ms[:case["n"]] = np.array(case["ms"])
    efg[:case["n"]] = np.array(case["efg"])
    for j in range(case["n"], m):
        ms[j] = np.diag([10.0 * j, 5.0, -3.0])
        efg[j] = np.diag([0.2, 0.1, -0.3])
    a.set_array("ms", ms)
    a.set_array("efg", efg)
    c = NMRCalculator(a, larmor_frequency=case["field"][0], larmor_units=case["field"][1])
    if case["iso"] is not None:
        c.set_element_isotope(case["el"], case["iso"])
    o = case["orient"]
    if o["kind"] == "powder":
        c.set_powder(o["N"], o["mode"])
    else:
        c.set_single_crystal(o["theta"], o["phi"])
    name = ("%d" % case["iso"] if case["iso"] is not None else "") + case["el"]
    # references of OTHER isotopes of the same element, set before and / or after the one under test (a call history on one calculator)
    oth = case.get("other_ref")
    if oth and oth.get("before"):
        c.set_reference(oth["value"], "%d%s" % (oth["iso"], case["el"]))
    if case["ref"] is not None:
        c.set_reference(case["ref"], name)
    if oth and not oth.get("before"):
        c.set_reference(oth["value"], "%d%s" % (oth["iso"], case["el"]))
    return c, name


def spectrum(c, name, case, lo, hi, broad, units=None, flags=None, bins=None, use_reference="case"):
    """window [lo, hi] and broadening given in ppm; converted to the requested units (broadening is interpreted in ppm by the code in every unit)"""
    units = units or case["units"]
    larm = c.get_larmor_frequency(name)
    k = 1.0 if units == "ppm" else larm * 1e-6
    ur = case["use_reference"] if use_reference == "case" else use_reference
    a_, b_ = sorted([lo * k, hi * k])        # the caller gives an ascending window in the chosen unit (for gamma < 0 the ppm axis then runs downwards)
    s_, f_ = quiet(c.spectrum_1d, name, a_, b_, bins or case["bins"], freq_broad=broad, freq_units=units, effects=flagval(flags or case["flags"]),
                   use_central=case["use_central"], use_reference=ur)
    if k < 0:
        s_, f_ = np.array(s_)[::-1], np.array(f_)[::-1]      # reported in the order of increasing ppm
    return s_, f_


def cs_peaks(case, c):
    """independent: chemical-shift frequencies of every nucleus at every orientation (n . sym(sigma) . n, or the isotropic value)"""
    fl = flagval(case["flags"])
    dirs = np.array(c._orients[0])
    if case["orient"]["kind"] == "crystal":
        th, ph = case["orient"]["theta"], case["orient"]["phi"]
        dirs = np.array([[math.sin(th) * math.cos(ph), math.sin(th) * math.sin(ph), math.cos(th)]])      # independent of set_single_crystal
    out = []
    for T in case["ms"]:
        T = np.array(T)
        S = (T + T.T) / 2
        iso = np.trace(S) / 3
        p = np.zeros(len(dirs))
        if fl & 1:
            p = p + iso
        if fl & 2:
            p = p + np.einsum("ni,ij,nj->n", dirs, S - iso * np.eye(3), dirs)
        out.append(p if fl & 2 else p[:1])
    return out


def check_case(case, collect=None):
    """returns (list of problems, info)"""
    from soprano.calculate.nmr.nmr import NMRFlags
    probs = []
    o_ = case["orient"]
    if o_["kind"] == "powder":
        # bound the work of TriAvg.average (triangles x bins x nuclei x transitions)
        mult = {"octant": 1, "hemisphere": 4, "sphere": 8}[o_["mode"]]
        wide = 801 if flagval(case["flags"]) & ~3 and case["I"] >= 1 else case["bins"]
        while o_["N"] > 2 and o_["N"] ** 2 * mult * wide * case["n"] * max(1, int(2 * case["I"])) > 1.2e6:
            o_["N"] = max(2, o_["N"] // 2)
    c, name = make(case)
    fl = flagval(case["flags"])
    I = case["I"]
    eff = fl if I >= 1 else fl & ~(NMRFlags.Q_STATIC | NMRFlags.Q_MAS)
    has_orient = bool(eff & (2 | 4 | 16 | 32))
    case["has_orient"] = has_orient
    powder = case["orient"]["kind"] == "powder"
    n = case["n"]
    bins = case["bins"]
    needs_cs = bool(eff & 3)
    qonly = bool(eff & ~3)
    # larmor bookkeeping
    from soprano.data.nmr import _get_nmr_data
    nd = _get_nmr_data()
    isok = str(case["iso"]) if case["iso"] is not None else str(nd[case["el"]]["iso"])
    gamma = nd[case["el"]][isok]["gamma"]
    larm = c.get_larmor_frequency(name)
    if abs(larm - c._B * gamma / (2 * math.pi * 1e6)) > 1e-9 * abs(larm):
        probs.append("get_larmor_frequency(%s) = %r is not B gamma / 2 pi" % (name, larm))
    fv, fu = case["field"]
    if fu == "T" and abs(c._B - fv) > 1e-12 * fv:
        probs.append("field set in tesla is stored as %r" % c._B)
    if fu == "MHz" and abs(c.get_larmor_frequency("1H") - fv) > 1e-9 * fv:
        probs.append("larmor frequency set as %r MHz (1H) reads back as %r" % (fv, c.get_larmor_frequency("1H")))
    # refusal
    if (eff & 16) and (eff & 32):
        try:
            spectrum(c, name, case, -100, 100, 1.0)
            probs.append("Q_2_ORIENT_STATIC and Q_2_ORIENT_MAS together are accepted")
        except ValueError:
            pass
        return probs, {}
    # ---- where are the peaks?
    if not qonly:
        pk = cs_peaks(case, c)
        plo, phi_ = min(p.min() for p in pk), max(p.max() for p in pk)
    else:
        W = 4e5
        sw, fw_ = spectrum(c, name, case, -W, W, W / 150, units="ppm", bins=801, use_reference=False)
        if not np.all(np.isfinite(sw)) or sw.sum() == 0:
            probs.append("wide-window spectrum (+-%g ppm) is %s" % (W, "not finite" if not np.all(np.isfinite(sw)) else "identically zero"))
            return probs, {}
        nzf = fw_[sw > 1e-6 * sw.max()]
        plo, phi_ = nzf.min() - W / 100, nzf.max() + W / 100
    span = max(phi_ - plo, 1.0)
    if case["window"] == "all" or qonly:
        lo, hi = plo - 0.15 * span - 1.0, phi_ + 0.17 * span + 1.3        # asymmetric: a peak is not put exactly on a bin edge by construction
    else:
        lo, hi = plo + 0.3 * (phi_ - plo) - 0.05 * span, phi_ + 0.2 * span + 1.0       # the upper part only: some peaks inside
    dx = (hi - lo) / (bins - 1)
    broad = None if case["broad_rel"] is None else max(case["broad_rel"] * (hi - lo), 1.5 * dx)
    case["broad"] = broad
    s, f = spectrum(c, name, case, lo, hi, broad)
    s, f = np.array(s, float), np.array(f, float)
    info = dict(lo=lo, hi=hi, broad=broad)
    if s.shape != (bins,) or f.shape != (bins,):
        return ["spectrum / axis shapes %s %s for %d bins" % (s.shape, f.shape, bins)], info
    if not np.all(np.isfinite(s)):
        return ["spectrum has non-finite entries (window %.4g..%.4g %s, broadening %s)" % (lo, hi, case["units"], broad)], info
    if s.min() < -1e-9 * max(1.0, s.max()):
        probs.append("negative intensity %.3e" % s.min())
    if abs(s.sum()) < 1e-12:
        probs.append("a peak lies in the window but the spectrum is identically zero (sum %.3e)" % s.sum())
        return probs, info
    if abs(s.sum() - n * bins) > 1e-6 * n * bins:
        probs.append("spectrum sums to %.6f, expected nuclei x bins = %d x %d" % (s.sum(), n, bins))
    # ---- axis: reference and units
    ref = case["ref"] if case["ref"] is not None else 0.0
    use_ref = case["use_reference"] if case["use_reference"] is not None else (ref != 0.0)
    k = 1.0 if case["units"] == "ppm" else larm * 1e-6
    ax = np.linspace(lo, hi, bins)
    want_f = (ref - ax) * k if use_ref else ax * k
    if not np.allclose(f, want_f, atol=1e-9 * max(1.0, np.abs(want_f).max())):
        probs.append("axis is not %s in %s (first %.6g, expected %.6g)" % ("ref - sigma" if use_ref else "the requested window", case["units"], f[0], want_f[0]))
    # the same call in the other unit: same spectrum, axes differ by the Larmor frequency
    other = "MHz" if case["units"] == "ppm" else "ppm"
    s2, f2 = spectrum(c, name, case, lo, hi, broad, units=other)
    k2 = 1.0 if other == "ppm" else larm * 1e-6
    same_units = np.all(np.isfinite(s2)) and np.allclose(s2, s, atol=1e-7 * max(1.0, s.max()))
    if not same_units and np.all(np.isfinite(s2)) and larm < 0 and broad is not None and powder and has_orient and bins % 2 == 0:
        # np.convolve(mode="same") with an even number of bins is off-centre by half a bin; on the downward-running axis of a negative-gamma nucleus the
        # half bin goes the other way, so the two spectra may differ by a one-bin shift (sub-bin effect, not claimed)
        s2a = np.array(s2)
        def _shape(x):
            return x / x.sum() if x.sum() > 0 else x
        same_units = any(np.allclose(_shape(s2a[3 + d:bins - 3 + d]), _shape(s[3:bins - 3]), atol=2e-2 * float(_shape(s[3:bins - 3]).max())) for d in (-1, 1))
    if not same_units:
        probs.append("the %s spectrum differs from the %s spectrum of the same window (max diff %s)" % (other, case["units"], np.abs(np.array(s2) - s).max()))
    elif not np.allclose(np.array(f2) / k2, f / k, atol=1e-9 * max(1.0, np.abs(f / k).max())):
        probs.append("ppm and MHz axes do not differ by the Larmor frequency alone")
    # ---- spin below 1: quadrupolar flags have no effect
    if I < 1 and fl != eff:
        names = [nm for nm, b in (("CS_ISO", 1), ("CS_ORIENT", 2)) if eff & b]
        if names:
            s3, _f3 = spectrum(c, name, case, lo, hi, broad, flags="|".join(names))
            if not np.allclose(s3, s, atol=1e-9 * max(1.0, s.max())):
                probs.append("spin-1/2 spectrum changes when quadrupolar flags are added")
    # ---- positions
    sig = lambda x: x      # noqa
    if not qonly and needs_cs:
        Ss = [(np.array(T) + np.array(T).T) / 2 for T in case["ms"]]
        evs = [np.linalg.eigvalsh(S) for S in Ss]
        if powder and has_orient and broad is None:
            sh = [0.0 if fl & 1 else e.mean() for e in evs]       # CS_ORIENT alone: the traceless part only
            smin, smax = min(e[0] - h_ for e, h_ in zip(evs, sh)), max(e[-1] - h_ for e, h_ in zip(evs, sh))
            fs = ax[s > 1e-9 * s.max()]
            if fs.min() < smin - dx * 0.5001 - 1e-9 or fs.max() > smax + dx * 0.5001 + 1e-9:
                probs.append("intensity at %.4f..%.4f outside the principal-value interval [%.4f, %.4f] (bin %.4f)" % (fs.min(), fs.max(), smin, smax, dx))
            if case["window"] == "all" and (fl & 1):
                cog = float((s * ax).sum() / s.sum())
                want = float(np.mean([e.mean() for e in evs]))
                tol = 0.002 * span + 0.5 * dx
                if abs(cog - want) > tol:
                    probs.append("centre of gravity %.5f, isotropic value %.5f (tolerance %.5f)" % (cog, want, tol))
        if (not powder or not has_orient) and broad is None:
            # unbroadened lines: each in the bin that holds it (repaired C12-F12), all lines with the same weight
            pk = cs_peaks(case, c)
            g = np.zeros(bins)
            edgy = False
            for p in pk:
                u_ = (p[0] - lo) / dx
                if abs(abs(u_ - round(u_)) - 0.5) < 1e-6:
                    edgy = True
                if 0 <= int(round(u_)) < bins:
                    g[int(round(u_))] += 1
            if g.sum() > 0 and not edgy:
                g *= n * bins / g.sum()
                if not np.allclose(g, s, atol=1e-6 * max(1.0, s.max())):
                    j = int(np.argmax(np.abs(g - s)))
                    probs.append("unbroadened lines are not in the bins holding n.sigma.n: at %.4f the spectrum is %.5f, expected %.5f" % (ax[j], s[j], g[j]))
        if (not powder or not has_orient) and broad is not None:
            pk = cs_peaks(case, c)
            g = np.zeros(bins)
            for p in pk:
                b_ = np.exp(-((ax - p[0]) / broad) ** 2)
                mx = b_.max()
                g += b_ / (mx if not np.isclose(mx, 0) else np.inf) * (1 if I < 1 or not case["use_central"] else 1)
            if g.sum() > 0:
                g *= n * bins / g.sum()
                if not np.allclose(g, s, atol=1e-6 * max(1.0, s.max())):
                    j = int(np.argmax(np.abs(g - s)))
                    probs.append("single-crystal / isotropic lines are not Gaussians at n.sigma.n: at %.4f the spectrum is %.5f, expected %.5f" % (ax[j], s[j], g[j]))
    if collect is not None and powder and has_orient and not qonly and broad is None:
        collect.update(c=c, lo=lo, hi=hi, s=s)
    return probs, info


def model_expr(case, c, lo, hi):
    """the spectrum_1d call as a SpecQ expression on the exact rationals of the floats involved"""
    pk = cs_peaks(case, c)
    w = np.array(c._orients[1], float)
    tris = np.array(c._orients[2])
    tw = np.average(w[tris], axis=1)
    twoI = int(round(2 * case["I"]))
    items = []
    for p in pk:
        for _t in range(twoI):
            for t_, tri in enumerate(tris):
                items.append("(%s, (%s, %s, %s))" % (q(float(tw[t_])), q(float(p[tri[0]])), q(float(p[tri[1]])), q(float(p[tri[2]]))))
    x = np.linspace(lo, hi, case["bins"])
    x0, dx = Fr(float(x[0])), Fr(float(x[1])) - Fr(float(x[0]))
    # float bin edges x_k +- dx/2 are not exactly contiguous: a vertex frequency within rounding of an edge is outside what the model claims
    allp = np.concatenate(pk)
    rel = (allp - (float(x[0]) - float(dx) / 2)) / float(dx)
    if np.any(np.abs(rel - np.round(rel)) < 1e-7):
        return None
    edges = [x0 - dx / 2 + k * dx for k in range(case["bins"] + 1)]
    return "flat_map encq (powder_spectrum %s [%s] %s [%s])" % (q(case["n"]), "; ".join(items), q(edges[0]), "; ".join(q(e) for e in edges[1:]))


def regen(ctx):
    import nmr_flags
    from soprano.calculate.nmr.nmr import NMRFlags
    try:
        txt, meta = nmr_flags.gen(fw.REPO)
        fw.write_if_changed(os.path.join(fw.COQ, "gen", "NmrFlags.v"), txt)
        same = all(getattr(NMRFlags, k_) == v for k_, v in meta["flags"].items()) and set(meta["flags"]) == set(NMRFlags._fields)
        ctx.oblige("py2v nmr_flags: flag table, low-spin masking, refusal, has_orient and %d gates inside the translated grammar; table == NMRFlags" % len(meta["gates"]),
                   "translator", same, "" if same else "generated table %s differs from NMRFlags %s" % (meta["flags"], NMRFlags._asdict()))
    except Exception as e:
        ctx.oblige("py2v nmr_flags: flag logic inside the translated grammar", "translator", False, repr(e))


def run(ctx):
    from soprano.calculate.nmr.nmr import NMRFlags
    rng = ctx.rng
    quick = ctx.tier == "quick"
    ctx.rule = ("samples of 1-6 observed nuclei (+ other elements) with generic / axial / isotropic shielding (axis-aligned or rotated, optional antisymmetric part) "
                "and EFG tensors x {1H, 2H, 14N, 23Na, 7Li, 17O, 27Al, 29Si, 13C} x 12 flag combinations x {single crystal (poles, equator, random), powder N in "
                "{2,3,4,5,8,12,16,32} x 3 modes} x bins x {no broadening, 1%, 3% of the window} x reference {unset, 0, random} x a reference for another isotope of the same element set before / after x use_reference {None, True, False} "
                "x {ppm, MHz} x field given in MHz or T x use_central x window {all peaks, upper part}; plus a stream of axially symmetric tensors along a Cartesian axis (exact ties between vertex frequencies)")
    ctx.trusted += ["py2v nmr_flags translator; hand model coq/model/SpecBody.v on top of TentBody.v (shared with C13)",
                    "np.isclose(sum, 0) is modelled as sum = 0; float bin edges x_k +- dx/2 are modelled as the contiguous rationals x_0 - dx/2 + k dx; the "
                    "Gaussian broadening paths (np.exp, np.convolve) and the second-order quadrupolar formulas are not modelled: they are judged by the oracles "
                    "(sum, sign, refusal, independence of units) only",
                    "numpy eigvalsh is the oracle for principal values"]
    # (A1) regenerated flags
    regen(ctx)
    ctx.build_props()
    ok = ctx.build_models(["model/SpecQ.vo"])
    # corpus: witnesses of repaired / known defects
    for k in ctx.known:
        w_ = k.get("witness") or {}
        if w_.get("kind") == "spectrum":
            ctx.evaluations += 1
            case = dict(w_["case"])
            try:
                pr, _i = check_case(case)
            except Exception as e:
                pr = ["raised %s: %s" % (type(e).__name__, str(e)[:200])]
            if pr:
                ctx.fail_input("spectrum", case, "%s [%s]" % (pr[0], k["what"][:80]), classify)
    N = 150 if quick else 3000
    exprs, metas = [], []
    for it in range(N):
        case = rand_case(rng)
        col = {}
        ctx.evaluations += 1
        try:
            pr, info = check_case(case, collect=col)
        except Exception as e:
            import traceback
            pr, info = ["raised %s: %s @ %s" % (type(e).__name__, str(e)[:160], traceback.format_exc().strip().splitlines()[-3][:140])], {}
        ctx.seen(("spectrum", case["el"], case["iso"], case["flags"], case["orient"]["kind"], case["orient"].get("mode"), case["broad_rel"] is None, case["units"], not pr))
        for p_ in pr[:1]:
            ctx.fail_input("spectrum", case, p_, classify)
        if ok and col and not pr and len(exprs) < (6 if quick else 60):
            o = case["orient"]
            ntri = len(col["c"]._orients[2]) * case["n"] * int(round(2 * case["I"]))
            if ntri * case["bins"] <= 800:
                e_ = model_expr(case, col["c"], col["lo"], col["hi"])
                if e_:
                    exprs.append(e_)
                    metas.append((case, col["s"]))
    # axially symmetric tensors along a Cartesian axis: many triangles have two (exactly) equal vertex frequencies
    for it in range(12 if quick else 200):
        case = rand_case(rng, force=rng.choice([("H", None, 0.5), ("C", 13, 0.5), ("Si", None, 0.5), ("H", 2, 1.0)]))
        ax_ = rng.randrange(3)
        ms = []
        for _ in range(case["n"]):
            c0, d_ = rng.randint(-40, 40) / 2, rng.choice([-1, 1]) * rng.randint(4, 60) / 2
            ev = [c0, c0, c0]
            ev[ax_] = c0 + d_
            ms.append(np.diag(ev).tolist())
        case.update(ms=ms, axis_aligned=True, orient=dict(kind="powder", N=rng.choice([2, 3, 4, 6, 8]), mode=rng.choice(MODES)), flags=rng.choice(["CS", "CS", "CS_ORIENT"]),
                    broad_rel=None, window="all", bins=rng.choice([24, 31, 64]))
        col = {}
        ctx.evaluations += 1
        try:
            pr, info = check_case(case, collect=col)
        except Exception as e:
            pr = ["raised %s: %s" % (type(e).__name__, str(e)[:160])]
        ctx.seen(("axial-aligned", case["orient"]["mode"], case["orient"]["N"], ax_, not pr))
        for p_ in pr[:1]:
            ctx.fail_input("spectrum", case, p_, classify)
        if ok and col and not pr and len(exprs) < (10 if quick else 90):
            ntri = len(col["c"]._orients[2]) * case["n"] * int(round(2 * case["I"]))
            if ntri * case["bins"] <= 800:
                e_ = model_expr(case, col["c"], col["lo"], col["hi"])
                if e_:
                    exprs.append(e_)
                    metas.append((case, col["s"]))
    # make sure the model correspondence has cases: small powders, CS only
    t = 0
    while ok and len(exprs) < (12 if quick else 100) and t < 400:
        t += 1
        case = rand_case(rng, force=rng.choice([("H", None, 0.5), ("H", 2, 1.0), ("C", 13, 0.5)]))
        case.update(orient=dict(kind="powder", N=rng.choice([2, 2, 3]), mode=rng.choice(MODES)), flags=rng.choice(["CS", "CS_ORIENT"]), broad_rel=None,
                    bins=rng.choice([8, 12, 16]), n=min(case["n"], 2), window=rng.choice(["all", "some"]))
        if case["orient"]["N"] ** 2 * {"octant": 1, "hemisphere": 4, "sphere": 8}[case["orient"]["mode"]] * case["n"] * int(2 * case["I"]) * case["bins"] > 800:
            case["n"], case["bins"], case["orient"]["N"] = 1, 8, 2
        case["ms"], case["efg"] = case["ms"][:case["n"]], case["efg"][:case["n"]]
        col = {}
        ctx.evaluations += 1
        try:
            pr, info = check_case(case, collect=col)
        except Exception as e:
            pr = ["raised %s: %s" % (type(e).__name__, str(e)[:160])]
        for p_ in pr[:1]:
            ctx.fail_input("spectrum", case, p_, classify)
        if col and not pr:
            e_ = model_expr(case, col["c"], col["lo"], col["hi"])
            if e_:
                exprs.append(e_)
                metas.append((case, col["s"]))
    if ok and exprs:
        vals = fw.coq_eval("c12", IMPQ, exprs, timeout=600, shard=1)
        nbad, first = 0, ""
        for mv, (case, s) in zip(vals, metas):
            want = [mv[i] / mv[i + 1] for i in range(0, len(mv), 2)]
            if len(want) != len(s) or any(abs(a - b) > 1e-6 * max(1.0, float(np.max(s))) for a, b in zip(want, s)):
                nbad += 1
                first = first or "%s %s n=%d bins=%d: model %s impl %s" % (case["orient"], case["flags"], case["n"], case["bins"], [round(x, 6) for x in want][:8], [round(float(x), 6) for x in s][:8])
        ctx.evaluations += len(exprs)
        ctx.oblige("SpecQ.powder_spectrum == spectrum_1d on CS powder patterns (bins of all triangles of all nuclei, normalisation) [%d cases]" % len(exprs),
                   "correspondence", nbad == 0, "%d disagree; first: %s" % (nbad, first))
    if ctx.tier == "thorough":
        ctx.coqchk()


def replay(obj):
    c = obj.get("case")
    if obj.get("kind") == "spectrum" and c:
        try:
            pr, info = check_case(dict(c))
        except Exception as e:
            pr, info = ["raised %s: %s" % (type(e).__name__, e)], {}
        print("replay spectrum %s %s %s n=%d %s -> %s" % (c["el"], c["flags"], c["orient"], c["n"], info, "property holds" if not pr else "PROPERTY FAILS: " + pr[0]))
        return 0 if not pr else 1
    print("replay: nothing executable in this file: %s" % (obj.get("broken_obligations") or obj.get("detail")))
    return 1
