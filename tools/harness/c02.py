"""C02 - convention descriptors are mutually consistent, bounded and frame-independent."""
import itertools
import warnings
from fractions import Fraction

import numpy as np

import fw
from harness import nmr_common as nc
from harness.c01 import classes

warnings.filterwarnings("ignore")

NAMES = ["isotropy", "anisotropy", "reduced_anisotropy", "asymmetry", "span", "skew"]


def regen(ctx):
    return nc.regen_nmr_utils(ctx)


def descr(T):
    return np.array([T.isotropy, T.anisotropy, T.reduced_anisotropy, T.asymmetry, T.span, T.skew], float)


def close(a, b, scale, tol=1e-8):
    return abs(a - b) <= tol * max(scale, 1e-300)


def ill(d, scale):
    """which descriptors are ill-conditioned for this tensor (compared only loosely)"""
    out = set()
    if abs(d[2]) < 1e-6 * scale:
        out.add(3)           # asymmetry: 0/0
    if abs(d[4]) < 1e-6 * scale:
        out.add(5)           # skew: 0/0
    if d[3] > 1 - 1e-6:
        out |= {1, 2}        # eta ~ 1: sign of the anisotropy is decided by rounding
    return out


def identities(d, ev, scale):
    """defining identities on one tensor; returns list of problems"""
    bad = []
    iso, an, red, eta, span, skew = d
    s = np.sort(ev)
    m = ev.mean()
    if not close(iso, m, scale):
        bad.append("isotropy %g != mean eigenvalue %g" % (iso, m))
    k = np.abs(ev - m)
    zz = ev[np.argmax(k)]
    if not (close(abs(red), abs(zz - m), scale) and close(red, 2.0 / 3.0 * an, scale)):
        bad.append("reduced anisotropy %g != zz-iso %g or != 2/3 anisotropy %g" % (red, zz - m, an))
    if not (-1e-12 <= eta <= 1 + 1e-9):
        bad.append("asymmetry %g outside [0,1]" % eta)
    if not (span >= 0 and close(span, s[2] - s[0], scale)):
        bad.append("span %g != max-min %g" % (span, s[2] - s[0]))
    if not (-1 - 1e-9 <= skew <= 1 + 1e-9):
        bad.append("skew %g outside [-1,1]" % skew)
    if span > 1e-6 * scale and not close(skew, 3 * (m - s[1]) / span, 1.0, 1e-6):
        bad.append("skew %g != 3(iso-mid)/span %g" % (skew, 3 * (m - s[1]) / span))
    if abs(red) > 1e-6 * scale and eta < 1 - 1e-6:
        xx, yy = sorted(np.delete(ev, np.argmax(k)), key=lambda e: abs(e - m), reverse=True)
        if not close(eta, (yy - xx) / red, 1.0, 1e-6):
            bad.append("asymmetry %g != (yy-xx)/reduced %g" % (eta, (yy - xx) / red))
    return bad


def compare(d1, d2, scale, what, skip=()):
    bad = []
    for i, n in enumerate(NAMES):
        if i in skip:
            continue
        sc = 1.0 if i in (3, 5) else scale
        tol = 1e-6 if i in (3, 5) else 1e-8
        if not close(d1[i], d2[i], sc, tol):
            bad.append("%s: %s %.12g vs %.12g" % (what, n, d1[i], d2[i]))
    return bad


def metamorphic(cname, M, rng_state, strict=False):
    """all clauses of the statement for one matrix; returns list of problems"""
    import random
    rng = random.Random(rng_state)
    cl = classes()[cname]
    M = np.asarray(M, float)
    scale = max(np.abs(M).max(), 1e-300)
    S = (M + M.T) / 2
    ev = np.linalg.eigvalsh(S)
    base = descr(cl(M, "i"))
    skip = ill(base, scale)
    if strict:
        skip -= {1, 2}
    bad = identities(base, ev, scale)
    for o in "dhn":
        bad += compare(base, descr(cl(M, o)), scale, "order %s vs i" % o, skip)
    K = np.array([[0, 1.5, -2.25], [-1.5, 0, 0.75], [2.25, -0.75, 0]]) * scale
    bad += compare(base, descr(cl(S + K, "h")), scale, "antisymmetric part added", skip)
    R = nc.random_rotation(rng)
    bad += compare(base, descr(cl(R @ M @ R.T, "i")), scale, "rigid rotation", skip)
    P = nc.SIGNED_PERMS[rng.randrange(48)]
    if np.linalg.det(P) < 0:
        P = -P
    bad += compare(base, descr(cl(P @ M @ P.T, "n")), scale, "axis permutation", skip)
    c = rng.choice([-3.0, 0.5, 8.0]) * scale
    dsh = descr(cl(M + c * np.eye(3), "i"))
    exp = base.copy()
    exp[0] += c
    bad += compare(exp, dsh, scale * 10, "shift by c*I", skip)
    for k in (-2.0, 0.5, -1.0, 4.0):
        dk = descr(cl(k * M, "i"))
        exp = base.copy()
        exp[0] *= k
        exp[1] *= k
        exp[2] *= k
        exp[4] *= abs(k)
        exp[5] *= np.sign(k)
        bad += compare(exp, dk, scale * abs(k), "scale by %g" % k, skip)
    if cname == "MagneticShielding":
        T = cl(M, "h")
        h = T.haeberlen_values
        iu = T.iupac_values
        me = T.mehring_values
        ma = T.maryland_values
        hb = T.herzfeldberger_values
        s = np.sort(ev)
        got = [tuple(iu)[1:], tuple(me)[1:]]
        for g in got:
            if np.abs(np.array(g, float) - s).max() > 1e-8 * scale:
                bad.append("IUPAC/Mehring principal values %s != spectrum %s" % (g, s.tolist()))
        i0, om, ka = [float(x) for x in tuple(ma)]
        if tuple(hb) != tuple(ma):
            bad.append("Herzfeld-Berger tuple differs from Maryland tuple")
        mid = i0 - ka * om / 3
        mx = (3 * i0 - mid + om) / 2
        if np.abs(np.array([mx - om, mid, mx]) - s).max() > 1e-7 * scale:
            bad.append("Maryland tuple decodes to %s != spectrum %s" % ([mx - om, mid, mx], s.tolist()))
        i0, sg, dl, eta = [float(x) for x in tuple(h)]
        z = i0 + sg
        dec = sorted([(3 * i0 - z - eta * sg) / 2, (3 * i0 - z + eta * sg) / 2, z])
        if np.abs(np.array(dec) - s).max() > 1e-7 * scale:
            bad.append("Haeberlen tuple decodes to %s != spectrum %s" % (dec, s.tolist()))
    if cname == "ElectricFieldGradient":
        T = cl(M, "n")
        if not close(T.eta, T.asymmetry, 1.0, 1e-12) or not close(T.zeta, T.reduced_anisotropy, scale):
            bad.append("EFG eta/zeta differ from asymmetry/reduced anisotropy")
    return bad


def classify(kind, case, detail):
    ev = case.get("exact_evals")
    if ev is not None and nc.has_key_tie("h", ev):
        d = str(detail)
        if all(("anisotropy" in part) for part in d.split(" | ") if part):
            return "C02-F02"
    return None


def run(ctx):
    from soprano.nmr.utils import _anisotropy, _asymmetry, _span, _skew, _haeb_sort
    rng = ctx.rng
    quick = ctx.tier == "quick"
    ctx.rule = ("(A) descriptor attributes of the three tensor classes on exact matrices (all integer spectra of [-3,3]^3 + random) x 4 orders "
                "against the Q instance of the generated helpers (relative 1e-10); (B) metamorphic property oracle on 9 random streams: 4 orders, "
                "antisymmetric part, rotation, axis permutation, +cI, k*T (k<0 included), notation decoders; distinct = (stream, class, outcome)")
    ctx.trusted += ["py2v nmr_utils translator; model/DescriptorsBody.v (which cached spectrum each property reads) tied by correspondence",
                    "rotation independence additionally assumes that similar matrices have the same spectrum (linear algebra, not proved; sampled)",
                    "modelled, not verified: IEEE rounding (1e-8 relative; ill-conditioned ratios near 0/0 compared loosely)"]
    regen(ctx)
    ctx.build_props()
    ctx.build_models(["model/NmrUtilsQ.vo"])

    # ---- (A) model == implementation on exact inputs
    cls = classes()
    specs = [list(t) for t in itertools.product(range(-3, 4), repeat=3)]
    for _ in range(100 if quick else 2000):
        specs.append([rng.randint(-60, 60) for _ in range(3)])
    exprs, impl, meta = [], [], []
    for k, vals in enumerate(specs):
        M, _ = nc.exact_matrix(rng, vals)
        cname = list(cls)[k % 3]
        for o in ("idhn" if k < 343 else "ih"):
            T = cls[cname](M, o)
            l = [nc.frac(x) for x in T.eigenvalues]
            L = nc.mk3(l)
            exprs.append("encq (d_iso %s) ++ encq (d_aniso %s) ++ encq (d_redaniso %s) ++ encq (d_asym %s) ++ encq (d_span %s) ++ encq (d_skew %s)" % ((L,) * 6))
            impl.append(descr(T))
            meta.append(dict(cls=cname, evals=vals, order=o, M=M.tolist()))
    vals_model = fw.coq_eval("c02a", nc.IMPORTS_Q, exprs)
    nbad, first = 0, ""
    for mv, iv, m in zip(vals_model, impl, meta):
        q = [Fraction(mv[2 * i], mv[2 * i + 1]) for i in range(6)]
        sc = max(1.0, max(abs(v) for v in m["evals"]))
        for i in range(6):
            if abs(float(q[i]) - iv[i]) > 1e-10 * sc:
                nbad += 1
                first = first or "%s: %s model=%s impl=%.15g" % (m, NAMES[i], q[i], iv[i])
                break
        ctx.seen(("A", m["cls"], m["order"], tuple(np.sign(m["evals"]).tolist()), tuple(sorted(m["evals"])) if max(map(abs, m["evals"])) < 4 else 0))
    ctx.evaluations += len(exprs)
    ctx.oblige("descriptor attributes == Q model of the generated helpers [%d cases]" % len(exprs), "correspondence", nbad == 0,
               "%d disagree; first: %s" % (nbad, first))
    ctx.sample(dict(case=meta[7], impl=dict(zip(NAMES, impl[7].tolist())), model=[str(Fraction(vals_model[7][2 * i], vals_model[7][2 * i + 1])) for i in range(6)]))
    # bare helpers on dyadic triples (the translated functions themselves)
    exprs, impl = [], []
    for _ in range(150 if quick else 3000):
        e = [Fraction(rng.randint(-2000, 2000), 2 ** rng.randint(0, 5)) for _ in range(3)]
        h = _haeb_sort([[float(x) for x in e]])
        L = nc.mk3(e)
        H = "(fst (haeb_sort_True %s))" % L
        exprs.append("encq (anisotropy_False %s) ++ encq (anisotropy_True %s) ++ encq (asymmetry %s) ++ encq (span %s) ++ encq (skew %s)" % (H, H, H, L, L))
        ef = np.array([[float(x) for x in e]])
        impl.append([_anisotropy(h)[0], _anisotropy(h, True)[0], _asymmetry(h)[0], _span(ef)[0], _skew(ef)[0]])
    vm = fw.coq_eval("c02b", nc.IMPORTS_Q, exprs)
    nb = sum(1 for mv, iv in zip(vm, impl) if any(abs(float(Fraction(mv[2 * i], mv[2 * i + 1])) - iv[i]) > 1e-9 * max(1, abs(iv[i])) for i in range(5)))
    ctx.evaluations += len(exprs)
    ctx.oblige("generated _anisotropy/_asymmetry/_span/_skew == python helpers [%d cases]" % len(exprs), "correspondence", nb == 0, "%d disagree" % nb)

    # ---- (B) metamorphic property oracle on the implementation
    n = 90 if quick else 3000
    for k in range(n):
        kind = nc.KINDS[k % len(nc.KINDS)]
        M = nc.random_tensor(rng, kind)
        cname = list(cls)[(k // len(nc.KINDS)) % 3]
        st = rng.randrange(10 ** 9)
        try:
            bad = metamorphic(cname, M, st)
        except Exception as e:
            bad = ["raised %s: %s" % (type(e).__name__, e)]
        ctx.evaluations += 1
        ctx.seen(("B", kind, cname, not bad))
        if bad:
            ctx.fail_input("metamorphic", dict(cls=cname, M=M.tolist(), rng=st, stream=kind), " | ".join(bad[:6]), classify)
    # exact spectra incl. all tie patterns
    for vals in itertools.product(range(-2, 3), repeat=3):
        M, _ = nc.exact_matrix(rng, list(vals))
        st = rng.randrange(10 ** 9)
        for cname in cls:
            bad = metamorphic(cname, M, st, strict=True)
            ctx.evaluations += 1
            ctx.seen(("T", vals, cname, not bad))
            if bad:
                ctx.fail_input("metamorphic", dict(cls=cname, M=M.tolist(), rng=st, exact_evals=list(vals)), " | ".join(bad[:6]), classify)
    # ---- histories on ONE tensor object: descriptors read, the order attribute changed (once or twice), descriptors read again: unchanged, and equal to
    #      those of a tensor constructed with the final order
    ORD = ["i", "d", "h", "n"]
    for t in range(60 if quick else 900):
        cname = rng.choice(sorted(cls))
        M = np.array([[rng.randint(-40, 40) / 4.0 for _ in range(3)] for _ in range(3)])
        if rng.random() < 0.3:
            M = (M + M.T) / 2 - np.eye(3) * np.trace(M) / 3 + rng.choice([0.0, 2.5]) * np.eye(3)
        o0 = rng.choice(ORD)
        seq = [rng.choice(ORD) for _ in range(rng.randint(1, 3))]
        ctx.evaluations += 1
        try:
            T = cls[cname](M.copy(), o0)
            d0 = descr(T)
            scale = max(1.0, float(np.abs(M).max()))
            skip = ill(d0, scale)
            for o in seq:
                T.order = o
            d1 = descr(T)
            d2 = descr(cls[cname](M.copy(), seq[-1]))
            bad = [k for k in range(6) if k not in skip and not (close(d1[k], d0[k], scale) and close(d1[k], d2[k], scale))]
            ctx.seen(("order-history", cname, o0, tuple(seq), not bad))
            if bad:
                names = ["isotropy", "anisotropy", "reduced_anisotropy", "asymmetry", "span", "skew"]
                ctx.fail_input("history", dict(cls=cname, M=M.tolist(), order=o0, reorder=seq),
                               "constructed with order %r, then order = %s: %s changes from %r to %r (a tensor constructed with %r gives %r)" %
                               (o0, seq, names[bad[0]], float(d0[bad[0]]), float(d1[bad[0]]), seq[-1], float(d2[bad[0]])), classify)
        except Exception as e:
            ctx.fail_input("history", dict(cls=cname, M=M.tolist(), order=o0, reorder=seq), "raised %s: %s" % (type(e).__name__, str(e)[:160]), classify)
    if ctx.tier == "thorough":
        ctx.coqchk()


def replay(obj):
    if obj["kind"] != "metamorphic":
        print("replay: nothing executable in this file: %s" % obj.get("broken_obligations"))
        return 1
    c = obj["case"]
    bad = metamorphic(c["cls"], np.array(c["M"]), c["rng"], strict=c.get("exact_evals") is not None)
    print("replay metamorphic cls=%s -> %s" % (c["cls"], "property holds" if not bad else "PROPERTY FAILS: " + " | ".join(bad[:6])))
    return 0 if not bad else 1
