"""C04 - bonds and molecules are exactly the vdW contact graph and its components."""
import itertools
import math
import warnings

import numpy as np

import fw
from harness import lattice_common as lc

warnings.filterwarnings("ignore")
IMPORTS = ("From Coq Require Import ZArith List Bool.\nImport ListNotations.\nRequire Import Sop.model.Lattice Sop.model.Bonds.\nLocal Open Scope Z_scope.\n")
ELS = ["H", "C", "O", "N", "Si"]


def classify(kind, case, detail):
    d = str(detail)
    if kind == "table" and "beyond the end" in d:
        return "C04-F04a"
    if kind == "single-atom":
        return "C04-F04b"
    return None


def mk(case):
    from ase import Atoms
    return Atoms(case["syms"], positions=np.array(case["pos"], float), cell=np.array(case["L"], float), pbc=case["pbc"])


def gen_case(rng, t):
    kind = lc.LKINDS[t % 5]
    L = lc.gen_lattice(rng, kind)
    pbc = lc.MASKS[(t // 5) % 8] if t % 3 else (True, True, True)
    n = rng.randint(2, 7) if t % 5 else rng.randint(10, 16)
    pos = lc.gen_vectors(rng, L, n, far=(t % 2 == 0))
    syms = [rng.choice(ELS) for _ in range(n)]
    radii = {e: rng.choice([1.0, 1.5, 2.0, 2.5, 3.0]) for e in ELS}          # custom radii, multiples of 0.5: half-sums exact
    return dict(L=[list(r) for r in L], pbc=list(pbc), pos=[list(p) for p in pos], syms=syms, radii=radii, kind=kind)


def brute_bonds(c):
    """the property stated directly: all (i<j, cell, d^2) with 2 d <= r_i + r_j, by exhaustive image enumeration"""
    L, pbc, pos = c["L"], tuple(c["pbc"]), [tuple(p) for p in c["pos"]]
    out = set()
    for i, j in itertools.combinations(range(len(pos)), 2):
        s2 = (c["radii"][c["syms"][i]] + c["radii"][c["syms"][j]])          # r_i + r_j
        rho4 = s2 * s2                                                        # 4 d^2 <= (r_i+r_j)^2
        v = tuple(pos[j][k] - pos[i][k] for k in range(3))
        # images with |v + nL|^2 <= rho4/4  <=>  4|.|^2 <= rho4 : use rn=rho4 (x4 to keep integers: radii are multiples of 0.5), rd=4
        for n_, w in lc.brute_images(L, pbc, v, int(round(rho4 * 4)), 16):
            out.add((i, j, tuple(n_), lc.norm2(w)))
    return out


def components(n, bonds):
    parent = list(range(n))

    def find(x):
        while parent[x] != x:
            parent[x] = parent[parent[x]]
            x = parent[x]
        return x
    for b in bonds:
        a_, b_ = find(b[0]), find(b[1])
        if a_ != b_:
            parent[a_] = b_
    comp = {}
    for i in range(n):
        comp.setdefault(find(i), []).append(i)
    return sorted(sorted(v) for v in comp.values())


def finite_potential(mol_atoms, bonds):
    """offsets phi with phi[j] - phi[i] = c for every bond inside the molecule, or None if the molecule is not finite (inconsistent loop)"""
    adj = {}
    for (i, j, c, _d) in bonds:
        if i in mol_atoms and j in mol_atoms:
            adj.setdefault(i, []).append((j, c))
            adj.setdefault(j, []).append((i, tuple(-x for x in c)))
    root = mol_atoms[0]
    phi = {root: (0, 0, 0)}
    queue = [root]
    while queue:
        a = queue.pop(0)
        for (l, c) in adj.get(a, []):
            want = tuple(phi[a][k] + c[k] for k in range(3))
            if l not in phi:
                phi[l] = want
                queue.append(l)
            elif phi[l] != want:
                return None
    return phi


def run_case(kind, c):
    if kind == "bonds":
        p = bonds_oracle(c)[0]
        return p is None, p or ""
    raise ValueError(kind)


def real_bonds(c):
    from soprano.properties.linkage import Bonds
    a = mk(c)
    bonds, mat = Bonds.get(a, vdw_custom=c["radii"], return_matrix=True)
    out = []
    for (i, j, cell, d) in bonds:
        out.append((int(i), int(j), tuple(int(x) for x in cell), float(d)))
    return out, mat


def bonds_oracle(c):
    try:
        bonds, mat = real_bonds(c)
    except Exception as e:
        return "Bonds raised %s: %s" % (type(e).__name__, e), None, None
    want = brute_bonds(c)
    got = set()
    for (i, j, cell, d) in bonds:
        d2 = int(round(d * d))
        if abs(d * d - d2) > 1e-6:
            return "bond (%d,%d,%s) has length %r, not the distance between integer sites" % (i, j, cell, d), bonds, mat
        got.add((i, j, cell, d2))
    if len(got) != len(bonds):
        return "a bond is listed twice", bonds, mat
    if got != want:
        return "bond list != {i<j, cell : 2|x_j + cell.L - x_i| <= r_i + r_j}: spurious %s missing %s" % (sorted(got - want)[:3], sorted(want - got)[:3]), bonds, mat
    n = len(c["syms"])
    M = np.zeros((n, n), int)
    for (i, j, _c, _d) in want:
        M[i, j] = M[j, i] = 1
    if not np.array_equal(np.array(mat), M):
        return "the bond matrix is not the symmetric projection of the bond list", bonds, mat
    return None, bonds, mat


def run(ctx):
    from soprano.properties.linkage import Bonds, MoleculeNumber, Molecules
    rng = ctx.rng
    quick = ctx.tier == "quick"
    ctx.rule = ("structures of 2-16 atoms over {H,C,O,N,Si} on the C03 lattice streams x 8 pbc masks, atoms stored inside and far outside the cell, custom radii "
                "(multiples of 0.5 A: on-threshold pairs are exact); real radii tables csd/jmol/ase x vdw_scale incl. elements without tabulated radii (numeric "
                "oracle); molecules on the implementation's own bond list; distinct = (kind, sizes, outcome)")
    ctx.trusted += ["hand model coq/model/Bonds.v on the C03 lattice model (coordinates and radii doubled to integers); numpy float norms are compared exactly on "
                    "integer geometries", "that a finite molecule's offsets are consistent along EVERY bond (not only those the traversal walked) is decided by an oracle "
                    "(potential consistency); connectivity (molecules_connected) and offsets along the traversal (molecules_offsets) are proved"]
    ctx.build_props()
    ctx.build_models(["model/Bonds.vo"])
    for k in ctx.known:
        w = k.get("witness") or {}
        if w.get("kind") == "bonds" and k.get("status") == "fixed":
            try:
                ok, d = run_case("bonds", w["case"])
            except Exception as e:
                ok, d = False, "raised %s: %s" % (type(e).__name__, e)
            ctx.evaluations += 1
            if not ok:
                ctx.fail_input("bonds", w["case"], "%s [%s: %s]" % (d, k["id"], k["what"]), classify)
    cases, meta = [], []
    N = 60 if quick else 1500
    for t in range(N):
        c = gen_case(rng, t)
        n = len(c["syms"])
        rmax2 = int(round((2 * max(c["radii"][e] for e in set(c["syms"]))) ** 2))
        b_, _e = lc.bounds_exact(c["L"], tuple(c["pbc"]), rmax2, 4)
        if lc.grid_size(b_) > 3000:
            continue
        p, bonds, mat = bonds_oracle(c)
        ctx.evaluations += 1
        ctx.seen(("bonds", c["kind"], tuple(c["pbc"]), n, len(bonds or [])))
        if p:
            ctx.fail_input("bonds", c, p, classify)
        if bonds is None:
            continue
        # model: doubled coordinates / lattice / radii
        L2 = [[2 * x for x in r] for r in c["L"]]
        P2 = [tuple(2 * x for x in p_) for p_ in c["pos"]]
        R2 = [int(round(2 * c["radii"][e])) for e in c["syms"]]
        exp = []
        for (i, j, cell, d) in bonds:
            exp += [i, j] + list(cell) + [int(round(4 * d * d))]
        cases.append(("enc_bonds (bonds_m %s %s %s %s)" % (lc.coq_L(L2), lc.coq_mask(tuple(c["pbc"])), lc.coq_vs(P2), fw.zlist(R2)), exp))
        meta.append(("bonds", dict(L=c["L"], pbc=c["pbc"], pos=c["pos"], syms=c["syms"], radii=c["radii"])))
        # ---- molecules
        try:
            a = mk(c)
            mols = Molecules.get(a, vdw_custom=c["radii"])
            nmol = MoleculeNumber.get(a)          # uses the molecules cached by the call above
        except Exception as e:
            ctx.fail_input("molecules", c, "Molecules raised %s: %s" % (type(e).__name__, e), classify)
            continue
        ctx.evaluations += 1
        got_sets = sorted(sorted(int(i) for i in m.indices) for m in mols)
        want_sets = components(n, bonds)
        ctx.seen(("molecules", n, len(mols)))
        flat = [i for m in mols for i in m.indices]
        if sorted(int(i) for i in flat) != list(range(n)):
            ctx.fail_input("molecules", c, "the molecules do not partition the atoms: %s" % got_sets, classify)
        elif got_sets != want_sets or nmol != len(want_sets):
            ctx.fail_input("molecules", c, "molecules %s are not the connected components %s of the bond graph (MoleculeNumber=%s)" % (got_sets, want_sets, nmol), classify)
        else:
            # offsets: for finite molecules every intramolecular bond keeps its length after re-assembly
            for m in mols:
                idx = [int(i) for i in m.indices]
                off = {i: tuple(int(x) for x in ci) for i, ci in zip(idx, m.get_array("cell_indices"))}
                phi = finite_potential(idx, bonds)
                if phi is None:
                    continue
                for (i, j, cb, d) in bonds:
                    if i in off and j in off:
                        if tuple(off[j][k] - off[i][k] for k in range(3)) != tuple(cb):
                            ctx.fail_input("molecules", c, "finite molecule %s: stored cell offsets %s / %s do not reproduce the bond (%d,%d,%s)" % (idx, off[i], off[j], i, j, cb), classify)
                            break
                sub = m.subset(a, use_cell_indices=True)
                P = sub.get_positions()
                pos_of = {i: P[k] for k, i in enumerate(idx)}
                for (i, j, cb, d) in bonds:
                    if i in off and j in off and abs(np.linalg.norm(pos_of[j] - pos_of[i]) - d) > 1e-6:
                        ctx.fail_input("molecules", c, "re-assembled molecule %s: bond (%d,%d) has length %r instead of %r" % (idx, i, j, float(np.linalg.norm(pos_of[j] - pos_of[i])), d), classify)
                        break
        # the traversal on the implementation's own bond list == the model (order, offsets, neighbour lists)
        blist = [x for (i, j, cell, d) in bonds for x in (i, j) + tuple(cell)]
        expm = []
        for m in mols:
            idx = [int(i) for i in m.indices]
            expm += [-1, len(idx)]
            for k_, i in enumerate(idx):
                nbs = [int(x) for x in m.get_array("bonds")[k_]]
                expm += [i] + [int(x) for x in m.get_array("cell_indices")[k_]] + [len(nbs)] + nbs
        cases.append(("enc_mols (molecules_m %d (mkb %s))" % (n, fw.zlist(blist)), expm))
        meta.append(("molecules", dict(n=n, bonds=[list(map(int, (i, j) + tuple(cell))) for (i, j, cell, d) in bonds])))
    # ---- real radii tables x scale, including elements whose radius is not tabulated (numeric oracle, margins away from the threshold)
    from ase import Atoms
    from ase.data import chemical_symbols
    from soprano.data.vdw import vdw_radii
    for t in range(30 if quick else 400):
        vs = ["csd", "jmol", "ase"][t % 3]
        scale = rng.choice([1.0, 0.8, 1.2])
        dflt = rng.choice([2.0, 1.5])
        n = rng.randint(2, 5)
        pool = ["H", "C", "O", "Pm", "Po", "At", "Fe", "U"] + (["Fm", "Lr", "Rf"] if t % 5 == 0 else [])
        syms = [rng.choice(pool) for _ in range(n)]
        pos = [[rng.randint(0, 12) / 2.0 for _ in range(3)] for _ in range(n)]
        cell = np.diag([7.0, 8.0, 9.0])
        a = Atoms(syms, positions=pos, cell=cell, pbc=True)
        custom = {}
        if t % 2 == 1:
            custom = {e: rng.choice([0.6, 1.0, 2.4, 3.0]) for e in set(syms) if rng.random() < 0.6}       # tabulated and untabulated elements alike
        case = dict(vdw_set=vs, scale=scale, default=dflt, syms=syms, pos=pos, custom=custom)
        ctx.evaluations += 1
        try:
            bonds = Bonds.get(a, vdw_set=vs, vdw_scale=scale, default_vdw=dflt, vdw_custom=custom)
        except IndexError as e:
            tab = vdw_radii[vs]
            if any(a.numbers >= len(tab)):
                ctx.fail_input("table", case, "an element beyond the end of the %s radii table (Z >= %d) raises IndexError instead of taking default_vdw" % (vs, len(tab)), classify)
            else:
                ctx.fail_input("table", case, "Bonds raised IndexError: %s" % e, classify)
            continue
        except Exception as e:
            ctx.fail_input("table", case, "Bonds raised %s: %s" % (type(e).__name__, e), classify)
            continue
        tab = np.array(vdw_radii[vs], float)
        rad = []
        for z, e_ in zip(a.numbers, syms):
            r = tab[z] * scale if z < len(tab) else float("nan")
            rad.append(custom[e_] if e_ in custom else (dflt if math.isnan(r) else r))
        want = set()
        near = False
        for i, j in itertools.combinations(range(n), 2):
            for nn in itertools.product(range(-2, 3), repeat=3):
                d = np.linalg.norm(np.array(pos[j]) + np.array(nn) @ cell - np.array(pos[i]))
                thr = (rad[i] + rad[j]) / 2
                if abs(d - thr) < 1e-9:
                    near = True
                if d <= thr:
                    want.add((i, j, nn))
        got = set((int(i), int(j), tuple(int(x) for x in c_)) for (i, j, c_, d) in bonds)
        ctx.seen(("table", vs, scale, len(got)))
        if not near and got != want:
            ctx.fail_input("table", case, "bonds with the %s table (scale %s, default %s): spurious %s missing %s" % (vs, scale, dflt, sorted(got - want)[:3], sorted(want - got)[:3]), classify)
    # ---- histories: a call with custom radii must not leak into a later call without them (same set / scale / default)
    for t in range(9 if quick else 60):
        vs = ["csd", "jmol", "ase"][t % 3]
        a = Atoms("HHCO", positions=[[0, 0, 0], [1.6, 0, 0], [4.0, 0, 0], [4.0, 2.9, 0]], cell=np.diag([9.0, 9.0, 9.0]), pbc=True)
        try:
            before = sorted((int(i), int(j), tuple(int(x) for x in c_)) for (i, j, c_, d) in Bonds.get(a, vdw_set=vs))
            Bonds.get(a, vdw_set=vs, vdw_custom={"H": 3.4, "C": 0.2, "O": 3.3})
            after = sorted((int(i), int(j), tuple(int(x) for x in c_)) for (i, j, c_, d) in Bonds.get(a, vdw_set=vs))
            ctx.evaluations += 1
            if before != after:
                ctx.fail_input("table", dict(vdw_set=vs, history="custom radii then tabulated radii"),
                               "a call with vdw_custom changes the result of a later call without it: %s -> %s" % (before, after), classify)
        except Exception as e:
            ctx.fail_input("table", dict(vdw_set=vs, history="custom then tabulated"), "raised %s: %s" % (type(e).__name__, e), classify)
    # ---- a custom radius for an element the chosen table has no value for must be used (not replaced by default_vdw)
    from ase.data import atomic_numbers as _Z, chemical_symbols as _SY
    for vs in ("csd", "jmol", "ase"):
        tab = np.array(vdw_radii[vs], float)
        missing = [_SY[z] for z in range(1, 104) if (z >= len(tab) or math.isnan(tab[z]))][:: 7][:4]
        for el in missing:
            for rc, dist, want_bond in ((0.4, 1.5, False), (3.0, 2.2, True)):
                a = Atoms([el, "O"], positions=[[0, 0, 0], [dist, 0, 0]], cell=np.diag([12.0, 12.0, 12.0]), pbc=True)
                ctx.evaluations += 1
                try:
                    rO = tab[8]
                    nb = len(Bonds.get(a, vdw_set=vs, default_vdw=2.0, vdw_custom={el: rc}))
                    expect = 1 if (rc + rO) / 2 >= dist else 0
                    if nb != expect:
                        ctx.fail_input("table", dict(vdw_set=vs, syms=[el, "O"], custom={el: rc}, dist=dist),
                                       "%s (no radius in the %s table) with custom radius %.1f at %.1f A from O: %d bond(s), the half-sum rule with the custom radius gives %d" % (el, vs, rc, dist, nb, expect), classify)
                except Exception as e:
                    ctx.fail_input("table", dict(vdw_set=vs, syms=[el, "O"], custom={el: rc}), "raised %s: %s" % (type(e).__name__, e), classify)
    # ---- histories: Bonds / Molecules evaluated first with OTHER radii (or before an atom is moved), then Molecules: the components of the contact graph of
    #      the requested radii and the current geometry
    for t in range(8 if quick else 80):
        a = Atoms("CCHHOO", positions=[[0, 0, 0], [1.5, 0, 0], [3.0, 0, 0], [4.5, 0, 0], [6.2, 0, 0], [8.0, 0, 0]], cell=np.diag([14.0, 9.0, 9.0]), pbc=True)
        first = rng.choice([dict(vdw_scale=0.5), dict(vdw_custom={"C": 0.2, "H": 0.2, "O": 0.2}), dict(vdw_set="jmol", vdw_scale=0.6)])
        second = rng.choice([dict(vdw_scale=1.3), dict(vdw_custom={"C": 2.2, "H": 2.2, "O": 2.2}), dict(vdw_set="csd", vdw_scale=1.2)])
        ctx.evaluations += 1
        try:
            rng.choice([Bonds, Molecules]).get(a, **first)
            if t % 3 == 2:
                pos_ = a.get_positions()
                pos_[5] = [9.9, 3.0, 3.0]
                a.set_positions(pos_)
            got = sorted(sorted(int(i) for i in m.indices) for m in Molecules.get(a, **second))
            fresh = Atoms(a.get_chemical_symbols(), positions=a.get_positions(), cell=a.get_cell(), pbc=True)
            want = sorted(sorted(int(i) for i in m.indices) for m in Molecules.get(fresh, **second))
            if got != want:
                ctx.fail_input("table", dict(history="%s then Molecules(%s)" % (first, second)), "after an earlier call with %s, Molecules(%s) gives %s; a fresh structure gives %s" % (first, second, got, want), classify)
        except Exception as e:
            ctx.fail_input("table", dict(history="%s then Molecules(%s)" % (first, second)), "raised %s: %s" % (type(e).__name__, e), classify)
    # single atom
    try:
        one = Atoms("H", positions=[[0, 0, 0]], cell=[5, 5, 5], pbc=True)
        m1 = Molecules.get(one)
        ctx.evaluations += 1
        if m1 is None or len(m1) != 1:
            ctx.fail_input("single-atom", dict(n=1), "a single-atom structure has one molecule; Molecules.get returns %r" % (m1,), classify)
    except Exception as e:
        ctx.fail_input("single-atom", dict(n=1), "Molecules.get on a single atom raised %s: %s" % (type(e).__name__, e), classify)
    ctx.correspondence("Bonds.get (tuples incl. cell and length, order) and Molecules.get (order, offsets, neighbour lists) == Coq model", "c04", IMPORTS, cases, meta, shard=60)
    if cases:
        ctx.sample(dict(case=meta[0], impl=cases[0][1][:40]))
    if ctx.tier == "thorough":
        ctx.coqchk()


def replay(obj):
    k, c = obj.get("kind"), obj.get("case")
    if k == "bonds" and c:
        ok, d = run_case(k, c)
        print("replay %s -> %s %s" % (k, "property holds" if ok else "PROPERTY FAILS", d))
        return 0 if ok else 1
    print("replay: re-run ./check C04; recorded case: %s %s\n%s" % (k, str(c)[:400], obj.get("detail")))
    return 1
