"""C13 - powder orientation sets are valid quadratures of the requested solid angle."""
import itertools
import math
import warnings
from fractions import Fraction as Fr

import numpy as np

import fw

warnings.filterwarnings("ignore")
IMPORTS = ("From Coq Require Import ZArith List Bool.\nImport ListNotations.\nRequire Import Sop.model.TriAvg Sop.model.TentQ.\n"
           "Local Open Scope Z_scope.\n")
MODES = ["sphere", "hemisphere", "octant"]
SIGNS = {"octant": [(1, 1, 1)], "hemisphere": [(1, 1, 1), (-1, 1, 1), (1, -1, 1), (-1, -1, 1)],
         "sphere": list(itertools.product((1, -1), repeat=3))}
AREA = {"octant": math.pi / 2, "hemisphere": 2 * math.pi, "sphere": 4 * math.pi}


def classify(kind, case, detail):
    return None


def in_region(mode, p, tol=1e-12):
    if mode == "octant":
        return all(x >= -tol for x in p)
    if mode == "hemisphere":
        return p[2] >= -tol
    return True


def sph_area(a, b, c):
    """area of the spherical triangle (unit vectors), signed by orientation: 2 atan2(a.(bxc), 1 + a.b + b.c + c.a)"""
    num = float(np.dot(a, np.cross(b, c)))
    den = 1.0 + float(np.dot(a, b)) + float(np.dot(b, c)) + float(np.dot(c, a))
    return 2.0 * math.atan2(abs(num), den)


def lattice_of(p, N):
    s = sum(abs(x) for x in p)
    v = [x / s * N for x in p]
    r = [int(round(x)) for x in v]
    if max(abs(x - y) for x, y in zip(v, r)) > 1e-6 or sum(abs(x) for x in r) != N:
        return None
    return tuple(r)


def triavg_check(ctx, mode, N, model_tris, model_pts):
    from soprano.calculate.powder.triavg import TriAvg
    pts, w, tris = TriAvg(mode).get_orient_points(N)
    case = dict(scheme="TriAvg", mode=mode, N=N)
    tris = np.asarray(tris)
    if tris.dtype.kind not in "iu":
        return "triangle indices are not integers (%s)" % tris.dtype
    if tris.min() < 0 or tris.max() >= len(pts):
        return "a triangle references vertex %d of %d" % (tris.max(), len(pts))
    if not np.allclose(np.linalg.norm(pts, axis=1), 1.0, atol=1e-12):
        return "orientations are not unit vectors"
    if not all(in_region(mode, p) for p in pts):
        return "an orientation lies outside the %s" % mode
    if not (w > 0).all():
        return "non-positive weight"
    lat = [lattice_of(p, N) for p in pts]
    if any(l is None for l in lat):
        return "a point is not a normalised lattice point of the octahedron face"
    if len(set(lat)) != len(lat):
        return "duplicate points survive the merge"
    if mode == "sphere":
        # the point set the theorem sphere_traceless is about: every integer point of |x| + |y| + |z| = N, once
        want_pts = set((x, y, z) for x in range(-N, N + 1) for y in range(-N, N + 1) for z in range(-N, N + 1) if abs(x) + abs(y) + abs(z) == N)
        if set(lat) != want_pts:
            return "the sphere orientation set is not the set of integer points of |x|+|y|+|z| = %d (%d points, %d expected)" % (N, len(set(lat)), len(want_pts))
    for i, l in enumerate(lat):
        r = math.sqrt(sum(x * x for x in l)) / N
        if abs(w[i] - r ** -3) > 1e-9 * r ** -3:
            return "weight of point %s is %r, expected |r|^-3 = %r" % (l, w[i], r ** -3)
    area = 0.0
    seen = set()
    for t in tris:
        a, b, c = (pts[i] for i in t)
        if len(set(int(i) for i in t)) != 3:
            return "degenerate triangle %s (repeated vertex)" % t
        ar = sph_area(a, b, c)
        if ar < 1e-12:
            return "degenerate triangle %s (zero area)" % t
        area += ar
        key = frozenset(lat[int(i)] for i in t)
        if key in seen:
            return "triangle %s listed twice" % sorted(key)
        seen.add(key)
    if abs(area - AREA[mode]) > 1e-8:
        return "the triangles cover a solid angle of %.12f, the %s is %.12f (not covered exactly once)" % (area, mode, AREA[mode])
    # correspondence with the model: the listed triangles are the model's unit cells under the sign vectors of the mode
    want = set()
    for sg in SIGNS[mode]:
        for t in model_tris:
            want.add(frozenset(tuple(sg[k] * model_pts[i][k] for k in range(3)) for i in t))
    if seen != want:
        return "MODEL: triangle set differs from the Coq model (%d listed, %d expected, %d common)" % (len(seen), len(want), len(seen & want))
    return None


def traceless_avg(pts, w, T):
    f = np.einsum("ni,ij,nj->n", pts, T, pts)
    return float(np.sum(w * f) / np.sum(w))


def run(ctx):
    from soprano.calculate.powder.shrewd import SHREWD
    from soprano.calculate.powder.triavg import TriAvg
    from soprano.calculate.powder.zcw import ZCW
    rng = ctx.rng
    quick = ctx.tier == "quick"
    ctx.rule = ("TriAvg x {octant, hemisphere, sphere} x N = 1..40 (ALL of the stated range, both tiers); ZCW x 3 modes x requested sizes (quick: 1..60 and 60 "
                "sampled up to 5000; thorough: all 1..5000); SHREWD x 3 modes x sizes up to 144; traceless test tensors; tent binning on random triangles "
                "and uniform axes (inside, partly outside, flat, two equal vertices)")
    ctx.trusted += ["hand models coq/model/TriAvg.v, TentBody.v; float normalisation, np.unique's merge and trigonometric functions are judged by numeric "
                    "oracles (unit norm, region, spherical-excess area sum, |r|^-3), not modelled",
                    "SHREWD's optimiser (scipy.optimize) is an oracle: only sum(weights) = 1, unit vectors and the region are claimed"]
    ctx.build_props()
    ctx.build_models(["model/TriAvg.vo", "model/TentQ.vo", "proofs/OctaProofs.vo"])
    for k in ctx.known:            # corpus: witnesses of repaired defects
        w_ = k.get("witness") or {}
        if w_.get("kind") == "tent":
            c_ = w_["case"]
            out_ = TriAvg("octant").average(np.array(c_["x"]), np.array(c_["y"]), np.array(c_["weights"]), np.array([[0, 1, 2]]))
            ctx.evaluations += 1
            if abs(out_.sum() - np.mean(c_["weights"])) > 1e-9:
                ctx.fail_input("tent", c_, "%s: bins hold %r of a triangle of weight %r [%s]" % (k["id"], float(out_.sum()), float(np.mean(c_["weights"])), k["what"]), None)
    # ---- model triangulations for N = 1..40 by vm_compute
    Ns = list(range(1, 41))
    vals = fw.coq_eval("c13t", IMPORTS, ["enc3 (tris %d)" % N for N in Ns] + ["enc3 (face_points %d)" % N for N in Ns])
    mt = {N: [tuple(v[i:i + 3]) for i in range(0, len(v), 3)] for N, v in zip(Ns, vals[:40])}
    mp = {N: [tuple(v[i:i + 3]) for i in range(0, len(v), 3)] for N, v in zip(Ns, vals[40:])}
    nbad = 0
    first = ""
    for N in Ns:
        if len(mt[N]) != N * N or len(mp[N]) != (N + 1) * (N + 2) // 2:
            nbad += 1
            first = first or "model: N=%d has %d triangles / %d points" % (N, len(mt[N]), len(mp[N]))
        for mode in MODES:
            try:
                p = triavg_check(ctx, mode, N, mt[N], mp[N])
            except Exception as e:
                p = "raised %s: %s" % (type(e).__name__, e)
            ctx.evaluations += 1
            ctx.seen(("triavg", mode, N, p is None))
            if p and p.startswith("MODEL"):
                nbad += 1
                first = first or "%s N=%d: %s" % (mode, N, p)
            if p:
                ctx.fail_input("triavg", dict(scheme="TriAvg", mode=mode, N=N), p, classify)
    ctx.oblige("TriAvg.get_orient_points == Coq triangulation under the mode's sign vectors, N = 1..40 x 3 modes [120 cases, exhaustive]", "correspondence",
               nbad == 0, first)
    ctx.exhaustive = True
    # the Coq definition of that point set (proofs/OctaProofs.v) against the same enumeration
    octv = fw.coq_eval("c13o", "From Coq Require Import ZArith List.\nImport ListNotations.\nRequire Import Sop.proofs.OctaProofs.\nLocal Open Scope Z_scope.\n",
                       ["flat_map (fun r => match r with (x, y, z) => [x; y; z] end) (oct %d)" % N for N in (0, 1, 2, 3, 5, 8)])
    obad = 0
    for N, v in zip((0, 1, 2, 3, 5, 8), octv):
        got_ = sorted(tuple(v[i:i + 3]) for i in range(0, len(v), 3))
        want_ = sorted((x, y, z) for x in range(-N, N + 1) for y in range(-N, N + 1) for z in range(-N, N + 1) if abs(x) + abs(y) + abs(z) == N)
        obad += got_ != want_
    ctx.oblige("Coq point set oct N == integer points of |x|+|y|+|z| = N (N in 0,1,2,3,5,8), the set TriAvg('sphere') is checked against for N = 1..40", "correspondence", obad == 0,
               "%d sizes differ" % obad)
    # ---- traceless averages
    Ts = []
    for _ in range(6):
        A = np.array([[rng.uniform(-1, 1) for _ in range(3)] for _ in range(3)])
        A = (A + A.T) / 2
        A -= np.eye(3) * np.trace(A) / 3
        Ts.append(A / np.linalg.norm(A))
    worst = {}
    for mode in MODES:
        for N in (2, 4, 8, 16, 32, 40):
            pts, w, _t = TriAvg(mode).get_orient_points(N)
            for T in Ts:
                Tm = np.diag(np.diag(T)) - np.eye(3) * np.trace(np.diag(np.diag(T))) / 3 if mode == "octant" else T
                e = abs(traceless_avg(pts, w, Tm))
                worst[(mode, N)] = max(worst.get((mode, N), 0), e)
                ctx.evaluations += 1
                if mode in ("sphere", "octant") and e > 1e-9:
                    ctx.fail_input("traceless", dict(scheme="TriAvg", mode=mode, N=N), "weighted average of a traceless function is %.3e (exactly 0 by symmetry)" % e, classify)
                if mode == "hemisphere" and e > 1.2 / N:
                    ctx.fail_input("traceless", dict(scheme="TriAvg", mode=mode, N=N), "weighted average of a traceless function is %.3e > 1.2/N" % e, classify)
    ctx.stats["traceless_error_triavg"] = {"%s/%d" % k: round(v, 6) for k, v in sorted(worst.items())}
    # ---- ZCW
    sizes = list(range(1, 61)) + sorted(rng.sample(range(61, 5001), 60)) + [21, 22, 34, 35, 5000] if quick else list(range(1, 5001))
    gN = fw.coq_eval("c13z", IMPORTS, ["[fst (zcw_gN %d); snd (zcw_gN %d)]" % (r, r) for r in sizes])
    zbad, zfirst = 0, ""
    for req, (g, Nn) in zip(sizes, gN):
        for mi, mode in enumerate(MODES):
            z = ZCW(mode)
            phi, ct, w = z._calc_engine(req)
            pts, w2 = z.get_orient_points(req)
            ctx.evaluations += 1
            ctx.seen(("zcw", mode, len(phi)))
            c0, c1, c2 = {"sphere": (1, 2, 1), "hemisphere": (-1, 1, 1), "octant": (-1, 1, 4)}[mode]
            n = np.arange(Nn)
            if len(phi) != Nn:
                zbad += 1
                zfirst = zfirst or "req=%d %s: %d orientations, model %d" % (req, mode, len(phi), Nn)
                ctx.fail_input("zcw", dict(mode=mode, req=req), "returns %d orientations (model: %d)%s" % (len(phi), Nn, "; fewer than requested" if len(phi) < req else ""), classify)
                continue
            ctn = c0 * (c1 * (n % Nn) - Nn)
            phn = (n * g) % Nn
            if not (np.allclose(ct * Nn, ctn, atol=1e-6) and np.allclose(phi / (2 * math.pi) * c2 * Nn, phn, atol=1e-6)):
                zbad += 1
                zfirst = zfirst or "req=%d %s: angles differ from the model" % (req, mode)
            p = None
            if len(phi) < req:
                p = "fewer orientations (%d) than requested (%d)" % (len(phi), req)
            elif abs(w.sum() - 1) > 1e-9 or abs(w2.sum() - 1) > 1e-9:
                p = "weights sum to %r" % w.sum()
            elif not np.allclose(np.linalg.norm(pts, axis=1), 1, atol=1e-9):
                p = "orientations are not unit vectors"
            elif not all(in_region(mode, q, 1e-9) for q in pts):
                p = "an orientation lies outside the %s" % mode
            if p:
                ctx.fail_input("zcw", dict(mode=mode, req=req), p, classify)
    ctx.oblige("ZCW orientation count and angles == Coq recurrence / exact rationals [%d sizes x 3 modes]" % len(sizes), "correspondence", zbad == 0, zfirst)
    # traceless error of the point sets (supporting evidence: decreasing with the size)
    zerr = {}
    for mode in MODES:
        for req in (21, 144, 987, 4181):
            pts, w = ZCW(mode).get_orient_points(req)
            zerr["%s/%d" % (mode, req)] = round(max(abs(traceless_avg(pts, w, np.diag(np.diag(T)) - np.eye(3) * np.trace(np.diag(np.diag(T))) / 3 if mode == "octant" else T)) for T in Ts), 6)
        if zerr["%s/4181" % mode] > zerr["%s/21" % mode] or any(zerr["%s/%d" % (mode, r_)] * r_ > 4.0 for r_ in (144, 987, 4181)):
            ctx.fail_input("traceless", dict(scheme="ZCW", mode=mode), "traceless average does not shrink with the set size: %s" % {k: v for k, v in zerr.items() if k.startswith(mode)}, classify)
    ctx.stats["traceless_error_zcw"] = zerr
    # ---- SHREWD
    for mode in MODES:
        for req in ((21, 34) if quick else (21, 34, 55, 89, 144)):
            try:
                pts, w = SHREWD(mode).get_orient_points(req)
                p = None
                if len(pts) < req:
                    p = "fewer orientations than requested"
                elif abs(w.sum() - 1) > 1e-9:
                    p = "weights sum to %r" % w.sum()
                elif not np.allclose(np.linalg.norm(pts, axis=1), 1, atol=1e-9) or not all(in_region(mode, q, 1e-9) for q in pts):
                    p = "orientations not unit vectors in the %s" % mode
            except Exception as e:
                p = "raised %s: %s" % (type(e).__name__, e)
            ctx.evaluations += 1
            if p:
                ctx.fail_input("shrewd", dict(mode=mode, req=req), p, classify)
    # ---- tent binning
    tz = TriAvg("octant")
    exprs, got, meta = [], [], []
    NT = 150 if quick else 3000
    for t in range(NT):
        nb = rng.randint(2, 9)
        x0 = rng.randint(-8, 8) / 4.0
        dx = rng.choice([0.25, 0.5, 1.0, 2.0])
        x = np.array([x0 + i * dx for i in range(nb)])
        lo, hi = x[0] - dx / 2, x[-1] + dx / 2
        kind = rng.choice(["inside", "inside", "outside", "flat", "two-equal"])
        if kind == "inside":
            f = sorted(rng.randint(int(lo * 8), int(hi * 8)) / 8.0 for _ in range(3))
        elif kind == "outside":
            f = sorted(rng.randint(int(lo * 8) - 12, int(hi * 8) + 12) / 8.0 for _ in range(3))
        elif kind == "flat":
            v = rng.randint(int(lo * 8) + 1, int(hi * 8) - 1) / 8.0
            f = [v, v, v]
        else:
            a_, b_ = sorted(rng.randint(int(lo * 8), int(hi * 8)) / 8.0 for _ in range(2))
            f = [a_, a_, b_] if rng.random() < 0.5 else [a_, b_, b_]
        # frequency units from 2^-30 (~1e-9) to 2^20 (~1e6): conservation must not depend on the scale of the axis
        sc = 2.0 ** rng.choice([0, 0, 0, -10, -20, -30, 10, 20])
        x, f, dx, lo, hi = x * sc, [v * sc for v in f], dx * sc, lo * sc, hi * sc
        perm = rng.sample(range(3), 3)
        y = np.array([f[perm[0]], f[perm[1]], f[perm[2]]])
        wts = np.array([rng.randint(1, 8) / 4.0 for _ in range(3)])
        out = tz.average(x, y, wts, np.array([[0, 1, 2]]))
        tw = float(np.mean(wts))
        case = dict(x=[float(v) for v in x], y=[float(v) for v in y], weights=[float(v) for v in wts])
        ctx.evaluations += 1
        ctx.seen(("tent", kind, nb, sc, round(float(out.sum()) / tw, 6)))
        inside = (lo <= f[0] and f[2] <= hi) if f[0] < f[2] else (lo <= f[0] < hi)       # a flat triangle is counted in the half-open bin holding it
        if inside and abs(out.sum() - tw) > 1e-9 * tw:
            if f[0] == f[2]:
                ctx.fail_input("tent", case, "FLAT: a triangle with three equal vertex frequencies deposits %r instead of its weight %r" % (float(out.sum()), tw), classify)
            else:
                ctx.fail_input("tent", case, "bins hold %r of a triangle of weight %r whose frequencies lie inside the axis" % (float(out.sum()), tw), classify)
        q = lambda v: "(mkq %s %d)" % (fw.zlit(Fr(v).numerator), Fr(v).denominator)
        exprs.append("flat_map (fun c => encq c) (map (fun a => contrib %s %s %s a (Qplus a %s)) [%s])" % (
            q(f[0]), q(f[1]), q(f[2]), q(dx), "; ".join(q(v - dx / 2) for v in x)))
        got.append([float(v) / tw for v in out])
        meta.append(case)
    mv = fw.coq_eval("c13b", IMPORTS, exprs)
    tbad, tfirst = 0, ""
    for m_, g_, c_ in zip(mv, got, meta):
        want = [m_[i] / m_[i + 1] for i in range(0, len(m_), 2)]
        if len(want) != len(g_) or any(abs(a - b) > 1e-9 * max(1.0, abs(a)) for a, b in zip(want, g_)):
            tbad += 1
            tfirst = tfirst or "%s: model %s impl %s" % (c_, want, g_)
    ctx.evaluations += len(exprs)
    ctx.oblige("TriAvg.average per-bin values == Coq tent model (exact rationals vs floats, 1e-9) [%d triangles]" % len(exprs), "correspondence", tbad == 0, tfirst)
    ctx.sample(dict(case=meta[0], impl=got[0]))
    if ctx.tier == "thorough":
        ctx.coqchk()


def replay(obj):
    k, c = obj.get("kind"), obj.get("case")
    if k == "tent":
        from soprano.calculate.powder.triavg import TriAvg
        x, y, w = np.array(c["x"]), np.array(c["y"]), np.array(c["weights"])
        out = TriAvg("octant").average(x, y, w, np.array([[0, 1, 2]]))
        ok = abs(out.sum() - w.mean()) <= 1e-9 * w.mean()
        print("replay tent %s -> bins sum to %r, triangle weight %r: %s" % (c, float(out.sum()), float(w.mean()), "property holds" if ok else "PROPERTY FAILS"))
        return 0 if ok else 1
    if k == "triavg":
        vals = fw.coq_eval("c13r", IMPORTS, ["enc3 (tris %d)" % c["N"], "enc3 (face_points %d)" % c["N"]])
        mt = [tuple(vals[0][i:i + 3]) for i in range(0, len(vals[0]), 3)]
        mp = [tuple(vals[1][i:i + 3]) for i in range(0, len(vals[1]), 3)]
        p = triavg_check(None, c["mode"], c["N"], mt, mp)
        print("replay triavg %s -> %s" % (c, "property holds" if p is None else "PROPERTY FAILS: " + p))
        return 0 if p is None else 1
    if k == "zcw":
        from soprano.calculate.powder.zcw import ZCW
        pts, w = ZCW(c["mode"]).get_orient_points(c["req"])
        ok = len(pts) >= c["req"] and abs(w.sum() - 1) < 1e-9 and all(in_region(c["mode"], q, 1e-9) for q in pts)
        print("replay zcw %s -> %d orientations, sum w = %r: %s" % (c, len(pts), float(w.sum()), "property holds" if ok else "PROPERTY FAILS"))
        return 0 if ok else 1
    print("replay: nothing executable in this file: %s" % (obj.get("broken_obligations") or obj.get("detail")))
    return 1
