"""C17 - site remapping is a true permutation and site merging conserves multiplicity."""
import itertools
import warnings

import numpy as np

import fw

warnings.filterwarnings("ignore")
IMPORTS = ("From Coq Require Import ZArith List Bool.\nImport ListNotations.\nRequire Import Sop.model.Remap.\n"
           "Local Open Scope Z_scope.\n"
           "Definition nl (l : list Z) : list nat := map Z.to_nat l.\n"
           "Definition zl (l : list nat) : list Z := map Z.of_nat l.\n"
           "Definition mkst (l : list (Z * Z * list Z)) : list site := map (fun x => match x with (m, t, v) => mkSite (Z.to_nat m) (Z.to_nat t) (nl v) end) l.\n"
           "Definition enc_st (st : list site) : list Z := flat_map (fun s => [Z.of_nat (mult s); Z.of_nat (tag s)] ++ zl (vals s)) st.\n")
# element families with symbols that are prefixes / substrings of one another
FAMILIES = [["C", "Cl", "H"], ["N", "Na", "O"], ["S", "Si", "O"], ["H", "He", "Hf"], ["B", "Br", "Be"], ["C", "Ca", "Cl"], ["O", "Os", "H"],
            ["P", "Pb", "Pt"], ["F", "Fe", "C"], ["I", "In", "Ir"], ["H", "O", "C"], ["N", "Ni", "Nb"]]
Z = {}


def znum(sym):
    from ase.data import atomic_numbers
    return atomic_numbers[sym]


def gen_remap(rng):
    from ase import Atoms
    n = rng.randint(1, 12)
    fam = rng.choice(FAMILIES)
    syms = [rng.choice(fam) for _ in range(n)]
    kind = rng.choice(["cubic", "ortho", "sheared"])
    a = 12.0
    cell = {"cubic": [[a, 0, 0], [0, a, 0], [0, 0, a]], "ortho": [[10, 0, 0], [0, 14, 0], [0, 0, 9]],
            "sheared": [[11, 0, 0], [3, 12, 0], [-2, 4, 10]]}[kind]
    # reference sites on a 1.5 A grid: pairwise >= 1.5 A apart (also across the boundary for these cells)
    pts = rng.sample(list(itertools.product(range(5), repeat=3)), n)
    ref_pos = np.array([[1.5 * p[0] + 0.3, 1.5 * p[1] + 0.4, 1.5 * p[2] + 0.2] for p in pts])
    perm = list(range(n))
    rng.shuffle(perm)                          # s[k] = perturbed copy of reference atom perm[k]
    mic = rng.random() < 0.7
    tol = rng.choice([0.1, 0.05, 0.3])
    mode = rng.choice(["below", "below", "below", "above", "formula"])
    noise = np.array([[rng.uniform(-1, 1) for _ in range(3)] for _ in range(n)])
    noise = noise / np.maximum(np.linalg.norm(noise, axis=1, keepdims=True), 1e-9) * (0.45 * tol) * np.array([[rng.random()] for _ in range(n)])
    bad = None
    if mode == "above":
        bad = rng.randrange(n)
        d = np.array([rng.uniform(-1, 1) for _ in range(3)])
        noise[bad] = d / np.linalg.norm(d) * tol * rng.choice([1.5, 3.0])
    shifts = np.array([[rng.randint(-2, 2) for _ in range(3)] for _ in range(n)]) if mic else np.zeros((n, 3), int)
    pos = ref_pos + noise
    s_pos = np.array([pos[perm[k]] + shifts[k] @ np.array(cell, float) for k in range(n)])
    s_syms = [syms[perm[k]] for k in range(n)]
    if mode == "formula" and n > 1:
        s_syms = list(s_syms)
        other = [e for e in fam if e != s_syms[0]]
        s_syms[0] = rng.choice(other)
    ref = Atoms(syms, positions=ref_pos, cell=cell, pbc=True)
    s = Atoms(s_syms, positions=s_pos, cell=cell, pbc=True)
    return dict(syms=syms, s_syms=s_syms, perm=perm, mic=mic, tol=tol, mode=mode, kind=kind, n=n, bad=bad), ref, s


def run_remap(ref, s, mic, tol):
    """runs the real RemapIndices with scipy's linear_sum_assignment recorded"""
    import soprano.properties.map.map as mm
    cols = []
    real = mm.linear_sum_assignment

    def rec(d):
        r, c = real(d)
        cols.append([int(x) for x in c])
        return r, c
    mm.linear_sum_assignment = rec
    try:
        try:
            out = mm.RemapIndices.get(s, reference=ref, mic=mic, tolerance=tol)
            return [int(i) for i in out], cols, None
        except ValueError as e:
            return None, cols, "ValueError: %s" % str(e)[:80]
        except Exception as e:
            return None, cols, "CRASH %s: %s" % (type(e).__name__, str(e)[:80])
    finally:
        mm.linear_sum_assignment = real


def remap_oracle(c, ref, s, out, err):
    n = c["n"]
    if c["mode"] == "formula" and n > 1 and sorted(c["syms"]) != sorted(c["s_syms"]):
        return None if (err and err.startswith("ValueError")) else "different formulas were not refused (%s)" % (err or out)
    if c["mode"] == "above":
        return None if (err and err.startswith("ValueError")) else "an atom farther than the tolerance from every reference site was not refused (%s)" % (err or out)
    if err:
        return "a shuffled, lattice-shifted, slightly perturbed copy was refused: " + err
    if sorted(out) != list(range(n)):
        return "result %s is not a permutation of the atom indices" % out
    inv = [0] * n
    for k, p in enumerate(c["perm"]):
        inv[p] = k
    if out != inv:
        return "result %s does not recover the hidden permutation %s" % (out, inv)
    if [c["s_syms"][i] for i in out] != c["syms"]:
        return "species mismatch after remapping"
    return None


# ---------------------------------------------------------------- merge

def gen_merge(rng):
    n = rng.randint(2, 9)
    fam = rng.choice(FAMILIES)
    syms = [rng.choice(fam[:2]) for _ in range(n)]
    tags = [rng.randint(0, 9) for _ in range(n)]
    vals = [[rng.randint(0, 5) for _ in range(2)] for _ in range(n)]
    labels = ["%s%d" % (syms[i], rng.randint(1, 3)) for i in range(n)]
    pos = [[rng.randint(0, 20) / 2.0 for _ in range(3)] for _ in range(n)]
    ms = [[[rng.randint(-8, 8) / 2.0 for _ in range(3)] for _ in range(3)] for _ in range(n)]
    keep = rng.random() < 0.3
    groups = []
    m = n
    for _ in range(rng.randint(1, 4)):
        if m < 2:
            break
        k = rng.randint(1, min(4, m))
        g = rng.sample(range(m), k)
        if rng.random() < 0.5:
            g = sorted(g)
        groups.append(g)
        if not keep:
            m -= k - 1
    return dict(syms=syms, tags=tags, vals=vals, labels=labels, pos=pos, ms=ms, keep=keep, groups=groups)


def mk_merge_atoms(c):
    from ase import Atoms
    a = Atoms(c["syms"], positions=c["pos"])
    a.set_tags(c["tags"])
    a.set_array("vals", np.array(c["vals"]))
    a.set_array("labels", np.array(c["labels"]))
    a.set_array("ms", np.array(c["ms"]))
    return a


def snapshot(a):
    mult = a.get_array("multiplicity") if a.has("multiplicity") else np.ones(len(a), int)
    return [dict(num=int(a.numbers[i]), pos=[float(x) for x in a.positions[i]], tag=int(a.get_tags()[i]), vals=[int(x) for x in a.get_array("vals")[i]],
                 label=str(a.get_array("labels")[i]), ms=[float(x) for x in a.get_array("ms")[i].ravel()], mult=int(mult[i])) for i in range(len(a))]


def run_merge(c, groups=None):
    from soprano.utils import merge_sites, merge_sum
    a = mk_merge_atoms(c)
    try:
        for g in (groups if groups is not None else c["groups"]):
            a = merge_sites(a, list(g), merging_strategies={"vals": merge_sum}, keep_all=c["keep"])
        return snapshot(a), None
    except Exception as e:
        return None, "%s: %s" % (type(e).__name__, str(e)[:100])


def merge_expected(c):
    """the property, stated directly: sites as dicts; strategies: numbers/tags first (of the group in ascending index order), positions/ms mean,
    vals sum, labels unique-sorted-joined, multiplicity sum; others untouched"""
    sites = [dict(num=znum(c["syms"][i]), pos=list(map(float, c["pos"][i])), tag=c["tags"][i], vals=list(c["vals"][i]), label=c["labels"][i],
                  ms=[float(x) for r in c["ms"][i] for x in r], mult=1) for i in range(len(c["syms"]))]
    for g in c["groups"]:
        ix = sorted(g)
        grp = [sites[i] for i in ix]
        merged = dict(num=grp[0]["num"], tag=grp[0]["tag"],
                      pos=[sum(s["pos"][k] for s in grp) / len(grp) for k in range(3)],
                      ms=[sum(s["ms"][k] for s in grp) / len(grp) for k in range(9)],
                      vals=[sum(s["vals"][k] for s in grp) for k in range(2)],
                      label=",".join(sorted(set(s["label"] for s in grp))))
        if c["keep"]:
            for i in ix:
                sites[i] = dict(merged, mult=sites[i]["mult"])
        else:
            merged["mult"] = sum(s["mult"] for s in grp)
            sites = [merged if i == ix[0] else s for i, s in enumerate(sites) if i == ix[0] or i not in ix]
    return sites


def close(a, b):
    if a is None or b is None or len(a) != len(b):
        return False
    for x, y in zip(a, b):
        for k in ("num", "tag", "vals", "label", "mult"):
            if x[k] != y[k]:
                return False
        if not np.allclose(x["pos"], y["pos"], atol=1e-9) or not np.allclose(x["ms"], y["ms"], atol=1e-9):
            return False
    return True


def merge_oracle(c, got, err):
    if err:
        return "merging %s raised %s" % (c["groups"], err)
    want = merge_expected(c)
    if sum(s["mult"] for s in got) != len(c["syms"]):
        return "total multiplicity %d != number of original sites %d" % (sum(s["mult"] for s in got), len(c["syms"]))
    if not close(got, want):
        # is the only difference a label longer than 25 characters cut short?
        cut = [dict(w, label=w["label"][:25]) for w in want]
        if close(got, cut):
            return "LABEL-TRUNCATED: a merged label longer than 25 characters was cut (%r)" % [w["label"] for w in want if len(w["label"]) > 25][:1]
        return "merged structure differs from the documented strategies applied to each group (others untouched)"
    return None


def coq_st(c):
    return "(mkst [%s])" % "; ".join("(1, %d, %s)" % (c["tags"][i], fw.zlist(c["vals"][i])) for i in range(len(c["syms"])))


def classify(kind, case, detail):
    if kind == "merge" and str(detail).startswith("LABEL-TRUNCATED"):
        return "C17-F17c"
    return None


def run_case(kind, case):
    if kind == "merge":
        got, err = run_merge(case)
        p = merge_oracle(case, got, err)
        if p is None and len(case["groups"]) == 1:
            g2 = list(reversed(case["groups"][0]))
            got2, err2 = run_merge(case, [g2])
            if not close(got, got2):
                p = "listing the group as %s instead of %s changes the result (%s)" % (g2, case["groups"][0], err2)
        return p is None, p or ""
    if kind == "remap":
        from ase import Atoms
        ref = Atoms(case["syms"], positions=case["ref_pos"], cell=case["cell"], pbc=True)
        s = Atoms(case["s_syms"], positions=case["s_pos"], cell=case["cell"], pbc=True)
        out, cols, err = run_remap(ref, s, case["mic"], case["tol"])
        p = remap_oracle(case, ref, s, out, err)
        return p is None, p or ""
    raise ValueError(kind)


def run(ctx):
    rng = ctx.rng
    quick = ctx.tier == "quick"
    ctx.rule = ("remap: structures of 1-12 atoms over 12 element families containing symbols that are prefixes of one another (C/Cl, N/Na, S/Si, "
                "H/He/Hf, B/Br/Be ...) x random hidden permutation x lattice shifts (mic) x noise below tolerance/2 or one atom above tolerance x "
                "different formula; merge: sequences of 1-4 merges over arbitrary index groups listed in any order on structures with tags, an integer "
                "vector array (sum), labels, positions and tensors (mean), keep_all on/off; distinct = (kind, outcome, sizes)")
    ctx.trusted += ["hand model coq/model/Remap.v; scipy linear_sum_assignment and ase get_distances are oracles: the assignment they return is recorded "
                    "(monkey-patched from the harness) and handed to the model as `cols`; its contract (a permutation of each species group) is the "
                    "hypothesis of remap_permutation and is checked on every call",
                    "merge model covers multiplicity, a merge_first array (tags) and a merge_sum array; mean / concatenate strategies are judged by the "
                    "python statement of the property (exact for the dyadic inputs used)"]
    ctx.build_props()
    ctx.build_models(["model/Remap.vo"])
    for k in ctx.known:
        w = k.get("witness") or {}
        if w.get("kind") in ("merge", "remap"):
            try:
                ok, d = run_case(w["kind"], w["case"])
            except Exception as e:
                ok, d = False, "raised %s: %s" % (type(e).__name__, e)
            ctx.evaluations += 1
            if not ok:
                ctx.fail_input(w["kind"], w["case"], "%s [%s: %s]" % (d, k["id"], k["what"]), classify)
    # ---- split sites: two reference atoms of one species closer than twice the tolerance share one nearby atom of the structure, and another atom of
    #      that species is beyond the tolerance of EVERY reference site: no assignment within tolerance exists, the call must fail loudly
    from ase import Atoms as _Atoms
    for t in range(20 if quick else 300):
        tol = rng.choice([0.3, 0.5, 1.0])
        sp = rng.choice(["C", "H", "Si"])
        base = np.array([rng.uniform(1, 4) for _ in range(3)])
        sep = np.array([rng.uniform(0.3, 0.9) * tol, 0, 0])
        ref_pos = [base, base + sep, base + np.array([0, 5.0, 0])][:rng.choice([2, 3])]
        far = base + np.array([0, 0, tol * rng.uniform(2.5, 5.0) + 1.0])
        s_pos = [base + 0.5 * sep, far] + ([ref_pos[2] + 0.01] if len(ref_pos) == 3 else [])
        order = list(range(len(s_pos)))
        rng.shuffle(order)
        cell = np.eye(3) * 14.0
        ref = _Atoms([sp] * len(ref_pos), positions=np.array(ref_pos), cell=cell, pbc=True)
        st = _Atoms([sp] * len(s_pos), positions=np.array([s_pos[i] for i in order]), cell=cell, pbc=True)
        mic = rng.random() < 0.5
        out, cols, err = run_remap(ref, st, mic, tol)
        ctx.evaluations += 1
        ctx.seen(("remap-split", len(ref_pos), tol, err is None))
        if not (err and err.startswith("ValueError")):
            ctx.fail_input("remap", dict(mode="split-site", tol=tol, mic=mic, syms=[sp] * len(ref_pos), ref_pos=np.array(ref_pos).tolist(), s_pos=st.positions.tolist(),
                                         cell=cell.tolist()),
                           "an atom %.2f A from every reference site (tolerance %.2f) was assigned instead of refused: %s" % (float(np.linalg.norm(far - base)), tol, err or out), classify)
    cases, meta = [], []
    contract_bad = 0
    NR = 250 if quick else 5000
    for t in range(NR):
        c, ref, s = gen_remap(rng)
        out, cols, err = run_remap(ref, s, c["mic"], c["tol"])
        case = dict(c, ref_pos=ref.positions.tolist(), s_pos=s.positions.tolist(), cell=np.array(ref.cell).tolist())
        ctx.evaluations += 1
        ctx.seen(("remap", c["mode"], c["n"], c["mic"], err is None, tuple(sorted(set(c["syms"])))))
        p = remap_oracle(c, ref, s, out, err)
        if p:
            ctx.fail_input("remap", case, p, classify)
        if out is not None:
            species = list(set(s.get_chemical_symbols()))          # the order the code itself uses (same process, same hash seed)
            # oracle contract: each recorded assignment is a permutation of its group
            for sp, col in zip(species, cols):
                k = sum(1 for x in c["s_syms"] if x == sp)
                if sorted(col) != list(range(len(col))) or len(col) != k:
                    contract_bad += 1
            ids = {e: znum(e) for e in set(c["syms"]) | set(c["s_syms"])}
            expr = "zl (remap Nat.eqb (nl %s) (nl %s) (nl %s) [%s])" % (
                fw.zlist([ids[x] for x in c["s_syms"]]), fw.zlist([ids[x] for x in c["syms"]]), fw.zlist([ids[x] for x in species]),
                "; ".join("nl " + fw.zlist(col) for col in cols))
            cases.append((expr, out))
            meta.append(("remap", dict(syms=c["syms"], s_syms=c["s_syms"], cols=cols)))
    ctx.oblige("oracle contract: every assignment returned by linear_sum_assignment is a permutation of its species group", "oracle-contract",
               contract_bad == 0, "%d calls violated it" % contract_bad)
    NM = 300 if quick else 6000
    for t in range(NM):
        c = gen_merge(rng)
        got, err = run_merge(c)
        ctx.evaluations += 1
        ctx.seen(("merge", c["keep"], len(c["groups"]), tuple(len(g) for g in c["groups"]), err is None, any(g != sorted(g) for g in c["groups"])))
        p = merge_oracle(c, got, err)
        if p:
            ctx.fail_input("merge", c, p, classify)
        # listing order: any permutation of each group gives the same structure
        g2 = [rng.sample(g, len(g)) for g in c["groups"]]
        got2, err2 = run_merge(c, g2)
        if got is not None and not close(got, got2):
            ctx.fail_input("merge", dict(c, groups=g2), "listing the groups as %s instead of %s changes the result (%s)" % (g2, c["groups"], err2), classify)
        if got is not None:
            expr = "enc_st (fold_left (merge %s) [%s] %s)" % ("true" if c["keep"] else "false", "; ".join("nl " + fw.zlist(g) for g in c["groups"]), coq_st(c))
            cases.append((expr, [x for s_ in got for x in [s_["mult"], s_["tag"]] + s_["vals"]]))
            meta.append(("merge", dict(groups=c["groups"], keep=c["keep"], n=len(c["syms"]))))
    # merge_tagged_sites (the CLI's repeated merging): total multiplicity and one site per tag
    from soprano.scripts.nmr import merge_tagged_sites
    bad_tag = 0
    for t in range(40 if quick else 800):
        c = gen_merge(rng)
        a = mk_merge_atoms(c)
        try:
            b = merge_tagged_sites(a, merging_strategies={})
            mult = b.get_array("multiplicity") if b.has("multiplicity") else np.ones(len(b), int)
            ok = int(sum(mult)) == len(a) and sorted(b.get_tags()) == sorted(set(c["tags"])) and \
                all(int(mult[i]) == c["tags"].count(int(b.get_tags()[i])) for i in range(len(b)))
        except Exception as e:
            ok = False
        ctx.evaluations += 1
        if not ok:
            bad_tag += 1
            ctx.fail_input("tagged", dict(tags=c["tags"], syms=c["syms"]), "merge_tagged_sites does not leave one site per tag with the group's multiplicity", classify)
    mism = ctx.correspondence("RemapIndices (recorded assignments) and merge_sites sequences == Coq model", "c17", IMPORTS, cases, meta)
    if cases:
        ctx.sample(dict(case=meta[0], impl=cases[0][1]))
        ctx.sample(dict(case=meta[-1], impl=cases[-1][1]))
    if ctx.tier == "thorough":
        ctx.coqchk()


def replay(obj):
    k, c = obj.get("kind"), obj.get("case")
    if k not in ("merge", "remap") or not c:
        print("replay: nothing executable in this file: %s" % obj.get("broken_obligations"))
        return 1
    ok, d = run_case(k, c)
    print("replay %s -> %s %s" % (k, "property holds" if ok else "PROPERTY FAILS", d))
    return 0 if ok else 1
