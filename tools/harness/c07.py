"""C07 - atom selections behave as index sets with aligned per-atom arrays."""
import itertools
import math
import warnings

import numpy as np

import fw
from harness import lattice_common as lc

warnings.filterwarnings("ignore")
IMPORTS = ("From Coq Require Import ZArith List Bool.\nImport ListNotations.\nRequire Import Sop.model.Lattice Sop.model.Sel.\n"
           "Local Open Scope Z_scope.\n")
ELS = {"H": 1, "C": 6, "O": 8, "Si": 14, "N": 7}


def mk_atoms(syms, labels=None, cell=None, pos=None, pbc=True):
    from ase import Atoms
    n = len(syms)
    a = Atoms(syms, positions=pos if pos is not None else [[1.1 * i, 0.3 * i, 0] for i in range(n)], cell=cell, pbc=pbc if cell is not None else False)
    if labels is not None:
        a.set_array("labels", np.array(labels))
    return a


def mk_sel(atoms, idx, arrs, authenticate=True):
    from soprano.selection import AtomSelection
    s = AtomSelection(atoms, list(idx), authenticate=authenticate)
    for k, v in arrs.items():
        s.set_array(str(k), np.array(v))
    return s


def enc_sel(s):
    idx = [int(i) for i in np.asarray(s.indices).ravel()]
    out = [len(idx)] + idx + [len(s._arrays)]
    for k in sorted(s._arrays, key=int):
        v = [int(x) for x in np.asarray(s._arrays[k]).ravel()]
        out += [int(k), len(v)] + v
    return out


def canon(enc):
    """sort the arrays of a model encoding by name"""
    if enc[0] != 0:
        return enc
    n = enc[1]
    idx = enc[2:2 + n]
    i = 2 + n
    na = enc[i]
    i += 1
    arrs = {}
    for _ in range(na):
        k, l = enc[i], enc[i + 1]
        arrs[k] = enc[i + 2:i + 2 + l]
        i += 2 + l
    out = [0, n] + idx + [na]
    for k in sorted(arrs):
        out += [k, len(arrs[k])] + arrs[k]
    return out


def coq_sel(n, auth, idx, arrs):
    return "(mks %d %s %s [%s])" % (n, fw.zlit(auth), fw.zlist(idx), "; ".join("(%d, %s)" % (k, fw.zlist(v)) for k, v in arrs.items()))


def outcome_of(fn):
    try:
        return [0] + enc_sel(fn()), None
    except Exception as e:
        m = str(e)
        if "different systems" in m or "Invalid indices" in m or "Invalid array" in m:
            return [1], "%s: %s" % (type(e).__name__, m[:80])
        return [2], "%s: %s" % (type(e).__name__, m[:80])


def oracle_setop(op, A, B, R):
    """A, B: (idx, arrs) duplicate-free operands; R: result encoding (python-level statement of the property)"""
    ia, ib = A[0], B[0]
    want = {"+": set(ia) | set(ib), "-": set(ia) - set(ib), "*": set(ia) & set(ib)}[op]
    n = R[1]
    idx = R[2:2 + n]
    if len(idx) != len(set(idx)) or set(idx) != want:
        return "indices %s are not the %s %s without duplicates" % (idx, {"+": "union", "-": "difference", "*": "intersection"}[op], sorted(want))
    i = 2 + n
    na = R[i]
    i += 1
    for _ in range(na):
        k, l = R[i], R[i + 1]
        vals = R[i + 2:i + 2 + l]
        i += 2 + l
        if l != n:
            return "array %d has %d entries for %d selected atoms" % (k, l, n)
        for p, atom in enumerate(idx):
            src = []
            if k in A[1] and atom in ia:
                src.append(A[1][k][ia.index(atom)])
            if k in B[1] and atom in ib and op != "-":
                src.append(B[1][k][ib.index(atom)])
            if vals[p] not in src:
                return "array %d holds %d for atom %d; that atom had %s in the operands" % (k, vals[p], atom, src)
    # arrays that must be present
    if op == "+":
        for k in set(A[1]) & set(B[1]):
            if k not in [R[j] for j in arr_name_pos(R)]:
                return "common array %d missing from the sum" % k
    return None


def arr_name_pos(R):
    n = R[1]
    i = 2 + n
    na = R[i]
    i += 1
    out = []
    for _ in range(na):
        out.append(i)
        i += 2 + R[i + 1]
    return out


def gen_operand(rng, n, dup=False):
    k = rng.randint(0, n)
    idx = rng.sample(range(n), k)
    if dup and idx:
        idx.append(rng.choice(idx))
    return idx


def classify(kind, case, detail):
    return None


# --------------------------------------------------------------- strings

def item_str(it):
    if it[0] == "el":
        return it[1]
    if it[0] == "idx":
        return it[1] + "." + ".".join(("%d-%d" % s if isinstance(s, tuple) else "%d" % s) for s in it[2])
    if it[0] == "bare":
        return ".".join(("%d-%d" % s if isinstance(s, tuple) else "%d" % s) for s in it[2])
    return it[2]


def coq_sites(ss):
    return "[%s]" % "; ".join(("SRange %s %s" % (fw.zlit(s[0]), fw.zlit(s[1])) if isinstance(s, tuple) else "SOne %s" % fw.zlit(s)) for s in ss)


def coq_item(it, labcode):
    if it[0] == "el":
        return "IEl %d" % ELS[it[1]]
    if it[0] == "bare":
        return "IBare %s" % coq_sites(it[2])
    if it[0] == "idx":
        return "IIdx %d [%s]" % (ELS[it[1]], "; ".join(("SRange %s %s" % (fw.zlit(s[0]), fw.zlit(s[1])) if isinstance(s, tuple) else "SOne %s" % fw.zlit(s)) for s in it[2]))
    return "ILabel %d %d" % (ELS[it[1]], labcode.get(it[2], 999))


def run_case(kind, case):
    from soprano.selection import AtomSelection
    if kind == "setop":
        atoms = mk_atoms(case["syms"])
        A = (case["a"][0], {int(k): v for k, v in case["a"][1].items()})
        B = (case["b"][0], {int(k): v for k, v in case["b"][1].items()})
        sa, sb = mk_sel(atoms, *A), mk_sel(atoms, *B)
        r = {"+": lambda: sa + sb, "-": lambda: sa - sb, "*": lambda: sa * sb}[case["op"]]()
        p = oracle_setop(case["op"], A, B, [0] + enc_sel(r))
        return p is None, p or ""
    if kind == "string":
        atoms = mk_atoms(case["syms"], case["labels"])
        try:
            s = AtomSelection.from_selection_string(atoms, case["string"])
        except (ValueError, IndexError) as e:
            return (not case["valid"]), "refused: %s" % e
        except Exception as e:
            return False, "raised %s: %s" % (type(e).__name__, e)
        return True, ""
    if kind == "sphere":
        return sphere_oracle(case)[:2]
    if kind == "box":
        return box_oracle(case)[:2]
    if kind == "scaled":
        return scaled_oracle(case)[:2]
    raise ValueError(kind)


def sphere_oracle(c):
    from soprano.selection import AtomSelection
    L, pbc, pos, ctr, rho = c["L"], tuple(c["pbc"]), [tuple(p) for p in c["pos"]], tuple(c["centre"]), c["rho"]
    atoms = mk_atoms(["H"] * len(pos), cell=np.array(L, float), pos=np.array(pos, float), pbc=list(pbc))
    if c.get("scaled"):
        inv = np.linalg.inv(np.array(L, float))
        centre = np.array(ctr, float) @ inv
        # radius in fractional space is a different metric: only used for the known-finding stream
        s = AtomSelection.from_sphere(atoms, centre, math.sqrt(rho) / 10.0, periodic=c["periodic"], scaled=True)
        return True, "", None
    s = AtomSelection.from_sphere(atoms, np.array(ctr, float), math.sqrt(rho), periodic=c["periodic"], scaled=False)
    got = []
    ci = s.get_array("cell_indices") if c["periodic"] else [(0, 0, 0)] * len(s.indices)
    for k, cell in zip(s.indices, ci):
        got.append((int(k), tuple(int(x) for x in cell)))
    want = set()
    for k, p in enumerate(pos):
        v = tuple(p[i] - ctr[i] for i in range(3))
        if c["periodic"] and any(pbc):
            for n, w in lc.brute_images(L, pbc, v, rho, 1):
                want.add((k, n))
        elif lc.norm2(v) <= rho:
            want.add((k, (0, 0, 0)))
    if len(set(got)) != len(got) or set(got) != want:
        return False, "sphere r^2=%d centre %s: missing %s, spurious %s" % (rho, ctr, sorted(want - set(got))[:3], sorted(set(got) - want)[:3]), got
    return True, "", got


def box_oracle(c):
    from soprano.selection import AtomSelection
    L, pbc, pos = c["L"], tuple(c["pbc"]), [tuple(p) for p in c["pos"]]
    lo, hi = tuple(c["lo"]), tuple(c["hi"])
    atoms = mk_atoms(["H"] * len(pos), cell=np.array(L, float), pos=np.array(pos, float), pbc=list(pbc))
    s = AtomSelection.from_box(atoms, np.array(lo, float), np.array(hi, float), periodic=c["periodic"], scaled=False)
    got = []
    ci = s.get_array("cell_indices") if c["periodic"] else [(0, 0, 0)] * len(s.indices)
    for k, cell in zip(s.indices, ci):
        got.append((int(k), tuple(int(x) for x in cell)))
    want = set()
    # exact and independent of the model: the fractional coordinates of the box lie between those of its 8 corners
    from fractions import Fraction
    D = lc.det(L)
    corners = [tuple((lo, hi)[b[i]][i] for i in range(3)) for b in itertools.product((0, 1), repeat=3)]
    for k, p in enumerate(pos):
        fp = lc.fracnum(L, p)
        rng_ = []
        for i in range(3):
            if pbc[i] and c["periodic"]:
                fs = [Fraction(lc.fracnum(L, q)[i] - fp[i], D) for q in corners]
                rng_.append(range(math.floor(min(fs)) - 1, math.ceil(max(fs)) + 2))
            else:
                rng_.append(range(0, 1))
        for n in itertools.product(*rng_):
            w = lc.vadd(p, lc.comb(n, L))
            if all(lo[i] < w[i] < hi[i] for i in range(3)):
                want.add((k, n))
    if len(set(got)) != len(got) or set(got) != want:
        return False, "box %s-%s: missing %s, spurious %s" % (lo, hi, sorted(want - set(got))[:3], sorted(set(got) - want)[:3]), got
    return True, "", got


def scaled_oracle(c):
    """box / sphere with scaled=True on a diagonal power-of-two cell (fractional coordinates exact in floats)"""
    from fractions import Fraction as Fr
    from soprano.selection import AtomSelection
    diag, pbc, pos = c["diag"], tuple(c["pbc"]), c["pos"]
    atoms = mk_atoms(["H"] * len(pos), cell=np.diag(np.array(diag, float)), pos=np.array(pos, float), pbc=list(pbc))
    per = c["periodic"]
    fr = []
    for p in pos:
        f = [Fr(p[i], diag[i]) for i in range(3)]
        fr.append([f[i] % 1 if pbc[i] else f[i] for i in range(3)])     # ase wraps the periodic axes only
    if c["shape"] == "sphere":
        ctr = [Fr(x, 8) for x in c["centre8"]]
        r2 = Fr(2 * c["m"] + 1, 128)
        s = AtomSelection.from_sphere(atoms, np.array([float(x) for x in ctr]), math.sqrt(float(r2)), periodic=per, scaled=True)
        inside = lambda w: sum((w[i] - ctr[i]) ** 2 for i in range(3)) <= r2
        reach = [(math.floor(ctr[i] - 3), math.ceil(ctr[i] + 3)) for i in range(3)]
    else:
        lo, hi = [Fr(x, 8) for x in c["lo8"]], [Fr(x, 8) for x in c["hi8"]]
        s = AtomSelection.from_box(atoms, np.array([float(x) for x in lo]), np.array([float(x) for x in hi]), periodic=per, scaled=True)
        inside = lambda w: all(lo[i] < w[i] < hi[i] for i in range(3))
        reach = [(math.floor(lo[i]) - 1, math.ceil(hi[i]) + 1) for i in range(3)]
    ci = s.get_array("cell_indices") if per else [(0, 0, 0)] * len(s.indices)
    got = [(int(k), tuple(int(x) for x in cell)) for k, cell in zip(s.indices, ci)]
    want = set()
    for k, f in enumerate(fr):
        rng_ = [range(reach[i][0] - 1, reach[i][1] + 2) if (pbc[i] and per) else range(0, 1) for i in range(3)]
        for n in itertools.product(*rng_):
            if inside([f[i] + n[i] for i in range(3)]):
                want.add((k, n))
    if len(set(got)) != len(got) or set(got) != want:
        return False, "scaled %s: missing %s, spurious %s" % (c["shape"], sorted(want - set(got))[:3], sorted(set(got) - want)[:3]), got
    return True, "", got


def run(ctx):
    from soprano.selection import AtomSelection
    rng = ctx.rng
    quick = ctx.tier == "quick"
    ctx.rule = ("systems of 1-8 atoms over {H,C,O,Si,N}; selections as arbitrary ordered index lists (duplicates in a malformed stream) with 0-2 arrays "
                "(shared or not, agreeing or conflicting), authenticated or not, same or different composition; + - * and chains; int/slice/list "
                "indexing, iteration, subset; from_element / from_array (5 operators) / selection strings generated from the documented grammar "
                "(valid and refused forms); box and sphere selectors on the C03 lattice streams, periodic or not; distinct = (kind, outcome) keys")
    ctx.trusted += ["hand model coq/model/Sel.v; python set iteration order for small non-negative ints is modelled as ascending (confirmed by the correspondence)",
                    "selection strings: the regex tokenisation is not modelled (strings are generated from item ASTs, the AST is what the model sees)",
                    "periodic sphere = C03 all_periodic model on position-centre; box selector and scaled variants only judged by brute force"]
    ctx.build_props()
    ctx.build_models(["model/Sel.vo", "model/Lattice.vo"])
    # corpus first: witnesses of the defects this check found (all repaired; a fixed entry suppresses nothing)
    for k in ctx.known:
        w = k.get("witness") or {}
        if w.get("kind") in ("setop", "string", "sphere", "box", "scaled"):
            try:
                ok, d = run_case(w["kind"], w["case"])
            except Exception as e:
                ok, d = False, "raised %s: %s" % (type(e).__name__, e)
            ctx.evaluations += 1
            if not ok:
                ctx.fail_input(w["kind"], w["case"], "%s (%s): %s" % (k["id"], k["what"], d), classify)
    exprs, exps, meta = [], [], []
    N = 250 if quick else 5000
    for t in range(N):
        n = rng.randint(1, 8)
        syms = [rng.choice(list(ELS)) for _ in range(n)]
        atoms = mk_atoms(syms)
        malformed = rng.random() < 0.2
        ia, ib = gen_operand(rng, n, malformed and rng.random() < 0.5), gen_operand(rng, n, malformed and rng.random() < 0.5)
        if rng.random() < 0.3:
            ib = [i for i in ib if i not in ia] if rng.random() < 0.5 else list(ia)
        names_a = [k for k in (0, 1) if rng.random() < 0.6]
        names_b = [k for k in (0, 1) if rng.random() < 0.6]
        base = {k: [rng.randint(0, 3) for _ in range(n)] for k in (0, 1)}
        conflict = rng.random() < 0.3
        A = (ia, {k: [base[k][i] + 10 * k for i in ia] for k in names_a})
        B = (ib, {k: [base[k][i] + 10 * k + (5 if conflict and rng.random() < 0.5 else 0) for i in ib] for k in names_b})
        same = rng.random() < 0.85
        atoms_b = atoms if same else mk_atoms(syms[::-1] + ["H"])
        auth_a, auth_b = rng.random() < 0.9, rng.random() < 0.9
        hb = 7 if same else 8
        if not same and len(atoms_b) <= max(ib + [-1]):
            continue
        for op in "+-*":
            sa, sb = mk_sel(atoms, *A, authenticate=auth_a), mk_sel(atoms_b, *B, authenticate=auth_b)
            enc, exc = outcome_of({"+": lambda: sa + sb, "-": lambda: sa - sb, "*": lambda: sa * sb}[op])
            fn = {"+": "sadd", "-": "ssub", "*": "smul"}[op]
            exprs.append("enc_out (%s %s %s)" % (fn, coq_sel(n, 7 if auth_a else -1, *A), coq_sel(n if same else n + 1, hb if auth_b else -1, *B)))
            exps.append(enc)
            case = dict(syms=syms, a=[A[0], {str(k): v for k, v in A[1].items()}], b=[B[0], {str(k): v for k, v in B[1].items()}], op=op)
            meta.append(("setop", case))
            ctx.seen(("setop", op, enc[0], malformed, same, len(enc)))
            if same and not malformed:
                if enc[0] != 0:
                    ctx.fail_input("setop", case, "valid operation raised %s" % exc, classify)
                else:
                    p = oracle_setop(op, A, B, enc)
                    if p:
                        ctx.fail_input("setop", case, p, classify)
            elif not same and auth_a and auth_b and enc[0] != 1:
                ctx.fail_input("setop", case, "selections on systems of different composition were combined", classify)
        # chain: (a op b) op2 c
        if same and not malformed:
            ic = gen_operand(rng, n)
            C = (ic, {k: [base[k][i] + 10 * k for i in ic] for k in names_a})
            o1, o2 = rng.choice("+-*"), rng.choice("+-*")
            sa, sb, sc = mk_sel(atoms, *A), mk_sel(atoms, *B), mk_sel(atoms, *C)
            f = {"+": lambda x, y: x + y, "-": lambda x, y: x - y, "*": lambda x, y: x * y}
            enc, exc = outcome_of(lambda: f[o2](f[o1](sa, sb), sc))
            fn = {"+": "sadd", "-": "ssub", "*": "smul"}
            exprs.append("enc_out (bind2 (%s %s %s) (Ok %s) %s)" % (fn[o1], coq_sel(n, 7, *A), coq_sel(n, 7, *B), coq_sel(n, 7, *C), fn[o2]))
            exps.append(enc)
            meta.append(("chain", dict(syms=syms, ops=o1 + o2)))
            ctx.seen(("chain", o1, o2, enc[0]))
        # slicing / iteration
        sa = mk_sel(atoms, *A)
        m = len(ia)
        sl = rng.choice([rng.randint(-m - 1, m + 1), slice(rng.choice([None, rng.randint(-m, m)]), rng.choice([None, rng.randint(-m, m)]), rng.choice([1, 2, -1])),
                         [rng.randint(-m, m) for _ in range(rng.randint(0, 3))] if m else []])
        if isinstance(sl, int):
            ps = list(range(*slice(sl, sl + 1).indices(m)))
        elif isinstance(sl, slice):
            ps = list(range(*sl.indices(m)))
        else:
            ps = [p + m if p < 0 else p for p in sl]
        enc, exc = outcome_of(lambda: sa[sl])
        exprs.append("enc_out (sget %s %s)" % (coq_sel(n, 7, *A), fw.zlist(ps)))
        exps.append(enc)
        meta.append(("getitem", dict(syms=syms, a=A[0], sl=str(sl))))
        ctx.seen(("getitem", type(sl).__name__, enc[0]))
        if not malformed:
            its = [enc_sel(x) for x in sa]
            want = [enc_sel(sa[i]) for i in range(m)]
            sub = sa.subset(atoms)
            ok = its == want and all(it[1] == ia[i] for i, it in enumerate(its) if it[0] == 1) and \
                sub.get_chemical_symbols() == [syms[i] for i in ia] and \
                all(np.array_equal(sub.get_array(str(k)), np.array(v)) for k, v in A[1].items())
            ctx.evaluations += 1
            if not ok:
                ctx.fail_input("iter", dict(syms=syms, a=A[0]), "iteration / subset do not keep indices, arrays and atom order aligned", classify)
        # element / array selectors
        e = rng.choice(list(ELS))
        exprs.append("enc_outl (Ok (from_element %s %d))" % (fw.zlist([ELS[s] for s in syms]), ELS[e]))
        exps.append([0] + [int(i) for i in AtomSelection.from_element(atoms, e).indices])
        meta.append(("element", dict(syms=syms, e=e)))
        vals = [rng.randint(0, 4) for _ in range(n)]
        atoms.set_array("v", np.array(vals))
        opn = rng.choice(["lt", "le", "eq", "ge", "gt"])
        v = rng.randint(0, 4)
        exprs.append("enc_outl (Ok (from_array %s C%s %d))" % (fw.zlist(vals), opn, v))
        exps.append([0] + [int(i) for i in AtomSelection.from_array(atoms, "v", v, op=opn).indices])
        meta.append(("array", dict(vals=vals, op=opn, v=v)))
        ctx.seen(("array", opn, len(exps[-1])))
    # ---- selection strings
    NS = 200 if quick else 4000
    for t in range(NS):
        n = rng.randint(1, 7)
        syms = [rng.choice(["H", "C", "O", "Si"]) for _ in range(n)]
        cnt = {}
        labels = []
        for s in syms:
            cnt[s] = cnt.get(s, 0) + 1
            labels.append("%s%d%s" % (s, (cnt[s] + 1) // 2, "a" if rng.random() < 0.2 else ""))
        labcode = {l: i + 1 for i, l in enumerate(sorted(set(labels)))}
        atoms = mk_atoms(syms, labels)
        items = []
        valid = True
        for _ in range(rng.randint(1, 3)):
            el = rng.choice(sorted(set(syms))) if rng.random() < 0.9 else rng.choice(["H", "C", "O", "Si"])
            ne = syms.count(el)
            k = rng.random()
            def gen_sites():
                sites = []
                for _s in range(rng.randint(1, 2)):
                    hi = max(1, ne)
                    if rng.random() < 0.4:
                        a = rng.randint(1, hi)
                        sites.append((a, rng.randint(a, hi)))
                    else:
                        sites.append(rng.randint(0 if rng.random() < 0.1 else 1, hi + (1 if rng.random() < 0.1 else 0)))
                return sites
            if k < 0.3:
                items.append(("el", el))
            elif k < 0.75:
                items.append(("idx", el, gen_sites()))
                while rng.random() < 0.3:      # 'Si.1-3,5': bare site numbers continue the indexed item
                    items.append(("bare", el, gen_sites()))
            else:
                lab = rng.choice(labels) if rng.random() < 0.85 else el + "9"
                items.append(("label", "".join(ch for ch in lab if ch.isalpha() and ch != "a") if lab[0].isalpha() else el, lab))
        if rng.random() < 0.04:
            items.insert(rng.randrange(len(items) + 1), ("bare", "H", [rng.randint(1, 3)]))     # malformed: nothing to continue (maybe)
        string = ",".join(item_str(it) for it in items)
        try:
            s = AtomSelection.from_selection_string(atoms, string)
            enc = [0] + [int(i) for i in s.indices]
            exc = None
        except (ValueError, IndexError) as e:     # rejected: bad grammar, unknown element/label, site number out of range
            enc, exc = [1], "%s: %s" % (type(e).__name__, str(e)[:60])
        except Exception as e:
            enc, exc = [2], "%s: %s" % (type(e).__name__, str(e)[:60])
        labs = [labcode[l] for l in labels]
        exprs.append("enc_outl (from_items %s %s [%s] None [])" % (fw.zlist([ELS[s] for s in syms]), fw.zlist(labs), "; ".join(coq_item(it, labcode) for it in items)))
        exps.append(enc)
        case = dict(syms=syms, labels=labels, string=string, valid=True)
        meta.append(("string", case))
        ctx.seen(("string", tuple(it[0] for it in items), enc[0]))
        if enc[0] == 2:
            ctx.fail_input("string", case, "selection string %r crashed instead of selecting or refusing: %s" % (string, exc), classify)
    # the documented example of the docstring
    doc = dict(syms=["Si"] * 5, labels=["Si1"] * 5, string="Si.1-3,5", valid=True)
    ok, d = run_case("string", doc)
    ctx.evaluations += 1
    if not ok:
        ctx.fail_input("string", doc, "documented example 'Si.1-3,5': " + d, classify)
    vals = fw.coq_eval("c07", IMPORTS, exprs)
    nbad, first = 0, ""
    for e, x, mv, m in zip(exprs, exps, vals, meta):
        mvc = canon(mv) if e.startswith("enc_out (") else mv
        if mvc != x:
            nbad += 1
            first = first or "%s %s: model=%s impl=%s" % (m[0], m[1], mvc, x)
    ctx.evaluations += len(exprs)
    ctx.oblige("AtomSelection operators / slicing / selectors / selection strings == Coq model [%d cases]" % len(exprs), "correspondence", nbad == 0,
               "%d disagree; first: %s" % (nbad, first))
    ctx.sample(dict(case=meta[0], impl=exps[0], model=canon(vals[0])))
    # ---- spheres and boxes
    NG = 60 if quick else 1200
    sexprs, sgot, smeta = [], [], []
    bexprs, bgot, bmeta = [], [], []
    for t in range(NG):
        kind = lc.LKINDS[t % 5]
        L = lc.gen_lattice(rng, kind)
        pbc = lc.MASKS[(t // 5) % 8] if t % 3 else (True, True, True)
        pos = lc.gen_vectors(rng, L, rng.randint(1, 4), far=(t % 2 == 0))
        rows = sorted(lc.norm2(r) for r in L)
        far = (t % 4 == 0)
        ctr = lc.gen_vectors(rng, L, 1, far=far)[0]
        rho = rng.choice([max(1, rows[0] // 4), rows[0], rows[0] + 3, rows[1]])
        b, edge = lc.bounds_exact(L, pbc, rho, 1)
        if lc.grid_size(b) > 20000:
            continue
        periodic = rng.random() < 0.75
        c = dict(L=L, pbc=list(pbc), pos=[list(p) for p in pos], centre=list(ctr), rho=rho, periodic=periodic, scaled=False, far=far)
        try:
            ok, d, got = sphere_oracle(c)
        except Exception as e:
            ok, d, got = False, "raised %s: %s" % (type(e).__name__, e), None
        ctx.evaluations += 1
        ctx.seen(("sphere", kind, tuple(pbc), periodic, ok, len(got or [])))
        if not ok:
            ctx.fail_input("sphere", c, d, classify)
        if periodic and any(pbc) and got is not None and not edge and not any(lc.reduce_vec(L, pbc, tuple(p[i] - ctr[i] for i in range(3)))[2] for p in pos):
            sexprs.append("flat_map (fun x => match x with (w,k,n) => k :: encv n end) (all_periodic_m %s %s %d 1 (map (fun p => vsub p %s) %s))" % (
                lc.coq_L(L), lc.coq_mask(pbc), rho, "(%s,%s,%s)" % tuple(fw.zlit(x) for x in ctr), lc.coq_vs(pos)))
            sgot.append([x for (k, n) in got for x in (k,) + n])
            smeta.append(c)
        # boxes
        lo = tuple(ctr[i] - rng.randint(1, 6) for i in range(3))
        hi = tuple(ctr[i] + rng.randint(1, 6) for i in range(3))
        cb = dict(L=L, pbc=list(pbc), pos=[list(p) for p in pos], lo=list(lo), hi=list(hi), periodic=periodic, far=True)
        try:
            ok, d, got = box_oracle(cb)
        except Exception as e:
            ok, d, got = False, "raised %s: %s" % (type(e).__name__, e), None
        ctx.evaluations += 1
        ctx.seen(("box", kind, tuple(pbc), periodic, ok))
        if not ok:
            ctx.fail_input("box", cb, d, classify)
        mid2 = tuple(lo[i] + hi[i] for i in range(3))
        L2 = [[2 * x for x in r] for r in L]
        if periodic and any(pbc) and got is not None and lc.grid_size(lc.bounds_exact(L, pbc, lc.norm2(tuple(hi[i] - lo[i] for i in range(3))), 1)[0]) < 20000 and \
                not any(lc.reduce_vec(L2, pbc, tuple(2 * p[i] - mid2[i] for i in range(3)))[2] for p in pos):
            bexprs.append("flat_map (fun x => match x with (w,k,n) => k :: encv n end) (box_m %s %s %s %s %s)" % (
                lc.coq_L(L), lc.coq_mask(pbc), "(%s,%s,%s)" % tuple(fw.zlit(x) for x in lo), "(%s,%s,%s)" % tuple(fw.zlit(x) for x in hi), lc.coq_vs(pos)))
            bgot.append([x for (k, n) in got for x in (k,) + n])
            bmeta.append(cb)
    # ---- scaled=True variants (fractional coordinates live on the unit lattice): exact oracle on power-of-two diagonal cells
    for t in range(40 if quick else 800):
        diag = [rng.choice([4, 8, 16]) for _ in range(3)]
        pbc = lc.MASKS[t % 8] if t % 3 else (True, True, True)
        pos = [[rng.randint(-40, 40) for _ in range(3)] for _ in range(rng.randint(1, 4))]
        c = dict(shape="sphere" if t % 2 else "box", diag=diag, pbc=list(pbc), pos=pos, periodic=rng.random() < 0.8)
        if c["shape"] == "sphere":
            c["centre8"] = [rng.randint(-20, 20) for _ in range(3)]
            c["m"] = rng.choice([0, 1, 3, 8, 16, 40, 100])          # r^2 = (2m+1)/128: up to r ~ 1.25 cells
        else:
            c["lo8"] = [rng.randint(-20, 12) for _ in range(3)]
            c["hi8"] = [c["lo8"][i] + rng.randint(1, 14) for i in range(3)]
        try:
            ok, d, got = scaled_oracle(c)
        except Exception as e:
            ok, d, got = False, "raised %s: %s" % (type(e).__name__, e), None
        ctx.evaluations += 1
        ctx.seen(("scaled", c["shape"], tuple(pbc), c["periodic"], ok, len(got or [])))
        if not ok:
            ctx.fail_input("scaled", c, d, classify)
    if sexprs:
        vals = fw.coq_eval("c07s", IMPORTS, sexprs)
        nbad = sum(1 for a, b in zip(vals, sgot) if a != b)
        first = next(("%s model=%s impl=%s" % (m, a, b) for a, b, m in zip(vals, sgot, smeta) if a != b), "")
        ctx.oblige("from_sphere(periodic=True) (atoms, cell_indices, order) == C03 model on position-centre [%d cases]" % len(sexprs), "correspondence", nbad == 0,
                   "%d disagree; first: %s" % (nbad, first))
    if bexprs:
        vals = fw.coq_eval("c07b", IMPORTS, bexprs)
        nbad = sum(1 for a, b in zip(vals, bgot) if a != b)
        first = next(("%s model=%s impl=%s" % (m, a, b) for a, b, m in zip(vals, bgot, bmeta) if a != b), "")
        ctx.oblige("from_box(periodic=True) (atoms, cell_indices, order) == Coq box model [%d cases]" % len(bexprs), "correspondence", nbad == 0,
                   "%d disagree; first: %s" % (nbad, first))
        ctx.evaluations += len(bexprs)
    # ---- systems of different composition whose atomic numbers concatenate to the same digits (H,H / Na; H,C / S; H,Mg / Na,He; Li,H / P ...): still different systems
    from ase import Atoms as _Atoms
    COLL = [(["H", "H"], ["Na"]), (["H", "C"], ["S"]), (["H", "Mg"], ["Na", "He"]), (["Li", "H"], ["P"]), (["He", "He"], ["Ti"]), (["C", "H"], ["Pm"]), (["H", "H", "H"], ["Na", "H"])]
    for sa_, sb_ in COLL:
        A_ = _Atoms(sa_, positions=[[1.1 * i, 0, 0] for i in range(len(sa_))], cell=[9, 9, 9], pbc=True)
        B_ = _Atoms(sb_, positions=[[1.3 * i, 0.2, 0] for i in range(len(sb_))], cell=[9, 9, 9], pbc=True)
        for op in "+-*":
            ctx.evaluations += 1
            try:
                x_, y_ = AtomSelection(A_, [0]), AtomSelection(B_, [0])
                {"+": lambda: x_ + y_, "-": lambda: x_ - y_, "*": lambda: x_ * y_}[op]()
                ctx.fail_input("setop", dict(syms=sa_, other=sb_, op=op), "a selection on %s %s a selection on %s was not refused" % (sa_, op, sb_), classify)
            except ValueError:
                pass
            except Exception as e:
                ctx.fail_input("setop", dict(syms=sa_, other=sb_, op=op), "raised %s instead of refusing: %s" % (type(e).__name__, e), classify)
        ctx.evaluations += 1
        try:
            if AtomSelection(A_, [0]).validate(B_):
                ctx.fail_input("setop", dict(syms=sa_, other=sb_, op="validate"), "validate accepts a system of different composition (%s vs %s)" % (sa_, sb_), classify)
        except Exception:
            pass
    if ctx.tier == "thorough":
        ctx.coqchk()


def replay(obj):
    k, c = obj["kind"], obj["case"]
    if k not in ("setop", "string", "sphere", "box", "scaled"):
        print("replay: nothing executable in this file: %s" % obj.get("broken_obligations"))
        return 1
    ok, d = run_case(k, c)
    print("replay %s %s -> %s %s" % (k, c, "property holds" if ok else "PROPERTY FAILS", d))
    return 0 if ok else 1
