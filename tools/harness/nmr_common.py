"""Shared pieces of the NMR-tensor checks (C01, C02, C08, C09, C10, C11, C15)."""
import itertools
import os
import sys
from fractions import Fraction

import numpy as np

import fw

IMPORTS_Q = "Require Import Sop.model.NmrUtilsQ.\n"
CONV = {"i": 0, "d": 1, "h": 2, "n": 3}


def regen_nmr_utils(ctx):
    sys.path.insert(0, os.path.join(fw.VERIF, "tools", "py2v"))
    import nmr_utils
    src = os.path.join(fw.REPO, "soprano", "nmr", "utils.py")
    name = "py2v nmr_utils: soprano/nmr/utils.py inside the translated grammar"
    try:
        txt = nmr_utils.generate(src)
        fw.write_if_changed(os.path.join(fw.COQ, "gen", "NmrUtilsBody.v"), txt)
        ctx.oblige(name, "translator", True)
        return True
    except Exception as e:  # fail closed
        ctx.oblige(name, "translator", False, repr(e))
        return False


def frac(x):
    return Fraction(float(x))


def qz(fr):
    """Fraction -> 'n d' arguments of mkq"""
    fr = Fraction(fr)
    return "%s %s" % (fw.zlit(fr.numerator), fw.zlit(fr.denominator))


def mk3(v):
    return "(mk3 %s %s %s)" % tuple(qz(x) for x in v)


def enc_fracs(vals):
    out = []
    for v in vals:
        f = Fraction(v)
        out += [f.numerator, f.denominator]
    return out


def mkframe(cols):
    """cols: three column vectors (each 3 Fractions)"""
    return "(%s, %s, %s)" % tuple(mk3(c) for c in cols)


SIGNED_PERMS = []
for p in itertools.permutations(range(3)):
    for sg in itertools.product((1, -1), repeat=3):
        P = np.zeros((3, 3))
        for i in range(3):
            P[i, p[i]] = sg[i]
        SIGNED_PERMS.append(P)


def exact_matrix(rng, vals=None):
    """P diag(ints) P^T for a signed permutation P: eigh is exact on it"""
    if vals is None:
        vals = [rng.randint(-6, 6) for _ in range(3)]
    P = SIGNED_PERMS[rng.randrange(len(SIGNED_PERMS))]
    return P @ np.diag([float(v) for v in vals]) @ P.T, vals


def random_rotation(rng):
    q = np.array([rng.gauss(0, 1) for _ in range(4)])
    q /= np.linalg.norm(q)
    a, b, c, d = q
    return np.array([[a * a + b * b - c * c - d * d, 2 * (b * c - a * d), 2 * (b * d + a * c)],
                     [2 * (b * c + a * d), a * a - b * b + c * c - d * d, 2 * (c * d - a * b)],
                     [2 * (b * d - a * c), 2 * (c * d + a * b), a * a - b * b - c * c + d * d]])


def random_tensor(rng, kind):
    """streams of 3x3 real matrices"""
    R = random_rotation(rng)
    if kind == "generic":
        return np.array([[rng.uniform(-100, 100) for _ in range(3)] for _ in range(3)])
    if kind == "symmetric":
        ev = [rng.uniform(-50, 50) for _ in range(3)]
        return R @ np.diag(ev) @ R.T
    if kind == "traceless":
        a, b = rng.uniform(-5, 5), rng.uniform(-5, 5)
        return R @ np.diag([a, b, -a - b]) @ R.T
    if kind == "axial":
        a, b = rng.uniform(-50, 50), rng.uniform(-50, 50)
        ev = [a, a, b] if rng.random() < 0.5 else [b, a, a]
        return R @ np.diag(ev) @ R.T
    if kind == "isotropic":
        a = rng.uniform(-50, 50)
        return np.eye(3) * a
    if kind == "neardeg":
        a, b = rng.uniform(-50, 50), rng.uniform(-50, 50)
        d = 10.0 ** rng.uniform(-15, -7)
        return R @ np.diag([a, a + d, b]) @ R.T
    if kind == "huge":
        return random_tensor(rng, "generic") * 10.0 ** rng.randint(6, 12)
    if kind == "tiny":
        return random_tensor(rng, "generic") * 10.0 ** -rng.randint(6, 12)
    if kind == "antisym":
        S = random_tensor(rng, "symmetric")
        K = np.array([[0, rng.uniform(-9, 9), rng.uniform(-9, 9)], [0, 0, rng.uniform(-9, 9)], [0, 0, 0]])
        return S + K - K.T
    raise ValueError(kind)


KINDS = ["generic", "symmetric", "traceless", "axial", "isotropic", "neardeg", "huge", "tiny", "antisym"]


def keys_exact(conv, ev):
    ev = [Fraction(e) for e in ev]
    if conv in "id":
        return ev
    if conv == "h":
        m = sum(ev) / 3
        return [abs(e - m) for e in ev]
    return [abs(e) for e in ev]


def has_key_tie(conv, ev):
    """two DISTINCT eigenvalues share a sort key (exact arithmetic)"""
    k = keys_exact(conv, ev)
    ev = [Fraction(e) for e in ev]
    for i in range(3):
        for j in range(i + 1, 3):
            if k[i] == k[j] and ev[i] != ev[j]:
                return True
    return False
