"""Exact integer lattice arithmetic shared by the periodic-geometry checks (C03, C04, C05, C11, C16)."""
import itertools
from math import isqrt

import numpy as np

import fw

IMPORTS = "From Coq Require Import ZArith List Bool.\nImport ListNotations.\nRequire Import Sop.model.Lattice.\n"


def cross(a, b):
    return (a[1] * b[2] - a[2] * b[1], a[2] * b[0] - a[0] * b[2], a[0] * b[1] - a[1] * b[0])


def dot(a, b):
    return a[0] * b[0] + a[1] * b[1] + a[2] * b[2]


def det(L):
    return dot(L[0], cross(L[1], L[2]))


def recip(L):
    return [cross(L[1], L[2]), cross(L[2], L[0]), cross(L[0], L[1])]


def comb(n, L):
    return tuple(n[0] * L[0][i] + n[1] * L[1][i] + n[2] * L[2][i] for i in range(3))


def vadd(a, b):
    return tuple(x + y for x, y in zip(a, b))


def norm2(a):
    return dot(a, a)


def ceil_sqrt_frac(num, den):
    """least b >= 0 with b*b*den >= num"""
    b = isqrt(num // den)
    while b * b * den < num:
        b += 1
    while b > 0 and (b - 1) * (b - 1) * den >= num:
        b -= 1
    return b


def bounds_exact(L, pbc, rn, rd):
    """exact ceil(r*sqrt(Ginv_ii)) per axis, masked; also whether some axis sits exactly on an integer"""
    D = det(L)
    c = recip(L)
    out, edge = [], False
    for i in range(3):
        if not pbc[i]:
            out.append(0)
            continue
        num, den = rn * norm2(c[i]), D * D * rd
        b = ceil_sqrt_frac(num, den)
        if b * b * den == num:
            edge = True
        out.append(b)
    return out, edge


def fracnum(L, v):
    c = recip(L)
    return [dot(v, c[i]) for i in range(3)]


def round_half_even(a, d):
    if d < 0:
        a, d = -a, -d
    q, r = divmod(a, d)
    if 2 * r < d:
        return q
    if 2 * r > d:
        return q + 1
    return q if q % 2 == 0 else q + 1


def reduce_vec(L, pbc, v):
    D = det(L)
    F = fracnum(L, v)
    s = tuple(round_half_even(F[i], D) if pbc[i] else 0 for i in range(3))
    half = any(pbc[i] and (2 * F[i]) % D == 0 and (2 * F[i] // D) % 2 != 0 for i in range(3))
    sl = comb(s, L)
    return tuple(v[i] - sl[i] for i in range(3)), s, half


def brute_images(L, pbc, v, rn, rd, nonzero_only=False):
    """all admissible n with |v+nL|^2 <= rn/rd (exact), by scanning a provably sufficient box around the reduced vector"""
    v2, s, _ = reduce_vec(L, pbc, v)
    b, _ = bounds_exact(L, pbc, rn, rd)
    out = []
    rng = [range(-(b[i] + 1), b[i] + 2) if pbc[i] else range(0, 1) for i in range(3)]
    for n in itertools.product(*rng):
        w = vadd(v2, comb(n, L))
        if norm2(w) * rd <= rn and not (nonzero_only and norm2(w) == 0):
            out.append((tuple(n[i] - s[i] for i in range(3)), w))
    return out


def brute_min(L, pbc, v, excl):
    """exact minimal squared length of an admissible image (non-zero if excl); None if no such image"""
    v2, s, _ = reduce_vec(L, pbc, v)
    rho = norm2(v2)
    if excl:
        rows = [norm2(L[i]) for i in range(3) if pbc[i]]
        if rows:
            rho = max(rho, min(rows))
        elif rho == 0:
            return None
    ims = brute_images(L, pbc, v2, rho, 1, nonzero_only=excl)
    return min(norm2(w) for _, w in ims) if ims else None


def gen_lattice(rng, kind):
    """integer lattices: rows"""
    if kind == "ortho":
        return [[rng.randint(3, 12), 0, 0], [0, rng.randint(3, 12), 0], [0, 0, rng.randint(3, 12)]]
    if kind == "sheared":
        a, b, c = rng.randint(3, 9), rng.randint(3, 9), rng.randint(2, 9)
        return [[a, 0, 0], [rng.randint(-12, 12), b, 0], [rng.randint(-12, 12), rng.randint(-12, 12), c]]
    if kind == "slab":      # thin, strongly sheared third axis (family of the F-03a witness)
        a = rng.randint(15, 30)
        return [[a, 0, 0], [0, a, 0], [rng.randint(5, 12), rng.randint(-3, 3), rng.randint(1, 2)]]
    if kind == "lefthanded":
        L = gen_lattice(rng, "sheared")
        L[0], L[1] = L[1], L[0]
        return L
    if kind == "general":
        while True:
            L = [[rng.randint(-7, 7) for _ in range(3)] for _ in range(3)]
            if abs(det(L)) >= 20:
                return L
    if kind == "nearsingular":
        while True:
            L = [[rng.randint(4, 9), 0, 0], [rng.randint(-3, 3), rng.randint(4, 9), 0], [0, 0, 0]]
            L[2] = [L[0][0] + L[1][0] + rng.randint(-1, 1), L[0][1] + L[1][1] + rng.randint(-1, 1), rng.choice([1, -1])]
            if det(L) != 0:
                return L
    raise ValueError(kind)


LKINDS = ["ortho", "sheared", "slab", "lefthanded", "general", "nearsingular"]
MASKS = list(itertools.product((True, False), repeat=3))


def gen_vectors(rng, L, n, far=True):
    vs = []
    for _ in range(n):
        k = rng.random()
        if k < 0.15:
            vs.append((0, 0, 0))
        elif k < 0.3:
            vs.append(comb([rng.randint(-3, 3) for _ in range(3)], L))         # exact lattice vector
        elif k < 0.65 or not far:
            f = [rng.randint(-9, 9) for _ in range(3)]                          # inside / near the cell
            vs.append(tuple(int(round(sum(f[j] * L[j][i] for j in range(3)) / 10)) for i in range(3)))
        else:
            m = comb([rng.randint(-3, 3) for _ in range(3)], L)                  # far outside
            vs.append(tuple(m[i] + rng.randint(-6, 6) for i in range(3)))
    return vs


def coq_L(L):
    return "(mkL %s)" % " ".join(fw.zlit(x) for r in L for x in r)


def coq_mask(pbc):
    return "(mkm %d %d %d)" % tuple(1 if p else 0 for p in pbc)


def coq_vs(vs):
    return "(mkvs %s)" % fw.zlist([x for v in vs for x in v])


def grid_size(b):
    return (2 * b[0] + 1) * (2 * b[1] + 1) * (2 * b[2] + 1)
