"""C16 - transforms are pure isometries and structure generators keep their promises."""
import itertools
import math
import warnings
from fractions import Fraction as Fr

import numpy as np

import fw
from harness import lattice_common as lc

warnings.filterwarnings("ignore")
IMPORTS = ("From Coq Require Import ZArith List Bool.\nImport ListNotations.\nRequire Import Sop.model.TransformQ Sop.model.Combs.\nLocal Open Scope Z_scope.\n"
           "Definition nn (l : list Z) : list nat := map Z.to_nat l.\n")


def classify(kind, case, detail):
    return None


def q(v):
    f = Fr(v)
    return "(mkq %s %d)" % (fw.zlit(f.numerator), f.denominator)


def qp(p):
    return "(%s, %s, %s)" % tuple(q(x) for x in p)


def mk_atoms(rng, n, cellkind):
    from ase import Atoms
    cell = {"cubic": np.eye(3) * 8.0, "ortho": np.diag([6.0, 8.0, 10.0]), "sheared": np.array([[8.0, 0, 0], [2.0, 8.0, 0], [-1.0, 3.0, 8.0]])}[cellkind]
    pos = np.array([[rng.randint(-40, 80) / 4.0 for _ in range(3)] for _ in range(n)])       # also outside the cell
    syms = [rng.choice(["H", "C", "O", "Si"]) for _ in range(n)]
    return Atoms(syms, positions=pos, cell=cell, pbc=True)


def snapshot(a):
    return (a.get_positions().copy(), list(a.get_chemical_symbols()), np.array(a.get_cell()).copy(), {k: v.copy() for k, v in a.arrays.items()})


def same_snapshot(s1, s2):
    return np.array_equal(s1[0], s2[0]) and s1[1] == s2[1] and np.array_equal(s1[2], s2[2]) and all(np.array_equal(s1[3][k], s2[3][k]) for k in s1[3])


def rat_quaternion(rng):
    """a unit quaternion with rational components (w, x, y, z) from an integer 4-tuple: (a,b,c,d)/sqrt is irrational in general, so use
    the rational parametrisation q = (a^2 - |v|^2, 2 a v) / (a^2 + |v|^2)"""
    while True:
        a, b, c, d = (rng.randint(-3, 3) for _ in range(4))
        n2 = a * a + b * b + c * c + d * d
        if n2:
            break
    # q0 = (a,b,c,d); q0^2 / |q0|^2 is a unit quaternion with rational components
    w = Fr(a * a - b * b - c * c - d * d, n2)
    return (w, Fr(2 * a * b, n2), Fr(2 * a * c, n2), Fr(2 * a * d, n2))


def run(ctx):
    from ase.quaternions import Quaternion
    from soprano.collection.generate import defectGen, linspaceGen, rattleGen, substitutionGen
    from soprano.properties.transform import Mirror, Rotate, Translate
    from soprano.rnd import Random
    from soprano.selection import AtomSelection
    rng = ctx.rng
    quick = ctx.tier == "quick"
    ctx.rule = ("structures of 1-6 atoms with dyadic coordinates inside and outside the cell (cubic, orthorhombic, sheared) x random selections x vectors / rational "
                "unit quaternions / centres / planes with non-unit normals x scaled or absolute coordinates; linspaceGen x steps 2-7 x periodic; rattleGen x "
                "amplitudes scalar/N/Nx3 x methods; substitutionGen x N<=7 x n; defectGen with Poisson radius x cells x seeds; reseed reproducibility")
    ctx.trusted += ["hand model coq/model/TransformBody.v (ASE's quaternion rotation matrix written out), Combs.v; ase.Atoms copying/slicing and numpy RNG are "
                    "exercised, not modelled", "Poisson-sphere guarantee, periodic interpolation target and reseed reproducibility are judged by exact / run-twice oracles only"]
    ctx.build_props()
    ctx.build_models(["model/TransformQ.vo", "model/Combs.vo", "model/Lattice.vo"])
    exprs, got, meta = [], [], []
    N = 80 if quick else 2000
    for t in range(N):
        n = rng.randint(1, 6)
        ck = ["cubic", "ortho", "sheared"][t % 3]
        atoms = mk_atoms(rng, n, ck)
        sel_i = sorted(rng.sample(range(n), rng.randint(0, n)))
        sel = AtomSelection(atoms, sel_i)
        before = snapshot(atoms)
        pos0 = atoms.get_positions()
        scaled = rng.random() < 0.3
        kind = rng.choice(["translate", "rotate", "mirror-point", "mirror-plane"])
        case = dict(kind=kind, pos=pos0.tolist(), cell=np.array(atoms.get_cell()).tolist(), sel=sel_i, scaled=scaled)
        try:
            cellm = np.array(atoms.get_cell())
            X0 = np.linalg.solve(cellm.T, pos0.T).T if scaled else pos0       # un-wrapped fractional coordinates
            if kind == "translate":
                v = [rng.randint(-16, 16) / 8.0 for _ in range(3)]
                case["vector"] = v
                out = Translate(selection=sel, vector=v, scaled=scaled)(atoms)
                f = lambda p: p + np.array(v)
                coq = "translate %s" % qp(v)
                back = Translate(selection=sel, vector=[-x for x in v], scaled=scaled)(out)
            elif kind == "rotate":
                qt = rat_quaternion(rng)
                c = [rng.randint(-8, 8) / 4.0 for _ in range(3)]
                case["quaternion"], case["center"] = [str(x) for x in qt], c
                Q = Quaternion([float(x) for x in qt])
                out = Rotate(selection=sel, quaternion=Q, center=c, scaled=scaled)(atoms)
                Rm = Q.rotation_matrix()
                f = lambda p: Rm @ (p - np.array(c)) + np.array(c)
                coq = "rotate (%s, %s, %s, %s) %s" % (q(qt[0]), q(qt[1]), q(qt[2]), q(qt[3]), qp(c))
                back = Rotate(selection=sel, quaternion=Q.conjugate(), center=c, scaled=scaled)(out)
            elif kind == "mirror-point":
                c = [rng.randint(-8, 8) / 4.0 for _ in range(3)]
                case["center"] = c
                out = Mirror(selection=sel, center=c, scaled=scaled)(atoms)
                f = lambda p: 2 * np.array(c) - p
                coq = "mirror_point %s" % qp(c)
                back = Mirror(selection=sel, center=c, scaled=scaled)(out)
            else:
                nrm = [rng.randint(-3, 3) for _ in range(3)]
                if not any(nrm):
                    nrm = [0, 0, 2]
                d = rng.randint(-8, 8) / 2.0
                case["plane"] = nrm + [d]
                out = Mirror(selection=sel, plane=nrm + [d], scaled=scaled)(atoms)
                nv = np.array(nrm, float)
                f = lambda p: p - 2 * (np.dot(p, nv) + d) / np.dot(nv, nv) * nv
                coq = "mirror_plane %s %s" % (qp(nrm), q(d))
                back = Mirror(selection=sel, plane=nrm + [d], scaled=scaled)(out)
                # any non-zero multiple of (normal, offset) defines the same mirror
                k = rng.choice([2.0, -0.5, 3.0])
                out2 = Mirror(selection=sel, plane=[k * x for x in nrm] + [k * d], scaled=scaled)(atoms)
                ctx.evaluations += 1
                if not np.allclose(out2.get_positions(), out.get_positions(), atol=1e-9):
                    ctx.fail_input("transform", case, "the plane (k n, k d) with k=%s does not define the same mirror as (n, d)" % k, classify)
        except Exception as e:
            ctx.fail_input("transform", case, "%s raised %s: %s" % (kind, type(e).__name__, e), classify)
            continue
        ctx.evaluations += 1
        ctx.seen(("transform", kind, scaled, len(sel_i), n))
        if not same_snapshot(before, snapshot(atoms)):
            ctx.fail_input("transform", case, "%s modified its input structure" % kind, classify)
        outpos = out.get_positions()
        X1 = np.linalg.solve(cellm.T, outpos.T).T if scaled else outpos
        p = None
        if len(out) != n or out.get_chemical_symbols() != atoms.get_chemical_symbols() or not np.allclose(out.get_cell(), atoms.get_cell()):
            p = "composition or cell changed"
        else:
            for i in range(n):
                want = f(X0[i]) if i in sel_i else X0[i]
                if not np.allclose(X1[i], want, atol=1e-9):
                    p = "atom %d (%s) is at %s, expected %s" % (i, "selected" if i in sel_i else "NOT selected", list(np.round(X1[i], 6)), list(np.round(want, 6)))
                    break
        if p is None and not np.allclose(back.get_positions(), pos0, atol=1e-9):
            p = "applying the inverse motion does not restore the original positions"
        if p:
            ctx.fail_input("transform", case, p, classify)
        # model
        exprs.append("flat_map encp (apply_sel (%s) (nn %s) [%s])" % (coq, fw.zlist(sel_i), "; ".join(qp(x) for x in X0.tolist()) if not scaled else "; ".join(qp([Fr(v_).limit_denominator(10 ** 6) for v_ in x]) for x in X0.tolist())))
        got.append(X1.tolist())
        meta.append(case)
    vals = fw.coq_eval("c16", IMPORTS, exprs)
    nbad, first = 0, ""
    for mv, g_, m_ in zip(vals, got, meta):
        want = [mv[i] / mv[i + 1] for i in range(0, len(mv), 2)]
        flat = [x for p_ in g_ for x in p_]
        if len(want) != len(flat) or any(abs(a - b) > 1e-6 * max(1.0, abs(a)) for a, b in zip(want, flat)):
            nbad += 1
            first = first or "%s: model %s impl %s" % (m_, want[:6], flat[:6])
    ctx.evaluations += len(exprs)
    ctx.oblige("Translate / Rotate / Mirror outputs == Coq model (exact rationals vs floats) [%d cases]" % len(exprs), "correspondence", nbad == 0, "%d disagree; first: %s" % (nbad, first))
    # ---- linspaceGen
    lin_exprs, lin_got = [], []
    for t in range(30 if quick else 600):
        n = rng.randint(1, 4)
        L = lc.gen_lattice(rng, lc.LKINDS[t % 5])
        p0 = lc.gen_vectors(rng, L, n, far=False)
        p1 = lc.gen_vectors(rng, L, n, far=(t % 2 == 0))
        from ase import Atoms
        a0 = Atoms(["H"] * n, positions=np.array(p0, float), cell=np.array(L, float), pbc=True)
        a1 = Atoms(["H"] * n, positions=np.array(p1, float), cell=np.array(L, float), pbc=True)
        steps = rng.randint(2, 7)
        per = rng.random() < 0.6
        case = dict(L=[list(r) for r in L], p0=[list(p) for p in p0], p1=[list(p) for p in p1], steps=steps, periodic=per)
        try:
            out = list(linspaceGen(a0, a1, steps=steps, periodic=per))
        except Exception as e:
            ctx.fail_input("linspace", case, "raised %s: %s" % (type(e).__name__, e), classify)
            continue
        ctx.evaluations += 1
        ctx.seen(("linspace", steps, per))
        p = None
        if len(out) != steps or any(o.get_chemical_symbols() != a0.get_chemical_symbols() or not np.allclose(o.get_cell(), a0.get_cell()) for o in out):
            p = "wrong number of structures, or composition / cell changed"
        elif not np.allclose(out[0].get_positions(), np.array(p0, float), atol=1e-9):
            p = "the first structure is not the first end point"
        else:
            last = out[-1].get_positions()
            for i in range(n):
                d = np.array(last[i]) - np.array(p0[i], float)
                tgt = tuple(p1[i][k] - p0[i][k] for k in range(3))
                if per:
                    m2 = lc.brute_min(L, (True, True, True), tgt, False)
                    w = d - np.array(tgt, float)
                    fcoord = np.linalg.solve(np.array(L, float).T, w)
                    if abs(float(np.dot(d, d)) - m2) > 1e-6 or np.abs(fcoord - np.round(fcoord)).max() > 1e-6:
                        p = "periodic: atom %d travels %s (length^2 %.6f); the nearest image of its target is at length^2 %d" % (i, list(np.round(d, 4)), float(np.dot(d, d)), m2)
                        break
                elif not np.allclose(d, np.array(tgt, float), atol=1e-9):
                    p = "the last structure is not the second end point"
                    break
            for k_, o in enumerate(out):
                tt = k_ / (steps - 1)
                if not np.allclose(o.get_positions(), (1 - tt) * out[0].get_positions() + tt * last, atol=1e-9):
                    p = p or "structure %d is not on the straight line between the end points" % k_
        if p:
            ctx.fail_input("linspace", case, p, classify)
        elif per:
            # the model of props/C16/periodic_interpolation.v: (steps-1) x every position of the path, from the C03 model of minimum_periodic.
            # Compared by squared length of the travel (ties between equally near images may pick different cells) and by exact steps.
            tg = [tuple(p1[i][k] - p0[i][k] for k in range(3)) for i in range(n)]
            lin_exprs.append("flat_map (fun r => [norm2 (fst r)]) (minimum_periodic_m %s %s false %s)" % (lc.coq_L(L), lc.coq_mask((True, True, True)), lc.coq_vs(tg)))
            lin_got.append([int(round(float(np.dot(out[-1].get_positions()[i] - np.array(p0[i], float), out[-1].get_positions()[i] - np.array(p0[i], float))))) for i in range(n)])
    if lin_exprs:
        lv = fw.coq_eval("c16l", "From Coq Require Import ZArith List Bool.\nImport ListNotations.\nRequire Import Sop.model.Lattice.\nLocal Open Scope Z_scope.\n", lin_exprs)
        lbad = sum(1 for a_, b_ in zip(lv, lin_got) if list(a_) != list(b_))
        ctx.evaluations += len(lin_exprs)
        ctx.oblige("linspaceGen(periodic=True): squared travel of every atom == norm2 of the Coq minimum image of pos1 - pos0 [%d cases]" % len(lin_exprs), "correspondence", lbad == 0,
                   "%d disagree" % lbad)
    # ---- rattleGen (+ reseed reproducibility)
    for t in range(20 if quick else 300):
        n = rng.randint(1, 5)
        atoms = mk_atoms(rng, n, "cubic")
        form = rng.choice(["scalar", "N", "Nx3"])
        amp = {"scalar": rng.randint(1, 8) / 16.0, "N": [rng.randint(0, 8) / 16.0 for _ in range(n)], "Nx3": [[rng.randint(0, 8) / 16.0 for _ in range(3)] for _ in range(n)]}[form]
        A = np.array(amp, float)
        A = A[:, None] if A.ndim == 1 else A
        seed = rng.randint(0, 10 ** 6)
        Random.reseed(seed)
        run1 = [s.get_positions() for s in rattleGen(atoms, amplitude=amp, n=6, method="uniform")]
        Random.reseed(seed)
        run2 = [s.get_positions() for s in rattleGen(atoms, amplitude=amp, n=6, method="uniform")]
        Random.reseed(seed)
        nrm1 = [s.get_positions() for s in rattleGen(atoms, amplitude=amp, n=3, method="normal")]
        Random.reseed(seed)
        nrm2 = [s.get_positions() for s in rattleGen(atoms, amplitude=amp, n=3, method="normal")]
        ctx.evaluations += 1
        ctx.seen(("rattle", form, n))
        case = dict(amp=amp, n=n, seed=seed)
        if any((np.abs(r - atoms.get_positions()) > A + 1e-12).any() for r in run1):
            ctx.fail_input("rattle", case, "a uniform rattle moved a coordinate by more than its amplitude", classify)
        if not all(np.array_equal(a_, b_) for a_, b_ in zip(run1 + nrm1, run2 + nrm2)):
            ctx.fail_input("rattle", case, "re-seeding the random source does not reproduce the rattled structures", classify)
        if len(run1) != 6 or all(np.array_equal(run1[0], r) for r in run1[1:]) and np.any(A > 0):
            ctx.fail_input("rattle", case, "rattleGen did not yield 6 different structures", classify)
    # ---- substitutionGen vs combinations
    cexprs, cgot, cmeta = [], [], []
    for t in range(25 if quick else 300):
        n = rng.randint(1, 7)
        atoms = mk_atoms(rng, n, "cubic")
        atoms.set_chemical_symbols(["C"] * n)
        sel_i = sorted(rng.sample(range(n), rng.randint(1, n)))
        k = rng.randint(1, min(3, len(sel_i)))
        try:
            out = list(substitutionGen(atoms, "Si", to_replace=AtomSelection(atoms, sel_i), n=k))
        except Exception as e:
            ctx.fail_input("substitution", dict(n=n, sel=sel_i, k=k), "raised %s: %s" % (type(e).__name__, e), classify)
            continue
        combos = [tuple(i for i, s_ in enumerate(o.get_chemical_symbols()) if s_ == "Si") for o in out]
        want = list(itertools.combinations(sel_i, k))
        ctx.evaluations += 1
        ctx.seen(("subst", len(sel_i), k))
        if combos != want or any(len(o) != n or not np.allclose(o.get_positions(), atoms.get_positions()) for o in out):
            ctx.fail_input("substitution", dict(n=n, sel=sel_i, k=k), "substitutions %s are not every combination exactly once %s (or positions changed)" % (combos[:4], want[:4]), classify)
        cexprs.append("map Z.of_nat (concat (combs %d (nn %s)))" % (k, fw.zlist(sel_i)))
        cgot.append([i for c_ in combos for i in c_])
        cmeta.append(dict(sel=sel_i, k=k))
    cv = fw.coq_eval("c16c", IMPORTS, cexprs)
    cb = sum(1 for a_, b_ in zip(cv, cgot) if list(a_) != list(b_))
    ctx.evaluations += len(cexprs)
    ctx.oblige("substitutionGen sites (in order) == Coq combinations [%d cases]" % len(cexprs), "correspondence", cb == 0,
               "%d disagree; first: %s" % (cb, next(("%s model=%s impl=%s" % (m_, a_, b_) for a_, b_, m_ in zip(cv, cgot, cmeta) if list(a_) != list(b_)), "")))
    # ---- defectGen: Poisson spheres under periodic boundaries, contact distance to atoms, reproducibility
    a_ = 6.0
    CELLS = [np.eye(3) * 6.0, np.diag([5.0, 6.0, 7.0]), np.array([[6.0, 0, 0], [2.0, 6.0, 0], [1.0, 1.0, 6.0]]),
             # acute cells: 60-degree rhombohedral (fcc primitive), 60-degree hexagonal setting, acute triclinic
             np.array([[0, a_ / 2, a_ / 2], [a_ / 2, 0, a_ / 2], [a_ / 2, a_ / 2, 0]]) * 1.6,
             np.array([[6.0, 0, 0], [3.0, 5.196152422706632, 0], [0, 0, 7.0]]),
             np.array([[6.0, 0, 0], [3.5, 5.0, 0], [3.0, 2.0, 5.5]])]
    for t in range(12 if quick else 120):
        from ase import Atoms
        cellm = CELLS[t % len(CELLS)]
        fr = np.array([[0.1, 0.1, 0.1], [0.5, 0.5, 0.5], [0.8, 0.3, 0.6]])
        atoms = Atoms("C3", scaled_positions=fr, cell=cellm, pbc=True)
        r = rng.choice([1.5, 2.0, 2.5])
        avoid = rng.random() < 0.7
        seed = rng.randint(0, 10 ** 6)
        case = dict(cell=cellm.tolist(), r=r, avoid=avoid, seed=seed)

        def pts(seed_):
            Random.reseed(seed_)
            g = defectGen(atoms, "H", poisson_r=r, avoid_atoms=avoid)
            return [s_.get_positions()[0] for s_ in itertools.islice(g, 150)]
        try:
            P1, P2 = pts(seed), pts(seed)
        except ValueError as e:
            if "too big" in str(e):          # the sampler refuses radii its grid cannot handle: a loud refusal, not a wrong answer
                ctx.seen(("defect-refused", t % len(CELLS), r))
                continue
            ctx.fail_input("defect", case, "defectGen raised ValueError: %s" % e, classify)
            continue
        except Exception as e:
            ctx.fail_input("defect", case, "defectGen raised %s: %s" % (type(e).__name__, e), classify)
            continue
        ctx.evaluations += 1
        ctx.seen(("defect", t % len(CELLS), r, avoid, len(P1)))
        if len(P1) != len(P2) or not all(np.allclose(a_, b_) for a_, b_ in zip(P1, P2)):
            ctx.fail_input("defect", case, "re-seeding does not reproduce the defect positions", classify)
        from ase.geometry import get_distances
        if len(P1) > 1:
            _, D = get_distances(np.array(P1), cell=cellm, pbc=True)
            D = D + np.eye(len(P1)) * 1e9
            if D.min() < r - 1e-9:
                ctx.fail_input("defect", case, "two defects are %.4f apart under periodic boundaries (requested radius %s)" % (D.min(), r), classify)
        if avoid and P1:
            from soprano.data import vdw_radii
            from ase.data import atomic_numbers
            cut = (vdw_radii["csd"][6] + vdw_radii["csd"][atomic_numbers["H"]]) / 2.0
            _, D2 = get_distances(np.array(P1), atoms.get_positions(), cell=cellm, pbc=True)
            if D2.min() < cut - 1e-9:
                ctx.fail_input("defect", case, "a defect is %.4f from an atom (contact distance %.4f)" % (D2.min(), cut), classify)
    if ctx.tier == "thorough":
        ctx.coqchk()


def replay(obj):
    c = obj.get("case") or {}
    if obj.get("kind") == "transform" and "pos" in c and c.get("kind") in ("translate", "rotate", "mirror-point", "mirror-plane"):
        from ase import Atoms
        from ase.quaternions import Quaternion
        from fractions import Fraction
        from soprano.properties.transform import Mirror, Rotate, Translate
        from soprano.selection import AtomSelection
        pos0, cellm = np.array(c["pos"], float), np.array(c["cell"], float)
        n, sel_i, scaled = len(pos0), list(c["sel"]), bool(c["scaled"])
        atoms = Atoms("H%d" % n, positions=pos0, cell=cellm, pbc=True)
        sel = AtomSelection(atoms, sel_i)
        X0 = np.linalg.solve(cellm.T, pos0.T).T if scaled else pos0
        p = None
        try:
            if c["kind"] == "translate":
                v = np.array(c["vector"], float)
                out = Translate(selection=sel, vector=list(v), scaled=scaled)(atoms)
                f = lambda x: x + v
            elif c["kind"] == "rotate":
                Q = Quaternion([float(Fraction(x)) for x in c["quaternion"]])
                ce = np.array(c["center"], float)
                out = Rotate(selection=sel, quaternion=Q, center=list(ce), scaled=scaled)(atoms)
                Rm = Q.rotation_matrix()
                f = lambda x: Rm @ (x - ce) + ce
            elif c["kind"] == "mirror-point":
                ce = np.array(c["center"], float)
                out = Mirror(selection=sel, center=list(ce), scaled=scaled)(atoms)
                f = lambda x: 2 * ce - x
            else:
                nv, d = np.array(c["plane"][:3], float), float(c["plane"][3])
                out = Mirror(selection=sel, plane=list(c["plane"]), scaled=scaled)(atoms)
                f = lambda x: x - 2 * (np.dot(x, nv) + d) / np.dot(nv, nv) * nv
            outpos = out.get_positions()
            X1 = np.linalg.solve(cellm.T, outpos.T).T if scaled else outpos
            for i in range(n):
                want = f(X0[i]) if i in sel_i else X0[i]
                if not np.allclose(X1[i], want, atol=1e-9):
                    p = "atom %d (%s) is at %s, expected %s" % (i, "selected" if i in sel_i else "NOT selected", list(np.round(X1[i], 6)), list(np.round(want, 6)))
                    break
            if p is None and not np.allclose(atoms.get_positions(), pos0):
                p = "the input structure was modified"
        except Exception as e:
            p = "raised %s: %s" % (type(e).__name__, e)
        print("replay transform %s (scaled=%s, %d atoms, selection %s) -> %s" % (c["kind"], scaled, n, sel_i, "property holds" if not p else "PROPERTY FAILS: " + p))
        return 0 if not p else 1
    print("replay: nothing executable in this file (re-run ./check C16 with VERIF_SEED=%s): %s %s" % (obj.get("seed"), obj.get("kind"), str(obj.get("detail"))[:300]))
    return 1


def _old_replay(obj):

    print("replay: re-run ./check C16 (inputs are regenerated from the seed %s); recorded case: %s %s" % (obj.get("seed"), obj.get("kind"), str(obj.get("case"))[:400]))
    print(obj.get("detail"))
    return 1
