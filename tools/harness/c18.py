"""C18 - a Submitter runs every job exactly once, bounded, under any schedule or stop.

The REAL soprano.hpc.submitter.Submitter is driven in-process: a scripted subclass (next_job / setup_job / finish_job /
save_state / load_state), an in-memory QueueInterface whose jobs live for a given number of polls, tempfile.mkdtemp /
shutil.rmtree of the submit module wrapped to log, time.sleep removed, reads of self._running logged through a property.
The termination handler (_catch_signal(SIGTERM)) is delivered from a sys.settrace line hook at a chosen executed line (of
submit.py or of any callback).  The event log of the run must equal the trace of the Coq model (coq/model/Submitter.v)
evaluated by vm_compute with the stop placed after the same number of events; independent monitors state the property
directly on the log (used to look for a concrete failing schedule when something breaks).
"""
import itertools
import os
import shutil
import signal
import sys
import tempfile

import fw

IMPORTS = ("From Coq Require Import ZArith List Bool.\nImport ListNotations.\nRequire Import Sop.model.Submitter.\n"
           "Local Open Scope Z_scope.\n")


class Quiet(BaseException):
    pass


def make_classes():
    from soprano.hpc.submitter import QueueInterface, Submitter

    class FakeQ(QueueInterface):
        def __init__(self, lifetimes, log):
            super().__init__("sub", "list", "kill", "(?P<job_id>x)", "(?P<job_id>x)")
            self.lifetimes = list(lifetimes)
            self.q = {}
            self.n = 0
            self.log = log
            self.current = None
            self.names = {}

        def set_remote_host(self, host=None, timeout=1.0):
            self._rTarg = None

        def submit(self, script, cwd=None):
            jid = self.n
            self.n += 1
            name = int(script.strip())
            self.q[jid] = self.lifetimes[name] if name < len(self.lifetimes) else 0
            self.names[jid] = name
            self.log.append([5, jid, name])
            return jid

        def list(self, user="$USER"):
            out = {j: {} for j, l in self.q.items() if l > 0}
            c = self.current
            if c in self.q and self.q[c] > 0:
                self.q[c] -= 1
            return out

        def kill(self, jid):
            self.log.append([8, jid])
            self.q.pop(jid, None)

    class S(Submitter):
        # every read of the loop flag is an event
        @property
        def _running(self):
            v = self.__dict__.get("_running_", False)
            self.evlog.append([0, 1 if v else 0])
            return v

        @_running.setter
        def _running(self, v):
            self.__dict__["_running_"] = v

        def next_job(self):
            if self.pos >= len(self.stream):
                self.evlog.append([1, -1])
                return None
            n = self.pos
            self.pos += 1
            self.evlog.append([1, n])
            return {"name": str(n), "args": {"ok": self.stream[n]}}

        def setup_job(self, name, args, folder):
            self.evlog.append([3, int(name), 1 if args["ok"] else 0])
            return args["ok"]

        def check_job(self, job_id, name, args, folder):
            self.queue.current = job_id
            d = super().check_job(job_id, name, args, folder)
            self.evlog.append([6, job_id, 1 if d else 0])
            return d

        def finish_job(self, name, args, folder):
            if not os.path.isdir(folder):
                self.evlog.append([-3, int(name)])          # finalised after its folder was removed
            self.evlog.append([7, int(name)])

        def save_state(self):
            self.evlog.append([9])
            return {"pos": self.pos}

        def load_state(self, d):
            self.pos = d["pos"]

    return FakeQ, S


class Env:
    """patches the submit module (sleep, mkdtemp, rmtree) for one scenario"""

    def __init__(self):
        import soprano.hpc.submitter.submit as submod
        self.submod = submod
        self.log = []
        self.fnum = {}

    def __enter__(self):
        sm = self.submod
        self.saved = (sm.time.sleep, sm.tempfile.mkdtemp, sm.shutil.rmtree)
        self.cwd = os.getcwd()
        self.dir = tempfile.mkdtemp(prefix="c18_")
        self.tmp = os.path.join(self.dir, "tmp")
        os.mkdir(self.tmp)
        os.chdir(self.dir)
        real_mk, real_rm = self.saved[1], self.saved[2]

        class T:
            pass

        def mk(dir=None, **kw):
            p = real_mk(dir=dir, **kw)
            self.fnum[p] = len(self.fnum)
            self.log.append([2, self.fnum[p]])
            return p

        def rm(p, *a, **kw):
            self.log.append([4, self.fnum.get(p, -1)])
            return real_rm(p, *a, **kw)

        t = type("timeshim", (), {"sleep": staticmethod(lambda s: None), "time": staticmethod(self.saved_time())})
        sm.time = t
        sm.tempfile = type("tmpshim", (), {"mkdtemp": staticmethod(mk)})
        sm.shutil = type("shshim", (), {"rmtree": staticmethod(rm)})
        return self

    def saved_time(self):
        import time as _t
        return _t.time

    def __exit__(self, *a):
        import shutil as _sh
        import tempfile as _tf
        import time as _t
        self.submod.time, self.submod.tempfile, self.submod.shutil = _t, _tf, _sh
        os.chdir(self.cwd)
        _sh.rmtree(self.dir, ignore_errors=True)


def traced_start(sub, env, stop_line=None, stop_quiescent=True, stop_events=None):
    """runs sub.start(); delivers SIGTERM's handler at executed line number stop_line (1-based, counted over submit.py and the
    harness callbacks), or when stop_events events have been logged, or at quiescence.  Returns (lines, events at stop, error)."""
    files = {env.submod.__file__, __file__}
    cnt = [0]
    fired = [None]
    idle = [0]

    def in_loop(frame):
        # "at any point of the loop": the handler is delivered while _main_loop (or anything it calls) is executing
        f = frame
        while f is not None:
            if f.f_code.co_name == "_main_loop":
                return True
            f = f.f_back
        return False

    def fire(frame):
        fired[0] = len(env.log)
        sub._catch_signal(signal.SIGTERM, frame)

    total = [0]

    def tracer(frame, event, arg):
        if frame.f_code.co_filename not in files:
            return None
        if event == "line":
            total[0] += 1
            if total[0] > 30000:
                raise Quiet("livelock: the run did not end within 30000 lines after the stop")
        if event == "line" and fired[0] is None and frame.f_code.co_name not in ("tracer", "fire", "traced_start", "_catch_signal", "_running") \
                and in_loop(frame):
            cnt[0] += 1
            if stop_line is not None and cnt[0] == stop_line:
                fire(frame)
            elif stop_events is not None and len(env.log) == stop_events:
                fire(frame)
            elif stop_quiescent and stop_line is None and stop_events is None:
                # quiescent: the stream is exhausted, nothing submitted, nothing waiting, and next_job has just said None
                if env.log and env.log[-1] == [1, -1] and not sub.__dict__.get("_jobs") and not sub.__dict__.get("_waiting_jobs") \
                        and sub.pos >= len(sub.stream):
                    fire(frame)
        return tracer

    err = None
    sys.settrace(tracer)
    try:
        sub.start()
    except BaseException as e:       # noqa
        err = "%s: %s" % (type(e).__name__, str(e)[:200])
    finally:
        sys.settrace(None)
    try:
        if sub._log is not None:
            sub._log.close()
    except Exception:
        pass
    return cnt[0], fired[0], err


def scenario(stream, lifes, max_jobs, cont, stop_line=None, mid_events=None):
    """one scenario on the real code: a first process stopped at executed line stop_line (None: at quiescence); with continuation
    a second process stopped after mid_events events in total (if given) and a last one that runs to quiescence.
    Returns dict(log, stops, lines, err, left, njobs, e1)."""
    FakeQ, S = make_classes()
    with Env() as env:
        q = FakeQ(lifes, env.log)

        def mksub():
            s = S("t", q, "<name>", max_jobs=max_jobs, check_time=0, max_time=0, temp_folder=env.tmp, continuation=cont)
            s.stream, s.pos, s.evlog = list(stream), 0, env.log
            return s
        s = mksub()
        lines, s1, err = traced_start(s, env, stop_line=stop_line)
        stops = [s1]
        e1 = len(env.log)
        njobs = len(s.__dict__.get("_jobs") or {})
        if cont and err is None:
            plan = ([mid_events] if mid_events is not None and mid_events >= e1 else []) + [None]
            for k, se in enumerate(plan):
                r = mksub()
                _l2, sk, err2 = traced_start(r, env, stop_events=se)
                stops.append(sk)
                njobs = len(r.__dict__.get("_jobs") or {})
                if err2:
                    err = "restart %d: %s" % (k + 1, err2)
                    break
        left = sorted(env.fnum.get(os.path.join(env.tmp, f), -1) for f in os.listdir(env.tmp))
        return dict(log=[list(e) for e in env.log], stops=stops, s1=s1, lines=lines, err=err, left=left, njobs=njobs, e1=e1)


def flat(r):
    out = [x for e in r["log"] for x in e]
    return out + [-7, len(r["left"]), r["njobs"], 1]


# ------------------------------------------------------------ the property, stated on the log

def monitor(stream, max_jobs, cont, r):
    """returns None if the run satisfies C18, else a description"""
    if r["err"]:
        return "the run raised " + r["err"]
    folder_of, name_of_folder = {}, {}
    last_next = None
    sub_id = {}
    outstanding = {}
    nsub, nfin, nset, killed = {}, {}, {}, set()
    done_ids = set()
    exists = set()
    stopped = r["s1"] if r["s1"] is not None else len(r["log"]) + 1
    pending_rm = None
    for k, e in enumerate(r["log"]):
        t = e[0]
        if t == -3:
            return "job %d finalised after its folder had been removed" % e[1]
        if t == 1:
            last_next = e[1] if e[1] >= 0 else None
        elif t == 2:
            folder_of[last_next] = e[1]
            name_of_folder[e[1]] = last_next
            exists.add(e[1])
        elif t == 3:
            nset[e[1]] = nset.get(e[1], 0) + 1
            if nset[e[1]] > 1:
                return "job %d set up twice" % e[1]
            if not e[2]:
                pending_rm = folder_of.get(e[1])
        elif t == 4:
            if e[1] not in exists:
                return "rmtree of folder %d which does not exist" % e[1]
            exists.discard(e[1])
            if pending_rm is not None and e[1] == pending_rm:
                pending_rm = None
        elif t == 5:
            if pending_rm is not None:
                return "folder %d of a job that failed setup was not removed before the next submission" % pending_rm
            jid, n = e[1], e[2]
            nsub[n] = nsub.get(n, 0) + 1
            if nsub[n] > 1:
                return "job %d submitted twice" % n
            if not stream[n]:
                return "job %d failed setup but was submitted" % n
            if nset.get(n, 0) != 1:
                return "job %d submitted without setup" % n
            sub_id[jid] = n
            outstanding[jid] = n
            if len(outstanding) > max_jobs:
                return "%d jobs submitted at once (max_jobs=%d)" % (len(outstanding), max_jobs)
        elif t == 6:
            if e[2]:
                done_ids.add(e[1])
        elif t == 7:
            n = e[1]
            ids = [j for j, m in outstanding.items() if m == n]
            if ids and not (set(ids) & (done_ids | killed)):
                return "job %d finalised although the queue never reported it finished and it was not killed" % n
            nfin[n] = nfin.get(n, 0) + 1
            if nfin[n] > 1:
                return "job %d finalised twice" % n
            if nsub.get(n, 0) != 1:
                return "job %d finalised but never submitted" % n
            for jid in [j for j, m in outstanding.items() if m == n]:
                del outstanding[jid]
            # its folder must be removed next
            if k + 1 >= len(r["log"]) or r["log"][k + 1] != [4, folder_of.get(n)]:
                return "folder of job %d not removed right after finalisation" % n
        elif t == 8:
            killed.add(e[1])
    if pending_rm is not None:
        return "folder %d of a job that failed setup leaked" % pending_rm
    if not cont:
        if outstanding:
            return "termination left jobs %s submitted and never finalised" % sorted(outstanding.values())
        if r["left"]:
            return "temporary folders %s left behind" % r["left"]
        if r["njobs"]:
            return "_jobs not empty after termination"
    else:
        want = [n for n, ok in enumerate(stream) if ok]
        miss = [n for n in want if nfin.get(n, 0) != 1]
        if miss:
            return "after the restart jobs %s were never completed (lost)" % miss
        if r["left"]:
            return "temporary folders %s left behind after the resumed run" % r["left"]
    # every job outstanding when a no-continuation termination started must have been killed
    return None


def coq_case(stream, lifes, mj, cont, stops):
    return "scenario %d %d %s %s %s" % (mj, 1 if cont else 0, fw.zlist([1 if b else 0 for b in stream]), fw.zlist(lifes), fw.zlist(stops))


def configs(tier, rng):
    out = []
    if tier == "quick":
        for n in range(0, 4):
            for stream in itertools.product((True, False), repeat=n):
                for mj in (1, 2):
                    lfs = list(itertools.product((0, 1, 2), repeat=n))
                    rng.shuffle(lfs)
                    for lf in lfs[:3]:
                        out.append((list(stream), list(lf), mj))
    else:
        for n in range(0, 5):
            streams = list(itertools.product((True, False), repeat=n))
            for stream in streams:
                for mj in (1, 2, 3):
                    lfs = list(itertools.product((0, 1, 2, 3), repeat=n))
                    rng.shuffle(lfs)
                    for lf in lfs[:3 if n > 3 else 8]:
                        out.append((list(stream), list(lf), mj))
    return out


def classify(kind, case, detail):
    return None


def run_case(case):
    r = scenario(case["stream"], case["lifes"], case["max_jobs"], case["cont"], stop_line=case.get("stop_line"), mid_events=case.get("mid_events"))
    p = monitor(case["stream"], case["max_jobs"], case["cont"], r)
    return p is None, p or "", r


def run(ctx):
    rng = ctx.rng
    quick = ctx.tier == "quick"
    ctx.rule = ("job streams of 0-3 (thorough 0-5) jobs each passing or failing setup x max_jobs 1-2 (1-3) x queue lifetimes 0-2 (0-3) polls x "
                "termination handler delivered at EVERY executed line of submit.py and of every user callback (sys.settrace) or at quiescence x "
                "continuation on/off (with restart of a second Submitter, itself stopped at quiescence or after a random number of events); "
                "distinct = distinct event logs")
    ctx.trusted += ["hand model coq/model/Submitter.v at the granularity of effect points; signal delivery is modelled at line granularity "
                    "(sys.settrace), not between bytecodes; host=None, max_time=infinity; the queue returns fresh ids and mkdtemp fresh folders",
                    "harness: in-memory QueueInterface (lifetimes in polls of that job), callbacks and _running property logging events; "
                    "time.sleep removed; tempfile.mkdtemp/shutil.rmtree of the submit module wrapped"]
    ctx.build_props()
    ctx.build_models(["model/Submitter.vo"])
    # corpus: witnesses of repaired defects
    for k in ctx.known:
        w = k.get("witness") or {}
        if w.get("kind") == "schedule":
            ok, d, _r = run_case(w["case"])
            ctx.evaluations += 1
            if not ok:
                ctx.fail_input("schedule", w["case"], "%s (%s): %s" % (k["id"], k["what"], d), classify)
    cases, exps, meta = [], [], []
    seen_model = set()
    nrun = 0
    budget_lines = 40 if quick else 150
    for (stream, lifes, mj) in configs(ctx.tier, rng):
        for cont in (False, True):
            dry = scenario(stream, lifes, mj, cont)
            nlines = dry["lines"]
            lines = list(range(1, nlines + 1))
            if len(lines) > budget_lines:
                rng.shuffle(lines)
                lines = sorted(lines[:budget_lines])
            for L in [None] + lines:
                r = scenario(stream, lifes, mj, cont, stop_line=L)
                mid = None
                if cont and L is not None and r["err"] is None and rng.random() < 0.3 and r["stops"][-1] is not None and r["stops"][-1] > r["e1"]:
                    mid = rng.randint(r["e1"], r["stops"][-1])          # a second interruption before the resumed run is done
                    r = scenario(stream, lifes, mj, cont, stop_line=L, mid_events=mid)
                nrun += 1
                case = dict(stream=stream, lifes=lifes, max_jobs=mj, cont=cont, stop_line=L, mid_events=mid)
                p = monitor(stream, mj, cont, r)
                if p:
                    ctx.fail_input("schedule", case, p, classify)
                if r["err"] is not None or any(x is None for x in r["stops"]):
                    if not p:
                        ctx.fail_input("schedule", case, "the run ended without the injected stop having been delivered (err=%s)" % r["err"], classify)
                    continue
                key = (tuple(stream), tuple(lifes), mj, cont, tuple(r["stops"]))
                ctx.seen(tuple(flat(r)))
                if key in seen_model:
                    continue
                seen_model.add(key)
                cases.append((coq_case(stream, lifes, mj, cont, r["stops"]), flat(r)))
                meta.append(case)
    ctx.evaluations += nrun
    ctx.stats["real_runs"] = nrun
    ctx.stats["distinct_stop_positions"] = len(cases)
    mism = ctx.correspondence("event log of the real Submitter == trace of the Coq model (every stop position)", "c18", IMPORTS, cases, meta)
    if cases:
        ctx.sample(dict(case=meta[len(meta) // 2], log=cases[len(cases) // 2][1]))
    if ctx.tier == "thorough":
        ctx.coqchk()


def replay(obj):
    c = obj.get("case")
    if obj.get("kind") != "schedule" or not c:
        print("replay: nothing executable in this file: %s" % obj.get("broken_obligations"))
        return 1
    ok, d, r = run_case(c)
    print("replay schedule %s -> %s %s" % (c, "property holds" if ok else "PROPERTY FAILS", d))
    print("log:", r["log"])
    return 0 if ok else 1
