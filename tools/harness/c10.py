"""C10 - array-based NMR properties agree with tensor objects and documented formulas."""
import json
import math
import os
import warnings

import numpy as np

import fw

warnings.filterwarnings("ignore")
IMPORTS = ("From Coq Require Import ZArith List Bool.\nImport ListNotations.\nRequire Import Sop.model.NmrPropsQ.\nLocal Open Scope Z_scope.\n"
           "Definition oz (z : Z) : option Z := if z <? 0 then None else Some z.\n")


def nmrdata():
    return json.load(open(os.path.join(fw.REPO, "soprano", "data", "nmrdata.json")))


def ase_ok(sym):
    from ase.data import atomic_numbers
    return sym in atomic_numbers


def classify(kind, case, detail):
    if kind == "default-isotope":
        return "C10-F10b-%s-%s" % (case["element"], case["which"])
    return None


def close(a, b, rel=1e-9):
    a, b = float(a), float(b)
    if math.isnan(a) and math.isnan(b):
        return True
    if math.isinf(a) or math.isinf(b):
        return a == b
    return abs(a - b) <= rel * max(1.0, abs(a), abs(b))


def mk_struct(rng, elems):
    from ase import Atoms
    n = len(elems)
    a = Atoms(elems, positions=[[1.7 * i, 0.3 * i, 0.1] for i in range(n)])
    ms = np.array([[[rng.randint(-400, 400) / 8.0 for _ in range(3)] for _ in range(3)] for _ in range(n)])
    efg = []
    for _ in range(n):
        m = np.array([[rng.randint(-40, 40) / 16.0 for _ in range(3)] for _ in range(3)])
        m = (m + m.T) / 2
        m -= np.eye(3) * np.trace(m) / 3
        efg.append(m)
    a.set_array("ms", ms)
    a.set_array("efg", np.array(efg))
    return a


def run(ctx):
    from soprano.data.nmr import EFG_TO_CHI, _get_isotope_data, _get_isotope_list
    from soprano.properties.nmr.efg import (EFGAnisotropy, EFGAsymmetry, EFGNQR, EFGQuadrupolarConstant, EFGQuadrupolarProduct, EFGReducedAnisotropy, EFGSkew,
                                            EFGSpan, EFGTensor, EFGVzz)
    from soprano.properties.nmr.ms import MSAnisotropy, MSAsymmetry, MSIsotropy, MSReducedAnisotropy, MSShift, MSSkew, MSSpan, MSTensor
    rng = ctx.rng
    quick = ctx.tier == "quick"
    data = nmrdata()
    els = sorted(e for e in data if ase_ok(e))
    ctx.rule = ("structures of 1-6 atoms cycling through every element of soprano/data/nmrdata.json known to ASE (%d), arbitrary 3x3 shieldings and traceless "
                "symmetric EFGs (dyadic entries); isotope options: dictionary / per-atom list / use_q_isotopes in every combination; references and gradients "
                "as float / dictionary / list; force_recalc after overwriting the ms / efg arrays; distinct = (kind, option pattern, outcome)" % len(els))
    ctx.trusted += ["hand model coq/model/NmrPropsBody.v (precedence chain, reference resolution, shift, Vzz) over the GENERATED sorts; numpy eigh and the "
                    "float evaluation of the formulas are compared with 1e-9 relative tolerance", "soprano/data/nmrdata.json is the isotope table (read, not modelled)"]
    ctx.build_props()
    ctx.build_models(["model/NmrPropsQ.vo"])
    for k in ctx.known:
        w = k.get("witness") or {}
        if w.get("kind") == "msref" and k.get("status") == "fixed":
            from ase import Atoms
            a = Atoms("CH", positions=[[0, 0, 0], [0, 0, 1.1]])
            a.set_array("ms", np.array([np.eye(3) * 30.0, np.eye(3) * 100.0]))
            try:
                sh = [t.shift for t in MSTensor.get(a, ref=[170.0, 30.0])]
                ok = close(sh[0], MSShift.get(a, ref=[170.0, 30.0])[0])
            except Exception as e:
                ok = False
            ctx.evaluations += 1
            if not ok:
                ctx.fail_input("msref", w["case"], "%s: MSTensor.get(ref=[list]) does not give each tensor its own reference [%s]" % (k["id"], k["what"]), None)
    # ---- every default / quadrupolar default isotope must have data
    for e in sorted(data):
        for which, iso in (("iso", data[e].get("iso")), ("Q_iso", data[e].get("Q_iso"))):
            ctx.evaluations += 1
            if iso is not None and str(iso) not in data[e]:
                ctx.fail_input("default-isotope", dict(element=e, which=which, isotope=iso),
                               "nmrdata.json: %s of %s is %s but there is no data for that isotope (every lookup with it raises)" % (which, e, iso), classify)
    # a reference of exactly 0.0 in the three forms (witness of the repaired C10-F10c, replayed on every run)
    try:
        from ase import Atoms as _Atoms
        a0 = _Atoms("HC", positions=[[0, 0, 0], [0, 0, 1.1]], cell=[6, 6, 6], pbc=True)
        a0.set_array("ms", np.array([np.diag([1.0, 2.0, 3.0]), np.diag([4.0, 5.0, 9.0])]))
        ctx.evaluations += 1
        outs = [np.array(MSShift.get(a0.copy(), ref=r_), float) for r_ in (0.0, {"H": 0.0, "C": 0.0}, [0.0, 0.0])]
        iso0 = np.array(MSIsotropy.get(a0.copy(), ref=0.0), float)
        if not (np.allclose(outs[0], outs[1]) and np.allclose(outs[0], outs[2]) and np.allclose(outs[0], [-2.0, -6.0]) and np.allclose(iso0, outs[0])):
            ctx.fail_input("ref0", dict(ref=0.0), "reference 0.0 as float / dict / list gives %s / %s / %s, MSIsotropy(ref=0.0) %s" % (outs[0], outs[1], outs[2], iso0), None)
    except Exception as e:
        ctx.fail_input("ref0", dict(ref=0.0), "reference 0.0 given as a float raised %s: %s" % (type(e).__name__, e), None)
    # ---- crafted: one- and two-letter elements sharing their first letter (C/Cl, N/Na, S/Si, H/He), reference and gradient dictionaries in several
    #      key orders and with entries missing: every atom is addressed by ITS element only (does not depend on the draw)
    try:
        from ase import Atoms as _At
        el_ = ["H", "C", "Cl", "N", "Na", "O", "Si", "S", "He", "Ca"]
        a1 = _At(el_, positions=[[1.9 * i, 0.3 * i, 0] for i in range(len(el_))], cell=[30, 30, 30], pbc=True)
        a1.set_array("ms", np.array([np.diag([10.0 + 3 * i, 20.0 - i, 5.0 + 2 * i]) for i in range(len(el_))]))
        sig_ = [float(np.trace(m_) / 3) for m_ in a1.get_array("ms")]
        full_ = {e: 100.0 + 7.5 * k for k, e in enumerate(el_)}
        orders_ = [list(el_), list(reversed(el_)), sorted(el_, key=lambda e: (len(e), e)), sorted(el_, key=lambda e: (-len(e), e))]
        dicts_ = [{e: full_[e] for e in o_} for o_ in orders_] + [{e: full_[e] for e in o_ if e not in ("Cl", "Na")} for o_ in orders_[:2]] + \
                 [{e: full_[e] for e in o_ if e not in ("C", "N", "S")} for o_ in orders_[:2]]
        for rd_ in dicts_:
            for gd_ in (-1.0, {"C": -0.97, "N": -1.02}, {"Cl": -0.95, "Si": -1.05, "He": -0.9}):
                ctx.evaluations += 1
                sh_ = MSShift.get(a1.copy(), ref=rd_, grad=gd_)
                for i, e in enumerate(el_):
                    r_ = rd_.get(e, 0.0)
                    g_ = gd_.get(e, -1.0) if isinstance(gd_, dict) else gd_
                    f_ = r_ + g_ * sig_[i] / (1 + r_ * 1e-6)
                    if not close(sh_[i], f_):
                        ctx.fail_input("ms", dict(elems=el_, atom=i, prop="shift", ref=rd_, grad=gd_, ms_array=a1.get_array("ms").tolist(), efg_array=np.zeros((len(el_), 3, 3)).tolist()),
                                       "atom %d (%s): shift %r, its own reference and gradient give %r (keys %s)" % (i, e, float(sh_[i]), f_, list(rd_)), None)
                        break
    except Exception as e:
        ctx.fail_input("ms", dict(elems=["H", "C", "Cl"], form="crafted"), "crafted reference dictionaries raised %s: %s" % (type(e).__name__, str(e)[:160]), None)
    cur = {}            # the structure and options of the current iteration, attached to every recorded failure so that it can be replayed

    _fail = ctx.fail_input

    def fail_with_data(kind, case, detail, classify_=None):
        if kind in ("ms", "efg") and cur:
            case = dict(cur, **case)          # fields of the specific failure win over those of the iteration
        return _fail(kind, case, detail, classify_)
    ctx.fail_input = fail_with_data
    cases, meta = [], []
    N = 120 if quick else 2500
    for t in range(N):
        n = rng.randint(1, 6)
        elems = [els[(t * 5 + i * 7 + rng.randint(0, 2)) % len(els)] for i in range(n)]
        atoms = mk_struct(rng, elems)
        # isotope options drawn from tabulated isotopes so that data lookups succeed
        def tab(e):
            return [int(k) for k in data[e] if k.isdigit()]
        use_q = rng.random() < 0.5
        iso_dict = {e: rng.choice(tab(e)) for e in set(elems) if rng.random() < 0.4}
        iso_list = [rng.choice(tab(e)) if rng.random() < 0.3 else None for e in elems] if rng.random() < 0.6 else None
        try:
            got = [int(x) for x in _get_isotope_list(elems, isotopes=iso_dict, isotope_list=iso_list, use_q_isotopes=use_q)]
        except Exception as e:
            ctx.fail_input("isotope", dict(elems=elems), "_get_isotope_list raised %s: %s" % (type(e).__name__, e), None)
            continue
        for i, e in enumerate(elems):
            d_, q_ = data[e]["iso"], data[e].get("Q_iso")
            dl, ll = iso_dict.get(e), (iso_list[i] if iso_list is not None else None)
            cases.append(("[iso_choice %d (oz %s) %s (oz %s) (oz %s)]" % (d_, fw.zlit(q_ if q_ is not None else -1), "true" if use_q else "false",
                                                                        fw.zlit(dl if dl is not None else -1), fw.zlit(ll if ll is not None else -1)), [got[i]]))
            meta.append(("isotope", dict(element=e, use_q=use_q, dict=dl, list=ll)))
            want = ll if ll is not None else (dl if dl is not None else (q_ if (use_q and q_ is not None) else d_))
            ctx.seen(("iso", use_q, dl is not None, ll is not None, q_ is not None))
            if got[i] != want:
                ctx.fail_input("isotope", dict(element=e, use_q=use_q, dict=dl, list=ll), "isotope %d used, precedence gives %d" % (got[i], want), None)
        opts = dict(isotopes=iso_dict, isotope_list=iso_list, use_q_isotopes=use_q)
        cur.clear()
        cur.update(ms_array=atoms.get_array("ms").tolist(), efg_array=atoms.get_array("efg").tolist(), iso_dict=dict(iso_dict), iso_list=iso_list, use_q=use_q)
        # data lookups: skip structures whose chosen isotope has no data (recorded separately as F-10b)
        if any(str(g) not in data[e] for g, e in zip(got, elems)):
            continue
        # ---- MS: array route vs object route, with references / gradients in the three forms
        syms = list(dict.fromkeys(elems))
        refd = {e: rng.randint(0, 800) / 4.0 for e in syms}
        gradd = {e: -rng.randint(80, 120) / 100.0 for e in syms}
        form = rng.choice(["dict", "list", "float"])
        if form == "dict":
            ref, grad = dict(refd), dict(gradd)
        elif form == "list":
            ref, grad = [refd[e] for e in elems], [gradd[e] for e in elems]
        else:
            ref, grad = refd[elems[0]], gradd[elems[0]]
            refd = {e: ref for e in syms}
            gradd = {e: grad for e in syms}
        cur.update(ref=ref if not isinstance(ref, dict) else dict(ref), grad=grad if not isinstance(grad, dict) else dict(grad))
        try:
            arr = dict(iso=MSIsotropy.get(atoms), shift=MSShift.get(atoms, ref=ref, grad=grad), aniso=MSAnisotropy.get(atoms), red=MSReducedAnisotropy.get(atoms),
                       asym=MSAsymmetry.get(atoms), span=MSSpan.get(atoms), skew=MSSkew.get(atoms))
            tens = MSTensor.get(atoms, ref=ref, grad=grad)
            obj = dict(iso=[x.isotropy for x in tens], shift=[x.shift for x in tens], aniso=[x.anisotropy for x in tens], red=[x.reduced_anisotropy for x in tens],
                       asym=[x.asymmetry for x in tens], span=[x.span for x in tens], skew=[x.skew for x in tens])
            ms = atoms.get_array("ms")
            for i, e in enumerate(elems):
                sig = float(np.trace(ms[i]) / 3)
                formula = refd[e] + gradd[e] * sig / (1 + refd[e] * 1e-6)
                for key in arr:
                    ctx.evaluations += 1
                    if not close(arr[key][i], obj[key][i]):
                        ctx.fail_input("ms", dict(elems=elems, atom=i, prop=key, form=form), "array route %r != tensor object %r" % (float(arr[key][i]), float(obj[key][i])), None)
                if not close(arr["shift"][i], formula) or not close(arr["iso"][i], sig):
                    ctx.fail_input("ms", dict(elems=elems, atom=i, prop="shift", form=form), "shift %r != ref + grad*sigma/(1+ref*1e-6) = %r" % (float(arr["shift"][i]), formula), None)
            ctx.seen(("ms", form, n))
        except Exception as e:
            ctx.fail_input("ms", dict(elems=elems, form=form), "MS properties (ref/grad as %s) raised %s: %s" % (form, type(e).__name__, str(e)[:120]), None)
        # ---- EFG: array route vs object route vs formulas
        try:
            vzz = EFGVzz.get(atoms)
            cqa = EFGQuadrupolarConstant.get(atoms, **opts)
            pqa = EFGQuadrupolarProduct.get(atoms, **opts)
            nqra = EFGNQR.get(atoms, **opts)
            arr = dict(aniso=EFGAnisotropy.get(atoms), red=EFGReducedAnisotropy.get(atoms), asym=EFGAsymmetry.get(atoms), span=EFGSpan.get(atoms), skew=EFGSkew.get(atoms))
            tens = EFGTensor.get(atoms, **opts)
            Q = _get_isotope_data(elems, "Q", iso_dict, iso_list, use_q)
            I = _get_isotope_data(elems, "I", iso_dict, iso_list, use_q)
            efg = atoms.get_array("efg")
            for i, e in enumerate(elems):
                T = tens[i]
                ev = np.linalg.eigvalsh(efg[i])
                vz = ev[np.argmax(np.abs(ev))]
                rest = sorted(np.delete(ev, np.argmax(np.abs(ev))), key=abs)
                eta = (rest[0] - rest[1]) / vz if vz != 0 else 0.0
                eta = abs(eta)
                chk = [("Vzz", vzz[i], T.Vzz), ("Vzz-formula", vzz[i], vz), ("Cq", cqa[i], T.Cq), ("Cq-formula", cqa[i], EFG_TO_CHI * data[e][str(got[i])]["Q"] * vz),
                       ("Pq", pqa[i], T.Pq), ("Pq-formula", pqa[i], cqa[i] * math.sqrt(1 + eta ** 2 / 3)), ("Q", Q[i], data[e][str(got[i])]["Q"]),
                       ("aniso", arr["aniso"][i], T.anisotropy), ("red", arr["red"][i], T.reduced_anisotropy), ("asym", arr["asym"][i], T.asymmetry),
                       ("span", arr["span"][i], T.span), ("skew", arr["skew"][i], T.skew)]
                # eta = 1 (two principal values of equal magnitude and opposite sign): which of them is "Vzz" - and hence the sign of Vzz, Cq and the NQR
                # frequencies - is not fixed by the convention (the tie class of C02-F02); the formulas are then compared up to that sign
                mags = sorted(abs(x) for x in ev)
                sign_free = abs(mags[2] - mags[1]) <= 1e-9 * max(1.0, mags[2])
                for name, a_, b_ in chk:
                    ctx.evaluations += 1
                    if sign_free and name.endswith("-formula"):
                        a_, b_ = abs(a_), abs(b_)
                    if not close(a_, b_, 1e-8):
                        ctx.fail_input("efg", dict(elems=elems, atom=i, prop=name, **{k: str(v) for k, v in opts.items()}), "%s: array route %r != %r" % (name, float(a_), float(b_)), None)
                # NQR lines
                spin = data[e][str(got[i])]["I"]
                tn = T.NQR
                an = nqra[i]
                ms_ = [m for m in np.arange(-spin, spin + 1, 1) if m >= 0.0][:-1] if spin > 0.5 else []
                if sorted(an.keys()) != sorted(tn.keys()) or len(an) != len(ms_):
                    ctx.fail_input("efg", dict(elems=elems, atom=i, prop="NQR"), "NQR lines %s (array) vs %s (object); spin %s has %d lines" % (sorted(an), sorted(tn), spin, len(ms_)), None)
                else:
                    for m in ms_:
                        A = EFG_TO_CHI * vz * data[e][str(got[i])]["Q"] / (4 * spin * (2 * spin - 1))
                        f = 3 * A * (2 * m + 1) * math.sqrt(1 + eta ** 2 / 3)
                        key = "m=%s->%s" % (m, m + 1)
                        ctx.evaluations += 1
                        if key not in an or not close(an[key], tn[key], 1e-8) or not close(abs(an[key]) if sign_free else an[key], abs(f) if sign_free else f, 1e-8):
                            ctx.fail_input("efg", dict(elems=elems, atom=i, prop="NQR"), "NQR line %s: array %r object %r formula %r" % (key, an.get(key), tn.get(key), f), None)
            ctx.seen(("efg", use_q, bool(iso_dict), iso_list is not None))
        except Exception as e:
            ctx.fail_input("efg", dict(elems=elems, **{k: str(v) for k, v in opts.items()}), "EFG properties raised %s: %s" % (type(e).__name__, str(e)[:160]), None)
        # ---- partial dictionaries: elements not named keep the defaults (reference 0, gradient -1)
        if len(syms) > 1 and t % 2 == 0:
            keep = set(rng.sample(syms, rng.randint(1, len(syms) - 1)))
            pref = {e: refd[e] for e in syms if e in keep}
            pgrad = {e: gradd[e] for e in syms if e not in keep} or {syms[0]: gradd[syms[0]]}
            try:
                sh = MSShift.get(atoms, ref=pref, grad=pgrad)
                ms = atoms.get_array("ms")
                for i, e in enumerate(elems):
                    r_, g_ = pref.get(e, 0.0), pgrad.get(e, -1.0)
                    f_ = r_ + g_ * float(np.trace(ms[i]) / 3) / (1 + r_ * 1e-6)
                    ctx.evaluations += 1
                    if not close(sh[i], f_):
                        ctx.fail_input("ms", dict(elems=elems, atom=i, prop="shift", ref=pref, grad=pgrad),
                                       "partial dictionaries: shift %r, documented defaults (ref 0, grad -1 for unnamed elements) give %r" % (float(sh[i]), f_), None)
                # the tensor-object route on the same (partial) dictionaries
                tsh = [x.shift for x in MSTensor.get(atoms, ref=pref, grad=pgrad)]
                for i, e in enumerate(elems):
                    ctx.evaluations += 1
                    if not close(tsh[i], sh[i]):
                        ctx.fail_input("ms", dict(elems=elems, atom=i, prop="shift", ref=pref, grad=pgrad),
                                       "partial dictionaries: tensor object shift %r != array route %r" % (float(tsh[i]), float(sh[i])), None)
                ctx.seen(("ms-partial", len(keep)))
            except Exception as e:
                ctx.fail_input("ms", dict(elems=elems, ref=pref, grad=pgrad), "MSShift / MSTensor with partial dictionaries raised %s: %s" % (type(e).__name__, e), None)
        # ---- cache, property by property: fill the caches, replace the tensors, then THIS property with force_recalc=True must be computed from the new data
        if t % 4 == 1:
            fresh = mk_struct(rng, elems)
            props = [("MSSpan", lambda a, **k: MSSpan.get(a, **k)), ("MSSkew", lambda a, **k: MSSkew.get(a, **k)), ("MSAnisotropy", lambda a, **k: MSAnisotropy.get(a, **k)),
                     ("MSReducedAnisotropy", lambda a, **k: MSReducedAnisotropy.get(a, **k)), ("MSAsymmetry", lambda a, **k: MSAsymmetry.get(a, **k)),
                     ("EFGVzz", lambda a, **k: EFGVzz.get(a, **k)), ("EFGAsymmetry", lambda a, **k: EFGAsymmetry.get(a, **k)), ("EFGAnisotropy", lambda a, **k: EFGAnisotropy.get(a, **k)),
                     ("EFGSpan", lambda a, **k: EFGSpan.get(a, **k)), ("EFGSkew", lambda a, **k: EFGSkew.get(a, **k)),
                     ("EFGQuadrupolarConstant", lambda a, **k: EFGQuadrupolarConstant.get(a, **opts, **k)), ("EFGQuadrupolarProduct", lambda a, **k: EFGQuadrupolarProduct.get(a, **opts, **k)),
                     ("EFGNQR", lambda a, **k: [v_ for d_ in EFGNQR.get(a, **opts, **k) for _k, v_ in sorted(d_.items())])]
            for pname, pf in props:
                try:
                    want_ = np.array(pf(fresh.copy()), float)
                    b_ = mk_struct(rng, elems)                   # other tensors
                    MSSpan.get(b_), EFGVzz.get(b_), EFGAsymmetry.get(b_)      # fill the caches with the old data
                    b_.set_array("ms", None), b_.set_array("efg", None)
                    b_.set_array("ms", fresh.get_array("ms").copy()), b_.set_array("efg", fresh.get_array("efg").copy())
                    got_ = np.array(pf(b_, force_recalc=True), float)
                    ctx.evaluations += 1
                    if not all(close(x_, y_, 1e-8) for x_, y_ in zip(got_, want_)):
                        ctx.fail_input("cache", dict(elems=elems, prop=pname), "%s(force_recalc=True) after the tensors were replaced returns %s, a fresh structure gives %s (stale cache)" % (pname, got_[:3], want_[:3]), None)
                except Exception as e:
                    ctx.fail_input("cache", dict(elems=elems, prop=pname), "%s(force_recalc=True) raised %s: %s" % (pname, type(e).__name__, e), None)
            ctx.seen(("cache-per-property", n))
        # ---- cache: overwrite the arrays, then force_recalc must reflect the new data
        if t % 3 == 0:
            try:
                old_span = MSSpan.get(atoms)
                atoms.set_array("ms", None)
                newms = np.array([np.diag([1.0 + i, 5.0 + 2 * i, 11.0 + 3 * i]) for i in range(n)])
                atoms.set_array("ms", newms)
                newefg = np.array([np.diag([1.0 + i, 2.0, -3.0 - i]) for i in range(n)])
                atoms.set_array("efg", None)
                atoms.set_array("efg", newefg)
                sp = MSSpan.get(atoms, force_recalc=True)
                vz2 = EFGVzz.get(atoms, force_recalc=True)
                cq2 = EFGQuadrupolarConstant.get(atoms, force_recalc=True, **opts)
                ctx.evaluations += 3
                for i, e in enumerate(elems):
                    if not close(sp[i], 10.0 + 2 * i) or not close(vz2[i], -3.0 - i) or not close(cq2[i], EFG_TO_CHI * data[e][str(got[i])]["Q"] * (-3.0 - i), 1e-8):
                        ctx.fail_input("cache", dict(elems=elems, atom=i), "force_recalc=True returned stale values: span %r Vzz %r" % (float(sp[i]), float(vz2[i])), None)
            except Exception as e:
                ctx.fail_input("cache", dict(elems=elems), "force_recalc raised %s: %s" % (type(e).__name__, e), None)
    # reference resolution against the model (dictionary / list / float with a wrong-length list)
    for t in range(40 if quick else 400):
        n = rng.randint(1, 5)
        syms = [rng.choice([1, 6, 8, 14]) for _ in range(n)]
        d = [(k, rng.randint(0, 40)) for k in set(syms) if rng.random() < 0.7]
        dd = dict(d)
        want = [dd.get(s_, 0) for s_ in syms]
        q = lambda v: "(mkq %d 1)" % v
        cases.append(("match resolve %s (RDict [%s]) (mkq 0 1) with Some l => flat_map encq l | None => [-1] end" % (fw.zlist(syms), "; ".join("(%d, %s)" % (k, q(v)) for k, v in d)),
                      [z for w_ in want for z in (w_, 1)]))
        meta.append(("resolve", dict(syms=syms, d=d)))
    ctx.correspondence("_get_isotope_list precedence and reference resolution == Coq model", "c10", IMPORTS, cases, meta)
    if cases:
        ctx.sample(dict(case=meta[0], impl=cases[0][1]))
    if ctx.tier == "thorough":
        ctx.coqchk()


def replay(obj):
    c = obj.get("case") or {}
    if obj.get("kind") in ("ms", "efg") and "ms_array" in c:
        from ase import Atoms
        from soprano.properties.nmr.efg import EFGAsymmetry, EFGQuadrupolarConstant, EFGQuadrupolarProduct, EFGTensor, EFGVzz
        from soprano.properties.nmr.ms import MSAnisotropy, MSIsotropy, MSShift, MSSpan, MSTensor
        elems = c["elems"]
        a = Atoms(elems, positions=[[1.7 * i, 0, 0] for i in range(len(elems))], cell=[30, 30, 30], pbc=True)
        a.set_array("ms", np.array(c["ms_array"]))
        a.set_array("efg", np.array(c["efg_array"]))
        opts = dict(isotopes={k: int(v) for k, v in (c.get("iso_dict") or {}).items()}, isotope_list=c.get("iso_list"), use_q_isotopes=bool(c.get("use_q")))
        probs = []
        try:
            if obj["kind"] == "ms":
                ref, grad = c.get("ref"), c.get("grad")
                arr = dict(iso=MSIsotropy.get(a), shift=MSShift.get(a, ref=ref, grad=grad), aniso=MSAnisotropy.get(a), span=MSSpan.get(a))
                tens = MSTensor.get(a, ref=ref, grad=grad)
                obj_ = dict(iso=[x.isotropy for x in tens], shift=[x.shift for x in tens], aniso=[x.anisotropy for x in tens], span=[x.span for x in tens])
                for k in arr:
                    for i in range(len(elems)):
                        if not close(arr[k][i], obj_[k][i]):
                            probs.append("%s of atom %d: array route %r != tensor object %r" % (k, i, float(arr[k][i]), float(obj_[k][i])))
                for i, e in enumerate(elems):          # the documented formula, with the documented defaults (ref 0, grad -1) for what is not named
                    r_ = ref.get(e, 0.0) if isinstance(ref, dict) else (ref[i] if isinstance(ref, list) else ref)
                    g_ = grad.get(e, -1.0) if isinstance(grad, dict) else (grad[i] if isinstance(grad, list) else grad)
                    sig = float(np.trace(np.array(c["ms_array"][i])) / 3)
                    f_ = r_ + g_ * sig / (1 + r_ * 1e-6)
                    if not close(arr["shift"][i], f_):
                        probs.append("shift of atom %d (%s) is %r, ref + grad*sigma/(1+ref*1e-6) = %r" % (i, e, float(arr["shift"][i]), f_))
            else:
                tens = EFGTensor.get(a, **opts)
                arr = dict(Vzz=EFGVzz.get(a), Cq=EFGQuadrupolarConstant.get(a, **opts), Pq=EFGQuadrupolarProduct.get(a, **opts), asym=EFGAsymmetry.get(a))
                obj_ = dict(Vzz=[t.Vzz for t in tens], Cq=[t.Cq for t in tens], Pq=[t.Pq for t in tens], asym=[t.asymmetry for t in tens])
                for k in arr:
                    for i in range(len(elems)):
                        if not close(arr[k][i], obj_[k][i], 1e-8):
                            probs.append("%s of atom %d: array route %r != tensor object %r" % (k, i, float(arr[k][i]), float(obj_[k][i])))
        except Exception as e:
            probs.append("raised %s: %s" % (type(e).__name__, e))
        print("replay %s on %s -> %s" % (obj["kind"], elems, "array and object routes agree (see the recorded detail for formula comparisons): " + str(obj.get("detail"))[:200]
                                         if not probs else "PROPERTY FAILS: " + probs[0]))
        return 0 if not probs else 1
    print("replay: nothing executable in this file (re-run ./check C10 with VERIF_SEED=%s); recorded case: %s %s" % (obj.get("seed"), obj.get("kind"), str(c)[:300]))
    print(obj.get("detail"))
    return 1
