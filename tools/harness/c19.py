"""C19 - clustering distances form a metric and clusters are consistent partitions.

(A) correspondence of the hand models with PhylogenCluster: column normalisation + weight scaling (model/PhyloBody.v under Q), the squared
    distance, the index groups built from a label list and the threshold-graph components (model/Clusters.v) against scipy's single-linkage fcluster.
(B) oracles on the real API: metric axioms, ranges, partitions, permutation equivariance, components by union-find.
"""
import math
import warnings
from fractions import Fraction as Fr

import numpy as np

import fw

warnings.filterwarnings("ignore")
IMPQ = ("From Coq Require Import ZArith List Bool.\nImport ListNotations.\nRequire Import Sop.model.PhyloQ.\nLocal Open Scope Z_scope.\n")
IMPC = ("From Coq Require Import ZArith List Bool.\nImport ListNotations.\nRequire Import Sop.model.Lattice Sop.model.Bonds Sop.model.Clusters.\n"
        "Local Open Scope Z_scope.\n")
METHODS = ["single", "complete", "average", "weighted"]
TOL = 1e-9


def classify(kind, case, detail):
    return None


def q(x):
    fr = Fr(x)
    return "(mkq %s %d)" % (fw.zlit(fr.numerator), fr.denominator)


def qlist(xs):
    return "[" + "; ".join(q(x) for x in xs) + "]"


# ------------------------------------------------------------------ cases
def rand_case(rng, n=None, kinds=None):
    n = n or rng.randint(2, 15)
    structs = []
    for i in range(n):
        a, b, c = (rng.uniform(2.5, 6.0) for _ in range(3))
        if rng.random() < 0.3:
            a = b            # equal columns / constant columns do occur
        structs.append(dict(cell=[a, b, c, rng.choice([90.0, rng.uniform(70, 110)]), 90.0, rng.choice([90.0, rng.uniform(70, 110)])],
                            positions=[[0, 0, 0], [rng.uniform(0.6, 1.4), rng.uniform(0, 0.5), 0.1], [0.3, rng.uniform(0.8, 1.6), rng.uniform(0, 1)]],
                            energy=rng.choice([round(rng.uniform(-5, 5), 3), -1.0]), tag=i))
    kinds = kinds or rng.choice([["vec"], ["vec", "vec"], ["default"], ["vec", "pair"], ["pair"], ["pair", "pair"], ["default", "vec", "pair"], ["default", "default"],
                                 ["vec", "pair", "pair"], ["const"], ["const", "vec"], ["zeropair", "pair"], ["zeropair"], ["offset"], ["offset", "vec"]])
    genes = []
    for gi, k in enumerate(kinds):
        w = rng.choice([1.0, 0.5, 2.0, rng.uniform(0.05, 7.0)])
        if k == "vec":
            gn = rng.choice([1, 1, 2, 3, 5])
            vals = [[rng.randint(-64, 64) / rng.choice([1, 2, 4, 8]) for _ in range(gn)] for _ in range(n)]
            if rng.random() < 0.25:
                for r in vals:
                    r[0] = vals[0][0]        # a constant column inside a varying gene
            genes.append(dict(kind="vec", name="cv%d" % gi, weight=w, vals=vals, flat=(gn == 1 and rng.random() < 0.5)))
        elif k == "offset":
            # values sharing a large offset and differing by little (total energies in eV differing by meV): differences must survive
            base = rng.choice([-1.0e4, -8.7e4, 3.3e5])
            genes.append(dict(kind="vec", name="co%d" % gi, weight=w, vals=[[base + rng.randint(0, 4000) / 1.0e5] for _ in range(n)], flat=False))
        elif k == "const":
            genes.append(dict(kind="vec", name="cc%d" % gi, weight=w, vals=[[3.25]] * n, flat=False))
        elif k == "pair":
            d = rng.choice([1, 2, 3])
            genes.append(dict(kind="pair", name="cp%d" % gi, weight=w, pts=[[rng.randint(-32, 32) / 4 for _ in range(d)] for _ in range(n)],
                              layers=rng.choice([1, 1, 2])))
        elif k == "zeropair":
            genes.append(dict(kind="pair", name="cz%d" % gi, weight=w, pts=[[0.0]] * n, layers=1))
        else:
            name = rng.choice(["latt_abc_len", "latt_abc_ang", "latt_cart", "energy", "linkage_list"])
            if any(g["name"] == name for g in genes):
                name = "latt_abc_len" if not any(g["name"] == "latt_abc_len" for g in genes) else "latt_cart"
                if any(g["name"] == name for g in genes):
                    continue
            genes.append(dict(kind="default", name=name, weight=w, params=({"size": rng.choice([1, 2, 3])} if name == "linkage_list" else {})))
    rng.shuffle(genes)          # pair genes before, between and after vector genes
    nr = rng.choice([(0.0, 1.0), (0.0, 1.0), (-1.0, 2.5), (rng.randint(-8, 8) / 4, None), (None, rng.randint(-8, 8) / 4), (None, None), (0.5, 0.5)])
    nd = rng.choice([1.0, 1.0, 2.5, None])
    if any(g["name"].startswith("co") for g in genes) and rng.random() < 0.7:
        nr = (None, None)          # un-normalised: the raw offsets enter the distance computation
    case = dict(structs=structs, genes=genes, norm_range=list(nr), norm_dist=nd)
    if rng.random() < 0.4 and genes:
        pre = []
        for _ in range(rng.choice([1, 1, 2])):
            idx = [i for i in range(len(genes)) if rng.random() < 0.8] or [0]
            rng.shuffle(idx)
            pre.append([[i, rng.choice([genes[i]["weight"], 1.0, rng.uniform(0.05, 7.0)])] for i in idx])
        case["prehist"] = pre
    return case


def build(case, order=None):
    from ase import Atoms
    from ase.calculators.singlepoint import SinglePointCalculator
    from soprano.analyse.phylogen import Gene, PhylogenCluster
    from soprano.collection import AtomsCollection
    order = list(range(len(case["structs"]))) if order is None else order
    atoms = []
    for i in order:
        s = case["structs"][i]
        a = Atoms("CHH", positions=s["positions"], cell=s["cell"], pbc=True)
        a.info["tag"] = s["tag"]
        a.calc = SinglePointCalculator(a, energy=s["energy"])
        atoms.append(a)
    coll = AtomsCollection(atoms)
    genes = []
    for g in case["genes"]:
        if g["kind"] == "vec":
            def parser(c, _g=g):
                v = np.array([_g["vals"][s.info["tag"]] for s in c.structures], float)
                return v[:, 0] if _g.get("flat") else v
            genes.append(Gene(g["name"], g["weight"], parser=parser))
        elif g["kind"] == "pair":
            def parser(c, _g=g):
                P = np.array([_g["pts"][s.info["tag"]] for s in c.structures], float)
                D = np.linalg.norm(P[:, None, :] - P[None, :, :], axis=-1)
                if _g.get("layers", 1) == 2:
                    D1 = np.abs(P[:, None, 0] - P[None, :, 0])
                    return np.stack([D, D1], axis=-1)
                return D
            genes.append(Gene(g["name"], g["weight"], parser=parser, pair=True))
        else:
            genes.append(Gene(g["name"], g["weight"], dict(g["params"])))
    pre = case.get("prehist") or []
    if not pre:
        return PhylogenCluster(coll, genes, norm_range=tuple(case["norm_range"]), norm_dist=case["norm_dist"])
    # a history on ONE object: earlier gene sets (sub-lists of the same genes in other orders, with other weights), each evaluated, then the final set
    p = None
    for step in pre:
        gs = []
        for gi, w in step:
            g0 = genes[gi]
            gs.append(Gene(g0.name, w, dict(g0.params), parser=(None if case["genes"][gi]["kind"] == "default" else g0._parser), pair=g0.is_pair)
                      if case["genes"][gi]["kind"] != "default" else Gene(g0.name, w, dict(g0.params)))
        if p is None:
            p = PhylogenCluster(coll, gs, norm_range=tuple(case["norm_range"]), norm_dist=case["norm_dist"])
        else:
            p.set_genes(gs)
        p.get_distmat()
    p.set_genes(genes)
    return p


def partition_of(labels):
    d = {}
    for i, l in enumerate(labels):
        d.setdefault(int(l), set()).add(i)
    return set(frozenset(v) for v in d.values())


def uf_components(D, t):
    n = len(D)
    par = list(range(n))

    def find(x):
        while par[x] != x:
            par[x] = par[par[x]]
            x = par[x]
        return x
    for i in range(n):
        for j in range(i + 1, n):
            if D[i][j] <= t:
                par[find(i)] = find(j)
    return partition_of([find(i) for i in range(n)])


def safe_t(D, rng_u):
    """a threshold not within 1e-6 (relative) of any pair distance"""
    ds = sorted(set([0.0] + [float(x) for x in np.asarray(D)[np.triu_indices(len(D), 1)]]))
    for _ in range(50):
        k = int(rng_u() * (len(ds) + 1))
        lo = ds[k - 1] if k >= 1 else -0.5
        hi = ds[k] if k < len(ds) else ds[-1] + 0.5
        if hi - lo > 1e-5 * max(1.0, hi):
            t = (lo + hi) / 2
            if t > 0:
                return t
    return ds[-1] + 0.25


def groups_problem(labels, slices, n, what):
    labels = [int(x) for x in labels]
    if len(labels) != n:
        return "%s: %d labels for %d structures" % (what, len(labels), n)
    if min(labels) < 1:
        return "%s: a label below 1 (%s)" % (what, labels)
    if len(slices) != max(labels):
        return "%s: %d groups but labels go up to %d" % (what, len(slices), max(labels))
    allidx = sorted(int(i) for s in slices for i in s)
    if allidx != list(range(n)):
        return "%s: the index groups %s are not a partition of 0..%d" % (what, [list(map(int, s)) for s in slices], n - 1)
    for k, s in enumerate(slices):
        if any(labels[int(i)] != k + 1 for i in s):
            return "%s: group %d = %s disagrees with the label list %s" % (what, k, list(map(int, s)), labels)
    return None


def check_case(case, t_u=(0.37, 0.81), km_k=None, perm=None, collect=None):
    """all oracles on one case; returns a list of problem strings.  collect: dict receiving data for the model correspondence"""
    probs = []
    n = len(case["structs"])
    p = build(case)
    D = np.array(p.get_distmat(), float)
    vn, vleg = p.get_genome_vectors_norm()
    vr, _ = p.get_genome_vectors()
    mn, mleg = p.get_genome_matrices_norm()
    scale = max(1.0, float(np.abs(D).max()))
    if D.shape != (n, n) or not np.all(np.isfinite(D)):
        return ["distance matrix has shape %s / non-finite entries" % (D.shape,)]
    if not np.allclose(D, D.T, atol=TOL * scale):
        probs.append("distance matrix is not symmetric (max asymmetry %.3e)" % np.abs(D - D.T).max())
    if np.abs(np.diag(D)).max() > TOL * scale:
        probs.append("distance matrix has a non-zero diagonal (%.3e)" % np.abs(np.diag(D)).max())
    if D.min() < 0:
        probs.append("negative distance %.3e" % D.min())
    tri = D[:, None, :] - (D[:, :, None] + D[None, :, :].transpose(0, 2, 1))     # D[i,k] - D[i,j] - D[j,k]
    if tri.max() > 1e-8 * scale:
        i, j, k = np.unravel_index(np.argmax(tri), tri.shape)
        probs.append("triangle inequality fails: D[%d,%d]=%.6f > D[%d,%d]+D[%d,%d]=%.6f" % (i, k, D[i, k], i, j, j, k, D[i, j] + D[j, k]))
    # reference: D from the normalised vectors and matrices
    ref = np.sqrt(((vn[:, None, :] - vn[None, :, :]) ** 2).sum(-1) + (mn ** 2).sum(-1))
    if not np.allclose(ref, D, atol=1e-9 * scale):
        probs.append("distance matrix is not the Euclidean combination of the normalised genes (max diff %.3e)" % np.abs(ref - D).max())
    # ranges
    lo, hi = case["norm_range"]
    gw = {g["name"]: g["weight"] for g in case["genes"]}
    col = 0
    for name, gn in vleg:
        w = gw[name] / math.sqrt(gn)
        for c_ in range(col, col + gn):
            v, raw = vn[:, c_], vr[:, c_]
            e = 1e-9 * max(1.0, np.abs(v).max())
            const = np.isclose(raw.max() - raw.min(), 0)
            if lo is not None and hi is not None:
                if v.min() < lo * w - e or v.max() > hi * w + e:
                    probs.append("gene %s column %d: normalised values [%.6f, %.6f] outside the requested range [%g, %g] x weight/sqrt(len) %.6f" % (name, c_ - col, v.min(), v.max(), lo, hi, w))
                elif not const and (abs(v.min() - lo * w) > e or abs(v.max() - hi * w) > e):
                    probs.append("gene %s column %d: normalised values span [%.6f, %.6f], not the whole requested range x weight" % (name, c_ - col, v.min(), v.max()))
            elif hi is not None and abs(v.max() - hi * w) > e:
                probs.append("gene %s column %d: maximum %.6f is not the requested %g x weight" % (name, c_ - col, v.max(), hi))
            elif lo is not None and abs(v.min() - lo * w) > e:
                probs.append("gene %s column %d: minimum %.6f is not the requested %g x weight" % (name, c_ - col, v.min(), lo))
            if not (lo is not None and hi is not None):
                # a rigid shift keeps differences (times the weight)
                if not np.allclose(v - v[0], (raw - raw[0]) * w, atol=1e-9 * max(1.0, np.abs(raw).max() * w)):
                    probs.append("gene %s column %d: one-sided normalisation changed the differences between structures" % (name, c_ - col))
        col += gn
    if col != vn.shape[1]:
        probs.append("legend covers %d of %d genome columns" % (col, vn.shape[1]))
    col = 0
    for name, gn in mleg:
        w = gw[name] / math.sqrt(gn)
        for c_ in range(col, col + gn):
            M = mn[:, :, c_]
            if case["norm_dist"] is not None and M.max() > 0 and abs(M.max() - case["norm_dist"] * w) > 1e-9 * max(1, M.max()):
                probs.append("pair gene %s layer %d: maximum %.6f is not norm_dist x weight/sqrt(len) = %.6f" % (name, c_ - col, M.max(), case["norm_dist"] * w))
        col += gn
    # clusters
    haspair = any(g["kind"] == "pair" for g in case["genes"])
    import random as _random
    lrng = _random.Random(repr(tuple(t_u)))
    ts = {}
    for method in METHODS:
        t = safe_t(D, lrng.random)
        ts[method] = t
        labels, slices = build(case).get_hier_clusters(t, method=method)
        g_ = groups_problem(labels, slices, n, "get_hier_clusters(%.6f, %s)" % (t, method))
        if g_:
            probs.append(g_)
        elif method == "single":
            want = uf_components(D, t)
            got = partition_of(labels)
            if want != got:
                probs.append("single-linkage clusters at t=%.6f are %s; the components of the graph joining structures closer than t are %s" %
                             (t, sorted(map(sorted, got)), sorted(map(sorted, want))))
        if collect is not None and not g_:
            collect.setdefault("labels", []).append(([int(x) for x in labels], [[int(i) for i in s] for s in slices]))
            if method == "single":
                collect["single"] = (D, t, [int(x) for x in labels])
    # a sequence on ONE object: another linkage method first, then single linkage (no stale linkage may be reused)
    try:
        pseq = build(case)
        m0 = METHODS[1 + (n % 3)]
        pseq.get_hier_clusters(ts[m0], method=m0)
        pseq.get_linkage(method=m0)
        lseq, sseq = pseq.get_hier_clusters(ts["single"], method="single")
        if partition_of(lseq) != uf_components(D, ts["single"]):
            probs.append("after get_hier_clusters(method=%r) on the same object, the single-linkage clusters at t=%.6f are %s; the components are %s" %
                         (m0, ts["single"], sorted(map(sorted, partition_of(lseq))), sorted(map(sorted, uf_components(D, ts["single"])))))
    except Exception as e:
        probs.append("method sequence on one object raised %s: %s" % (type(e).__name__, str(e)[:120]))
    if not haspair:
        k = km_k or max(1, min(n, 2))
        np.random.seed(12345)
        try:
            import soprano.analyse.phylogen.phylogenclust as _pc
            _seen = {}
            _orig = _pc.vq.kmeans

            def _rec(obs_, k_, *a_, **kw_):          # harness-side recorder of the centroids scipy hands back
                out_ = _orig(obs_, k_, *a_, **kw_)
                _seen["cents"], _seen["obs"] = np.array(out_[0], float), np.array(obs_, float)
                return out_
            _pc.vq.kmeans = _rec
            try:
                labels, slices = build(case).get_kmeans_clusters(k)
            finally:
                _pc.vq.kmeans = _orig
            if collect is not None and "cents" in _seen and _seen["obs"].size and _seen["cents"].size:
                dd = ((_seen["obs"][:, None, :] - _seen["cents"][None, :, :]) ** 2).sum(-1)
                srt = np.sort(dd, axis=1)
                if srt.shape[1] < 2 or np.all(srt[:, 1] - srt[:, 0] > 1e-9 * np.maximum(1.0, srt[:, 1])):      # no near-ties between centroids
                    collect["vq"] = (_seen["cents"].tolist(), _seen["obs"].tolist(), [int(x) for x in labels])
            g_ = groups_problem(labels, slices, n, "get_kmeans_clusters(%d)" % k)
            if g_:
                probs.append(g_)
            elif collect is not None:
                collect.setdefault("labels", []).append(([int(x) for x in labels], [[int(i) for i in s] for s in slices]))
        except Exception as e:
            probs.append("get_kmeans_clusters(%d) raised %s: %s" % (k, type(e).__name__, str(e)[:120]))
    # (with pair genes k-means is documented to refuse; the property does not demand it, so it is not judged)
    # permutation
    if perm is not None:
        p2 = build(case, order=perm)
        D2 = np.array(p2.get_distmat(), float)
        if not np.allclose(D2, D[np.ix_(perm, perm)], atol=1e-9 * scale):
            probs.append("permuting the collection by %s changes the distances (max diff %.3e)" % (perm, np.abs(D2 - D[np.ix_(perm, perm)]).max()))
        else:
            for method in METHODS:
                l1, _s = p.get_hier_clusters(ts[method], method=method)
                l2, _s = p2.get_hier_clusters(ts[method], method=method)
                P1 = partition_of(l1)
                P2 = set(frozenset(perm[i] for i in blk) for blk in partition_of(l2))
                # non-single methods may break ties differently: only compared when no two pair distances tie
                dd = np.sort(D[np.triu_indices(n, 1)])
                tied = len(dd) > 1 and np.min(np.diff(dd)) < 1e-9
                if P1 != P2 and (method == "single" or not tied):
                    probs.append("permuting the collection changes the %s clusters at t=%.6f: %s vs %s" % (method, ts[method], sorted(map(sorted, P1)), sorted(map(sorted, P2))))
    if collect is not None:
        collect.update(vn=vn, vr=vr, vleg=vleg, mn=mn, D=D)
    return probs


def run(ctx):
    rng = ctx.rng
    quick = ctx.tier == "quick"
    ctx.rule = ("collections of 2..15 three-atom structures (random cells incl. equal axes, energies incl. ties) x gene sets from {custom vector genes (1-5 columns, "
                "flat or 2-d, constant columns), constant genes, custom pair genes (Euclidean distances of hidden points, 1-2 layers), all-zero pair genes, "
                "values with a large common offset, latt_abc_len, latt_abc_ang, latt_cart, energy, linkage_list} x positive weights x norm_range in {(0,1), (-1,2.5), (lo,None), (None,hi), "
                "(None,None), (0.5,0.5)} x norm_dist in {1, 2.5, None} x call histories (earlier set_genes with sub-lists / other weights on the same object) x thresholds between consecutive pair distances x 4 linkage methods x k-means k x a "
                "random permutation")
    ctx.trusted += ["hand models coq/model/PhyloBody.v (normalisation, scaling, squared distance) and Clusters.v (groups from labels; threshold-graph components as "
                    "the REFERENCE for single linkage): scipy's linkage / fcluster / kmeans / vq are not modelled, their outputs are judged by the correspondence "
                    "with the reference and by the partition oracle",
                    "the column scale weight/sqrt(len) and sqrt in the distance are floats: the model takes the scale as a rational parameter and works with squared "
                    "distances; floats are compared with the model's rationals to 1e-9",
                    "gene parsers (LatticeABC, LinkageList, CalcEnergy, ...) are inputs to the property: any finite values they return are covered by the theorems"]
    ctx.build_props()
    ok = ctx.build_models(["model/PhyloQ.vo", "model/Clusters.vo"])
    try:
        import soprano.analyse.phylogen  # noqa
    except Exception as e:
        ctx.fail_input("import", dict(module="soprano.analyse.phylogen"), "the package cannot be imported: %s: %s" % (type(e).__name__, str(e)[:200]), classify)
        return
    # corpus: witnesses of repaired defects
    for k in ctx.known:
        w_ = k.get("witness") or {}
        if w_.get("kind") == "case":
            ctx.evaluations += 1
            try:
                pr = check_case(w_["case"])
            except Exception as e:
                pr = ["raised %s: %s" % (type(e).__name__, str(e)[:200])]
            if pr:
                ctx.fail_input("case", w_["case"], "%s: %s [%s]" % (k["id"], pr[0], k["what"]), None)
    N = 60 if quick else 1500
    exq, metaq, exc, metac = [], [], [], []
    for it in range(N):
        case = rand_case(rng)
        n = len(case["structs"])
        perm = list(range(n))
        rng.shuffle(perm)
        tu = (rng.random(), rng.random())
        kk = rng.randint(1, n)
        col = {}
        ctx.evaluations += 1
        try:
            pr = check_case(case, t_u=tu, km_k=kk, perm=perm, collect=col)
        except Exception as e:
            import traceback
            pr = ["raised %s: %s @ %s" % (type(e).__name__, str(e)[:200], traceback.format_exc().strip().splitlines()[-3][:160])]
        kinds = tuple(sorted(g["kind"] if g["kind"] != "default" else g["name"] for g in case["genes"]))
        ctx.seen(("case", n, kinds, len(case.get("prehist") or []), tuple(x is None for x in case["norm_range"]), case["norm_dist"] is None, not pr))
        if pr:
            ctx.fail_input("case", dict(case, t_u=list(tu), km_k=kk, perm=perm), pr[0], classify)
            continue
        if not ok:
            continue
        # ---- model correspondence data
        lo, hi = case["norm_range"]
        gw = {g["name"]: g["weight"] for g in case["genes"]}
        cix = 0
        for name, gn in col["vleg"]:
            w = float(gw[name] / np.sqrt(gn))
            for c_ in range(cix, cix + gn):
                raw = [float(x) for x in col["vr"][:, c_]]
                if all(Fr(x).denominator <= 2 ** 20 for x in raw) and len(exq) < (400 if quick else 6000):
                    if lo is not None and hi is not None:
                        e = "norm_both %s %s %s %s" % (q(lo), q(hi), q(raw[0]), qlist(raw[1:]))
                    elif hi is not None:
                        e = "norm_max %s %s %s" % (q(hi), q(raw[0]), qlist(raw[1:]))
                    elif lo is not None:
                        e = "norm_min %s %s %s" % (q(lo), q(raw[0]), qlist(raw[1:]))
                    else:
                        e = "%s" % qlist(raw)
                    exq.append("flat_map encq (scale %s (%s))" % (q(w), e))
                    metaq.append(("norm", [float(x) for x in col["vn"][:, c_]], dict(gene=name, column=c_ - cix, raw=raw, norm_range=[lo, hi], scale=w)))
            cix += gn
        i, j = rng.randrange(n), rng.randrange(n)
        a, b, m = [float(x) for x in col["vn"][i]], [float(x) for x in col["vn"][j]], [float(x) for x in col["mn"][i, j]]
        exq.append("encq (dist2 %s %s %s)" % (qlist(a), qlist(b), qlist(m)))
        metaq.append(("dist2", [float(col["D"][i, j]) ** 2], dict(i=i, j=j)))
        for labels, slices in col.get("labels", [])[:3]:
            exc.append("flat_map (fun g => g ++ [-1]) (groups %s)" % fw.zlist(labels))
            metac.append(("groups", [x for s in slices for x in list(s) + [-1]], dict(labels=labels)))
        if "vq" in col and len(col["vq"][1]) * len(col["vq"][0]) <= 60:
            cents_, obs_, labs_ = col["vq"]
            exq.append("vq_labels [%s] [%s]" % ("; ".join(qlist(c_) for c_ in cents_), "; ".join(qlist(o_) for o_ in obs_)))
            metaq.append(("vq", labs_, dict(k=len(cents_), n=len(obs_))))
        if "single" in col:
            D, t, labels = col["single"]
            S = 2 ** 30
            Di = [[int(round(float(x) * S)) for x in row] for row in D]
            exc.append("flat_map (fun g => g ++ [-1]) (components %d [%s] %s)" % (n, "; ".join(fw.zlist(r) for r in Di), fw.zlit(int(round(t * S)))))
            metac.append(("components", sorted(sorted(b_) for b_ in partition_of(labels)), dict(t=t, labels=labels)))
    if ok and exq:
        vals = fw.coq_eval("c19q", IMPQ, exq)
        nbad, first = 0, ""
        for mv, (kind, got, info) in zip(vals, metaq):
            if kind == "vq":
                if list(mv) != list(got):
                    nbad += 1
                    first = first or "vq %s: model labels %s impl %s" % (info, list(mv), got)
                continue
            want = [mv[k] / mv[k + 1] for k in range(0, len(mv), 2)]
            if len(want) != len(got) or any(abs(a_ - b_) > 1e-9 * max(1.0, abs(a_)) for a_, b_ in zip(want, got)):
                nbad += 1
                first = first or "%s %s: model %s impl %s" % (kind, info, [round(x, 9) for x in want][:8], [round(x, 9) for x in got][:8])
        ctx.evaluations += len(exq)
        ctx.stats["model_cases"] = dict(norm_columns=sum(1 for m_ in metaq if m_[0] == "norm"), dist2=sum(1 for m_ in metaq if m_[0] == "dist2"), vq=sum(1 for m_ in metaq if m_[0] == "vq"))
        ctx.oblige("PhyloQ model (norm_both/norm_max/norm_min, scale, dist2, vq_labels) == get_genome_vectors_norm / get_distmat^2 / k-means labels [%d cases]" % len(exq), "correspondence", nbad == 0,
                   "%d disagree; first: %s" % (nbad, first))
    if ok and exc:
        vals = fw.coq_eval("c19c", IMPC, exc)
        nbad, first = 0, ""
        for mv, (kind, got, info) in zip(vals, metac):
            if kind == "groups":
                good = list(mv) == list(got)
            else:
                blocks, cur = [], []
                for x in mv:
                    if x == -1:
                        blocks.append(sorted(cur))
                        cur = []
                    else:
                        cur.append(x)
                good = sorted(blocks) == got
            if not good:
                nbad += 1
                first = first or "%s %s: model %s impl %s" % (kind, info, list(mv)[:40], got)
        ctx.evaluations += len(exc)
        ctx.stats["model_cases_clusters"] = dict(groups=sum(1 for m_ in metac if m_[0] == "groups"), components=sum(1 for m_ in metac if m_[0] == "components"))
        ctx.oblige("Clusters model: groups(labels) == returned index groups; components(D, t) == scipy single-linkage fcluster partition [%d cases]" % len(exc),
                   "correspondence", nbad == 0, "%d disagree; first: %s" % (nbad, first))
    if ctx.tier == "thorough":
        ctx.coqchk()


def replay(obj):
    c = obj.get("case")
    if obj.get("kind") == "case" and c:
        try:
            pr = check_case(c, t_u=tuple(c.get("t_u", (0.37, 0.81))), km_k=c.get("km_k"), perm=c.get("perm"))
        except Exception as e:
            pr = ["raised %s: %s" % (type(e).__name__, e)]
        print("replay case (n=%d, genes %s, norm_range %s) -> %s" % (len(c["structs"]), [g["name"] for g in c["genes"]], c["norm_range"],
                                                                    "property holds" if not pr else "PROPERTY FAILS: " + pr[0]))
        return 0 if not pr else 1
    if obj.get("kind") == "import":
        try:
            import soprano.analyse.phylogen  # noqa
            print("replay import -> ok")
            return 0
        except Exception as e:
            print("replay import -> PROPERTY FAILS: %s" % e)
            return 1
    print("replay: nothing executable in this file: %s" % (obj.get("broken_obligations") or obj.get("detail")))
    return 1
