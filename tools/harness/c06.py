"""C06 - collection arrays stay attached to their structures through any history."""
import copy
import itertools
import os
import shutil
import tempfile
import warnings

import numpy as np

import fw

warnings.filterwarnings("ignore")
IMPORTS = "From Coq Require Import ZArith List Bool.\nImport ListNotations.\nRequire Import Sop.model.Coll.\nLocal Open Scope Z_scope.\n"
NONE = 99999
SOPRANO_MSGS = ("does not exist", "should be as long", "invalid shape", "Only one between", "must be an int", "does not support operator")


def key5(n, s):
    return (s * (7 + 3 * n) + n) % 5


def kind(n):
    return ("scalar", "vector", "string")[n % 3]


def val(n, sid):
    if kind(n) == "scalar":
        return key5(n, sid) + 1
    if kind(n) == "vector":
        return [float(sid), float(key5(n, sid)), float(n)]
    return "a%d:%d" % (n, sid)


def mk_atoms(sid):
    from ase import Atoms
    a = Atoms("H", positions=[[0.01 * sid, 0, 0]])
    a.info["sid"] = sid
    return a


def mk_coll(sids, names):
    from soprano.collection import AtomsCollection
    c = AtomsCollection([mk_atoms(s) for s in sids])
    for n in names:
        if sids or kind(n) != "vector":
            c.set_array(str(n), [val(n, s) for s in sids] if sids else np.zeros((0,)) if kind(n) == "scalar" else np.array([], dtype=str))
        else:
            c.set_array(str(n), np.zeros((0, 3)))
    return c


def decode(n, v, sid):
    """owner of an array row as the harness can observe it: sid (aligned), -1 (padding), -2 (belongs to another structure)"""
    k = kind(n)
    try:
        if k == "scalar":
            f = float(v)
            if np.isnan(f) or f == 0:
                return -1
            return sid if f == val(n, sid) else -2
        if k == "vector":
            a = np.asarray(v, float).ravel()
            if a.size != 3 or np.all(np.isnan(a)) or np.all(a == 0):
                return -1
            return sid if (a[0] == sid and a[1] == key5(n, sid) and a[2] == n) else -2
        s = str(v)
        if s in ("nan", "0.0", "0", ""):
            return -1
        return sid if s == val(n, sid) else -2
    except Exception:
        return -2


def observe(c):
    """canonical observable state: (sids, {name: [owner per row]})"""
    sids = [int(s.info["sid"]) for s in c.structures]
    arrs = {}
    for name in sorted(c._arrays, key=int):
        a = c.get_array(name)
        rows = []
        for r in range(len(a)):
            rows.append(decode(int(name), a[r], sids[r]) if r < len(sids) else -2)
        arrs[int(name)] = rows
    return sids, arrs


def enc_obs(obs):
    sids, arrs = obs
    out = [len(sids)] + sids + [len(arrs)]
    for n in sorted(arrs):
        out += [n, len(arrs[n])] + arrs[n]
    return out


def canon_model(enc):
    """model encoding has arrays in insertion order; sort them by name for comparison"""
    if enc[0] != 0:
        return enc
    i = 1
    ns = enc[i]
    sids = enc[i + 1:i + 1 + ns]
    i += 1 + ns
    na = enc[i]
    i += 1
    arrs = {}
    for _ in range(na):
        n, l = enc[i], enc[i + 1]
        arrs[n] = enc[i + 2:i + 2 + l]
        i += 2 + l
    return [0] + enc_obs((sids, arrs))


# ---------------------------------------------------------------- operations

def coq_opt(x):
    return "(oz %s)" % fw.zlit(NONE if x is None else x)


def coq_coll(sids, names, pads=None):
    arrs = []
    for n in names:
        rows = [(-1 if (pads and (n, s) in pads) else s) for s in sids]
        arrs.append("(%d, %s)" % (n, fw.zlist(rows)))
    return "(mkcoll %s [%s])" % (fw.zlist(sids), "; ".join(arrs))


def coq_op(op):
    t = op[0]
    if t == "int":
        return "OGet (IInt %s)" % fw.zlit(op[1])
    if t == "slice":
        return "OGet (ISlice %s %s %s)" % (coq_opt(op[1]), coq_opt(op[2]), fw.zlit(op[3]))
    if t == "list":
        return "OGet (IList %s)" % fw.zlist(op[1])
    if t == "mask":
        return "OGet (IMask [%s])" % "; ".join("true" if b else "false" for b in op[1])
    if t == "add":
        return "OAdd %s" % coq_coll(op[1], op[2])
    if t == "addto":
        return "OAddTo %s" % coq_coll(op[1], op[2])
    if t == "sort":
        return "OSort %d %s" % (op[1], "true" if op[2] else "false")
    if t == "filter":
        return "OFilter %d %d" % (op[1], op[2])
    if t == "classify":
        return "OClassify %d %d" % (op[1], op[2])
    if t == "chunk":
        return "OChunk %s %s %d" % (coq_opt(op[1]), coq_opt(op[2]), op[3])
    if t == "copy":
        return "OCopy"
    if t == "saveload":
        return "OSaveLoad"
    if t in ("setfn", "propget"):
        return "OSetFn %d" % op[1]
    if t == "setlen":
        return "OSetLen %d %d%%nat" % (op[1], op[2])
    raise ValueError(op)


class Applied:
    def __init__(self, cls, coll=None, operands=(), extra=None, exc=None):
        self.cls, self.coll, self.operands, self.extra, self.exc = cls, coll, operands, extra, exc


def apply_op(c, op, tmpdir):
    """run one operation on the real class; returns Applied(cls in ok/refused/crashed, new current collection)"""
    from soprano.collection import AtomsCollection
    from soprano.properties import AtomsProperty
    t = op[0]
    operands = [c]
    extra = None
    try:
        if t == "int":
            r = c[op[1]]
        elif t == "slice":
            r = c[slice(op[1], op[2], op[3])]
        elif t == "list":
            r = c[list(op[1])]
        elif t == "mask":
            r = c[np.array(op[1], dtype=bool)]
        elif t in ("add", "addto"):
            o = mk_coll(op[1], op[2])
            operands.append(o)
            r = (c + o) if t == "add" else (o + c)
        elif t == "sort":
            r = c.sorted_byarray(str(op[1]), reverse=op[2])
        elif t == "filter":
            r = c.filter(lambda s: s.info["sid"] % op[1] == op[2])
        elif t == "classify":
            d = c.classify([s.info["sid"] % op[1] for s in c.structures])
            extra = ("classes", {int(k): observe(v) for k, v in d.items()})
            r = d[op[2]]
        elif t == "chunk":
            l = c.chunkify(chunk_size=op[1], chunk_n=op[2])
            extra = ("chunks", [observe(x) for x in l])
            if not (0 <= op[3] < len(l)):
                raise IndexError("chunk index")
            r = l[op[3]]
        elif t == "copy":
            r = copy.deepcopy(c)
        elif t == "saveload":
            p = os.path.join(tmpdir, "c.pkl")
            c.save(p)
            r = AtomsCollection.load(p)
        elif t == "setfn":
            n = op[1]
            c.set_array(str(n), lambda s: val(n, s.info["sid"]))
            operands = []
            r = c
        elif t == "propget":
            n = op[1]

            class P(AtomsProperty):
                default_name = str(n)
                default_params = {}

                @staticmethod
                def extract(s):
                    return val(n, s.info["sid"])
            got = P.get(c, store_array=True)
            operands = []
            r = c
        elif t == "setlen":
            kd = kind(op[1])
            c.set_array(str(op[1]), np.full((op[2],), np.nan) if kd == "scalar" else np.full((op[2], 3), np.nan) if kd == "vector" else np.array(["nan"] * op[2], dtype=str))
            operands = []
            r = c
        else:
            raise ValueError(op)
        return Applied("ok", r, operands, extra)
    except Exception as e:
        msg = str(e)
        cls = "refused" if any(m in msg for m in SOPRANO_MSGS) else "crashed"
        return Applied(cls, None, operands, extra, "%s: %s" % (type(e).__name__, msg[:100]))


def snapshot(c):
    return enc_obs(observe(c)), [s.get_positions().tolist() for s in c.structures], {k: repr(np.asarray(v).tolist()) for k, v in c._arrays.items()}


def gen_op(rng, sids, names, padded, valid):
    """one operation for a collection whose current structures are `sids` and arrays `names`"""
    n = len(sids)
    kinds = ["int", "slice", "list", "mask", "add", "addto", "sort", "filter", "classify", "chunk", "copy", "saveload", "setfn", "propget", "setlen"]
    t = rng.choice(kinds)
    if t == "int":
        if valid and n == 0:
            return ("copy",)
        return ("int", rng.randint(-n, n - 1) if valid else rng.randint(-2 * n - 2, 2 * n + 2))
    if t == "slice":
        def b():
            return rng.choice([None, rng.randint(-n - 2, n + 2)])
        st = rng.choice([1, 1, 2, 3, -1, -2]) if valid else rng.choice([0, 1, -1, 5])
        return ("slice", b(), b(), st)
    if t == "list":
        if valid:
            if n == 0:
                return ("list", [])
            return ("list", [rng.randint(-n, n - 1) for _ in range(rng.randint(0, n + 1))])
        return ("list", [rng.randint(-n - 2, n + 2) for _ in range(rng.randint(1, 3))])
    if t == "mask":
        m = [rng.random() < 0.5 for _ in range(n)]
        if not valid:
            m = m + [True]
        return ("mask", m)
    if t in ("add", "addto"):
        base = 100 * rng.randint(1, 9)
        osids = [base + i for i in range(rng.randint(0, 4))]
        pool = sorted(set(names) | {rng.randint(0, 5)})
        onames = [x for x in pool if rng.random() < 0.6]
        return (t, osids, onames)
    if t == "sort":
        cand = [x for x in names if kind(x) == "scalar" and x not in padded]
        if valid:
            if not cand:
                return ("copy",)
            return ("sort", rng.choice(cand), rng.random() < 0.5)
        return ("sort", 77, False)
    if t == "filter":
        m = rng.choice([2, 3, 100])
        return ("filter", m, rng.randrange(m) if m < 100 else 99)
    if t == "classify":
        m = rng.choice([2, 3])
        present = sorted({s % m for s in sids})
        if not present:
            return ("copy",)
        return ("classify", m, rng.choice(present))
    if t == "chunk":
        if rng.random() < 0.5:
            k = rng.randint(1, max(1, n))
            cnt = -(-n // k)
            if cnt == 0:
                return ("copy",)
            return ("chunk", k, None, rng.randrange(cnt))
        m = rng.randint(1, max(1, n))
        k = -(-n // m)
        if k == 0:
            return ("copy",)
        cnt = -(-n // k)
        return ("chunk", None, m, rng.randrange(cnt))
    if t in ("setfn", "propget"):
        return (t, rng.randint(0, 5))
    if t == "setlen":
        return ("setlen", rng.randint(0, 5), n if valid else n + 1)
    return (t,)


def classify_finding(kind_, case, detail):
    d = str(detail)
    ops = case.get("ops", [])
    last = ops[-1] if ops else None
    if last and last[0] == "sort" and case.get("cur_len") == 0 and "IndexError" in d:
        return "C06-F06c1"
    if last and last[0] in ("add", "addto") and (case.get("cur_len") == 0 or len(last[1]) == 0) and "invalid shape" in d:
        return "C06-F06c2"
    # the same root cause one step later: an EMPTY collection was concatenated earlier in the history (its vector arrays have no row shape and are padded
    # as scalars), and a later concatenation meets real vector rows
    structural = [o for o in ops if o[0] not in ("setfn", "propget", "setlen")]
    if last and last[0] in ("add", "addto") and ("inhomogeneous shape" in d or "invalid shape" in d) and case.get("sids") == [] and structural \
            and structural[0][0] in ("add", "addto") and len(structural) > 1:
        return "C06-F06c2"
    return None


def run_history(sids0, names0, ops, tmpdir):
    """run a history on the implementation; returns (list of per-step observations, list of oracle problems)"""
    c = mk_coll(sids0, names0)
    steps, problems = [], []
    cur_sids = list(sids0)
    watch = []          # (collection an earlier operation was applied to, its snapshot, that operation): must never change afterwards
    for k, op in enumerate(ops):
        before = [snapshot(x) for x in ([c] if op[0] not in ("setfn", "propget", "setlen") else [])]
        cur_len = len(c)
        ap = apply_op(c, op, tmpdir)
        if ap.cls != "ok":
            steps.append(([1] if ap.cls == "refused" else [2], ap))
            if (ap.cls == "crashed" or op[0] in ("add", "addto")) and op[-1] != "malformed" and op[0] in ("sort", "add", "addto", "list", "filter", "chunk", "copy", "saveload", "classify", "mask", "slice"):
                problems.append((k, "valid operation %s on a collection of %d structures raised %s" % (op[0], cur_len, ap.exc), cur_len))
            break
        # purity of the operand(s)
        if before and ap.operands:
            after = snapshot(ap.operands[0])
            if after != before[0]:
                problems.append((k, "operation %s modified the collection it was applied to" % op[0], cur_len))
        for (wobj, wsnap, wop) in watch:
            if snapshot(wobj) != wsnap:
                problems.append((k, "operation %s on the result of %s modified the collection %s had been applied to" % (op[0], wop, wop), cur_len))
                watch = []
                break
        if before and ap.operands and ap.coll is not ap.operands[0]:
            watch = (watch + [(ap.operands[0], before[0], op[0])])[-3:]
        c = ap.coll
        obs = observe(c)
        sids, arrs = obs
        for n, rows in arrs.items():
            if len(rows) != len(sids):
                problems.append((k, "after %s: array %d has %d rows for %d structures" % (op[0], n, len(rows), len(sids)), cur_len))
            if any(r == -2 for r in rows):
                problems.append((k, "after %s: array %d row(s) %s hold another structure's value" % (op[0], n, [i for i, r in enumerate(rows) if r == -2]), cur_len))
        # the order an indexing operation defines, by Python's own list semantics (independent of the Coq model)
        want = None
        try:
            if op[0] == "int" and -len(cur_sids) <= op[1] < len(cur_sids):
                want = [cur_sids[op[1]]]
            elif op[0] == "slice":
                want = cur_sids[slice(op[1], op[2], op[3])]
            elif op[0] == "list" and all(-len(cur_sids) <= i < len(cur_sids) for i in op[1]):
                want = [cur_sids[i] for i in op[1]]
            elif op[0] == "mask" and len(op[1]) == len(cur_sids):
                want = [s_ for s_, b_ in zip(cur_sids, op[1]) if b_]
        except Exception:
            want = None
        if want is not None and list(sids) != list(want):
            problems.append((k, "indexing %s of a collection holding structures %s returns structures %s, expected %s" % (list(op), cur_sids, list(sids), want), cur_len))
        if ap.extra and ap.extra[0] == "chunks":
            allsids = [s for o in ap.extra[1] for s in o[0]]
            if allsids != cur_sids:
                problems.append((k, "chunks do not concatenate back to the original: %s vs %s" % (allsids, cur_sids), cur_len))
            size = op[1] if op[1] is not None else -(-len(cur_sids) // op[2])
            if any(len(o[0]) != size for o in ap.extra[1][:-1]):
                problems.append((k, "a chunk other than the last has the wrong size", cur_len))
        if ap.extra and ap.extra[0] == "classes":
            tot = sorted(s for o in ap.extra[1].values() for s in o[0])
            if tot != sorted(cur_sids) or any(any(s % op[1] != kk for s in o[0]) for kk, o in ap.extra[1].items()):
                problems.append((k, "classes do not partition the collection", cur_len))
        steps.append(([0] + enc_obs(obs), ap))
        cur_sids = sids
    return steps, problems


def gen_history(rng, maxlen, valid_p=0.7):
    n0 = rng.choice([0, 1, 2, 3, 5, 7, 12]) if rng.random() < 0.8 else rng.randint(0, 12)
    sids0 = list(range(1, n0 + 1))
    rng.shuffle(sids0)
    names0 = [x for x in range(6) if rng.random() < 0.45]
    return sids0, names0


def run(ctx):
    rng = ctx.rng
    quick = ctx.tier == "quick"
    ctx.rule = ("operation histories (length 1-8) from a weighted grammar (70% valid arguments, 30% boundary/malformed: out-of-range and negative "
                "ints, reversed/stepped/zero-step slices, over-long masks, empty results, arrays present in one operand only, ties in the sort key) "
                "on collections of 0-12 structures carrying scalar, vector and string arrays; every prefix of every history is compared with the "
                "Coq model (run key5 c ops, vm_compute); thorough: additionally ALL histories of length <= 2 over a reduced alphabet on a "
                "5-structure collection; distinct = distinct (operation kinds sequence, outcome) keys")
    ctx.trusted += ["hand model coq/model/Coll.v (index normalisation, padding, stable argsort, chunk bounds) tied by correspondence on histories",
                    "harness decode of row ownership (vector/string arrays carry the structure id exactly; scalar arrays carry the sort key)",
                    "modelled, not verified: numpy fancy indexing, pickle, ase.Atoms copying"]
    ctx.build_props()
    ctx.build_models(["model/Coll.vo"])
    tmpdir = tempfile.mkdtemp(prefix="c06_")
    try:
        nh = 150 if quick else 4000
        cases, meta, prev_len = [], [], {}
        for h in range(nh):
            sids0, names0 = gen_history(rng, 8)
            ops = []
            # generate adaptively: we need the current state to generate sensible arguments
            c_sids, c_names, padded = list(sids0), list(names0), set()
            L = rng.randint(1, 8)
            full_steps, problems = None, None
            for k in range(L):
                valid = rng.random() < 0.7
                op = gen_op(rng, c_sids, c_names, padded, valid)
                if not valid:
                    op = op + ("malformed",)
                ops.append(op)
                steps, problems = run_history(sids0, names0, [o[:-1] if o[-1] == "malformed" else o for o in ops[:-1]] + [op], tmpdir)
                last_enc, ap = steps[-1]
                if len(steps) < len(ops) or last_enc[0] != 0:
                    full_steps = steps
                    break
                obs = observe(ap.coll)
                c_sids = obs[0]
                c_names = sorted(obs[1])
                padded = {n for n, rows in obs[1].items() if -1 in rows}
                full_steps = steps
            clean_ops = [o[:-1] if o[-1] == "malformed" else o for o in ops]
            for (k, msg, cur_len) in problems or []:
                ctx.fail_input("history", dict(sids=sids0, names=names0, ops=[list(o) for o in clean_ops[:k + 1]], cur_len=cur_len), msg, classify_finding)
            # skip correspondence for the two modelled-away corner cases (known findings on empty collections with vector arrays)
            for k, (enc, ap) in enumerate(full_steps):
                expr = "enc_out (run key5 %s [%s])" % (coq_coll(sids0, names0), "; ".join(coq_op(o) for o in clean_ops[:k + 1]))
                cases.append((expr, enc))
                meta.append(dict(sids=sids0, names=names0, ops=[list(o) for o in clean_ops[:k + 1]]))
                prev_len[id(meta[-1])] = (full_steps[k - 1][0][1] if k > 0 else len(sids0))
                ctx.seen((tuple(o[0] for o in clean_ops[:k + 1]), enc[0], len(enc)))
            ctx.evaluations += 1
        ctx.sample(dict(history=meta[len(meta) // 2], impl_observation=cases[len(cases) // 2][1]))
        # the model's arrays are in insertion order: canonicalise inside python after evaluation
        vals = fw.coq_eval("c06h", IMPORTS, [c[0] for c in cases])
        nbad, first = 0, ""
        for (expr, exp), mv, m in zip(cases, vals, meta):
            if canon_model(mv) != exp:
                last = m["ops"][-1]
                # known modelling gap: empty + empty with a vector array raises in the implementation (finding F06c2)
                if last[0] in ("add", "addto") and exp in ([1], [2]) and (len(last[1]) == 0 or prev_len.get(id(m)) == 0):
                    continue
                # ... and its downstream form (classified as the same known finding: see classify_finding)
                if exp in ([1], [2]) and classify_finding("history", dict(m, cur_len=prev_len.get(id(m))), "inhomogeneous shape") == "C06-F06c2":
                    continue
                nbad += 1
                first = first or "%s: model=%s impl=%s" % (m, canon_model(mv), exp)
        ctx.evaluations += len(cases)
        ctx.oblige("AtomsCollection histories == Coq model (every prefix; outcome class, structure order, owner of every array row) [%d prefixes of %d histories]" % (len(cases), nh),
                   "correspondence", nbad == 0, "%d disagree; first: %s" % (nbad, first))
        # chunk lists in full
        ccases, cmeta = [], []
        for _ in range(40 if quick else 600):
            n = rng.randint(0, 12)
            sids = list(range(1, n + 1))
            names = [x for x in range(4) if rng.random() < 0.5]
            if rng.random() < 0.5:
                size, cn = rng.randint(1, 13), None
            else:
                size, cn = None, rng.randint(1, 13)
            c = mk_coll(sids, names)
            try:
                l = c.chunkify(chunk_size=size, chunk_n=cn)
                exp = [0, len(l)] + [x for ch in l for x in enc_obs(observe(ch))]
            except Exception as e:
                exp = [1] if any(m in str(e) for m in SOPRANO_MSGS) else [2]
                if n > 0:
                    ctx.fail_input("chunk", dict(sids=sids, names=names, size=size, n=cn), "chunkify raised %s: %s" % (type(e).__name__, e), classify_finding)
            ccases.append(("enc_outl (chunkify %s %s %s)" % (coq_coll(sids, names), coq_opt(size), coq_opt(cn)), exp))
            cmeta.append(dict(sids=sids, names=names, size=size, n=cn))
        vals = fw.coq_eval("c06c", IMPORTS, [c[0] for c in ccases])
        nbad, first = 0, ""
        for (expr, exp), mv, m in zip(ccases, vals, cmeta):
            # canonicalise each chunk of the model
            if mv[0] == 0:
                out, i = [0, mv[1]], 2
                for _ in range(mv[1]):
                    ns = mv[i]
                    j = i + 1 + ns
                    na = mv[j]
                    j2 = j + 1
                    for _a in range(na):
                        j2 += 2 + mv[j2 + 1]
                    out += canon_model([0] + mv[i:j2])[1:]
                    i = j2
                mv = out
            if mv != exp:
                nbad += 1
                first = first or "%s: model=%s impl=%s" % (m, mv, exp)
        ctx.evaluations += len(ccases)
        ctx.oblige("chunkify (all chunks) == Coq model [%d cases]" % len(ccases), "correspondence", nbad == 0, "%d disagree; first: %s" % (nbad, first))
    finally:
        shutil.rmtree(tmpdir, ignore_errors=True)
    if ctx.tier == "thorough":
        ctx.coqchk()


def replay(obj):
    k, c = obj["kind"], obj["case"]
    tmpdir = tempfile.mkdtemp(prefix="c06r_")
    try:
        if k == "history":
            steps, problems = run_history(c["sids"], c["names"], [tuple(o) for o in c["ops"]], tmpdir)
            print("replay history %s -> %s" % (c["ops"], "property holds" if not problems else "PROPERTY FAILS: %s" % problems))
            return 0 if not problems else 1
        if k == "chunk":
            try:
                mk_coll(c["sids"], c["names"]).chunkify(chunk_size=c["size"], chunk_n=c["n"])
                print("replay chunk: property holds")
                return 0
            except Exception as e:
                print("replay chunk: PROPERTY FAILS: chunkify raised %s: %s" % (type(e).__name__, e))
                return 1
    finally:
        shutil.rmtree(tmpdir, ignore_errors=True)
    print("replay: nothing executable in this file: %s" % obj.get("broken_obligations"))
    return 1
