"""C01 - principal-axis decomposition obeys the requested ordering convention."""
import itertools
import warnings
from fractions import Fraction

import numpy as np

import fw
from harness import nmr_common as nc

warnings.filterwarnings("ignore")


def classes():
    from soprano.nmr.tensor import NMRTensor, MagneticShielding, ElectricFieldGradient
    return {"NMRTensor": lambda d, o: NMRTensor(d, order=o),
            "MagneticShielding": lambda d, o: MagneticShielding(d, species="13C", order=o),
            "ElectricFieldGradient": lambda d, o: ElectricFieldGradient(d, species="17O", order=o)}


def chain_ok(conv, ev, tol):
    a, b, c = [float(x) for x in ev]
    m = (a + b + c) / 3
    if conv == "i":
        return a <= b + tol and b <= c + tol
    if conv == "d":
        return a >= b - tol and b >= c - tol
    if conv == "h":
        return abs(c - m) >= abs(a - m) - tol and abs(a - m) >= abs(b - m) - tol
    return abs(a) <= abs(b) + tol and abs(b) <= abs(c) + tol


def tensor_oracle(T, M, conv):
    """clauses 1-5 of the statement on the public attributes; returns (ok, detail)"""
    M = np.asarray(M, float)
    S = (M + M.T) / 2
    scale = max(np.abs(M).max(), 1e-300)
    tol = 1e-9 * scale
    ev = T.eigenvalues
    V = T.eigenvectors
    if T.order != conv:
        return False, "order attribute %r != requested %r" % (T.order, conv)
    if not chain_ok(conv, ev, tol):
        return False, "eigenvalues %s violate the %s chain" % (ev.tolist(), conv)
    true = np.linalg.eigvalsh(S)
    if np.abs(np.sort(ev) - true).max() > tol:
        return False, "eigenvalues %s are not the spectrum %s" % (ev.tolist(), true.tolist())
    if np.abs(V.T @ V - np.eye(3)).max() > 1e-9:
        return False, "frame not orthonormal: %s" % (V.T @ V).tolist()
    if np.linalg.det(V) < 0.5:
        return False, "frame not right-handed: det=%g" % np.linalg.det(V)
    R = V @ np.diag(ev) @ V.T
    if np.abs(R - S).max() > 10 * tol:
        return False, "reconstruction differs from the symmetric part by %g" % np.abs(R - S).max()
    if np.abs(np.diag(ev) - T.PAS).max() > 0:
        return False, "PAS is not diag(eigenvalues)"
    return True, ""


def same_tensor(T1, T2, M, tiefree):
    """re-ordered vs constructed: same eigenvalues, same reconstruction; same axes up to sign when tie-free"""
    scale = max(np.abs(np.asarray(M, float)).max(), 1e-300)
    tol = 1e-9 * scale
    if np.abs(T1.eigenvalues - T2.eigenvalues).max() > tol:
        return False, "eigenvalues differ: %s vs %s" % (T1.eigenvalues.tolist(), T2.eigenvalues.tolist())
    V1, V2 = T1.eigenvectors, T2.eigenvectors
    R1 = V1 @ np.diag(T1.eigenvalues) @ V1.T
    R2 = V2 @ np.diag(T2.eigenvalues) @ V2.T
    if np.abs(R1 - R2).max() > 10 * tol:
        return False, "reconstructions differ by %g" % np.abs(R1 - R2).max()
    if tiefree:
        for k in range(3):
            if min(np.abs(V1[:, k] - V2[:, k]).max(), np.abs(V1[:, k] + V2[:, k]).max()) > 1e-6:
                return False, "axis %d differs beyond sign" % k
    return True, ""


def classify(kind, case, detail):
    # F-01: re-ordering != constructing only because sort keys of DISTINCT eigenvalues tie (exact arithmetic)
    if kind in ("reorder", "from_pair") and case.get("exact_evals") is not None:
        if nc.has_key_tie(case["to"], case["exact_evals"]) and "eigenvalues differ" in str(detail):
            return "C01-F01"
    return None


def run_case(kind, case):
    """re-execute one property-oracle case on the implementation; returns (ok, detail)"""
    cl = classes()[case["cls"]]
    M = np.array(case["M"], float)
    if kind == "construct":
        return tensor_oracle(cl(M, case["to"]), M, case["to"])
    if kind == "reorder":
        T = cl(M, case["frm"])
        T.order = case["to"]
        ok, d = tensor_oracle(T, M, case["to"])
        if not ok:
            return ok, "after re-ordering %s->%s: %s" % (case["frm"], case["to"], d)
        T2 = cl(M, case["to"])
        ev = np.linalg.eigvalsh((M + M.T) / 2)
        tiefree = min(abs(ev[0] - ev[1]), abs(ev[1] - ev[2])) > 1e-6 * max(1.0, np.abs(ev).max()) and not case.get("tie")
        return same_tensor(T, T2, M, tiefree)
    if kind == "from_pair":
        S = (M + M.T) / 2
        ev, V = np.linalg.eigh(S)
        pm = case.get("perm", [0, 1, 2])
        ev = ev[pm]
        V = V[:, pm] * np.array(case.get("signs", [1.0, 1.0, 1.0]))[None, :]
        T = cl((ev, V), case["to"])
        ok, d = tensor_oracle(T, S, case["to"])
        if not ok:
            return ok, "from (evals,evecs): " + d
        T2 = cl(S, case["to"])
        return same_tensor(T, T2, S, False)
    raise ValueError(kind)


def atoms_case(rng, n):
    from ase import Atoms
    syms = [rng.choice(["H", "C", "N", "O", "Na", "Al", "Cl"]) for _ in range(n)]
    a = Atoms(syms, positions=[[i, 0, 0] for i in range(n)])
    a.set_array("ms", np.array([nc.random_tensor(rng, rng.choice(nc.KINDS[:6])) for _ in range(n)]))
    a.set_array("efg", np.array([nc.random_tensor(rng, "traceless") for _ in range(n)]))
    return a


def regen(ctx):
    return nc.regen_nmr_utils(ctx)


def run(ctx):
    from soprano.nmr.utils import _evals_sort
    from soprano.nmr.tensor import NMRTensor
    from soprano.properties.nmr import MSTensor, EFGTensor
    rng = ctx.rng
    quick = ctx.tier == "quick"
    ctx.rule = ("(A) _evals_sort on every integer triple of [-4,4]^3 + random dyadic triples x 4 conventions, exact; "
                "(B) NMRTensor/MagneticShielding/ElectricFieldGradient on exact signed-permutation matrices "
                "(construct, re-order through every other order, (evals,evecs) construction), exact against the Q model; "
                "property oracle on 9 random streams (generic, symmetric, traceless, axial, isotropic, near-degenerate, huge, tiny, "
                "antisymmetric part); distinct = distinct (stream, order, path, outcome) keys")
    ctx.trusted += ["py2v nmr_utils translator (tools/py2v/nmr_utils.py), base/VecBody.v numpy idiom table (argsort3 = numpy's stable argsort of 3 keys, checked on all weak orders each run)",
                    "hand model model/TensorFrameBody.v of _process_data/_order_tensor, tied by exact correspondence",
                    "oracle contract (hypothesis of from_matrix_spec/from_pair_equiv): np.linalg.eigh returns an orthonormal frame diagonalising its argument, ascending; sampled each run",
                    "modelled, not verified: IEEE rounding (exact-input streams for decisions, 1e-9 relative tolerance elsewhere), LAPACK"]
    regen(ctx)
    ctx.build_props()
    ctx.build_models(["model/NmrUtilsQ.vo"])

    # ---- (A) the generated sort == the Python sort, exactly
    triples = [list(t) for t in itertools.product(range(-4, 5), repeat=3)]
    for _ in range(200 if quick else 3000):
        triples.append([Fraction(rng.randint(-4000, 4000), 2 ** rng.randint(0, 6)) for _ in range(3)])
    cases, meta = [], []
    fn = {"i": "evals_sort_i_True", "d": "evals_sort_d_True", "h": "evals_sort_h_True", "n": "evals_sort_n_True"}
    for e in triples:
        for c in "idhn":
            s, p = _evals_sort([[float(x) for x in e]], c, True)
            exp = nc.enc_fracs([nc.frac(x) for x in s[0]]) + [int(x) for x in p[0]]
            cases.append(("let '(s,p) := %s %s in enc3 s ++ encp p" % (fn[c], nc.mk3(e)), exp))
            meta.append(dict(evals=[str(x) for x in e], conv=c))
            ctx.seen(("sort", c, tuple(int(x) for x in p[0]), tuple(np.sign([float(x) for x in e]).tolist())))
    ctx.sample(dict(sort_case=meta[5], impl=cases[5][1]))
    ctx.correspondence("generated _evals_sort == soprano.nmr.utils._evals_sort (values and indices, exact)", "c01a", nc.IMPORTS_Q, cases, meta)

    # ---- (B) frames on exact matrices
    cls = classes()
    cases, meta = [], []
    nexact = 120 if quick else 1500
    patterns = [[1, 2, 3], [-1, 0, 1], [2, 2, 5], [5, 2, 2], [3, 3, 3], [-2, 1, 1], [0, 0, 0], [-3, -1, 4], [1, -1, 0], [-5, 1, 4]]
    for k in range(nexact):
        M, vals = nc.exact_matrix(rng, patterns[k] if k < len(patterns) else None)
        S = (M + M.T) / 2
        l, F = np.linalg.eigh(S)
        lq = [nc.frac(x) for x in l]
        cols = [[nc.frac(F[i, j]) for i in range(3)] for j in range(3)]
        cname = list(cls)[k % 3]
        for c1 in "idhn":
            T = cls[cname](M, c1)
            exp = nc.enc_fracs([nc.frac(x) for x in T.eigenvalues]) + nc.enc_fracs([nc.frac(T.eigenvectors[i, j]) for j in range(3) for i in range(3)])
            cases.append(("let '(s,G) := construct %d (%s, %s) in enc3 s ++ encf G" % (nc.CONV[c1], nc.mk3(lq), nc.mkframe(cols)), exp))
            meta.append(dict(path="construct", cls=cname, M=M.tolist(), order=c1))
            # (evals, evecs) construction from an arbitrarily arranged, arbitrarily signed pair
            pm = rng.sample(range(3), 3)
            sg = [rng.choice((1.0, -1.0)) for _ in range(3)]
            l2 = l[pm]
            F2 = F[:, pm] * np.array(sg)[None, :]
            T3 = cls[cname]((l2, F2), c1)
            exp = nc.enc_fracs([nc.frac(x) for x in T3.eigenvalues]) + nc.enc_fracs([nc.frac(T3.eigenvectors[i, j]) for j in range(3) for i in range(3)])
            cols2 = [[nc.frac(F2[i, j]) for i in range(3)] for j in range(3)]
            cases.append(("let '(s,G) := construct %d (%s, %s) in enc3 s ++ encf G" % (nc.CONV[c1], nc.mk3([nc.frac(x) for x in l2]), nc.mkframe(cols2)), exp))
            meta.append(dict(path="from_pair", cls=cname, M=M.tolist(), order=c1, perm=pm, signs=sg))
            for c2 in "idhn":
                T = cls[cname](M, c1)
                T.order = c2
                exp = nc.enc_fracs([nc.frac(x) for x in T.eigenvalues]) + nc.enc_fracs([nc.frac(T.eigenvectors[i, j]) for j in range(3) for i in range(3)])
                cases.append(("let '(s,G) := reorder %d %d (construct %d (%s, %s)) in enc3 s ++ encf G" % (
                    nc.CONV[c1], nc.CONV[c2], nc.CONV[c1], nc.mk3(lq), nc.mkframe(cols)), exp))
                meta.append(dict(path="reorder", cls=cname, M=M.tolist(), frm=c1, to=c2))
    ctx.sample(dict(frame_case=meta[2], impl=cases[2][1]))
    ctx.correspondence("tensor classes (construct / re-order / from (evals,evecs)) == model construct/reorder on exact frames", "c01b", nc.IMPORTS_Q, cases, meta)

    # ---- oracle contract: eigh
    nbad = 0
    nor = 300 if quick else 5000
    for k in range(nor):
        M = nc.random_tensor(rng, nc.KINDS[k % len(nc.KINDS)])
        S = (M + M.T) / 2
        l, V = np.linalg.eigh(S)
        sc = max(np.abs(S).max(), 1e-300)
        if not (np.abs(V.T @ V - np.eye(3)).max() < 1e-9 and np.abs(V @ np.diag(l) @ V.T - S).max() < 1e-9 * sc and l[0] <= l[1] <= l[2]):
            nbad += 1
    ctx.evaluations += nor
    ctx.oblige("oracle contract: np.linalg.eigh orthonormal, diagonalising, ascending [%d samples]" % nor, "oracle", nbad == 0, "%d violations" % nbad)

    # ---- property oracle on the implementation (search for failing inputs)
    n_or = 60 if quick else 1500
    for k in range(n_or):
        kind = nc.KINDS[k % len(nc.KINDS)]
        M = nc.random_tensor(rng, kind)
        cname = list(cls)[k % 3]
        for c1 in "idhn":
            for path, case in [("construct", dict(cls=cname, M=M.tolist(), to=c1)),
                               ("from_pair", dict(cls=cname, M=M.tolist(), to=c1, perm=rng.sample(range(3), 3), signs=[rng.choice((1.0, -1.0)) for _ in range(3)]))] + \
                              [("reorder", dict(cls=cname, M=M.tolist(), frm=c1, to=c2)) for c2 in "idhn"]:
                try:
                    ok, d = run_case(path, case)
                except Exception as e:
                    ok, d = False, "raised %s: %s" % (type(e).__name__, e)
                ctx.evaluations += 1
                ctx.seen((kind, cname, path, c1, case.get("to"), ok))
                if not ok:
                    ctx.fail_input(path, case, d, classify)
    # exact tie patterns (all integer triples in [-2,2]^3): re-order / from_pair vs construct
    for vals in itertools.product(range(-2, 3), repeat=3):
        M, _ = nc.exact_matrix(rng, list(vals))
        for c1 in "idhn":
            for c2 in "idhn":
                case = dict(cls="NMRTensor", M=M.tolist(), frm=c1, to=c2, exact_evals=list(vals), tie=nc.has_key_tie(c2, vals))
                ok, d = run_case("reorder", case)
                ctx.evaluations += 1
                ctx.seen(("tie", vals, c1, c2, ok))
                if not ok:
                    ctx.fail_input("reorder", case, d, classify)
    # ---- per-atom tensor lists
    for k in range(10 if quick else 100):
        a = atoms_case(rng, rng.randint(1, 6))
        for c in "idhn":
            for prop, arr, default in ((MSTensor, "ms", "i"), (EFGTensor, "efg", "n")):
                ts = prop.get(a, order=c)
                td = prop.get(a)
                for i, T in enumerate(ts):
                    M = a.get_array(arr)[i]
                    ok, d = tensor_oracle(T, M, c)
                    if ok:
                        ok, d = tensor_oracle(td[i], M, default)
                        d = "default order: " + d
                    ctx.evaluations += 1
                    ctx.seen(("atoms", prop.__name__, c, ok))
                    if not ok:
                        ctx.fail_input("atoms", dict(prop=prop.__name__, order=c, M=np.asarray(M).tolist(), cls="NMRTensor", to=c), d, classify)
    if ctx.tier == "thorough":
        ctx.coqchk()


def replay(obj):
    k, c = obj["kind"], obj["case"]
    if k == "atoms":
        k = "construct"
    if k not in ("construct", "reorder", "from_pair"):
        print("replay: nothing executable in this file: %s" % obj.get("broken_obligations"))
        return 1
    ok, d = run_case(k, c)
    print("replay %s %s -> %s %s" % (k, {x: c[x] for x in c if x != 'M'}, "property holds" if ok else "PROPERTY FAILS", d))
    return 0 if ok else 1
