"""C20 - saving a collection tree never destroys data without consent.

(A) gen/TreeGen.v is regenerated from soprano/collection/collection.py by
    tools/py2v/tree_skel.py; the theorems of coq/props/C20 are about it.
(B) exhaustive correspondence on a real temporary directory: every
    safety level x target state x answer for save_tree (event order and fate of
    the folder), every safety level x state x tolerant x unreadable member for
    load_tree, and round trips.
"""
import contextlib
import hashlib
import io
import json
import os
import pickle
import shutil
import sys
import tempfile
import warnings

import fw

TARGETS = ["Absent", "ValidTree", "MetaExtraFile", "MetaExtraDir", "MetaMissingDir", "PlainFiles", "EmptyDir", "BadMeta"]
EV = {1: "Ask", 2: "Raise", 3: "Print", 4: "Rmtree", 5: "Mkdir", 6: "Write"}
EVC = {v: k for k, v in EV.items()}
FATE = {0: "Intact", 1: "Replaced", 2: "Created", 3: "CheckRaises"}
IMPORTS = "From Coq Require Import ZArith List Bool.\nImport ListNotations.\nRequire Import Sop.gen.TreeGen Sop.model.TreeFS.\n"


def regen(ctx):
    sys.path.insert(0, os.path.join(fw.VERIF, "tools", "py2v"))
    import tree_skel
    src = os.path.join(fw.REPO, "soprano", "collection", "collection.py")
    try:
        txt = tree_skel.generate(src)
        fw.write_if_changed(os.path.join(fw.COQ, "gen", "TreeGen.v"), txt)
        ctx.oblige("py2v tree_skel: save_tree/load_tree skeleton inside the translated grammar", "translator", True)
        return True
    except Exception as e:  # fail closed
        ctx.oblige("py2v tree_skel: save_tree/load_tree skeleton inside the translated grammar", "translator", False, repr(e))
        return False


# ------------------------------------------------------------------ fixtures

def _saver(s, fold):
    with open(os.path.join(fold, "s.json"), "w") as f:
        json.dump({"name": s.info.get("name"), "pos": s.get_positions().tolist(), "sym": s.get_chemical_symbols()}, f)


def _loader(calls):
    from ase import Atoms

    def load(fold):
        calls.append(os.path.basename(fold))
        with open(os.path.join(fold, "s.json")) as f:
            d = json.load(f)
        a = Atoms(d["sym"], positions=d["pos"])
        a.info["name"] = d["name"]
        return a
    return load


def mk_coll(names, tag):
    from ase import Atoms
    from soprano.collection import AtomsCollection
    ss = []
    for i, n in enumerate(names):
        a = Atoms("HHe"[: 1 + i % 2] if i % 2 else "H", positions=[[i, 0, 0]] if not i % 2 else [[i, 0, 0], [i, 1, 0]][: (1 + i % 2)])
        if n is not None:
            a.info["name"] = n
        ss.append(a)
    c = AtomsCollection(ss, info={"tag": tag})
    c.set_array("num", [10 * i + 1 for i in range(len(names))])
    c.set_array("lab", ["L%d" % i for i in range(len(names))])
    return c


def build_target(root, kind):
    """create the target state `kind` at root/t; returns the path"""
    p = os.path.join(root, "t")
    if kind == "Absent":
        return p
    if kind in ("PlainFiles", "EmptyDir"):
        os.mkdir(p)
        if kind == "PlainFiles":
            with open(os.path.join(p, "precious.txt"), "w") as f:
                f.write("data")
            os.mkdir(os.path.join(p, "sub"))
            with open(os.path.join(p, "sub", "more.txt"), "w") as f:
                f.write("more")
        return p
    old = mk_coll(["oldA", "oldB"], "old")
    with contextlib.redirect_stdout(io.StringIO()):
        old.save_tree(p, _saver, safety_check=0)
    if kind == "MetaExtraFile":
        with open(os.path.join(p, "precious.txt"), "w") as f:
            f.write("data")
    elif kind == "MetaExtraDir":
        os.mkdir(os.path.join(p, "zextra"))
        _saver(mk_coll(["zextra"], "x").structures[0], os.path.join(p, "zextra"))
    elif kind == "MetaMissingDir":
        shutil.rmtree(os.path.join(p, "oldB"))
    elif kind == "BadMeta":
        with open(os.path.join(p, ".collection"), "wb") as f:
            f.write(b"this is not a pickle")
    return p


def snapshot(p):
    """full listing with content hashes"""
    if not os.path.exists(p):
        return None
    out = {}
    for r, ds, fs in os.walk(p):
        for d in ds:
            out[os.path.relpath(os.path.join(r, d), p) + "/"] = "dir"
        for f in fs:
            out[os.path.relpath(os.path.join(r, f), p)] = hashlib.md5(open(os.path.join(r, f), "rb").read()).hexdigest()
    return out


def doc_check(kind):
    """what the documentation of check_tree says about each target state"""
    return {"Absent": -1, "ValidTree": 0, "MetaExtraFile": 1, "MetaExtraDir": 1, "MetaMissingDir": 1,
            "PlainFiles": 2, "EmptyDir": 2, "BadMeta": None}[kind]


def doc_permitted(safety, chk, ans):
    """save_tree docstring"""
    yes = ans.lower() == "y"
    if safety == 3:
        return chk == 0 and yes
    if safety == 2:
        return chk == 0
    if safety == 1:
        return chk == 0 or yes
    return True


def run_save(kind, safety, ans):
    """run the real save_tree; returns (events, fate, before, after, exception)"""
    import soprano.utils as sutils
    from soprano.collection import AtomsCollection
    root = tempfile.mkdtemp(prefix="c20_")
    try:
        p = build_target(root, kind)
        before = snapshot(p)
        events = []
        new = mk_coll(["newA", "newB", "newC"], "new")
        orig_rm, orig_mk, orig_in = shutil.rmtree, os.mkdir, sutils.safe_input

        def rm(path, *a, **k):
            if os.path.abspath(str(path)) == os.path.abspath(p):
                events.append("Rmtree")
            return orig_rm(path, *a, **k)

        def mk(path, *a, **k):
            if os.path.abspath(str(path)) == os.path.abspath(p):
                events.append("Mkdir")
            return orig_mk(path, *a, **k)

        def inp(prompt=""):
            events.append("Ask")
            return ans

        class Out(io.StringIO):
            def write(self, s):
                if "skipping" in s:
                    events.append("Print")
                return super().write(s)
        exc = None
        shutil.rmtree, os.mkdir, sutils.safe_input = rm, mk, inp
        try:
            with contextlib.redirect_stdout(Out()):
                new.save_tree(p, _saver, safety_check=safety)
        except Exception as e:
            exc = type(e).__name__
            if isinstance(e, OSError) and "check_tree control" in str(e):
                events.append("Raise")
        finally:
            shutil.rmtree, os.mkdir, sutils.safe_input = orig_rm, orig_mk, orig_in
        after = snapshot(p)
        if after is not None and "newA/s.json" in after and ".collection" in after and "Mkdir" in events:
            events.append("Write")
        if before == after:
            fate = "Intact"
        elif before is None:
            fate = "Created"
        else:
            fate = "Replaced"
        if exc is not None and "Raise" not in events and not events and before == after:
            fate = "CheckRaises"
        return events, fate, before, after, exc
    finally:
        shutil.rmtree(root, ignore_errors=True)


def save_oracle(kind, safety, ans, res=None):
    """the property, stated directly on the file system (independent of the model).
    returns (ok, detail)"""
    events, fate, before, after, exc = res or run_save(kind, safety, ans)
    chk = doc_check(kind)
    new_names = {"newA/", "newB/", "newC/", "newA/s.json", "newB/s.json", "newC/s.json", ".collection"}
    if chk is None:
        ok = before == after
        return ok, "unreadable metadata: folder must stay intact (exc=%s fate=%s)" % (exc, fate)
    if chk == -1:
        ok = after is not None and set(after) == new_names and "Ask" not in events
        return ok, "absent target must simply be created: events=%s after=%s" % (events, sorted(after or []))
    if doc_permitted(safety, chk, ans):
        ok = after is not None and set(after) == new_names
        return ok, "permitted overwrite must leave exactly the new tree: events=%s after=%s exc=%s" % (events, sorted(after or []), exc)
    ok = before == after
    lost = sorted(set(before or {}) - set(after or {}))
    return ok, "declined/forbidden overwrite must leave the folder intact: events=%s exc=%s lost=%s" % (events, exc, lost[:6])


# ---------------------------------------------------------------------- load

def run_load(kind, safety, tolerant, unreadable):
    from soprano.collection import AtomsCollection
    root = tempfile.mkdtemp(prefix="c20l_")
    try:
        p = build_target(root, kind)
        if unreadable and os.path.isdir(os.path.join(p, "oldA")):
            with open(os.path.join(p, "oldA", "s.json"), "w") as f:
                f.write("{broken")
        calls = []
        exc = None
        coll = None
        try:
            with contextlib.redirect_stdout(io.StringIO()), warnings.catch_warnings():
                warnings.simplefilter("ignore")
                coll = AtomsCollection.load_tree(p, _loader(calls), safety_check=safety, tolerant=tolerant)
        except Exception as e:
            exc = type(e).__name__ + ":" + str(e)[:80]
        res = dict(calls=sorted(calls), exc=exc)
        if coll is not None:
            res["names"] = [s.info.get("name") for s in coll.structures]
            res["arrays"] = sorted(coll._arrays.keys())
            res["num"] = [int(x) for x in coll.get_array("num")] if "num" in coll._arrays else None
            res["tag"] = coll.info.get("tag")
            res["pct"] = coll.info.get("percentage_loaded")
        return res
    finally:
        shutil.rmtree(root, ignore_errors=True)


def subdirs(kind):
    listed = ["oldA", "oldB"]
    alld = {"ValidTree": ["oldA", "oldB"], "MetaExtraFile": ["oldA", "oldB"], "MetaExtraDir": ["oldA", "oldB", "zextra"],
            "MetaMissingDir": ["oldA"], "PlainFiles": ["sub"], "EmptyDir": [], "BadMeta": ["oldA", "oldB"], "Absent": []}[kind]
    return listed, alld


def classify(kind, case, detail):
    if kind == "load" and case.get("tolerant") and case.get("safety", 0) >= 2 \
            and "ValueError:Array passed to new_array" in str(detail):
        return "C20-F20b"
    if kind == "roundtrip" and case.get("n") == 0 and "ZeroDivisionError" in str(detail):
        return "C20-F20c"
    return None


def load_oracle(kind, safety, tolerant, unreadable, res):
    """documented load behaviour; returns (ok, detail)"""
    chk = doc_check(kind)
    listed, alld = subdirs(kind)
    if chk is None:
        return res["exc"] is not None, "unreadable metadata must not load silently: %s" % res
    if chk == -1:
        return res["exc"] is not None and res["exc"].startswith("OSError"), "absent folder must be refused: %s" % res
    allowed = (safety == 3 and chk == 0) or (safety == 2 and chk < 2) or (safety == 1 and chk < 2) or safety == 0
    if not allowed:
        return res["exc"] is not None and res["exc"].startswith("OSError") and not res["calls"], \
            "level %d must refuse this folder without reading it: %s" % (safety, res)
    want = listed if safety >= 2 else alld
    if sorted(res["calls"]) != sorted(want):
        return False, "wrong sub-folders read: want %s got %s" % (want, res["calls"])
    readable = [d for d in want if not (unreadable and d == "oldA") and not (kind == "MetaMissingDir" and d == "oldB")
                and not (kind == "PlainFiles")]
    nfail = len(want) - len(readable)
    if len(want) == 0:
        # nothing to load at level 0 from an empty folder: any loud outcome or an empty collection is acceptable
        return True, ""
    if nfail == len(want) or (nfail > 0 and not tolerant):
        return res["exc"] is not None and res["exc"].startswith("OSError"), "failed members must be reported: %s" % res
    if res["exc"] is not None:
        return False, "load should succeed: %s" % res
    ok = sorted(res["names"]) == sorted(readable)
    if safety >= 2:
        ok = ok and "num" in res["arrays"] and "lab" in res["arrays"]
        if nfail == 0:
            ok = ok and res["names"] == listed and res["num"] == [1, 11]
        else:
            # tolerant loading: the arrays keep the rows of the members that were read, in the stored order
            ok = ok and res["names"] == readable and res["num"] == [{"oldA": 1, "oldB": 11}[d] for d in readable]
    else:
        ok = ok and res["arrays"] == []
    ok = ok and (res["tag"] == "old") == (chk < 2)
    return ok, "loaded content differs from the documentation of level %d: %s" % (safety, res)


def roundtrip(n, named, fmt):
    """save then load at levels 2 and 3; returns (ok, detail)"""
    import numpy as np
    from ase import Atoms
    from soprano.collection import AtomsCollection
    root = tempfile.mkdtemp(prefix="c20r_")
    try:
        ss = []
        for i in range(n):
            a = Atoms("CH" if i % 2 else "O", positions=[[0.125 * (i % 32), 0, 0], [0.125 * (i % 32), 1.25, 0]][: (2 if i % 2 else 1)], cell=[5, 6, 7], pbc=True)
            if named:
                a.info["name"] = "s%02d" % (n - i)
            ss.append(a)
        c = AtomsCollection(ss, info={"k": 7})
        c.set_array("f", np.arange(n) * 0.5)
        c.set_array("i", np.arange(n)[::-1].copy())
        c.set_array("s", ["x%d" % i for i in range(n)])
        c.set_array("v", np.arange(3 * n).reshape((n, 3)))
        p = os.path.join(root, "t")
        out = []
        for lvl in (3, 2):
            try:
                with contextlib.redirect_stdout(io.StringIO()), warnings.catch_warnings():
                    warnings.simplefilter("ignore")
                    c.save_tree(p, fmt, safety_check=0)
                    l = AtomsCollection.load_tree(p, fmt, safety_check=lvl)
            except Exception as e:
                return False, "round trip raised %s: %s" % (type(e).__name__, e)
            ok = len(l) == n and all(
                s1.get_chemical_symbols() == s2.get_chemical_symbols() and np.allclose(s1.get_positions(), s2.get_positions(), atol=1e-6)
                for s1, s2 in zip(c.structures, l.structures))
            for k in ("f", "i", "s", "v"):
                ok = ok and k in l._arrays and np.array_equal(np.asarray(l.get_array(k)), np.asarray(c.get_array(k)))
            ok = ok and l.info.get("k") == 7
            out.append(ok)
        return all(out), "round trip differs (levels 3,2): %s" % out
    finally:
        shutil.rmtree(root, ignore_errors=True)


# ----------------------------------------------------------------------- run

def run(ctx):
    ctx.rule = ("exhaustive: safety{0..3} x 8 target states x answers{y,Y,n,''} for save_tree on a real temp dir; "
                "safety x states x tolerant x unreadable-member for load_tree; round trips; a case is non-trivial "
                "when the target exists; distinct = distinct (config, outcome) pairs")
    ctx.trusted += ["py2v tree_skel translator (tools/py2v/tree_skel.py) and Python's ast",
                    "hand model coq/model/TreeFS.v (target states, check_tree, documented table) tied by exhaustive correspondence",
                    "modelled, not verified: the OS file system, pickle, glob"]
    ctx.assumptions += ["save_tree region after the first os.mkdir(path) is abstracted to one Write event (scanned for destructive calls on path)"]
    regen(ctx)
    ctx.build_props()
    # ---- save_tree: exhaustive
    answers = ["y", "Y", "n", ""]
    cases, meta, results = [], [], []
    for ti, kind in enumerate(TARGETS):
        for safety in (0, 1, 2, 3):
            for ans in answers:
                res = run_save(kind, safety, ans)
                events, fate, before, after, exc = res
                exp = [{"Intact": 0, "Replaced": 1, "Created": 2, "CheckRaises": 3}[fate]] + [EVC[e] for e in events]
                cases.append(("enc_save %d %d %d" % (ti, safety, 1 if ans.lower() == "y" else 0), exp))
                meta.append(dict(target=kind, safety=safety, answer=ans))
                results.append(res)
                ctx.seen((kind, safety, ans, tuple(events), fate))
                ok, detail = save_oracle(kind, safety, ans, res)
                if not ok:
                    ctx.fail_input("save", dict(target=kind, safety=safety, answer=ans), detail, classify)
    ctx.sample(dict(save_case=meta[13], impl_events=results[13][0], fate=results[13][1]))
    ctx.sample(dict(save_case=meta[62], impl_events=results[62][0], fate=results[62][1]))
    ctx.correspondence("save_tree events+fate == model (exhaustive 8x4x4)", "c20s", IMPORTS, cases, meta)
    # ---- load_tree: exhaustive
    lcases = []
    for ti, kind in enumerate(TARGETS):
        for safety in (0, 1, 2, 3):
            lcases.append((ti, kind, safety))
    vals = fw.coq_eval("c20l", IMPORTS, ["enc_load %d %d" % (ti, s) for ti, _k, s in lcases])
    nbad = 0
    n = 0
    first = ""
    for (ti, kind, safety), mv in zip(lcases, vals):
        for tolerant in (False, True):
            for unreadable in (False, True):
                res = run_load(kind, safety, tolerant, unreadable)
                n += 1
                ctx.seen(("load", kind, safety, tolerant, unreadable, res["exc"] is None, tuple(res["calls"])))
                ok, detail = load_oracle(kind, safety, tolerant, unreadable, res)
                if not ok:
                    ctx.fail_input("load", dict(target=kind, safety=safety, tolerant=tolerant, unreadable=unreadable), detail, classify)
                # model vs impl: which folders are read / refusal
                listed, alld = subdirs(kind)
                if mv == [9]:
                    agree = res["exc"] is not None and not res["calls"]
                elif mv[0] == 0:
                    agree = res["exc"] is not None and not res["calls"]
                else:
                    want = listed if mv[0] == 2 else alld
                    agree = sorted(res["calls"]) == sorted(want)
                    if res["exc"] is None:
                        agree = agree and (("num" in res["arrays"]) == (mv[1] == 1)) and ((res["tag"] == "old") == (mv[2] == 1))
                if not agree:
                    nbad += 1
                    first = first or "target=%s safety=%d tolerant=%s unreadable=%s model=%s impl=%s" % (kind, safety, tolerant, unreadable, mv, res)
    ctx.evaluations += n
    ctx.oblige("load_tree plan (refusal / folders read / arrays / info) == model (exhaustive 8x4x2x2) [%d cases]" % n,
               "correspondence", nbad == 0, first)
    ctx.sample(dict(load_case=dict(target="MetaExtraDir", safety=1, tolerant=False, unreadable=False),
                    impl=run_load("MetaExtraDir", 1, False, False)))
    # load_final table
    fcases = []
    for ntot in (1, 2, 3):
        for nload in range(0, ntot + 1):
            for tol in (0, 1):
                fcases.append((ntot, nload, tol))
    # impl: observed through MetaMissingDir/unreadable above; here compare the arithmetic directly
    fexp = []
    for ntot, nload, tol in fcases:
        pf = (1 - nload / ntot) * 100
        fexp.append([2] if not pf > 0 else ([0] if pf == 100 or not tol else [1]))
    ctx.correspondence("load_final percentage arithmetic == model", "c20f", IMPORTS,
                       [("[end_code (load_final %d %d %s)]" % (nl, nt, "true" if t else "false"), e) for (nt, nl, t), e in zip(fcases, fexp)])
    # ---- round trips
    rts = [(n_, named, fmt) for n_ in ((0, 1, 2, 5, 11) if ctx.tier == "quick" else (0, 1, 2, 3, 5, 9, 11, 23)) for named in (False, True) for fmt in ("xyz", "cif")]
    for n_, named, fmt in rts:
        ok, detail = roundtrip(n_, named, fmt)
        ctx.evaluations += 1
        ctx.seen(("rt", n_, named, fmt, ok))
        if not ok:
            ctx.fail_input("roundtrip", dict(n=n_, named=named, fmt=fmt), detail, classify)
    ctx.sample(dict(roundtrip=dict(n=5, named=True, fmt="xyz"), ok=roundtrip(5, True, "xyz")[0]))
    ctx.exhaustive = True
    if ctx.tier == "thorough":
        ctx.coqchk()


def replay(obj):
    k, c = obj["kind"], obj["case"]
    if k == "save":
        ok, detail = save_oracle(c["target"], c["safety"], c["answer"])
    elif k == "load":
        res = run_load(c["target"], c["safety"], c["tolerant"], c["unreadable"])
        ok, detail = load_oracle(c["target"], c["safety"], c["tolerant"], c["unreadable"], res)
    elif k == "roundtrip":
        ok, detail = roundtrip(c["n"], c["named"], c["fmt"])
    else:
        print("replay: nothing executable in this file (broken obligation): %s" % obj.get("broken_obligations"))
        return 1
    print("replay %s %s -> %s %s" % (k, c, "property holds" if ok else "PROPERTY FAILS", "" if ok else detail))
    return 0 if ok else 1
