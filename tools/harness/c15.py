"""C15 - tensor arithmetic and averaging are linear in the matrix and keep metadata."""
import itertools
import warnings
from fractions import Fraction as Fr

import numpy as np

import fw

warnings.filterwarnings("ignore")
IMPORTS = ("From Coq Require Import ZArith List Bool.\nImport ListNotations.\nRequire Import Sop.model.TensorAlgQ.\nLocal Open Scope Z_scope.\n")


def classify(kind, case, detail):
    d = str(detail)
    return None


def q(v):
    f = Fr(v)
    return "(mkq %s %d)" % (fw.zlit(f.numerator), f.denominator)


def rnd_mat(rng):
    return np.array([[rng.randint(-64, 64) / 8.0 for _ in range(3)] for _ in range(3)])


ORDERS = ["i", "d", "h", "n"]


def mk_tensor(rng, cls, meta=None):
    from soprano.nmr.tensor import ElectricFieldGradient, MagneticShielding, NMRTensor
    m = rnd_mat(rng)
    meta = dict(meta or {})
    if cls == 0:
        meta.setdefault("order", rng.choice(ORDERS))
        return NMRTensor(m, order=meta["order"]), meta
    if cls == 1:
        meta.setdefault("species", rng.choice(["13C", "1H", "15N"]))
        meta.setdefault("order", rng.choice(ORDERS))
        meta.setdefault("reference", rng.choice([None, 30.0, 170.5]))
        meta.setdefault("gradient", rng.choice([-1.0, -0.98]))
        return MagneticShielding(m, species=meta["species"], order=meta["order"], reference=meta["reference"], gradient=meta["gradient"]), meta
    m = (m + m.T) / 2
    m[2, 2] = -(m[0, 0] + m[1, 1])                 # traceless with dyadic entries (exact float arithmetic)
    meta.setdefault("species", rng.choice(["2H", "17O", "14N"]))
    meta.setdefault("order", rng.choice(ORDERS))
    return ElectricFieldGradient(m, species=meta["species"], order=meta["order"]), meta


def params(t):
    return dict(t._initialisation_params)


def check_like(res, src, want_data, what):
    """same class, same initialisation parameters, data == want_data"""
    if type(res) is not type(src):
        return "%s returns %s, not %s" % (what, type(res).__name__, type(src).__name__)
    if params(res) != params(src):
        return "%s lost metadata: %s -> %s" % (what, params(src), params(res))
    if not np.allclose(np.array(res.data), want_data, atol=1e-12):
        return "%s: data differs from the matrix operation" % what
    return None


def coq_tensor(cls, data, metacode):
    return "(mkT %d [%s] %s)" % (cls, "; ".join(q(x) for x in np.array(data).ravel()), fw.zlist(metacode))


def meta_code(meta):
    out = []
    for k in sorted(meta):
        v = meta[k]
        out.append(abs(hash(("%s=%r" % (k, v)))) % 100003)
    return out


def run(ctx):
    from soprano.nmr.tensor import ElectricFieldGradient, MagneticShielding, NMRTensor
    rng = ctx.rng
    quick = ctx.tier == "quick"
    ctx.rule = ("random tensors of the three classes with dyadic data and random metadata x every operator form (-T, T+U, U+T, T-U, k*T, T*k, T/k, T@M, M@T, T@v, "
                "numpy scalars, arrays of right and wrong shape, foreign operands, conflicting metadata) x nestings of depth 1-3 up to 4x4x3 x axis in "
                "{None,0,1,2} x weights (none, uniform, random positive, with zeros); collection-level mean properties")
    ctx.trusted += ["hand model coq/model/TensorAlgBody.v; numpy ufunc dispatch and float arithmetic are exercised (dyadic data: exact), not modelled",
                    "metadata are compared as python dictionaries on the code and as opaque integer codes in the model"]
    ctx.build_props()
    ctx.build_models(["model/TensorAlgQ.vo"])
    cases, meta = [], []
    N = 150 if quick else 3000
    for t in range(N):
        cls = t % 3
        T, mT = mk_tensor(rng, cls)
        same_meta = rng.random() < 0.6
        ucls = cls if rng.random() < 0.8 else (cls + 1) % 3
        if ucls == cls and not same_meta and rng.random() < 0.7:
            # conflicting metadata differing in exactly ONE parameter (including unset vs set, in both directions)
            mU0 = dict(mT)
            key = rng.choice(sorted(mU0))
            alt = {"order": ORDERS, "species": ["13C", "1H", "15N"] if cls == 1 else ["2H", "17O", "14N"], "reference": [None, 30.0, 170.5], "gradient": [-1.0, -0.98]}[key]
            mU0[key] = rng.choice([x for x in alt if x != mU0[key]])
            U, mU = mk_tensor(rng, ucls, mU0)
        else:
            U, mU = mk_tensor(rng, ucls, mT if (same_meta and ucls == cls) else None)
        A, B = np.array(T.data), np.array(U.data)
        k = rng.choice([2, -3, 0.5, np.float64(1.5), np.int64(4), -0.25])
        M = rnd_mat(rng)
        v = np.array([rng.randint(-8, 8) / 2.0 for _ in range(3)])
        case = dict(cls=cls, ucls=ucls, meta=str(mT), umeta=str(mU), metaT=dict(mT), metaU=dict(mU), A=A.tolist(), B=B.tolist(), M=M.tolist(), kval=float(k), v=v.tolist())
        ops = [("-T", lambda: -T, T, -A), ("+T", lambda: +T, T, A), ("k*T", lambda: k * T, T, k * A), ("T*k", lambda: T * k, T, A * k), ("T/k", lambda: T / k, T, A / k),
               ("T@M", lambda: T @ M, T, A @ M), ("M@T", lambda: M @ T, T, M @ A), ("T+M", lambda: T + M, T, A + M), ("M-T", lambda: M - T, T, M - A)]
        for name, f, src, want in ops:
            ctx.evaluations += 1
            try:
                r = f()
                p = check_like(r, src, want, name)
            except Exception as e:
                p = "%s raised %s: %s" % (name, type(e).__name__, e)
            ctx.seen(("op", name, cls, p is None))
            if p:
                ctx.fail_input("arith", dict(case, op=name, k=str(k)), p, classify)
        # T @ v is a plain vector
        try:
            r = T @ v
            if isinstance(r, NMRTensor) or not np.allclose(r, A @ v):
                ctx.fail_input("arith", dict(case, op="T@v"), "T @ v is not the matrix-vector product", classify)
        except Exception as e:
            ctx.fail_input("arith", dict(case, op="T@v"), "T @ v raised %s: %s" % (type(e).__name__, e), classify)
        # binary with another tensor: same class + conflicting metadata must be refused; otherwise data adds
        conflict = (ucls == cls and params(T) != params(U))
        for name, f, want in (("T+U", lambda: T + U, A + B), ("T-U", lambda: T - U, A - B)):
            ctx.evaluations += 1
            try:
                r = f()
                refused = False
            except ValueError:
                refused = True
                r = None
            except Exception as e:
                ctx.fail_input("arith", dict(case, op=name), "%s raised %s: %s" % (name, type(e).__name__, e), classify)
                continue
            ctx.seen(("bin", name, cls, ucls == cls, conflict, refused))
            if conflict and not refused:
                ctx.fail_input("arith", dict(case, op=name), "%s silently combined tensors of the same class with conflicting metadata %s vs %s" % (name, params(T), params(U)), classify)
            elif not conflict and refused and ucls == cls:
                ctx.fail_input("arith", dict(case, op=name), "%s refused tensors with identical metadata" % name, classify)
            elif not refused:
                # mixed classes: numpy hands the call to the more specific class, whose class and metadata the result then carries
                p = check_like(r, T, want, name)
                if p and ucls != cls:
                    p = check_like(r, U, want, name)
                if p:
                    ctx.fail_input("arith", dict(case, op=name), p, classify)
            if ucls == cls:
                cases.append(("enc_res (%s %s %s)" % ("tadd" if name == "T+U" else "tsub", coq_tensor(cls, A, meta_code(params(T))), coq_tensor(ucls, B, meta_code(params(U)))),
                              ([0] if refused else [1, cls] + [z for x in np.array(r.data).ravel() for z in (Fr(float(x)).numerator, Fr(float(x)).denominator)] + [len(meta_code(params(r)))] + meta_code(params(r)))))
                meta.append(("binop", dict(case, op=name)))
        # wrong-shape array / foreign operand
        for bad, nm in ((np.zeros((2, 2)), "2x2 array"), (np.zeros(4), "4-vector")):
            try:
                T + bad
                ctx.fail_input("arith", dict(case, op="T+" + nm), "adding a %s was accepted" % nm, classify)
            except (ValueError, TypeError):
                pass
            ctx.evaluations += 1
        try:
            T + "x"
            ctx.fail_input("arith", dict(case, op="T+str"), "adding a string was accepted", classify)
        except TypeError:
            pass
        except Exception as e:
            pass
    # ---- means over nested lists
    NM = 80 if quick else 1500
    for t in range(NM):
        cls = t % 3
        depth = rng.choice([1, 1, 2, 2, 3])
        shape = tuple(rng.randint(1, 4) for _ in range(depth))
        if depth == 3:
            shape = (rng.randint(1, 4), rng.randint(1, 4), rng.randint(1, 3))
        T0, m0 = mk_tensor(rng, cls)
        flat = [mk_tensor(rng, cls, m0)[0] for _ in range(int(np.prod(shape)))]
        arr = np.empty(shape, dtype=object)
        for i, idx in enumerate(np.ndindex(shape)):
            arr[idx] = flat[i]
        nested = arr.tolist()
        data = np.array([np.array(x.data) for x in flat]).reshape(shape + (3, 3))
        axis = rng.choice([None] + list(range(depth)))
        wkind = rng.choice(["none", "uniform", "random", "zeros"])
        nW = int(np.prod(shape)) if axis is None else shape[axis]
        if wkind == "none":
            w = None
        elif wkind == "uniform":
            w = np.ones(nW)
        elif wkind == "random":
            w = np.array([rng.randint(1, 8) / 4.0 for _ in range(nW)])
        else:
            w = np.array([rng.choice([0.0, 0.0, 1.0, 2.5]) for _ in range(nW)])
            if w.sum() == 0:
                w[0] = 1.0
        case = dict(cls=cls, shape=list(shape), axis=axis, weights=None if w is None else w.tolist(), data=np.array(data).tolist(), meta0=dict(m0))
        ctx.evaluations += 1
        try:
            r = type(T0).mean(nested, axis=axis, weights=w)
        except Exception as e:
            ctx.fail_input("mean", case, "mean raised %s: %s" % (type(e).__name__, str(e)[:160]), classify)
            ctx.seen(("mean", depth, axis, wkind, "raised"))
            continue
        if axis is None:
            want = np.average(data.reshape((-1, 3, 3)), axis=0, weights=w)
            got = np.array(r.data) if isinstance(r, NMRTensor) else None
            outs = [r]
        else:
            want = np.average(data, axis=axis, weights=w)
            try:
                ra = np.empty(want.shape[:-2], dtype=object)
                def fill(x, idx=()):
                    if isinstance(x, NMRTensor):
                        ra[idx] = x
                    else:
                        for i_, y in enumerate(x):
                            fill(y, idx + (i_,))
                if want.ndim == 2:
                    outs = [r]
                    got = np.array(r.data)
                else:
                    fill(r)
                    outs = list(ra.ravel())
                    got = np.array([np.array(x.data) for x in ra.ravel()]).reshape(want.shape)
            except Exception as e:
                got, outs = None, []
        ctx.seen(("mean", depth, axis, wkind, "ok"))
        if got is None or got.shape != want.shape or not np.allclose(got, want, atol=1e-12):
            ctx.fail_input("mean", case, "mean differs from the tensor of the (weighted) mean matrix", classify)
        elif any(type(o) is not type(T0) or params(o) != params(T0) for o in outs):
            ctx.fail_input("mean", case, "mean lost class or metadata", classify)
        if depth == 1 and axis is None:
            ws = [1.0] * len(flat) if w is None else list(w)
            cases.append(("enc_res (tmean [%s] [%s])" % ("; ".join(coq_tensor(cls, x.data, meta_code(params(x))) for x in flat), "; ".join(q(v_) for v_ in ws)),
                          [1, cls] + [z for x in np.array(r.data).ravel() for z in (Fr(float(x)).limit_denominator(10 ** 12).numerator, Fr(float(x)).limit_denominator(10 ** 12).denominator)]
                          + [len(meta_code(params(r)))] + meta_code(params(r))))
            meta.append(("mean", case))
    # incompatible tensors in a mean are refused, whichever of the two comes first and also when one of the values is simply unset
    for t in range(20):
        base = dict(species="13C", order="i", reference=rng.choice([None, 30.0]), gradient=-1.0)
        other = dict(base)
        key = rng.choice(["species", "order", "reference", "gradient"])
        other[key] = {"species": "1H", "order": "h", "reference": 170.5 if base["reference"] is None else None, "gradient": -0.98}[key]
        x1, _ = mk_tensor(rng, 1, base)
        x2, _ = mk_tensor(rng, 1, other)
        for lst in ([x1, x2], [x2, x1]):
            try:
                MagneticShielding.mean(lst)
                ctx.fail_input("mean", dict(kind="conflict", first=str(params(lst[0])), second=str(params(lst[1]))), "mean silently combined tensors with conflicting %s" % key, classify)
            except ValueError:
                pass
            ctx.evaluations += 1
    for t in range(10):
        a_, ma = mk_tensor(rng, 1, dict(species="13C", order="i", reference=None, gradient=-1.0))
        b_, mb = mk_tensor(rng, 1, dict(species="1H", order="i", reference=None, gradient=-1.0))
        try:
            MagneticShielding.mean([a_, b_])
            ctx.fail_input("mean", dict(kind="conflict"), "mean silently combined tensors of different species", classify)
        except ValueError:
            pass
        ctx.evaluations += 1
    # ---- collection-level mean properties equal the property of the mean tensor
    try:
        from ase import Atoms
        from soprano.collection import AtomsCollection
        from soprano.properties.nmr.efg import EFGTensor, EFGVzz
        from soprano.properties.nmr.ms import MSIsotropy, MSSpan, MSTensor
        for t in range(6 if quick else 60):
            structs = []
            n = rng.randint(1, 3)
            for _s in range(rng.randint(2, 4)):
                a = Atoms(["C"] * n, positions=[[i, 0, 0] for i in range(n)])
                a.set_array("ms", np.array([rnd_mat(rng) for _ in range(n)]))
                e_ = []
                for _ in range(n):
                    m = rnd_mat(rng)
                    m = (m + m.T) / 2
                    e_.append(m - np.eye(3) * np.trace(m) / 3)
                a.set_array("efg", np.array(e_))
                structs.append(a)
            coll = AtomsCollection(structs)
            mt = MSTensor().mean(coll, axis=0)
            iso = MSIsotropy().mean(coll, axis=0)
            span = MSSpan().mean(coll, axis=0)
            et = EFGTensor().mean(coll, axis=0)
            vz = EFGVzz().mean(coll, axis=0)
            ctx.evaluations += 1
            if not (np.allclose(iso, [x.isotropy for x in mt]) and np.allclose(span, [x.span for x in mt]) and np.allclose(vz, [x.Vzz for x in et])):
                ctx.fail_input("collmean", dict(n=n, nstruct=len(structs)), "collection-level mean property differs from the property of the mean tensor", classify)
            mdata = np.mean([s_.get_array("ms") for s_ in structs], axis=0)
            if not np.allclose([np.array(x.data) for x in mt], mdata):
                ctx.fail_input("collmean", dict(n=n, nstruct=len(structs)), "collection-level mean tensor is not the mean matrix", classify)
    except Exception as e:
        ctx.fail_input("collmean", dict(), "collection-level mean raised %s: %s" % (type(e).__name__, str(e)[:200]), classify)
    ctx.correspondence("T+U / T-U (incl. refusals) and flat weighted means == Coq model", "c15", IMPORTS, cases, meta)
    if cases:
        ctx.sample(dict(case=meta[0], impl=cases[0][1][:30]))
    # ---- histories on ONE MagneticShielding object: used once, its metadata changed through the public API, used again.  The result must carry the
    #      metadata the operand has NOW (read from the public attributes, not from _initialisation_params), and an operand that now conflicts is refused
    from soprano.nmr.tensor import MagneticShielding
    for t in range(30 if quick else 400):
        m1, m2 = rnd_mat(rng), rnd_mat(rng)
        sp = rng.choice(["13C", "1H"])
        o1, r1, g1 = rng.choice(ORDERS), rng.choice([30.0, 170.5]), rng.choice([-1.0, -0.98])
        change = rng.choice(["set_reference", "set_gradient", "order"])
        case = dict(kind="metadata-history", change=change)
        ctx.evaluations += 1
        try:
            a_ = MagneticShielding(m1, species=sp, order=o1, reference=r1, gradient=g1)
            b_ = MagneticShielding(m2, species=sp, order=o1, reference=r1, gradient=g1)
            _first = a_ + b_                                   # first use
            if change == "set_reference":
                new = r1 + 12.25
                a_.set_reference(new)
                b_.set_reference(new)
            elif change == "set_gradient":
                new = -0.9 if g1 != -0.9 else -0.95
                a_.set_gradient(new)
                b_.set_gradient(new)
            else:
                new = rng.choice([o for o in ORDERS if o != o1])
                a_.order = new
                b_.order = new
            r_ = a_ + b_
            got = dict(order=r_.order, reference=r_.reference, gradient=r_.gradient, species=r_.species)
            want = dict(order=a_.order, reference=a_.reference, gradient=a_.gradient, species=a_.species)
            p_ = None
            if got != want:
                p_ = "after %s the sum carries %s, its operands now have %s (stale metadata)" % (change, got, want)
            elif not np.allclose(np.array(r_.data), m1 + m2, atol=1e-12):
                p_ = "after %s the sum's data is not the matrix sum" % change
            else:
                # now only ONE operand is changed again: the pair conflicts and must be refused
                if change == "set_reference":
                    a_.set_reference(new + 1.5)
                elif change == "set_gradient":
                    a_.set_gradient(new - 0.03)
                else:
                    a_.order = o1
                try:
                    a_ + b_
                    p_ = "operands whose %s now differ are combined instead of refused" % {"set_reference": "references", "set_gradient": "gradients", "order": "orders"}[change]
                except ValueError:
                    pass
            ctx.seen(("metadata-history", change, p_ is None))
            if p_:
                ctx.fail_input("arith", case, p_, classify)
        except Exception as e:
            ctx.fail_input("arith", case, "metadata history raised %s: %s" % (type(e).__name__, str(e)[:160]), classify)
    if ctx.tier == "thorough":
        ctx.coqchk()


def _mk(cls, mat, meta):
    from soprano.nmr.tensor import ElectricFieldGradient, MagneticShielding, NMRTensor
    if cls == 0:
        return NMRTensor(np.array(mat), order=meta["order"])
    if cls == 1:
        return MagneticShielding(np.array(mat), species=meta["species"], order=meta["order"], reference=meta["reference"], gradient=meta["gradient"])
    return ElectricFieldGradient(np.array(mat), species=meta["species"], order=meta["order"])


def replay(obj):
    from soprano.nmr.tensor import NMRTensor
    c = obj.get("case") or {}
    p = "?"
    try:
        if obj.get("kind") == "arith" and "A" in c:
            T, U = _mk(c["cls"], c["A"], c["metaT"]), _mk(c["ucls"], c["B"], c["metaU"])
            A, B, M, k, v = np.array(c["A"]), np.array(c["B"]), np.array(c["M"]), c["kval"], np.array(c["v"])
            op = c.get("op")
            table = {"-T": (lambda: -T, -A), "+T": (lambda: +T, A), "k*T": (lambda: k * T, k * A), "T*k": (lambda: T * k, A * k), "T/k": (lambda: T / k, A / k),
                     "T@M": (lambda: T @ M, A @ M), "M@T": (lambda: M @ T, M @ A), "T+M": (lambda: T + M, A + M), "M-T": (lambda: M - T, M - A)}
            if op in table:
                p = check_like(table[op][0](), T, table[op][1], op)
            elif op in ("T+U", "T-U"):
                want = A + B if op == "T+U" else A - B
                conflict = (c["ucls"] == c["cls"] and params(T) != params(U))
                try:
                    r = T + U if op == "T+U" else T - U
                    p = ("%s silently combined tensors with conflicting metadata" % op) if conflict else (check_like(r, T, want, op) and check_like(r, U, want, op))
                except ValueError:
                    p = None if conflict else "%s refused tensors with identical metadata" % op
            elif op == "T@v":
                r = T @ v
                p = None if (not isinstance(r, NMRTensor) and np.allclose(r, A @ v)) else "T @ v is not the matrix-vector product"
            else:
                print("replay: operation %r is not replayable from this file: %s" % (op, obj.get("detail")))
                return 1
        elif obj.get("kind") == "mean" and "data" in c:
            data = np.array(c["data"])
            shape = tuple(c["shape"])
            flat = [_mk(c["cls"], m, c["meta0"]) for m in data.reshape((-1, 3, 3))]
            arr = np.empty(shape, dtype=object)
            for i, idx in enumerate(np.ndindex(shape)):
                arr[idx] = flat[i]
            w = None if c["weights"] is None else np.array(c["weights"])
            r = type(flat[0]).mean(arr.tolist(), axis=c["axis"], weights=w)
            if c["axis"] is None:
                want = np.average(data.reshape((-1, 3, 3)), axis=0, weights=w)
                got = np.array(r.data)
            else:
                want = np.average(data, axis=c["axis"], weights=w)
                def flatten(x):
                    return [x] if isinstance(x, NMRTensor) else [z for y in x for z in flatten(y)]
                got = np.array([np.array(x.data) for x in flatten(r)]).reshape(want.shape)
            p = None if np.allclose(got, want, atol=1e-12) else "mean differs from the tensor of the (weighted) mean matrix"
        else:
            print("replay: nothing executable in this file (re-run ./check C15 with VERIF_SEED=%s): %s" % (obj.get("seed"), obj.get("detail")))
            return 1
    except Exception as e:
        p = "raised %s: %s" % (type(e).__name__, e)
    print("replay %s %s -> %s" % (obj.get("kind"), c.get("op", c.get("shape")), "property holds" if not p else "PROPERTY FAILS: " + str(p)))
    return 0 if not p else 1


def _old_replay(obj):

    print("replay: re-run ./check C15 (inputs are regenerated from the seed %s); recorded case: %s %s" % (obj.get("seed"), obj.get("kind"), str(obj.get("case"))[:400]))
    print(obj.get("detail"))
    return 1
