"""./check setup : regenerate every generated Coq file from /repo and build the whole development (full .vo build)."""
import importlib
import os
import sys
import glob

import fw


class Dummy(fw.Ctx):
    def __init__(self):
        super().__init__("setup", "quick", 0)


def main():
    ctx = Dummy()
    for f in sorted(glob.glob(os.path.join(fw.VERIF, "tools", "harness", "c[0-9][0-9].py"))):
        mod = importlib.import_module("harness." + os.path.basename(f)[:-3])
        if hasattr(mod, "regen"):
            try:
                mod.regen(ctx)
            except Exception as e:
                print("regen failed for", f, e)
    with fw.CoqLock():
        fw.mkproject()
        rc, out = fw.sh("timeout 3000 make -k -j%d" % fw.NCPU, cwd=fw.COQ, timeout=3100)
    print(out[-3000:])
    print("setup: make rc=%d" % rc)
    return 0 if rc == 0 else 1
