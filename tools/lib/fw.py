"""Common machinery of the soprano verification checks (DESIGN.md section 2).

One invocation of ./check Cxx creates a Ctx, lets the property module
(tools/harness/cxx.py) register obligations (theorem files, correspondence
shards, oracle contracts), failing inputs of the property on the real code
(classified against known_findings.json) and samples, and then writes the
evidence file and prints the VIOLATION / KNOWN-FINDING lines.
"""
import fcntl
import glob
import hashlib
import json
import os
import random
import re
import subprocess
import sys
import time
from concurrent.futures import ThreadPoolExecutor

VERIF = os.path.dirname(os.path.dirname(os.path.dirname(os.path.abspath(__file__))))
COQ = os.path.join(VERIF, "coq")
BUILD = os.path.join(VERIF, "build")
REPO = os.environ.get("SOPRANO_REPO", "/repo")
NCPU = os.cpu_count() or 4

# Axioms of the Coq standard library that R-instance theorems may depend on
# (DESIGN section 7).  Anything else printed by Print Assumptions fails the
# obligation.
AXIOM_ALLOW = {
    "ClassicalDedekindReals.sig_forall_dec",
    "ClassicalDedekindReals.sig_not_dec",
    "FunctionalExtensionality.functional_extensionality_dep",
    "Classical_Prop.classic",
}

FORBIDDEN = re.compile(
    r"\b(Admitted|admit|Axiom|Axioms|Parameter|Parameters|Conjecture|Conjectures|"
    r"Admit\s+Obligations|bypass_check|Unset\s+Guard\s+Checking|Unset\s+Positivity\s+Checking|"
    r"Unset\s+Universe\s+Checking|type-in-type|impredicative-set)\b")


def sh(cmd, timeout=None, cwd=None, env=None):
    """Run a shell command, return (rc, output)."""
    try:
        p = subprocess.run(cmd, shell=isinstance(cmd, str), cwd=cwd, env=env,
                           stdout=subprocess.PIPE, stderr=subprocess.STDOUT,
                           timeout=timeout, text=True, errors="replace")
        return p.returncode, p.stdout
    except subprocess.TimeoutExpired as e:
        out = e.stdout or ""
        if isinstance(out, bytes):
            out = out.decode(errors="replace")
        return 124, out + "\n[timeout after %ss]" % timeout


# ---------------------------------------------------------------- Coq project

def strip_comments(src):
    """Remove (nested) Coq comments and string literals are kept."""
    out = []
    depth = 0
    i = 0
    n = len(src)
    while i < n:
        if src.startswith("(*", i):
            depth += 1
            i += 2
        elif src.startswith("*)", i) and depth > 0:
            depth -= 1
            i += 2
        else:
            if depth == 0:
                out.append(src[i])
            i += 1
    return "".join(out)


def coq_sources():
    fs = []
    for root, _dirs, files in os.walk(COQ):
        for f in files:
            if f.endswith(".v"):
                fs.append(os.path.relpath(os.path.join(root, f), COQ))
    return sorted(fs)


def grep_gate():
    """Reject forbidden vernacular anywhere under coq/ (comments stripped)."""
    bad = []
    for f in coq_sources():
        src = strip_comments(open(os.path.join(COQ, f)).read())
        # top-level Variable / Hypothesis outside a Section
        m = FORBIDDEN.search(src)
        if m:
            bad.append("%s: %s" % (f, m.group(0)))
        depth = 0
        for line in src.split("\n"):
            s = line.strip()
            if re.match(r"Section\b", s):
                depth += 1
            elif re.match(r"End\b", s) and depth > 0:
                depth -= 1
            elif depth == 0 and re.match(r"(Variable|Variables|Hypothesis|Hypotheses|Context)\b", s):
                bad.append("%s: top-level %s" % (f, s[:40]))
    return bad


def write_if_changed(path, text):
    os.makedirs(os.path.dirname(path), exist_ok=True)
    try:
        if open(path).read() == text:
            return False
    except FileNotFoundError:
        pass
    tmp = path + ".tmp%d" % os.getpid()
    with open(tmp, "w") as f:
        f.write(text)
    os.replace(tmp, path)
    return True


class CoqLock:
    def __enter__(self):
        os.makedirs(BUILD, exist_ok=True)
        self.f = open(os.path.join(BUILD, ".coq.lock"), "w")
        fcntl.flock(self.f, fcntl.LOCK_EX)
        return self

    def __exit__(self, *a):
        fcntl.flock(self.f, fcntl.LOCK_UN)
        self.f.close()


def mkproject():
    """(Re)write coq/_CoqProject and Makefile.local; run coq_makefile if needed.
    *Body.v files are texts Load-ed under a carrier header, not compilation units."""
    files = [f for f in coq_sources() if not f.endswith("Body.v") and not f.startswith("cases/")]
    proj = "-Q . Sop\n-arg -w -arg -notation-overridden,-deprecated-hint-without-locality,-deprecated-instance-without-locality\n" + "\n".join(files) + "\n"
    changed = write_if_changed(os.path.join(COQ, "_CoqProject"), proj)
    deps = []
    for f in files:
        src = open(os.path.join(COQ, f)).read()
        for m in re.finditer(r'^\s*Load\s+"([^"]+)"', src, re.M):
            deps.append("%s: %s.v" % (f[:-2] + ".vo", m.group(1)))
            # transitive: Body files loading Body files
            inner = os.path.join(COQ, m.group(1) + ".v")
            if os.path.exists(inner):
                for m2 in re.finditer(r'^\s*Load\s+"([^"]+)"', open(inner).read(), re.M):
                    deps.append("%s: %s.v" % (f[:-2] + ".vo", m2.group(1)))
    changed |= write_if_changed(os.path.join(COQ, "Makefile.local"), "\n".join(sorted(set(deps))) + "\n")
    if changed or not os.path.exists(os.path.join(COQ, "Makefile")):
        rc, out = sh("coq_makefile -f _CoqProject -o Makefile", cwd=COQ, timeout=120)
        if rc != 0:
            raise RuntimeError("coq_makefile failed: " + out)


def coq_make(targets, timeout=1500, jobs=None):
    """make -k the given .vo targets (paths relative to coq/).  Returns
    (per-target ok dict, log)."""
    jobs = jobs or NCPU
    with CoqLock():
        mkproject()
        tg = " ".join(targets)
        rc, log = sh("timeout %d make -k -j%d %s" % (timeout, jobs, tg), cwd=COQ, timeout=timeout + 30)
        ok = {}
        for t in targets:
            vo = os.path.join(COQ, t)
            v = vo[:-1]
            ok[t] = os.path.exists(vo) and os.path.getmtime(vo) >= os.path.getmtime(v)
        if rc != 0:
            # a dependency may have failed while an old .vo of the target survives
            rc2, out2 = sh("make -n %s" % tg, cwd=COQ, timeout=120)
            for t in targets:
                if re.search(r"\b%s\b" % re.escape(t[:-1]), out2):
                    ok[t] = False
    return ok, log


def read_assumptions(vfile):
    """Axioms printed by `Redirect "<file>.assum" Print Assumptions thm.` in a props file."""
    base = os.path.join(COQ, vfile[:-2] + ".assum.out")
    if not os.path.exists(base):
        return None
    txt = open(base).read()
    if "Closed under the global context" in txt:
        return []
    names = []
    for line in txt.split("\n"):
        if not line or line[0].isspace() or line.startswith("Axioms:"):
            continue
        m = re.match(r"^([A-Za-z_][\w.']*)", line)
        if m:
            names.append(m.group(1))
    return names


# ------------------------------------------------------- evaluating the model

def zlit(x):
    x = int(x)
    return str(x) if x >= 0 else "(%d)" % x


def zlist(xs):
    return "[" + "; ".join(zlit(x) for x in xs) + "]"


def zlistlist(xss):
    return "[" + "; ".join(zlist(xs) for xs in xss) + "]"


CASE_HDR = """Set Printing Width 10000000.
Set Printing Depth 10000000.
Local Open Scope Z_scope.
Fixpoint zl_eqb (a b : list Z) : bool :=
  match a, b with
  | nil, nil => true
  | x :: a', y :: b' => Z.eqb x y && zl_eqb a' b'
  | _, _ => false
  end.
"""


def coq_cases(tag, imports, cases, shard=400, timeout=600, keep=False):
    """cases: list of (gallina expression of type list Z, expected list of ints).
    Evaluates every expression with vm_compute inside Coq and returns
    {case index: model value (list of ints)} for the cases whose value differs
    from the expected one, plus the number evaluated.  One coqc per shard."""
    os.makedirs(os.path.join(COQ, "cases"), exist_ok=True)
    shards = [cases[i:i + shard] for i in range(0, len(cases), shard)]
    jobs = []
    for k, sh_cases in enumerate(shards):
        name = "cases/%s_%d_%d.v" % (tag, os.getpid(), k)
        lines = [imports, CASE_HDR, "Definition cases : list (Z * list Z * list Z) := ["]
        body = []
        for j, (expr, exp) in enumerate(sh_cases):
            body.append("  (%d, (%s), %s)" % (k * shard + j, expr, zlist(exp)))
        lines.append(";\n".join(body))
        lines.append("].")
        lines.append("Definition bad := filter (fun c => match c with (_, a, b) => negb (zl_eqb a b) end) cases.")
        lines.append("Eval vm_compute in (length cases, map (fun c => match c with (i, a, _) => (i, a) end) bad).")
        with open(os.path.join(COQ, name), "w") as f:
            f.write("\n".join(lines) + "\n")
        jobs.append(name)

    def run(name):
        rc, out = sh("timeout %d coqc -Q . Sop -w -notation-overridden %s" % (timeout, name), cwd=COQ, timeout=timeout + 30)
        return name, rc, out

    mism = {}
    n_eval = 0
    errors = []
    with ThreadPoolExecutor(max_workers=NCPU) as ex:
        for name, rc, out in ex.map(run, jobs):
            if rc != 0:
                errors.append("%s: rc=%d %s" % (name, rc, out[-2000:]))
            else:
                m = re.search(r"=\s*\((\d+)%nat,\s*(.*)\)\s*:\s*nat \*", out, re.S)
                if not m:
                    m = re.search(r"=\s*\((\d+),\s*(.*)\)\s*:\s*nat \*", out, re.S)
                if not m:
                    errors.append("%s: unparsable output %s" % (name, out[-2000:]))
                else:
                    n_eval += int(m.group(1))
                    for mm in re.finditer(r"\((-?\d+),\s*\[([^\]]*)\]\)|\((-?\d+),\s*nil\)", m.group(2)):
                        if mm.group(1) is not None:
                            vals = [int(x.replace("%Z", "").strip("() ")) for x in mm.group(2).split(";") if x.strip()]
                            mism[int(mm.group(1))] = vals
                        else:
                            mism[int(mm.group(3))] = []
            if not keep:
                for ext in (".v", ".vo", ".vok", ".vos", ".glob"):
                    try:
                        os.remove(os.path.join(COQ, name[:-2] + ext))
                    except FileNotFoundError:
                        pass
                try:
                    os.remove(os.path.join(COQ, "cases", "." + os.path.basename(name)[:-2] + ".aux"))
                except FileNotFoundError:
                    pass
    return mism, n_eval, errors


def coq_eval(tag, imports, exprs, timeout=600, shard=400):
    """Evaluate a list of (name, gallina expr of type list Z); returns list of int lists."""
    cases = [(e, [0x7FFFFFFF17]) for e in exprs]  # sentinel never equal -> all reported
    mism, n, errors = coq_cases(tag, imports, cases, timeout=timeout, shard=shard)
    if errors:
        raise RuntimeError("coq_eval failed: " + "\n".join(errors))
    return [mism.get(i) for i in range(len(exprs))]


# ------------------------------------------------------------- known findings

def load_known():
    p = os.path.join(VERIF, "known_findings.json")
    if not os.path.exists(p):
        return []
    return json.load(open(p))["findings"]


# ----------------------------------------------------------------------- Ctx

class Ctx:
    def __init__(self, prop, tier, seed):
        self.prop = prop
        self.tier = tier
        self.seed = seed
        self.rng = random.Random("%s/%d" % (prop, seed))
        self.t0 = time.time()
        self.obligations = []      # dict(name, kind, ok, detail)
        self.samples = []
        self.stats = {}
        self.axioms = set()
        self.trusted = []
        self.assumptions = []
        self.checker_cmds = []
        self.failing = []          # failing inputs of the PROPERTY on the implementation
        self.known_hits = {}       # finding id -> description
        self.evaluations = 0
        self.distinct = set()
        self.rule = ""
        self.exhaustive = None
        self.known = [k for k in load_known() if k["property"] == prop]
        self.notes = []

    # -- obligations
    def oblige(self, name, kind, ok, detail=""):
        self.obligations.append(dict(name=name, kind=kind, ok=bool(ok), detail=str(detail)[:4000]))
        if not ok:
            print("[%s] obligation FAILED: %s (%s) %s" % (self.prop, name, kind, str(detail)[:600]), flush=True)

    def build_props(self, extra_dirs=(), timeout=1500):
        """Build every theorem file under coq/props/<prop>/ (and findings/<prop>_*.v);
        each is one obligation, discharged iff its .vo is produced and
        Print Assumptions shows only allow-listed axioms."""
        bad = grep_gate()
        self.oblige("grep-gate (no Admitted/Axiom/Parameter/... under coq/)", "gate", not bad, "; ".join(bad))
        vs = sorted(glob.glob(os.path.join(COQ, "props", self.prop, "*.v")))
        vs += sorted(glob.glob(os.path.join(COQ, "findings", self.prop + "_*.v")))
        for d in extra_dirs:
            vs += sorted(glob.glob(os.path.join(COQ, d, "*.v")))
        targets = [os.path.relpath(v, COQ) + "o" for v in vs]
        if not targets:
            return {}
        cmd = "cd coq && make -k -j%d %s" % (NCPU, " ".join(targets))
        self.checker_cmds.append(cmd if len(cmd) < 600 else cmd[:600] + " ...")
        ok, log = coq_make(targets, timeout=timeout)
        res = {}
        for t in targets:
            v = t[:-1]
            detail = ""
            good = ok[t]
            if good:
                ax = read_assumptions(v)
                if ax is None:
                    good = False
                    detail = "no Print Assumptions output (Redirect ... .assum) for " + v
                else:
                    extra = [a for a in ax if a not in AXIOM_ALLOW]
                    self.axioms.update(ax)
                    if extra:
                        good = False
                        detail = "axioms outside the allow-list: %s" % extra
            else:
                m = re.search(r"(File \"\./%s\".*?)(?=\nmake|\nCOQC|\Z)" % re.escape(v), log, re.S)
                detail = (m.group(1) if m else log[-1500:])
            kind = "refutation" if v.startswith("findings/") else "theorem"
            self.oblige(v, kind, good, detail)
            res[v] = good
        return res

    def build_models(self, targets, timeout=900):
        """executable model instances needed by the correspondence (e.g. model/FooQ.vo)"""
        ok, log = coq_make(targets, timeout=timeout)
        for t in targets:
            self.oblige("executable model builds: " + t, "model-build", ok[t], "" if ok[t] else log[-1500:])
        return all(ok.values())

    def coqchk(self, timeout=1800):
        """thorough tier: re-check the property's compiled theorems with coqchk."""
        vs = sorted(glob.glob(os.path.join(COQ, "props", self.prop, "*.vo")))
        if not vs:
            return
        mods = []
        for v in vs:
            rel = os.path.relpath(v, COQ)[:-3]
            mods.append("Sop." + rel.replace("/", "."))
        cmd = "coqchk -silent -o -Q . Sop " + " ".join(mods)
        self.checker_cmds.append("cd coq && " + cmd)
        with CoqLock():
            rc, out = sh("timeout %d %s" % (timeout, cmd), cwd=COQ, timeout=timeout + 30)
        self.oblige("coqchk " + self.prop, "coqchk", rc == 0, out[-1500:])
        m = re.search(r"\* Axioms:(.*?)(\n\s*\* |\Z)", out, re.S)
        if m:
            self.stats["coqchk_axioms"] = [l.strip() for l in m.group(1).split("\n") if l.strip()][:40]

    # -- correspondence helpers
    def correspondence(self, name, tag, imports, cases, meta=None, shard=400):
        """cases: list of (expr, expected ints). meta: parallel list describing each case.
        Registers one obligation; returns dict idx -> model value for disagreements."""
        if not cases:
            self.oblige(name, "correspondence", True, "0 cases")
            return {}
        mism, n, errors = coq_cases(tag, imports, cases, shard=shard)
        self.evaluations += n
        ok = not mism and not errors and n == len(cases)
        detail = ""
        if errors:
            detail = "coq evaluation failed: " + errors[0]
        elif mism:
            i = sorted(mism)[0]
            detail = "%d/%d cases disagree; first: case %d %s model=%s impl=%s" % (
                len(mism), len(cases), i, (meta[i] if meta else cases[i][0][:300]), mism[i][:40], list(cases[i][1])[:40])
        self.oblige(name + " [%d cases]" % len(cases), "correspondence", ok, detail)
        self.stats.setdefault("correspondence_cases", 0)
        self.stats["correspondence_cases"] += len(cases)
        return mism if not errors else {-1: errors}

    def seen(self, key):
        """count a distinct non-trivial case (by canonical key)."""
        self.distinct.add(hashlib.md5(repr(key).encode()).hexdigest())

    def sample(self, obj, limit=12):
        if len(self.samples) < limit:
            self.samples.append(obj)

    # -- failing inputs of the property on the implementation
    def fail_input(self, kind, case, detail, classify=None):
        """Record an input on which the property fails on the implementation.
        classify(kind, case, detail) -> known-finding id or None."""
        fid = classify(kind, case, detail) if classify else None
        if fid is not None:
            for k in self.known:
                if k["id"] == fid and k.get("status") == "known":
                    if fid not in self.known_hits:
                        self.known_hits[fid] = dict(what=k["what"], example=dict(kind=kind, case=case, detail=str(detail)[:500]), count=0)
                    self.known_hits[fid]["count"] += 1
                    return fid
        if len(self.failing) < 50:
            self.failing.append(dict(kind=kind, case=case, detail=str(detail)[:2000]))
        return None

    # -- finish
    def write_replay(self, obj):
        os.makedirs(os.path.join(VERIF, "replays"), exist_ok=True)
        h = hashlib.md5(json.dumps(obj, sort_keys=True, default=str).encode()).hexdigest()[:10]
        p = os.path.join(VERIF, "replays", "%s_%s.json" % (self.prop, h))
        with open(p, "w") as f:
            json.dump(obj, f, indent=1, default=str)
        return p

    def finish(self):
        # a findings/*_refuted.v file is only a machine-checked WITNESS of a recorded defect: when it stops compiling (the defect was
        # repaired, or the definitions it names changed) the property is not thereby shown to fail; it is reported as a note.
        stale = [o for o in self.obligations if not o["ok"] and o["kind"] == "refutation"]
        for o in stale:
            o["ok"] = True
            self.notes.append("STALE-FINDING-WITNESS: %s no longer checks (%s)" % (o["name"], o["detail"][:200]))
            print("[%s] note: recorded refutation %s no longer checks (not a violation by itself)" % (self.prop, o["name"]), flush=True)
        broken = [o for o in self.obligations if not o["ok"]]
        lines = []
        rc = 0
        for fid, k in sorted(self.known_hits.items()):
            lines.append("KNOWN-FINDING: property=%s %s %s (seen on %d inputs this run)" % (self.prop, fid, k["what"], k["count"]))
        if self.failing:
            rc = 1
            first = self.failing[0]
            rp = self.write_replay(dict(property=self.prop, kind=first["kind"], case=first["case"], detail=first["detail"],
                                        broken_obligations=[o["name"] for o in broken], seed=self.seed, tier=self.tier,
                                        replay_cmd="./check %s --replay <this file>" % self.prop,
                                        other_failing=self.failing[1:10]))
            lines.append("VIOLATION property=%s replay=%s" % (self.prop, rp))
        elif broken:
            rc = 1
            rp = self.write_replay(dict(property=self.prop, kind="broken-obligation", case=None,
                                        broken_obligations=[dict(name=o["name"], kind=o["kind"], detail=o["detail"]) for o in broken],
                                        seed=self.seed, tier=self.tier,
                                        note="no concrete failing input of the property was found on the implementation; the named theorem / correspondence no longer checks"))
            lines.append("VIOLATION property=%s replay=%s no-failing-input-found" % (self.prop, rp))
        n_ob = len(self.obligations)
        n_ok = n_ob - len(broken)
        tb = ["Coq 8.16.1 kernel + vm_compute (no native_compute)",
              "axioms (Print Assumptions): " + (", ".join(sorted(self.axioms)) if self.axioms else "none (closed under the global context)")]
        tb += self.trusted
        ev = dict(
            property_id=self.prop, tier=self.tier, seed=self.seed, level="proof",
            coverage=dict(
                obligations=max(n_ob, 0), discharged=n_ok,
                checker_cmd=" ; ".join(self.checker_cmds) or "none",
                trusted_base=tb,
                obligation_list=[dict(name=o["name"], kind=o["kind"], ok=o["ok"]) for o in self.obligations],
                evaluations=self.evaluations,
                distinct_nontrivial=len(self.distinct),
                rule=self.rule,
                samples=self.samples or [dict(note="no samples recorded")],
                known_findings_replayed=sorted(self.known_hits),
                stats=self.stats,
                notes=self.notes,
            ),
            assumptions=self.assumptions,
            wall_s=round(time.time() - self.t0, 2),
            violations=(len(self.failing) if self.failing else (1 if broken else 0)),
        )
        if self.exhaustive is not None:
            ev["coverage"]["exhaustive"] = bool(self.exhaustive)
        os.makedirs(os.path.join(VERIF, "evidence"), exist_ok=True)
        with open(os.path.join(VERIF, "evidence", self.prop + ".json"), "w") as f:
            json.dump(ev, f, indent=1, default=str)
        for l in lines:
            print(l, flush=True)
        print("[%s] tier=%s seed=%d obligations=%d discharged=%d evaluations=%d distinct=%d known=%s wall=%.1fs -> %s" % (
            self.prop, self.tier, self.seed, n_ob, n_ok, self.evaluations, len(self.distinct),
            (sorted(self.known_hits) if len(self.known_hits) <= 8 else "%d known findings" % len(self.known_hits)), time.time() - self.t0, "FAIL" if rc else "ok"), flush=True)
        return rc
