#!/usr/bin/env python3
"""Regenerate the machine-derived tables of DESIGN.md (between the markers <!-- AS-BUILT:BEGIN --> and <!-- AS-BUILT:END -->) from what is actually in
/verif: coq/props/*, evidence/*.json, seeded/*/meta.json, known_findings.json."""
import glob
import json
import os
import re

VERIF = os.path.dirname(os.path.dirname(os.path.dirname(os.path.abspath(__file__))))


def short(s, n):
    s = " ".join(str(s).split())
    return s if len(s) <= n else s[:n - 1] + "…"


def main():
    props = [json.loads(l) for l in open(os.path.join(VERIF, "properties.jsonl"))]
    known = json.load(open(os.path.join(VERIF, "known_findings.json")))
    out = []
    out.append("### 13.1 Theorems, axioms and ties per property (from `coq/props/`, `evidence/*.json`)\n")
    out.append("| id | theorem files (`coq/props/<id>/`) | axioms reported by `Print Assumptions` | translator / correspondence obligations of the quick tier |")
    out.append("|---|---|---|---|")
    for p in props:
        i = p["id"]
        ths = sorted(os.path.basename(f)[:-2] for f in glob.glob(os.path.join(VERIF, "coq", "props", i, "*.v")))
        ev = os.path.join(VERIF, "evidence", i + ".json")
        ax, ties = "", ""
        if os.path.exists(ev):
            e = json.load(open(ev))
            tb = e["coverage"].get("trusted_base", [])
            a = [t for t in tb if t.startswith("axioms")]
            ax = a[0].split(":", 1)[1].strip() if a else "none (closed under the global context)"
            ax = ax.replace("ClassicalDedekindReals.", "").replace("FunctionalExtensionality.", "")
            ties = "; ".join(short(o["name"], 110) for o in e["coverage"].get("obligation_list", []) if o["kind"] in ("correspondence", "translator"))
        out.append("| %s | %s | %s | %s |" % (i, ", ".join("`%s`" % t for t in ths), ax or "—", ties or "—"))
    out.append("")
    out.append("### 13.2 Seeded changes and which check catches them (from `seeded/*/meta.json`)\n")
    out.append("Every change below was produced by a sub-agent that saw only the property text and a scratch worktree, was confirmed there (its demonstration "
               "passes on the clean tree and fails on the patched one; the pinned suite is unchanged), then applied to `/repo`, checked with `./check <id> --tier quick` "
               "and reverted (`tools/seed/try_seed.sh`).  `result` is the summary line of that run.\n")
    out.append("| seed | what it changes | needs | caught by |")
    out.append("|---|---|---|---|")
    hist = ""
    hp = os.path.join(VERIF, "seeded", "history.txt")
    if os.path.exists(hp):
        hist = open(hp).read()
    nseed = ndet = 0
    for d in sorted(glob.glob(os.path.join(VERIF, "seeded", "*", "meta.json"))):
        m = json.load(open(d))
        name = os.path.basename(os.path.dirname(d))
        res = m.get("check_result", "")
        viol = re.search(r"VIOLATION property=(\S+)", res)
        nofail = "no-failing-input-found" in res
        tier = re.search(r"obligations=(\d+) discharged=(\d+)", res)
        how = "MISSED"
        if viol:
            how = "`./check %s`: VIOLATION" % viol.group(1)
            if tier and tier.group(1) != tier.group(2):
                how += " (a theorem / correspondence obligation broke%s)" % ("; no failing input found" if nofail else " and a failing input was found")
            else:
                how += " (failing input found by the oracle on the real API)"
        nseed += 1
        ndet += bool(m.get("detected"))
        out.append("| `%s` | %s | %s | %s |" % (name, short(m.get("title", m.get("name", "")), 150), short(m.get("needs", m.get("clause", "")), 160), how))
    out.append("")
    out.append("%d seeded changes, %d detected by the committed checks.  Changes that were missed when first tried, and what was added to catch them "
               "(`seeded/history.txt` and the commit log):\n" % (nseed, ndet))
    for l in hist.strip().splitlines():
        out.append("* " + l)
    for d in sorted(glob.glob(os.path.join(VERIF, "seeded", "*", "meta.json"))):
        m = json.load(open(d))
        if m.get("history"):
            out.append("* `%s`: %s" % (os.path.basename(os.path.dirname(d)), short(m["history"], 500)))
    import subprocess
    for l in subprocess.run(["git", "-C", VERIF, "log", "--format=%s"], capture_output=True, text=True).stdout.splitlines():
        if "missed" in l.lower():
            out.append("* commit: " + l)
    out.append("")
    out.append("### 13.3 Findings (from `known_findings.json`)\n")
    out.append("**Repaired in `/repo`** (one `fix:` commit each; the witness is replayed on every run, so the violation is reported again if it returns):\n")
    for l in known["fixed_lines"]:
        out.append("* `%s`" % short(l, 400))
    out.append("")
    out.append("**Known, not repaired** (printed as `KNOWN-FINDING` lines, exit 0; any other violation of the same property is still reported):\n")
    seen = 0
    halls = [f for f in known["findings"] if f["status"] == "known" and f["id"].startswith("C14-hall")]
    for f in known["findings"]:
        if f["status"] != "known" or f["id"].startswith("C14-hall"):
            continue
        out.append("* `%s` — %s" % (f["id"], short(f["what"], 600)))
        seen += 1
    if halls:
        out.append("* `C14-hall<N>` × %d — selection-rule table entries of `soprano/data/xrd_sel_rules.json` that disagree with the symmetry operations of that Hall setting "
                   "(each identified by the SHA-1 of its exact mismatch set inside the box; refuted in Coq by `findings/C14_rule_table_refuted.v`): Hall numbers %s" %
                   (len(halls), ", ".join(sorted((f["id"].replace("C14-hall", "") for f in halls), key=lambda x: int(re.sub(r"\D", "", x) or 0))[:200])))
    txt = "\n".join(out) + "\n"
    p = os.path.join(VERIF, "DESIGN.md")
    s = open(p).read()
    b, e = "<!-- AS-BUILT:BEGIN -->", "<!-- AS-BUILT:END -->"
    if b in s and e in s:
        s = s[:s.index(b) + len(b)] + "\n" + txt + s[s.index(e):]
        open(p, "w").write(s)
        print("DESIGN.md tables regenerated (%d seeds)" % nseed)
    else:
        print(txt)


if __name__ == "__main__":
    main()
